import BA.Lemmas.Evm
namespace BA.Evm

theorem mask_getLsbD (t i : Nat) (ht : t < 256) (hi : i < 256) :
    (wMax >>> (256 - t)).getLsbD i = decide (i < t) := by
  simp [wMax, BitVec.getLsbD_ushiftRight]
  by_cases h : i < t <;> simp [h] <;> omega

theorem signextend_bits_impl (a b : W) (ha : a.toNat < 32) (i : Nat) (hi : i < 256) :
    (signextendImpl a b).getLsbD i =
      if i < 8 * a.toNat + 7 then b.getLsbD i else b.getLsbD (8 * a.toNat + 7) := by
  unfold signextendImpl
  have hlt : a < 32#256 := by simp [BitVec.lt_def]; exact ha
  have hmod : a.toNat % 2 ^ 32 = a.toNat := Nat.mod_eq_of_lt (by omega)
  simp only [hlt, if_true, hmod]
  have ht : 8 * a.toNat + 7 < 256 := by omega
  generalize 8 * a.toNat + 7 = t at ht
  cases hb : b.getLsbD t
  · simp only [Bool.false_eq_true, if_false, BitVec.getLsbD_and, mask_getLsbD t i ht hi]
    by_cases h : i < t
    · simp [h]
    · simp only [h, decide_false, Bool.and_false, if_false]
      sorry
  · simp only [if_true, BitVec.getLsbD_or, BitVec.getLsbD_not, mask_getLsbD t i ht hi, hi, decide_true, Bool.true_and]
    by_cases h : i < t <;> simp [h]
end BA.Evm
