import BA.Lemmas.Evm
namespace BA.Evm

theorem wpow_mul (x : W) (a b : Nat) : (x ^ a) ^ b = x ^ (a * b) := by
  induction b with
  | zero => simp [BitVec.pow_zero]
  | succ b ih => rw [BitVec.pow_succ, ih, Nat.mul_succ, BitVec.pow_add]

theorem wpow_sq (x : W) (k : Nat) : (x * x) ^ k = x ^ (2 * k) := by
  have : x * x = x ^ 2 := by
    rw [BitVec.pow_succ, BitVec.pow_succ, BitVec.pow_zero, BitVec.one_mul]
  rw [this, wpow_mul]

theorem toNat_wpow (x : W) (n : Nat) : (x ^ n).toNat = x.toNat ^ n % 2 ^ 256 := by
  induction n with
  | zero => simp [BitVec.pow_zero]
  | succ n ih =>
    have hp : x.toNat ^ (n + 1) = x.toNat ^ n * x.toNat := Nat.pow_succ _ _
    rw [BitVec.pow_succ, BitVec.toNat_mul, ih, hp, Nat.mul_mod (x.toNat ^ n % 2 ^ 256) x.toNat,
      Nat.mod_mod, ← Nat.mul_mod]

theorem expInner_spec : ∀ (n word : Nat) (base v : W),
    expInner n word base v = (base ^ (2 ^ n), v * base ^ (word % 2 ^ n)) := by
  intro n
  induction n with
  | zero =>
    intro word base v
    simp [expInner, Nat.mod_one, BitVec.pow_zero, BitVec.pow_one]
  | succ n ih =>
    intro word base v
    unfold expInner
    simp only []
    rw [ih]
    have h2 : 2 ^ (n + 1) = 2 * 2 ^ n := by rw [Nat.pow_succ, Nat.mul_comm]
    have hw : word % 2 ^ (n + 1) = word % 2 + 2 * (word / 2 % 2 ^ n) := by
      rw [h2]
      have := Nat.mod_mul (x := word) (a := 2) (b := 2 ^ n)
      omega
    rw [wpow_sq, wpow_sq, ← h2, hw, BitVec.pow_add]
    congr 1
    rw [← BitVec.mul_assoc]
    congr 1
    rcases Nat.mod_two_eq_zero_or_one word with h | h
    · simp [h, BitVec.pow_zero]
    · simp [h, BitVec.pow_one]

end BA.Evm
