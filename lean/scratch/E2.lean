import BA.Lemmas.Evm
namespace BA.Evm
theorem wpow_mul (x : W) (a b : Nat) : (x ^ a) ^ b = x ^ (a * b) := by
  induction b with
  | zero => simp [BitVec.pow_zero]
  | succ b ih => rw [BitVec.pow_succ, ih, Nat.mul_succ, BitVec.pow_add]

theorem wpow_sq (x : W) (k : Nat) : (x * x) ^ k = x ^ (2 * k) := by
  have : x * x = x ^ 2 := by
    rw [BitVec.pow_succ, BitVec.pow_succ, BitVec.pow_zero, BitVec.one_mul]
  rw [this, wpow_mul]

theorem toNat_wpow (x : W) (n : Nat) : (x ^ n).toNat = x.toNat ^ n % 2 ^ 256 := by
  induction n with
  | zero => simp [BitVec.pow_zero]
  | succ n ih =>
    have hp : x.toNat ^ (n + 1) = x.toNat ^ n * x.toNat := Nat.pow_succ _ _
    rw [BitVec.pow_succ, BitVec.toNat_mul, ih, hp, Nat.mul_mod (x.toNat ^ n % 2 ^ 256) x.toNat,
      Nat.mod_mod, ← Nat.mul_mod]

theorem expInner_spec : ∀ (n word : Nat) (base v : W),
    expInner n word base v = (base ^ (2 ^ n), v * base ^ (word % 2 ^ n)) := by
  intro n
  induction n with
  | zero =>
    intro word base v
    simp [expInner, Nat.mod_one, BitVec.pow_zero, BitVec.pow_one]
  | succ n ih =>
    intro word base v
    unfold expInner
    simp only []
    rw [ih]
    have h2 : 2 ^ (n + 1) = 2 * 2 ^ n := by rw [Nat.pow_succ, Nat.mul_comm]
    have hw : word % 2 ^ (n + 1) = word % 2 + 2 * (word / 2 % 2 ^ n) := by
      rw [h2]
      have := Nat.mod_mul (x := word) (a := 2) (b := 2 ^ n)
      omega
    rw [wpow_sq, wpow_sq, ← h2, hw, BitVec.pow_add]
    congr 1
    rw [← BitVec.mul_assoc]
    congr 1
    rcases Nat.mod_two_eq_zero_or_one word with h | h
    · simp [h, BitVec.pow_zero]
    · simp [h, BitVec.pow_one]


/-- value of a little-endian list of 64-bit limbs -/
def limbsVal : List Nat → Nat
  | [] => 0
  | w :: r => w + 2 ^ 64 * limbsVal r

theorem expOuter_spec : ∀ (limbs : List Nat) (rem : Nat) (base v : W),
    (∀ w ∈ limbs, w < 2 ^ 64) → limbsVal limbs < 2 ^ rem →
    expOuter limbs rem base v = v * base ^ (limbsVal limbs) := by
  intro limbs
  induction limbs with
  | nil => intro rem base v _ _; simp [expOuter, limbsVal, BitVec.pow_zero]
  | cons w rest ih =>
    intro rem base v hw hP
    unfold expOuter
    simp only [expInner_spec]
    have hw0 : w < 2 ^ 64 := hw w (by simp)
    have hrest : ∀ x ∈ rest, x < 2 ^ 64 := fun x hx => hw x (by simp [hx])
    simp only [limbsVal] at hP ⊢
    by_cases hr : 64 ≤ rem
    · have hmin : min 64 rem = 64 := by omega
      rw [hmin, Nat.mod_eq_of_lt hw0]
      have hP' : limbsVal rest < 2 ^ (rem - 64) := by
        have e : 2 ^ rem = 2 ^ 64 * 2 ^ (rem - 64) := by rw [← Nat.pow_add]; congr 1; omega
        rw [e] at hP
        false_or_by_contra
        have hge : 2 ^ (rem - 64) ≤ limbsVal rest := by omega
        have := Nat.mul_le_mul_left (2 ^ 64) hge
        omega
      rw [ih (rem - 64) _ _ hrest hP', wpow_mul, BitVec.pow_add, BitVec.mul_assoc]
    · have hmin : min 64 rem = rem := by omega
      have hlt : 2 ^ rem < 2 ^ 64 := Nat.pow_lt_pow_right (by omega) (by omega)
      have hz : limbsVal rest = 0 := by
        false_or_by_contra
        have : 1 ≤ limbsVal rest := by omega
        have := Nat.mul_le_mul_left (2 ^ 64) this
        omega
      rw [hmin]
      have hwr : w < 2 ^ rem := by omega
      rw [Nat.mod_eq_of_lt hwr]
      have h0 : limbsVal rest < 2 ^ (rem - 64) := by
        rw [hz]; exact Nat.two_pow_pos _
      rw [ih (rem - 64) _ _ hrest h0, hz]
      simp [BitVec.pow_zero]

theorem toNat_eq_limbs (x : W) :
    x.toNat = limbsVal [limb x 0, limb x 1, limb x 2, limb x 3] := by
  have hx := x.isLt
  simp only [limbsVal, limb, Nat.shiftRight_eq_div_pow]
  omega

theorem powMod_eq (b m : Nat) : ∀ e, powMod b e m = b ^ e % m := by
  intro e
  induction e using Nat.strongRecOn with
  | _ e ih =>
    unfold powMod
    by_cases h0 : e = 0
    · simp [h0]
    · simp only [h0, dite_false]
      have hlt : e / 2 < e := by omega
      rw [ih (e / 2) hlt]
      have hsq : b ^ (e / 2) % m * (b ^ (e / 2) % m) % m = b ^ (2 * (e / 2)) % m := by
        rw [← Nat.mul_mod, ← Nat.pow_add]; congr 2; omega
      rw [hsq]
      by_cases h1 : e % 2 = 1
      · simp only [h1, if_true]
        have he : e = 2 * (e / 2) + 1 := by omega
        rw [Nat.mod_mul_mod]
        conv => rhs; rw [he, Nat.pow_succ]
      · simp only [h1, if_false]
        have he : 2 * (e / 2) = e := by omega
        rw [he]

end BA.Evm
