import BA.Lemmas.Evm
namespace BA.Evm
theorem mask_getLsbD (t i : Nat) (ht : t < 256) (hi : i < 256) :
    (wMax >>> (256 - t)).getLsbD i = decide (i < t) := by
  simp only [wMax, BitVec.getLsbD_ushiftRight, BitVec.getLsbD_allOnes]
  by_cases h : i < t
  · rw [decide_eq_true h, decide_eq_true (by omega)]
  · rw [decide_eq_false h, decide_eq_false (by omega)]

/-- spec side, bit by bit -/
theorem signextend_bits_spec (a b : W) (ha : a.toNat < 31) (i : Nat) (hi : i < 256) :
    (signextendSpec a b).getLsbD i =
      if i < 8 * a.toNat + 7 then b.getLsbD i else b.getLsbD (8 * a.toNat + 7) := by
  unfold signextendSpec
  have h31 : ¬ 31 ≤ a.toNat := by omega
  simp only [h31, if_false]
  have hn : 8 * (a.toNat + 1) = (8 * a.toNat + 7) + 1 := by omega
  rw [hn]
  have ht : 8 * a.toNat + 7 < 255 := by omega
  generalize 8 * a.toNat + 7 = t at ht
  simp only [Nat.add_sub_cancel]
  have hx : b.toNat % 2 ^ (t + 1) < 2 ^ (t + 1) := Nat.mod_lt _ (Nat.two_pow_pos _)
  have hbt : b.getLsbD t = (b.toNat % 2 ^ (t + 1)).testBit t := by
    simp [BitVec.getLsbD, Nat.testBit_mod_two_pow]
  by_cases hlt : b.toNat % 2 ^ (t + 1) < 2 ^ t
  · simp only [hlt, if_true]
    have hbf : b.getLsbD t = false := by rw [hbt]; exact Nat.testBit_lt_two_pow hlt
    sorry
  · sorry
end BA.Evm
