import BA.Lemmas.Evm
namespace BA.Evm

theorem getLsbD_ofN (n i : Nat) : (ofN n).getLsbD i = (decide (i < 256) && n.testBit i) := by
  simp only [ofN, BitVec.getLsbD_ofNat, Nat.testBit_mod_two_pow]
  cases decide (i < 256) <;> simp

/-- spec side, bit by bit -/
theorem signextend_bits_spec (a b : W) (ha : a.toNat < 31) (i : Nat) (hi : i < 256) :
    (signextendSpec a b).getLsbD i =
      if i < 8 * a.toNat + 7 then b.getLsbD i else b.getLsbD (8 * a.toNat + 7) := by
  unfold signextendSpec
  have h31 : ¬ 31 ≤ a.toNat := by omega
  simp only [h31, if_false]
  have hn : 8 * (a.toNat + 1) = (8 * a.toNat + 7) + 1 := by omega
  rw [hn]
  have ht : 8 * a.toNat + 7 < 255 := by omega
  generalize 8 * a.toNat + 7 = t at ht
  simp only [Nat.add_sub_cancel]
  have hx : b.toNat % 2 ^ (t + 1) < 2 ^ (t + 1) := Nat.mod_lt _ (Nat.two_pow_pos _)
  have hbt : b.getLsbD t = (b.toNat % 2 ^ (t + 1)).testBit t := by
    simp [BitVec.getLsbD, Nat.testBit_mod_two_pow]
  have hbi : ∀ j, (b.toNat % 2 ^ (t + 1)).testBit j = (decide (j < t + 1) && b.getLsbD j) := by
    intro j; simp [BitVec.getLsbD, Nat.testBit_mod_two_pow]
  by_cases hlt : b.toNat % 2 ^ (t + 1) < 2 ^ t
  · simp only [hlt, if_true]
    have hbf : b.getLsbD t = false := by rw [hbt]; exact Nat.testBit_lt_two_pow hlt
    rw [getLsbD_ofN, hbi, hbf]
    by_cases h1 : i < t
    · have : i < t + 1 := by omega
      simp [h1, hi, this]
    · by_cases h2 : i = t
      · subst h2; simp [hbf]
      · have : ¬ i < t + 1 := by omega
        simp [h1, this]
  · simp only [hlt, if_false]
    have hge : 2 ^ t ≤ b.toNat % 2 ^ (t + 1) := by omega
    have hbtt : b.getLsbD t = true := by
      rw [hbt]; exact Nat.testBit_of_two_pow_le_and_two_pow_add_one_gt hge hx
    -- the encoded number is 2^(t+1) · (2^(255-t) − 1) + x
    have hPQ : 2 ^ (t + 1) * 2 ^ (255 - t) = 2 ^ 256 := by
      rw [← Nat.pow_add]; congr 1; omega
    have hQ : 1 ≤ 2 ^ (255 - t) := Nat.one_le_two_pow
    have hmul : 2 ^ (t + 1) * (2 ^ (255 - t) - 1) = 2 ^ 256 - 2 ^ (t + 1) := by
      rw [Nat.mul_sub_one, hPQ]
    have hP : 2 ^ (t + 1) ≤ 2 ^ 255 := Nat.pow_le_pow_right (by omega) (by omega)
    have hcast : ((2 : Int) ^ (t + 1)) = ((2 ^ (t + 1) : Nat) : Int) := by
      rw [Int.natCast_pow]; rfl
    have henc : ofI ((b.toNat % 2 ^ (t + 1) : Nat) - 2 ^ (t + 1))
        = ofN (2 ^ (t + 1) * (2 ^ (255 - t) - 1) + b.toNat % 2 ^ (t + 1)) := by
      apply BitVec.eq_of_toNat_eq
      rw [hmul, hcast]
      generalize 2 ^ (t + 1) = P at hx hP hge
      generalize b.toNat % P = x at hx hge
      rw [toNat_ofI_of_neg (by omega) (by omega), toNat_ofN_of_lt (by omega)]
      omega
    rw [henc, getLsbD_ofN, Nat.testBit_two_pow_mul_add _ hx, hbi]
    by_cases h1 : i < t
    · have : i < t + 1 := by omega
      simp [h1, hi, this]
    · by_cases h2 : i = t
      · subst h2; simp [hi]
      · have h3 : ¬ i < t + 1 := by omega
        have h4 : i - (t + 1) < 255 - t := by omega
        simp [h1, h3, hi, hbtt, Nat.testBit_two_pow_sub_one, h4]
end BA.Evm
