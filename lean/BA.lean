-- Root of the `BA` library: models, generated tables, lemmas, property theorems.
import BA.Prelude
import BA.Generated.Constants
import BA.Model.Paych
import BA.Model.Market
