import BA.Model.Multisig
import Driver.Util
/-
  Line protocol of the multisig model (several wallets, keyed by a small index `w`):

    init w self signers threshold duration start value
    msg  w commit epoch ACT          -- one root activation of wallet w (commit = 0: run, answer, discard)

  ACT  := caller value CALL sendOk nChildren ACT*
  CALL := P to value method params | A id hashOk | C id hashOk | AS a inc | RS a dec | SW from to
        | TH n | LB start duration amount | RCV | BAD

  answer: `ok txId applied codeOk sends | projection`  or  `err class sends | projection`
-/
namespace Driver.Multisig
open BA BA.Multisig Driver

abbrev Wallets := List (Nat × State)

def b01 (b : Bool) : String := if b then "1" else "0"

def dots (xs : List String) : String := if xs.isEmpty then "-" else joinWith "." xs

def showTx (p : Nat × Tx) : String :=
  s!"{p.1}:{p.2.to}:{p.2.value}:{p.2.method}:{dots (p.2.params.map toString)}:{dots (p.2.approved.map toString)}"

def showState (s : State) : String :=
  let txs := (sortBy (fun (p : Nat × Tx) => p.1) s.pending).map showTx
  s!"{showList (s.signers.map toString)} {s.threshold} {s.nextId} {s.start} {s.duration} {s.initial} {s.balance} {showList txs}"

def showSends (evs : List Event) : String :=
  showList (evs.map fun e => s!"{e.to}:{e.value}:{e.method}")

def parseCall : List String → Option (Call × List String)
  | "P" :: to :: value :: method :: params :: rest => do
    pure (.propose (← parseNat? to) (← parseInt? value) (← parseNat? method)
      (← parseList? parseInt? params), rest)
  | "A" :: id :: h :: rest => do pure (.approve (← parseNat? id) (← parseBool? h), rest)
  | "C" :: id :: h :: rest => do pure (.cancel (← parseNat? id) (← parseBool? h), rest)
  | "AS" :: a :: b :: rest => do pure (.addSigner (← parseNat? a) (← parseBool? b), rest)
  | "RS" :: a :: b :: rest => do pure (.removeSigner (← parseNat? a) (← parseBool? b), rest)
  | "SW" :: a :: b :: rest => do pure (.swapSigner (← parseNat? a) (← parseNat? b), rest)
  | "TH" :: n :: rest => do pure (.changeThreshold (← parseNat? n), rest)
  | "LB" :: a :: b :: c :: rest => do
    pure (.lockBalance (← parseInt? a) (← parseInt? b) (← parseInt? c), rest)
  | "RCV" :: rest => some (.receive, rest)
  | "BAD" :: rest => some (.bad, rest)
  | _ => none

mutual
  partial def parseAct : List String → Option (Act × List String)
    | caller :: value :: rest => do
      let caller ← parseNat? caller
      let value ← parseInt? value
      let (call, rest) ← parseCall rest
      match rest with
      | ok :: n :: rest =>
        let ok ← parseBool? ok
        let n ← parseNat? n
        let (cs, rest) ← parseActs n rest
        pure (.node { caller := caller, value := value, call := call } ok cs, rest)
      | _ => none
    | _ => none
  partial def parseActs : Nat → List String → Option (List Act × List String)
    | 0, rest => some ([], rest)
    | n + 1, rest => do
      let (a, rest) ← parseAct rest
      let (as, rest) ← parseActs n rest
      pure (a :: as, rest)
end

def setW (w : Nat) (s : State) (ws : Wallets) : Wallets := aset w s ws

/-- nesting available to a root activation (the harness never nests deeper than a handful) -/
def fuel : Nat := 64

def handle (ws : Wallets) (line : String) : Wallets × String :=
  match words line with
  | ["init", w, self, signers, threshold, duration, start, value] =>
    match parseNat? w, parseNat? self, parseList? parseNat? signers, parseNat? threshold,
          parseInt? duration, parseInt? start, parseInt? value with
    | some w, some self, some signers, some threshold, some duration, some start, some value =>
      match construct self signers threshold duration start value with
      | .ok s => (setW w s ws, s!"ok 0 0 1 - | {showState s}")
      | .error e => (ws, s!"err {e} - | -")
    | _, _, _, _, _, _, _ => (ws, "bad-op")
  | "msg" :: w :: commit :: epoch :: rest =>
    match parseNat? w, parseBool? commit, parseInt? epoch, parseAct rest with
    | some w, some commit, some epoch, some (act, []) =>
      match alookup w ws with
      | none => (ws, "bad-op no-wallet")
      | some s =>
        let r := exec fuel epoch s act
        match r.out with
        | .ok (s', ret) =>
          let ws' := if commit then setW w s' ws else ws
          (ws', s!"ok {ret.txId} {b01 ret.applied} {b01 ret.codeOk} {showSends r.trace} | {showState s'}")
        | .error e => (ws, s!"err {e} {showSends r.trace} | {showState s}")
    | _, _, _, _ => (ws, "bad-op")
  | _ => (ws, "bad-op")

end Driver.Multisig
