import BA.Model.Verifreg
import BA.Model.SectorExt
import Driver.Util
namespace Driver.Verifreg
open BA BA.Verifreg BA.SectorExt Driver

/-- state of the "verifreg" driver: the registry + token system, and the miner-side sector
    records used by the C10 extension model -/
structure DState where
  sys : Sys
  sectors : List (Nat × BA.SectorExt.Sector) := []

def showInts (xs : List Int) : String := showList (xs.map toString)
def showNats (xs : List Nat) : String := showList (xs.map toString)

def showRet (r : Ret) : String :=
  s!"codes={showNats r.codes} ids={showNats (sortBy id r.ids)} amounts={showInts r.amounts}"

def showSys (s : Sys) : String :=
  let bals := (sortBy (fun (p : Nat × Int) => p.1) (s.dc.balances.filter (fun p => p.2 ≠ 0))).map
    (fun p => s!"{p.1}:{p.2}")
  let allows := (sortBy (fun (p : Nat × List (Nat × Int)) => p.1) s.dc.allowances).flatMap
    (fun p => ((sortBy (fun (q : Nat × Int) => q.1) (p.2.filter (fun q => q.2 ≠ 0))).map
      (fun q => s!"{p.1}:{q.1}:{q.2}")))
  let vers := (sortBy (fun (p : Nat × Int) => p.1) s.vr.verifiers).map (fun p => s!"{p.1}:{p.2}")
  let allocs := (sortBy (fun (p : Nat × Allocation) => p.1) s.vr.allocs).map (fun p =>
    s!"{p.1}:{p.2.client}:{p.2.provider}:{p.2.data}:{p.2.size}:{p.2.termMin}:{p.2.termMax}:{p.2.expiration}")
  let claims := (sortBy (fun (p : Nat × Claim) => p.1) s.vr.claims).map (fun p =>
    s!"{p.1}:{p.2.provider}:{p.2.client}:{p.2.data}:{p.2.size}:{p.2.termMin}:{p.2.termMax}:{p.2.termStart}:{p.2.sector}")
  s!"supply={s.dc.supply} bal={showList bals} allow={showList allows} ver={showList vers} next={s.vr.nextAllocId} allocs={showList allocs} claims={showList claims}"

def fields (s : String) : List String := s.splitOn ":"

def parseKind? (s : String) : Option Kind :=
  if s = "a" then some .account else if s = "m" then some .miner else if s = "o" then some .other else none

def parseAllocReq? (s : String) : Option AllocReq :=
  match fields s with
  | [p, d, sz, tmin, tmax, ex] => do
    pure { provider := ← parseNat? p, data := ← parseNat? d, size := ← parseInt? sz,
           termMin := ← parseInt? tmin, termMax := ← parseInt? tmax, expiration := ← parseInt? ex }
  | _ => none

def parseExtReq? (s : String) : Option ExtReq :=
  match fields s with
  | [p, c, t] => do pure { provider := ← parseNat? p, claim := ← parseNat? c, termMax := ← parseInt? t }
  | _ => none

def parseTermReq? (s : String) : Option TermReq :=
  match fields s with
  | [p, c, t] => do pure { provider := ← parseNat? p, claim := ← parseNat? c, termMax := ← parseInt? t }
  | _ => none

def parseClaimReq? (s : String) : Option ClaimReq :=
  match fields s with
  | [cl, id, d, sz] => do
    pure { client := ← parseNat? cl, allocId := ← parseNat? id, data := ← parseNat? d, size := ← parseInt? sz }
  | _ => none

/-- "sector/expiry/claims" -/
def parseSectorReq? (s : String) : Option SectorReq :=
  match s.splitOn "/" with
  | [sec, ex, cl] => do
    pure { sector := ← parseNat? sec, expiry := ← parseInt? ex, claims := ← parseList? parseClaimReq? cl }
  | _ => none

def parseSectors? (s : String) : Option (List SectorReq) :=
  if s = "-" then some [] else (s.splitOn ";").mapM parseSectorReq?

def parseData? (flag allocs exts : String) : Option (Option Reqs) :=
  if flag = "0" then some none
  else do
    let a ← parseList? parseAllocReq? allocs
    let e ← parseList? parseExtReq? exts
    pure (some { allocs := a, exts := e })

def parseOp (ws : List String) : Option Op :=
  match ws with
  | ["addverifier", caller, addr, allowance] => do
    pure (.addVerifier (← parseNat? caller) (← parseNat? addr) (← parseInt? allowance))
  | ["removeverifier", caller, addr] => do pure (.removeVerifier (← parseNat? caller) (← parseNat? addr))
  | ["addclient", epoch, caller, client, allowance] => do
    pure (.addClient (← parseInt? epoch) (← parseNat? caller) (← parseNat? client) (← parseInt? allowance))
  | ["removedatacap", caller, client, v1, v2, s1, s2, amount] => do
    pure (.removeClientDataCap (← parseNat? caller) (← parseNat? client) (← parseNat? v1) (← parseNat? v2)
      (← parseBool? s1) (← parseBool? s2) (← parseInt? amount))
  | ["transfer", epoch, caller, to, amount, flag, allocs, exts] => do
    pure (.transfer (← parseInt? epoch) (← parseNat? caller) (← parseNat? to) (← parseInt? amount)
      (← parseData? flag allocs exts))
  | ["transferfrom", epoch, caller, from_, to, amount, flag, allocs, exts] => do
    pure (.transferFrom (← parseInt? epoch) (← parseNat? caller) (← parseNat? from_) (← parseNat? to)
      (← parseInt? amount) (← parseData? flag allocs exts))
  | ["claim", epoch, caller, aon, sectors] => do
    pure (.claim (← parseInt? epoch) (← parseNat? caller) (← parseSectors? sectors) (← parseBool? aon))
  | ["rmallocs", epoch, client, ids] => do
    pure (.removeExpiredAllocs (← parseInt? epoch) (← parseNat? client) (← parseList? parseNat? ids))
  | ["rmclaims", epoch, provider, ids] => do
    pure (.removeExpiredClaims (← parseInt? epoch) (← parseNat? provider) (← parseList? parseNat? ids))
  | ["extendterms", caller, terms] => do
    pure (.extendClaimTerms (← parseNat? caller) (← parseList? parseTermReq? terms))
  | ["mint", epoch, caller, to, amount] => do
    pure (.mint (← parseInt? epoch) (← parseNat? caller) (← parseNat? to) (← parseInt? amount))
  | ["destroy", caller, owner, amount] => do
    pure (.destroy (← parseNat? caller) (← parseNat? owner) (← parseInt? amount))
  | ["burn", caller, amount] => do pure (.burn (← parseNat? caller) (← parseInt? amount))
  | ["burnfrom", caller, owner, amount] => do
    pure (.burnFrom (← parseNat? caller) (← parseNat? owner) (← parseInt? amount))
  | ["incallow", caller, operator, d] => do
    pure (.increaseAllowance (← parseNat? caller) (← parseNat? operator) (← parseInt? d))
  | ["decallow", caller, operator, d] => do
    pure (.decreaseAllowance (← parseNat? caller) (← parseNat? operator) (← parseInt? d))
  | ["revoke", caller, operator] => do pure (.revokeAllowance (← parseNat? caller) (← parseNat? operator))
  | _ => none

/-! miner-side lines (C10): `sector` registers a sector record, `extend` runs the model of
    `validate_extension_declarations` + `extend_sector_committment` against the claims table. -/

def showSectors (xs : List (Nat × Sector)) : String :=
  showList ((sortBy (fun (p : Nat × Sector) => p.1) xs).map (fun p =>
    s!"{p.1}:{p.2.activation}:{p.2.expiration}:{p.2.powerBase}:{p.2.verifiedWeight}"))

def parseSectorClaim? (s : String) : Option SectorClaim :=
  match s.splitOn "/" with
  | [sec, m, d] => do
    pure { sector := ← parseNat? sec, maintain := ← parseList? parseNat? m, drop := ← parseList? parseNat? d }
  | _ => none

/-- "newExp|plain sectors|sector claims (;-separated)" -/
def parseDecl? (s : String) : Option Decl :=
  match s.splitOn "|" with
  | [ne, plain, scs] => do
    let scl ← if scs = "-" then some [] else (scs.splitOn ";").mapM parseSectorClaim?
    pure { newExpiration := ← parseInt? ne, sectors := ← parseList? parseNat? plain, withClaims := scl }
  | _ => none

def handle (st : DState) (line : String) : DState × String :=
  match words line with
  | ["init", root, actors] =>
    match parseNat? root, parseList? (parsePair? parseNat? parseKind?) actors with
    | some r, some a => let s' := init r a; ({ sys := s' }, s!"ok | {showSys s'}")
    | _, _ => (st, "bad-op")
  | ["sector", num, act, exp, pb, vw] =>
    match parseNat? num, parseInt? act, parseInt? exp, parseInt? pb, parseInt? vw with
    | some n, some a, some e, some p, some v =>
      let sec : BA.SectorExt.Sector :=
        { number := n, activation := a, expiration := e, powerBase := p, verifiedWeight := v }
      let st' := { st with sectors := aset n sec st.sectors }
      (st', s!"ok | {showSectors st'.sectors}")
    | _, _, _, _, _ => (st, "bad-op")
  | "extend" :: epoch :: provider :: decls =>
    match parseInt? epoch, parseNat? provider, decls.mapM parseDecl? with
    | some e, some p, some ds =>
      match BA.SectorExt.extendMessage st.sys.vr.claims p e st.sectors ds with
      | .ok secs' => let st' := { st with sectors := secs' }; (st', s!"ok | {showSectors secs'}")
      | .error err => (st, s!"err {err} | {showSectors st.sectors}")
    | _, _, _ => (st, "bad-op")
  | ws =>
    match parseOp ws with
    | none => (st, "bad-op")
    | some op =>
      let (s', out) := step st.sys op
      match out with
      | .ok r => ({ st with sys := s' }, s!"ok {showRet r} | {showSys s'}")
      | .error e => ({ st with sys := s' }, s!"err {e} | {showSys s'}")

end Driver.Verifreg
