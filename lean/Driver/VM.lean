import BA.Model.VM
import Driver.Util
namespace Driver.VM
open BA.VM Driver

/-- parse `( from to value ok child* )` from a token list; fuel bounds the recursion -/
def parseCall : Nat → List String → Option (Call × List String)
  | 0, _ => none
  | fuel + 1, "(" :: f :: t :: v :: ok :: rest => do
    let f ← parseNat? f
    let t ← parseNat? t
    let v ← parseInt? v
    let ok ← parseBool? ok
    let rec children (fuel' : Nat) (toks : List String) (acc : List Call) :
        Option (List Call × List String) :=
      match fuel', toks with
      | 0, _ => none
      | _, ")" :: rest' => some (acc.reverse, rest')
      | k + 1, toks' =>
        match parseCall fuel toks' with
        | some (c, rest') => children k rest' (c :: acc)
        | none => none
    let (cs, rest') ← children (rest.length + 1) rest []
    pure (.node f t v ok cs, rest')
  | _, _ => none

def parseBal (toks : List String) : Option (List (Nat × Int)) :=
  toks.mapM (fun s => match s.splitOn "=" with
    | [a, b] => do pure (← parseNat? a, ← parseInt? b)
    | _ => none)

def balOf (l : List (Nat × Int)) : Bal := fun i =>
  match l.find? (fun p => p.1 == i) with
  | some p => p.2
  | none => 0

/-- `replay id=bal … | ( tree )` → `id=bal …` after executing the tree -/
def handle (s : Unit) (line : String) : Unit × String :=
  match words line with
  | "replay" :: rest =>
    let (bals, tree) := rest.span (· ≠ "|")
    match parseBal bals, parseCall (tree.length + 1) (tree.drop 1) with
    | some bl, some (c, _) =>
      let b := exec (balOf bl) c
      (s, joinWith " " (bl.map (fun p => s!"{p.1}={b p.1}")))
    | _, _ => (s, "bad-op")
  | _ => (s, "bad-op")

end Driver.VM
