import BA.Model.MinerPenalty
import Driver.Util
/-!
  Line protocol of model "minerpenalty" (stateless: every line carries its inputs).

  fee functions:
    term <pledge> <age> <faultFee>                 -> ok <fee>
    cfp <thisEpochReward>                          -> ok <penalty> <reporterReward>
    br <netPowerZero> <rewardEst> <cumSumRatio> <qaPower> -> ok <BR>
    iwp <br>                                       -> ok <penalty>
    daily <dailyFee> <dayReward>                   -> ok <payable>
    lock <reward>                                  -> ok <locked>
    dwr                                            -> ok <reward for a disputed window post>
  steps on a funds record  F = <balance> <pcd> <lockedFunds> <initialPledge> <feeDebt> <cfElapsed>:
    cf F <vested> <verified> <targetSelf> <currEpoch> <faultEpoch> <reward> <sendOk> <pledgeOk>
    dispute F <vested> <disputable> <br> <sendOk> <pledgeOk>
    dl F <vested> <expiredDeposit> <onTimePledge> <faultPenalty> <dailyFee> <dayReward> <pledgeOk> <terms>
    terminate F <vested> <allowed> <pledgeOk> <terms>          terms = p:a:f,p:a:f | -
    reward F <vested> <allowed> <reward> <penalty> <pledgeOk>
    wd F <vested> <callerOk> <etPending> <amount> <quota|-1> <pledgeOk>
    pc F <paramsOk> <callerOk> <currEpoch> <deposit>
    dr F <paramsOk> <callerOk> <currEpoch> <declarationOk>
    rd F <vested> <callerOk> <pledgeOk>
  answer: ok <charged> <burnt> <toReporter> <toBeneficiary> <lost> | <F'>      or  err <class> | <F>
-/
namespace Driver.MinerPenalty
open BA BA.MinerPenalty Driver

def showState (s : MState) : String :=
  s!"{s.funds.balance} {s.funds.pcd} {s.funds.lockedFunds} {s.funds.initialPledge} {s.funds.feeDebt} {s.cfElapsed}"

def parseTerm? (s : String) : Option TermSector :=
  match s.splitOn ":" with
  | [p, a, f] => do pure { pledge := ← parseInt? p, age := ← parseInt? a, faultFee := ← parseInt? f }
  | _ => none

def parseState? (ws : List String) : Option MState :=
  match ws with
  | [b, pcd, lf, ip, d, cfe] => do
    pure { funds := { balance := ← parseInt? b, pcd := ← parseInt? pcd, lockedFunds := ← parseInt? lf,
                      initialPledge := ← parseInt? ip, feeDebt := ← parseInt? d },
           cfElapsed := ← parseInt? cfe }
  | _ => none

def parseOp? (name : String) (a : List String) : Option Op :=
  match name, a with
  | "cf", [v, ver, tgt, ce, fe, r, so, po] => do
    pure (.reportCF { vested := ← parseInt? v, faultVerified := ← parseBool? ver, targetIsSelf := ← parseBool? tgt,
                      currEpoch := ← parseInt? ce, faultEpoch := ← parseInt? fe, thisEpochReward := ← parseInt? r,
                      rewardSendOk := ← parseBool? so, pledgeOk := ← parseBool? po })
  | "dispute", [v, d, br, so, po] => do
    pure (.dispute { vested := ← parseInt? v, disputable := ← parseBool? d, br := ← parseInt? br,
                     rewardSendOk := ← parseBool? so, pledgeOk := ← parseBool? po })
  | "dl", [v, ed, otp, fp, df, dr, po, ts] => do
    pure (.deadlineEnd { vested := ← parseInt? v, expiredDeposit := ← parseInt? ed, onTimePledge := ← parseInt? otp,
                         faultPenalty := ← parseInt? fp, dailyFee := ← parseInt? df, dayReward := ← parseInt? dr,
                         terminated := ← parseList? parseTerm? ts, pledgeOk := ← parseBool? po })
  | "terminate", [v, al, po, ts] => do
    pure (.terminate { vested := ← parseInt? v, allowed := ← parseBool? al,
                       sectors := ← parseList? parseTerm? ts, pledgeOk := ← parseBool? po })
  | "reward", [v, al, r, p, po] => do
    pure (.applyRewards { vested := ← parseInt? v, allowed := ← parseBool? al, reward := ← parseInt? r,
                          penalty := ← parseInt? p, pledgeOk := ← parseBool? po })
  | "wd", [v, co, etp, amt, q, po] => do
    let q ← parseInt? q
    pure (.withdraw { vested := ← parseInt? v, callerOk := ← parseBool? co,
                      earlyTerminationsPending := ← parseBool? etp, amountRequested := ← parseInt? amt,
                      quota := if q < 0 then none else some q, pledgeOk := ← parseBool? po })
  | "pc", [po, co, ce, dep] => do
    pure (.preCommit { paramsOk := ← parseBool? po, callerOk := ← parseBool? co, currEpoch := ← parseInt? ce,
                       deposit := ← parseInt? dep })
  | "dr", [po, co, ce, d] => do
    pure (.declareRecovered { paramsOk := ← parseBool? po, callerOk := ← parseBool? co,
                              currEpoch := ← parseInt? ce, declarationOk := ← parseBool? d })
  | "rd", [v, co, po] => do
    pure (.repayDebt { vested := ← parseInt? v, callerOk := ← parseBool? co, pledgeOk := ← parseBool? po })
  | _, _ => none

def fee? (ws : List String) : Option String :=
  match ws with
  | ["term", p, a, f] => do
    pure s!"ok {pledgePenaltyForTermination (← parseInt? p) (← parseInt? a) (← parseInt? f)}"
  | ["cfp", r] => do
    let r ← parseInt? r
    pure s!"ok {consensusFaultPenalty r} {rewardForConsensusSlashReport r}"
  | ["br", z, r, c, p] => do
    pure s!"ok {expectedRewardForPower (← parseBool? z) (← parseInt? r) (← parseInt? c) (← parseInt? p)}"
  | ["iwp", br] => do pure s!"ok {pledgePenaltyForInvalidWindowPost (← parseInt? br)}"
  | ["daily", d, r] => do pure s!"ok {dailyProofFeePayable (← parseInt? d) (← parseInt? r)}"
  | ["lock", r] => do pure s!"ok {lockedRewardFromReward (← parseInt? r)}"
  | ["dwr"] => some s!"ok {rewardForDisputedWindowPost}"
  | _ => none

def handle (u : Unit) (line : String) : Unit × String :=
  let ws := words line
  match fee? ws with
  | some r => (u, r)
  | none =>
    match ws with
    | name :: rest =>
      match parseState? (rest.take 6), parseOp? name (rest.drop 6) with
      | some s, some op =>
        match step s op with
        | (s', .ok o) =>
          (u, s!"ok {o.charged} {o.burnt} {o.toReporter} {o.toBeneficiary} {o.lost} | {showState s'}")
        | (s', .error e) => (u, s!"err {e} | {showState s'}")
      | _, _ => (u, "bad-op")
    | [] => (u, "bad-op")

end Driver.MinerPenalty
