import BA.Model.Evm.Machine
import Driver.Util
/-! line protocol of the C18 abstract machine (model name `evmmachine`)

  analyze <hexcode|->                      → ok <jumpdest offsets a,b,c | ->
  stack <byte> <height>                    → one step of the byte on a stack of <height> zero words
  step <byte> <ro 0|1> <w0,w1,..|-> [hexcode-after]  → one step on an explicit stack (top first)
  mem <off> <size> <cur>                   → none | err | ok <newsize>
  run <hexcode> <fuel> <ro 0|1>            → whole run with default answers
  child <parentRo 0|1> <call|delegate|static>  → readonly flag of the nested activation
  chain <topRo 0|1> <k1,k2,..|->           → readonly flag at the end of a chain of nested calls
-/
namespace Driver.EvmMachine
open BA.Evm.Machine BA.Gen.Evm Driver

def hexVal (c : Char) : Option Nat :=
  if '0' ≤ c ∧ c ≤ '9' then some (c.toNat - '0'.toNat)
  else if 'a' ≤ c ∧ c ≤ 'f' then some (c.toNat - 'a'.toNat + 10)
  else if 'A' ≤ c ∧ c ≤ 'F' then some (c.toNat - 'A'.toNat + 10)
  else none

def parseHexAux : List Char → List UInt8 → Option (List UInt8)
  | [], acc => some acc.reverse
  | [_], _ => none
  | a :: b :: t, acc =>
    match hexVal a, hexVal b with
    | some x, some y => parseHexAux t (UInt8.ofNat (x * 16 + y) :: acc)
    | _, _ => none

def parseHex? (s : String) : Option (List UInt8) :=
  if s = "-" then some [] else parseHexAux s.toList []

def showOutcome : Outcome → String
  | .stop => "stop" | .ret => "return" | .revert => "revert" | .selfdestruct => "selfdestruct"
  | .endOfCode => "end"

def showStep : StepResult → String
  | .next s => s!"next h={s.stack.length} pc={s.pc} mem={s.memSize} eff={s.effects.length}"
  | .halt o s => s!"halt {showOutcome o} h={s.stack.length} mem={s.memSize} eff={s.effects.length}"
  | .fail e s => s!"fail {e} eff={s.effects.length}"

def showResult : Result → String
  | .done o s => s!"done {showOutcome o} h={s.stack.length} pc={s.pc} mem={s.memSize} eff={s.effects.length}"
  | .err e s => s!"err {e} h={s.stack.length} pc={s.pc} eff={s.effects.length}"
  | .outOfFuel s => s!"outoffuel pc={s.pc}"

def trueOffsets (jd : List Bool) : List String :=
  (jd.zipIdx.filter (·.1)).map (fun p => toString p.2)

def parseKind? (s : String) : Option CallKind :=
  if s = "call" then some .call else if s = "delegate" then some .delegateCall
  else if s = "static" then some .staticCall else none

def handle (u : Unit) (line : String) : Unit × String :=
  let out : String :=
    match words line with
    | ["analyze", hex] =>
      match parseHex? hex with
      | some code => s!"ok {showList (trueOffsets (analyze code))}"
      | none => "bad-op"
    | ["stack", b, h] =>
      match parseNat? b, parseNat? h with
      | some b, some h =>
        if b < 256 then
          let code : Code := [UInt8.ofNat b]
          showStep (step code (analyze code) {} { stack := List.replicate h 0 })
        else "bad-op"
      | _, _ => "bad-op"
    | "step" :: b :: ro :: ws :: rest =>
      match parseNat? b, parseBool? ro, parseList? parseNat? ws,
            parseHex? (rest.headD "-") with
      | some b, some ro, some st, some tail =>
        if b < 256 then
          let code : Code := UInt8.ofNat b :: tail
          showStep (step code (analyze code) {} { stack := st, readonly := ro })
        else "bad-op"
      | _, _, _, _ => "bad-op"
    | ["mem", off, size, cur] =>
      match parseNat? off, parseNat? size, parseNat? cur with
      | some off, some size, some cur =>
        match getMemoryRegion cur off size with
        | .error _ => "err"
        | .ok (none, _) => "none"
        | .ok (some _, m) => s!"ok {m}"
      | _, _, _ => "bad-op"
    | ["run", hex, fuel, ro] =>
      match parseHex? hex, parseNat? fuel, parseBool? ro with
      | some code, some fuel, some ro =>
        showResult (run code (analyze code) (fun _ => {}) fuel { readonly := ro })
      | _, _, _ => "bad-op"
    | ["child", p, k] =>
      match parseBool? p, parseKind? k with
      | some p, some k => s!"ok {if childReadonly p k then 1 else 0}"
      | _, _ => "bad-op"
    | ["chain", p, ks] =>
      match parseBool? p, parseList? parseKind? ks with
      | some p, some ks => s!"ok {if readonlyAlong p ks then 1 else 0}"
      | _, _ => "bad-op"
    | _ => "bad-op"
  (u, out)

end Driver.EvmMachine
