import BA.Model.Cron
import BA.Model.EarlyTerm
import Driver.Util
namespace Driver.Cron
open BA.Cron Driver

/-- `activate pps e` → epoch of the enrolled callback; `callback pps cur e` → new pps, new
    current deadline, epoch of the next enrolled callback -/
def handle (s : Unit) (line : String) : Unit × String :=
  match words line with
  | ["activate", pps, e] =>
    match parseInt? pps, parseInt? e with
    | some pps, some e => (s, s!"{lastOf pps e}")
    | _, _ => (s, "bad-op")
  | ["callback", pps, cur, e] =>
    match parseInt? pps, parseInt? cur, parseInt? e with
    | some pps, some cur, some e =>
      let m := advance { pps := pps, cur := cur, cronActive := true } e
      (s, s!"{m.pps} {m.cur} {lastOf m.pps (e + 1)}")
    | _, _, _ => (s, "bad-op")
  -- early-termination work: state in (q, events), state out
  | ["et_terminate", q, evs, e, n, cap] =>
    match parseNat? q, parseList? parseInt? evs, parseInt? e, parseNat? n, parseNat? cap with
    | some q, some evs, some e, some n, some cap =>
      let t := BA.EarlyTerm.terminate { q := q, events := evs } e n cap
      (s, s!"{t.q} {showList (t.events.map toString)}")
    | _, _, _, _, _ => (s, "bad-op")
  | ["et_detect", q, evs, e, n, cap] =>
    match parseNat? q, parseList? parseInt? evs, parseInt? e, parseNat? n, parseNat? cap with
    | some q, some evs, some e, some n, some cap =>
      let t := BA.EarlyTerm.detect { q := q, events := evs } e n cap
      (s, s!"{t.q} {showList (t.events.map toString)}")
    | _, _, _, _, _ => (s, "bad-op")
  | ["et_tick", q, evs, e, cap] =>
    match parseNat? q, parseList? parseInt? evs, parseInt? e, parseNat? cap with
    | some q, some evs, some e, some cap =>
      let t := BA.EarlyTerm.tick { q := q, events := evs } e cap
      (s, s!"{t.q} {showList (t.events.map toString)}")
    | _, _, _, _ => (s, "bad-op")
  | _ => (s, "bad-op")

end Driver.Cron
