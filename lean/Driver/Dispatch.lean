import BA.Model.Dispatch
import Driver.Util
/-!
  Line protocol of the C11 dispatch model (stateless):
    `cell <actor> <method> <code|none> <atom,atom,…|-> <namespace|->`
  answers the model's verdict for that cell of the (actor, method, caller) matrix, evaluated on
  the generated tables:  `send` | `restricted` | `unhandled` | `rejected <first> <kind>` |
  `passes <first> <kind>`   (kind = any|is|type|namespace of the validation term).
    `tables`  answers the number of rows / fallbacks / tables of the generated file.
-/
namespace Driver.Dispatch
open BA BA.Dispatch Driver

def actorNames : List (String × Actor) :=
  [("account", .account), ("cron", .cron), ("datacap", .datacap), ("eam", .eam),
   ("ethaccount", .ethaccount), ("evm", .evm), ("init", .init), ("market", .market),
   ("miner", .miner), ("multisig", .multisig), ("paych", .paych), ("placeholder", .placeholder),
   ("power", .power), ("reward", .reward), ("system", .system), ("verifreg", .verifreg)]

def atomNames : List (String × Atom) :=
  [("system", .system), ("init", .init), ("reward", .reward), ("cron", .cron), ("power", .power),
   ("market", .market), ("verifreg", .verifreg), ("datacap", .datacap), ("eam", .eam),
   ("burnt", .burnt), ("id0", .id0), ("self", .self), ("origin", .origin), ("owner", .owner),
   ("worker", .worker), ("control", .control), ("beneficiary", .beneficiary),
   ("pendingOwner", .pendingOwner), ("chFrom", .chFrom), ("chTo", .chTo), ("rootKey", .rootKey),
   ("governor", .governor), ("escrowApproved", .escrowApproved)]

def find? {α : Type} (tbl : List (String × α)) (s : String) : Option α :=
  (tbl.find? (fun p => p.1 = s)).map (·.2)

def kindOf : VTerm → String
  | .any => "any" | .is _ => "is" | .type _ => "type" | .namespace _ => "namespace"
  | .alt a _ => kindOf a

def termKind (a : Actor) (m : Nat) : String :=
  match lookup genTables a m with
  | some (t, _) => kindOf t
  | none => "-"

def b01 (b : Bool) : String := if b then "1" else "0"

def answer (ws : List String) : Option String :=
  match ws with
  | ["cell", a, m, code, atoms, ns] => do
    let a ← find? actorNames a
    let m ← parseNat? m
    let code ← if code = "none" then some none else (find? actorNames code).map some
    let atoms ← parseList? (find? atomNames) atoms
    let ns ← if ns = "-" then some none else (find? actorNames ns).map some
    let c : Caller := ⟨code, atoms, ns⟩
    pure <| match verdict genTables a m c with
      | .send => "send"
      | .restricted => "restricted"
      | .unhandled => "unhandled"
      | .rejected f => s!"rejected {b01 f} {termKind a m}"
      | .passes f => s!"passes {b01 f} {termKind a m}"
  | ["tables"] =>
    some s!"tables {Gen.methods.length} {Gen.fallbacks.length} {Gen.tables.length}"
  | _ => none

def handle (s : Unit) (line : String) : Unit × String :=
  match answer (words line) with
  | some o => (s, o)
  | none => (s, "err parse")

end Driver.Dispatch
