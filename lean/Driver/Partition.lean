import BA.Model.Sector.Partition
import BA.Model.Sector.Alloc
import Driver.Util
namespace Driver.Partition
open BA BA.Sector BA.NatSet Driver

structure DState where
  env : Env := { tbl := [], qs := { unit := 1, offset := 0 } }
  p : BA.Sector.Partition := {}
  alloc : NatSet := []
  deriving Inhabited

def showSet (s : List Nat) : String := showList ((NatSet.sort s).map toString)
def showPow (p : PowerPair) : String := s!"{p.raw}:{p.qa}"
def showExpSet (es : ExpSet) : String :=
  s!"{showSet es.onTime}/{showSet es.early}/{es.pledge}/{showPow es.active}/{showPow es.faulty}/{es.fee}"
def showQueue (q : Queue) : String :=
  if q.isEmpty then "-" else joinWith ";" (q.map (fun (e, es) => s!"{e}@{showExpSet es}"))
def showBfQueue (q : List (Int × NatSet)) : String :=
  if q.isEmpty then "-" else joinWith ";" (q.map (fun (e, s) => s!"{e}@{showSet s}"))

def showPartition (p : BA.Sector.Partition) : String :=
  s!"{showSet p.sectors} {showSet p.unproven} {showSet p.faults} {showSet p.recoveries} {showSet p.terminated} {showPow p.livePower} {showPow p.unprovenPower} {showPow p.faultyPower} {showPow p.recoveringPower} {showQueue p.expirations} {showBfQueue p.earlyTerminated}"

def showRet : Ret → String
  | .unit => "ok"
  | .added pw fee => s!"ok added {showPow pw} {fee}"
  | .faults nf d f => s!"ok faults {showSet nf} {showPow d} {showPow f}"
  | .power pw => s!"ok power {showPow pw}"
  | .missed d pen nf => s!"ok missed {showPow d} {showPow pen} {showPow nf}"
  | .expset es => s!"ok expset {showExpSet es}"
  | .terminated es rup => s!"ok terminated {showExpSet es} {showPow rup}"
  | .skipped d nf rp b => s!"ok skipped {showPow d} {showPow nf} {showPow rp} {if b then 1 else 0}"
  | .rescheduled ns => s!"ok rescheduled {showSet ns}"
  | .replaced pw pl fee => s!"ok replaced {showPow pw} {pl} {fee}"
  | .early res n more => s!"ok early {showBfQueue res} {n} {if more then 1 else 0}"
  | .err e => s!"err {e}"

/-- "num:raw:qa:pledge:fee:exp" -/
def parseInfo? (s : String) : Option SectorInfo :=
  match s.splitOn ":" with
  | [n, raw, qa, pl, fee, exp] => do
    pure { num := ← parseNat? n, raw := ← parseInt? raw, qa := ← parseInt? qa,
           pledge := ← parseInt? pl, fee := ← parseInt? fee, exp := ← parseInt? exp }
  | _ => none

def parseInfos? (s : String) : Option (List SectorInfo) := parseList? parseInfo? s
def parseNums? (s : String) : Option (List Nat) := parseList? parseNat? s

/-- bit lists arrive as written by the harness (possibly with repeats: a bitfield forgets them) -/
def parseSet? (s : String) : Option NatSet := (parseNums? s).map ofList

def lookupAll (tbl : Table) (ns : List Nat) : Option (List SectorInfo) := ns.mapM (fun n => alookup n tbl)

def parseOp (tbl : Table) (ws : List String) : Option Op :=
  match ws with
  | ["add", proven, ns] => do
    pure (.addSectors (← parseBool? proven) (← lookupAll tbl (← parseNums? ns)))
  | ["faults", fe, ns] => do pure (.recordFaults (← parseSet? ns) (← parseInt? fe))
  | ["declrec", ns] => do pure (.declareFaultsRecovered (← parseSet? ns))
  | ["recover"] => some .recoverFaults
  | ["activate"] => some .activateUnproven
  | ["missed", fe] => do pure (.recordMissedPost (← parseInt? fe))
  | ["pop", u] => do pure (.popExpiredSectors (← parseInt? u))
  | ["terminate", ep, ns] => do pure (.terminateSectors (← parseInt? ep) (← parseSet? ns))
  | ["skipped", fe, ns] => do pure (.recordSkippedFaults (← parseInt? fe) (← parseSet? ns))
  | ["resched", ne, ns, _] => do pure (.rescheduleExpirations (← parseInt? ne) (← parseSet? ns))
  | ["replace", old, new] => do
    pure (.replaceSectors (← lookupAll tbl (← parseNums? old)) (← parseInfos? new))
  | ["popearly", m] => do pure (.popEarlyTerminations (← parseNat? m))
  | _ => none

/-- table updates the caller of the partition makes after a successful call -/
def updateTable (tbl : Table) (ws : List String) (op : Op) (r : Ret) : Table :=
  match op, r with
  | .replaceSectors _ new, .replaced _ _ _ => new.foldl (fun t i => aset i.num i t) tbl
  | .rescheduleExpirations ne _, .rescheduled ns =>
    if ws.getLast? = some "1" then
      ns.foldl (fun t n => match alookup n t with
        | some i => aset n { i with exp := ne } t
        | none => t) tbl
    else tbl
  | _, _ => tbl

def handle (s : DState) (line : String) : DState × String :=
  match words line with
  | ["pool", infos] =>
    match parseInfos? infos with
    | some l =>
      let s' := { s with env := { s.env with tbl := l.foldl (fun t i => aset i.num i t) [] } }
      (s', s!"ok | {showPartition s'.p}")
    | none => (s, "bad-op")
  | ["quant", u, o] =>
    match parseInt? u, parseInt? o with
    | some u, some o =>
      let s' := { s with env := { s.env with qs := { unit := u, offset := o } } }
      (s', s!"ok | {showPartition s'.p}")
    | _, _ => (s, "bad-op")
  | ["new"] => let s' := { s with p := {} }; (s', s!"ok | {showPartition s'.p}")
  | ["allocnew"] => ({ s with alloc := [] }, "ok | -")
  | ["alloc", deny, ns] =>
    match parseBool? deny, parseSet? ns with
    | some d, some ns =>
      match BA.Sector.Alloc.allocate s.alloc ns (if d then .denyCollisions else .allowCollisions) with
      | .ok a => ({ s with alloc := a }, s!"ok | {showSet a}")
      | .error e => (s, s!"err {e} | {showSet s.alloc}")
    | _, _ => (s, "bad-op")
  | ws =>
    match parseOp s.env.tbl ws with
    | none => (s, "bad-op")
    | some op =>
      let (p', r) := step s.env s.p op
      let s' := { s with p := p', env := { s.env with tbl := updateTable s.env.tbl ws op r } }
      (s', s!"{showRet r} | {showPartition p'}")

end Driver.Partition
