import BA.Model.MinerControl
import Driver.Util
namespace Driver.MinerControl
open BA BA.MinerControl Driver

def b01 (b : Bool) : String := if b then "1" else "0"

/-- `owner pendingOwner worker pendingWorker controls beneficiary quota used expiration pendingBen` -/
def showState (s : State) : String :=
  let po := match s.pendingOwner with | none => "-" | some p => s!"{p}"
  let pw := match s.pendingWorker with
    | none => "-" | some k => s!"{k.newWorker}:{k.effectiveAt}"
  let pb := match s.pendingBen with
    | none => "-"
    | some p => s!"{p.newBeneficiary}:{p.newQuota}:{p.newExpiration}:{b01 p.approvedByBeneficiary}:{b01 p.approvedByNominee}"
  let cs := showList (s.controls.map (fun c => s!"{c}"))
  s!"{s.owner} {po} {s.worker} {pw} {cs} {s.beneficiary} {s.benTerm.quota} {s.benTerm.usedQuota} {s.benTerm.expiration} {pb}"

def showOut : Out → String
  | .ok => "ok"
  | .withdrawn w => s!"ok withdrawn {w}"
  | .err e => s!"err {e}"

def parseOp (ws : List String) : Option Op :=
  match ws with
  | ["chown", caller, newAddr, isId] => do
    pure (.changeOwner (← parseNat? caller) (← parseNat? newAddr) (← parseBool? isId))
  | ["chworker", caller, newWorker, controls, epoch, workerOk, controlsOk] => do
    pure (.changeWorker (← parseNat? caller) (← parseNat? newWorker)
      (← parseList? parseNat? controls) (← parseInt? epoch) (← parseBool? workerOk)
      (← parseBool? controlsOk))
  | ["confirm", caller, epoch] => do
    pure (.confirmChangeWorker (← parseNat? caller) (← parseInt? epoch))
  | ["chben", caller, new, quota, exp, epoch, resolves] => do
    pure (.changeBeneficiary (← parseNat? caller) (← parseNat? new) (← parseInt? quota)
      (← parseInt? exp) (← parseInt? epoch) (← parseBool? resolves))
  | ["withdraw", caller, amount, epoch, restOk] => do
    pure (.withdrawUse (← parseNat? caller) (← parseInt? amount) (← parseInt? epoch)
      (← parseBool? restOk))
  | ["cron", epoch] => do pure (.cronTick (← parseInt? epoch))
  | _ => none

def handle (s : State) (line : String) : State × String :=
  match words line with
  | ["init", o, w, cs] =>
    match parseNat? o, parseNat? w, parseList? parseNat? cs with
    | some o, some w, some cs => let s' := init o w cs; (s', s!"ok | {showState s'}")
    | _, _, _ => (s, "bad-op")
  | ws =>
    match parseOp ws with
    | none => (s, "bad-op")
    | some op =>
      let (s', out) := step s op
      (s', s!"{showOut out} | {showState s'}")

end Driver.MinerControl
