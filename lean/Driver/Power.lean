import BA.Model.Power
import Driver.Util
namespace Driver.Power
open BA BA.Power Driver

/-- driver state: the policy parameter fixed by `init` and the model state -/
structure DState where
  P : Params := { minPower := 0 }
  s : State := {}

def dinit : DState := {}

/-- `totalRaw totalQA totalBytesCommitted totalQABytesCommitted minerCount aboveMin curRaw curQA
    thisEpochRaw thisEpochQA id:raw:qa,...` (claims sorted by id) -/
def showState (s : State) : String :=
  let claims := (sortBy (fun (p : Nat × Claim) => p.1) s.claims).map
    (fun (p : Nat × Claim) => s!"{p.1}:{p.2.raw}:{p.2.qa}")
  let cur := currentTotalPower s
  s!"{s.totalRaw} {s.totalQA} {s.totalBytesCommitted} {s.totalQABytesCommitted} {s.minerCount} {s.minerAboveMinPowerCount} {cur.1} {cur.2} {s.thisEpochRaw} {s.thisEpochQA} {showList claims}"

def showOut : Out → String
  | .ok => "ok"
  | .err e => s!"err {e}"

def reply (d : DState) (s' : State) (out : Out) : DState × String :=
  ({ d with s := s' }, s!"{showOut out} | {showState s'}")

/-- Lines:
    `init <minPower> <minMiners>`  (minMiners must equal the model's generated constant)
    `create <id>`                  CreateMiner, Init handed out `<id>`
    `createfail`                   CreateMiner whose Init.Exec failed
    `update <id> <rawDelta> <qaDelta>`   UpdateClaimedPower from miner actor `<id>`
    `updatex <id> <rawDelta> <qaDelta>`  the same from a caller that is not a miner actor
    `delete <id,id,...|->`         claim-deleting transaction of a cron tick
    `tick <id,id,...|->`           the same followed by the this_epoch snapshot
    `meets <id>`                   MinerRawPower query (state unchanged) -/
def handle (d : DState) (line : String) : DState × String :=
  match words line with
  | ["init", mp, mm] =>
    match parseInt? mp, parseInt? mm with
    | some mp, some mm =>
      if mm ≠ minMiners then (d, "bad-op min-miners-differs-from-model-constant")
      else
        let d' : DState := { P := { minPower := mp }, s := init }
        (d', s!"ok | {showState d'.s}")
    | _, _ => (d, "bad-op")
  | ["create", id] =>
    match parseNat? id with
    | some id =>
      -- the Init actor never hands out an id twice: ids only grow
      if id < d.s.nextId then (d, "bad-op actor-id-reused")
      else
        let (s', out) := step d.P d.s (.create (id - d.s.nextId) true)
        reply d s' out
    | none => (d, "bad-op")
  | ["createfail"] =>
    let (s', out) := step d.P d.s (.create 0 false)
    reply d s' out
  | ["update", id, dr, dq] =>
    match parseNat? id, parseInt? dr, parseInt? dq with
    | some id, some dr, some dq =>
      let (s', out) := step d.P d.s (.update id true dr dq)
      reply d s' out
    | _, _, _ => (d, "bad-op")
  | ["updatex", id, dr, dq] =>
    match parseNat? id, parseInt? dr, parseInt? dq with
    | some id, some dr, some dq =>
      let (s', out) := step d.P d.s (.update id false dr dq)
      reply d s' out
    | _, _, _ => (d, "bad-op")
  | ["delete", ids] =>
    match parseList? parseNat? ids with
    | some ms =>
      let (s', out) := step d.P d.s (.cronDelete ms)
      reply d s' out
    | none => (d, "bad-op")
  | ["tick", ids] =>
    match parseList? parseNat? ids with
    | some ms =>
      let (s1, _) := step d.P d.s (.cronDelete ms)
      let (s', out) := step d.P s1 .snapshot
      reply d s' out
    | none => (d, "bad-op")
  | ["meets", id] =>
    match parseNat? id with
    | some id =>
      match minerMeetsConsensusMinimum d.P d.s id with
      | .ok (raw, b) => (d, s!"ok {raw} {if b then 1 else 0} | {showState d.s}")
      | .error e => (d, s!"err {e} | {showState d.s}")
    | none => (d, "bad-op")
  | _ => (d, "bad-op")

end Driver.Power
