import BA.Model.Power
import Driver.Util
namespace Driver.Power
open BA BA.Power Driver
def handle (s : State) (_line : String) : State × String := (s, "bad-op")
end Driver.Power
