import BA.Model.Reward
import Driver.Util
namespace Driver.Reward
open BA.Reward Driver

def destStr : Dest → String
  | .miner => "miner" | .burnt => "burnt" | .kept => "kept"

/-- `award sys balance penalty gas reward wins resolves minerOk burnOk` →
    `ok total blockReward penalty dest` | `err <code>` -/
def handle (s : Unit) (line : String) : Unit × String :=
  match words line with
  | ["award", sys, bal, pen, gas, rew, wins, res, mok, bok] =>
    match parseBool? sys, parseInt? bal, parseInt? pen, parseInt? gas, parseInt? rew, parseInt? wins,
          parseBool? res, parseBool? mok, parseBool? bok with
    | some sys, some bal, some pen, some gas, some rew, some wins, some res, some mok, some bok =>
      match award sys bal pen gas rew wins res mok bok with
      | .ok o => (s, s!"ok {o.total} {o.blockReward} {o.penalty} {destStr o.dest}")
      | .error e => (s, s!"err {e}")
    | _, _, _, _, _, _, _, _, _ => (s, "bad-op")
  | _ => (s, "bad-op")

end Driver.Reward
