import BA.Model.Vesting
import BA.Model.MinerFunds
import Driver.Util
namespace Driver.Vesting
open BA BA.Vesting Driver

/-- driver state: a bare `VestingFunds` (DS-level ops) and a miner (actor-level ops) -/
structure St where
  funds : Funds := none
  miner : MinerFunds.State := { owner := 0, beneficiary := 0 }

def showEntry (p : Int × Int) : String := s!"{p.1}:{p.2}"
def showTable (t : Table) : String := showList (t.map showEntry)

/-- raw representation: `none` or `H e:a T e:a,…` -/
def showFunds : Funds → String
  | none => "none"
  | some (h, t) => s!"H {showEntry h} T {showTable t}"

def showMiner (m : MinerFunds.State) : String :=
  s!"{m.ledger.lockedFunds} {m.feeDebt} {m.usedQuota} {m.balance} {showTable (load m.ledger.funds)}"

def parseSpec? (d p s q : String) : Option VestSpec := do
  pure { initialDelay := ← parseInt? d, vestPeriod := ← parseInt? p, stepDuration := ← parseInt? s,
         quantization := ← parseInt? q }

def handle (s : St) (line : String) : St × String :=
  match words line with
  | ["new"] => ({ s with funds := none }, s!"ok | {showFunds none}")
  | ["add", cur, sum, pps, d, p, st, q] =>
    match parseInt? cur, parseInt? sum, parseInt? pps, parseSpec? d p st q with
    | some cur, some sum, some pps, some spec =>
      match addLockedFunds s.funds cur sum pps spec with
      | .ok (f, u) => ({ s with funds := f }, s!"ok {u} | {showFunds f}")
      | .error e => (s, s!"err {e} | {showFunds s.funds}")
    | _, _, _, _ => (s, "bad-op")
  | ["unlock", cur] =>
    match parseInt? cur with
    | some cur =>
      let r := unlockVestedFunds s.funds cur
      ({ s with funds := r.1 }, s!"ok {r.2} | {showFunds r.1}")
    | _ => (s, "bad-op")
  | ["forced", cur, target] =>
    match parseInt? cur, parseInt? target with
    | some cur, some target =>
      let r := unlockVestedAndUnvested s.funds cur target
      ({ s with funds := r.1 }, s!"ok {r.2.1} {r.2.2} | {showFunds r.1}")
    | _, _ => (s, "bad-op")
  | ["quant", unit, off, e] =>
    match parseInt? unit, parseInt? off, parseInt? e with
    | some unit, some off, some e => (s, s!"ok {quantizeUp unit off e}")
    | _, _, _ => (s, "bad-op")
  | ["lockedreward", r] =>
    match parseInt? r with
    | some r => (s, s!"ok {lockedRewardFromReward r}")
    | _ => (s, "bad-op")
  | ["mset", owner, ben, quota, used, exp, bal, lf, pcd, ip, debt, et, head, tail] =>
    -- head: "-" (VestingFunds(None)) or "e:a"; tail: the list behind the tail CID
    let m : Option MinerFunds.State := do
      let t ← parseList? (parsePair? parseInt? parseInt?) tail
      let fs : Funds ← if head = "-" then (if t.isEmpty then some none else none)
        else (parsePair? parseInt? parseInt? head).map (fun h => some (h, t))
      pure { owner := ← parseNat? owner, beneficiary := ← parseNat? ben, quota := ← parseInt? quota,
             usedQuota := ← parseInt? used, expiration := ← parseInt? exp, balance := ← parseInt? bal,
             ledger := { funds := fs, lockedFunds := ← parseInt? lf },
             preCommitDeposits := ← parseInt? pcd, initialPledge := ← parseInt? ip,
             feeDebt := ← parseInt? debt, earlyTerminationsPending := ← parseBool? et }
    match m with
    | some m => ({ s with miner := m }, s!"ok | {showMiner m}")
    | none => (s, "bad-op")
  | ["withdraw", caller, epoch, value, req, sendOk, notifyOk] =>
    match parseNat? caller, parseInt? epoch, parseInt? value, parseInt? req, parseBool? sendOk,
          parseBool? notifyOk with
    | some caller, some epoch, some value, some req, some sendOk, some notifyOk =>
      let env : MinerFunds.Env := { sendOk := sendOk, notifyOk := notifyOk }
      let (m, res) := MinerFunds.step s.miner env caller epoch value req
      match res with
      | .ok o => ({ s with miner := m },
          s!"ok {o.amountWithdrawn} {o.sentTo} {o.burnt} {o.newlyVested} | {showMiner m}")
      | .err e => ({ s with miner := m }, s!"err {e} | {showMiner m}")
    | _, _, _, _, _, _ => (s, "bad-op")
  | _ => (s, "bad-op")

end Driver.Vesting
