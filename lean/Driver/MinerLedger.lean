import BA.Model.MinerLedger
import Driver.Util
namespace Driver.MinerLedger
open BA BA.MinerLedger Driver

abbrev World := List (Nat × St)

def showSt (s : St) : String :=
  s!"{s.balance} {s.pcd} {s.lf} {s.ip} {s.debt} {s.netTotal} {if s.cronActive then 1 else 0}"

def parseMap? (s : String) : Option (List (Nat × Int)) := parseList? (parsePair? parseNat? parseInt?) s
def parseNats? (s : String) : Option (List Nat) := parseList? parseNat? s

def parseOp : List String → Option Op
  | ["create", v, d] => do pure (.create (← parseInt? v) (← parseInt? d))
  | ["fund", v] => do pure (.fund (← parseInt? v))
  | ["precommit", m] => do pure (.precommit (← parseMap? m))
  | ["provecommit", m] => do pure (.proveCommit (← parseMap? m))
  | ["rewards", r, p, v] => do pure (.applyRewards (← parseInt? r) (← parseInt? p) (← parseInt? v))
  | ["withdraw", r, v, e] => do pure (.withdraw (← parseInt? r) (← parseInt? v) (← parseBool? e))
  | ["repay", v, ve] => do pure (.repayDebt (← parseInt? v) (← parseInt? ve))
  | ["deadline", ep, es, p, v] => do
    pure (.deadline (← parseNats? ep) (← parseNats? es) (← parseInt? p) (← parseInt? v))
  | ["terminate", ps, p, v] => do
    pure (.terminate (← parseNats? ps) (← parseInt? p) (← parseInt? v))
  | ["consensusfault", p, r, v, ok] => do
    pure (.consensusFault (← parseInt? p) (← parseInt? r) (← parseInt? v) (← parseBool? ok))
  | _ => none

/-- `m <idx> <others> <op…>` applies an op to miner idx; `set <idx> balance pcd lf ip debt net unacc
    cron precommits sectors` re-synchronises a miner after an operation the ledger model does not cover -/
def handle (w : World) (line : String) : World × String :=
  match words line with
  | ["reset"] => ([], "ok")
  | "m" :: idx :: others :: rest =>
    match parseNat? idx, parseInt? others, parseOp rest with
    | some i, some o, some op =>
      let s := (alookup i w).getD {}
      let (s', out) := step s o op
      (aset i s' w, s!"{if out.ok then "ok" else "err"} {out.burnt} {out.paid} | {showSt s'}")
    | _, _, _ => (w, "bad-op")
  | ["set", idx, b, pcd, lf, ip, debt, net, unacc, cron, pre, secs] =>
    match parseNat? idx, parseInt? b, parseInt? pcd, parseInt? lf, parseInt? ip, parseInt? debt,
          parseInt? net, parseInt? unacc, parseBool? cron, parseMap? pre, parseMap? secs with
    | some i, some b, some pcd, some lf, some ip, some debt, some net, some unacc, some cron,
      some pre, some secs =>
      let s : St := { balance := b, pcd := pcd, lf := lf, ip := ip, debt := debt, netTotal := net,
                      unaccounted := unacc, cronActive := cron, precommits := pre, sectors := secs }
      (aset i s w, s!"ok 0 0 | {showSt s}")
    | _, _, _, _, _, _, _, _, _, _, _ => (w, "bad-op")
  | _ => (w, "bad-op")

end Driver.MinerLedger
