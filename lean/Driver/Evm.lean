import BA.Model.Evm.Interp
import Driver.Util
/-!
  Line protocol for the EVM word functions and interpreter (model name `evm`).

  * `eval <MNEMONIC> <hex a> [<hex b> [<hex c>]]` → `ok <impl hex> <spec hex>` — the operands in stack
    order (a = top of stack).
  * `run <hex code|-> <hex calldata|-> <storage k:v,…|-> <hashes in:out,…|->` →
    `ok return <hex|-> | st <k:v,…|->`, `ok revert <hex|-> | st …`, `err <class> | st …` or
    `needhash <hex|->` (the hash oracle lacks an answer: the harness adds it and asks again).
-/
namespace Driver.Evm
open BA BA.Evm Driver

def hexDigit? (c : Char) : Option Nat :=
  if '0' ≤ c ∧ c ≤ '9' then some (c.toNat - '0'.toNat)
  else if 'a' ≤ c ∧ c ≤ 'f' then some (c.toNat - 'a'.toNat + 10)
  else if 'A' ≤ c ∧ c ≤ 'F' then some (c.toNat - 'A'.toNat + 10)
  else none

def parseHexNat? (s : String) : Option Nat :=
  if s.isEmpty then none else
  s.toList.foldlM (fun acc c => do let d ← hexDigit? c; pure (acc * 16 + d)) 0

def parseWord? (s : String) : Option W := do
  let n ← parseHexNat? s
  if n < 2 ^ 256 then some (BitVec.ofNat 256 n) else none

partial def parseBytesAux : List Char → Array UInt8 → Option (Array UInt8)
  | [], acc => some acc
  | [_], _ => none
  | a :: b :: t, acc => do
    let x ← hexDigit? a
    let y ← hexDigit? b
    parseBytesAux t (acc.push (UInt8.ofNat (x * 16 + y)))

def parseBytes? (s : String) : Option (Array UInt8) :=
  if s = "-" then some #[] else parseBytesAux s.toList #[]

def hexChar (n : Nat) : Char :=
  if n < 10 then Char.ofNat ('0'.toNat + n) else Char.ofNat ('a'.toNat + n - 10)

def showBytes (bs : List UInt8) : String :=
  if bs.isEmpty then "-" else
  String.ofList (bs.foldr (fun b acc => hexChar (b.toNat / 16) :: hexChar (b.toNat % 16) :: acc) [])

partial def natHexAux (n : Nat) (acc : List Char) : List Char :=
  if n < 16 then hexChar n :: acc else natHexAux (n / 16) (hexChar (n % 16) :: acc)

def showNatHex (n : Nat) : String := String.ofList (natHexAux n [])
def showWord (w : W) : String := showNatHex w.toNat

def evalOp (name : String) (args : List W) : Option (W × W) :=
  match name, args with
  | "ADD", [a, b] => some (addImpl a b, addSpec a b)
  | "MUL", [a, b] => some (mulImpl a b, mulSpec a b)
  | "SUB", [a, b] => some (subImpl a b, subSpec a b)
  | "DIV", [a, b] => some (divImpl a b, divSpec a b)
  | "SDIV", [a, b] => some (sdivImpl a b, sdivSpec a b)
  | "MOD", [a, b] => some (modImpl a b, modSpec a b)
  | "SMOD", [a, b] => some (smodImpl a b, smodSpec a b)
  | "ADDMOD", [a, b, c] => some (addmodImpl a b c, addmodSpec a b c)
  | "MULMOD", [a, b, c] => some (mulmodImpl a b c, mulmodSpec a b c)
  -- `expSpec` (a^b on naturals) is not evaluable for big exponents; `expSpecExec` is proved equal to it
  | "EXP", [a, b] => some (expImpl a b, expSpecExec a b)
  | "SIGNEXTEND", [a, b] => some (signextendImpl a b, signextendSpec a b)
  | "LT", [a, b] => some (ltImpl a b, ltSpec a b)
  | "GT", [a, b] => some (gtImpl a b, gtSpec a b)
  | "SLT", [a, b] => some (sltImpl a b, sltSpec a b)
  | "SGT", [a, b] => some (sgtImpl a b, sgtSpec a b)
  | "EQ", [a, b] => some (eqImpl a b, eqSpec a b)
  | "ISZERO", [a] => some (iszeroImpl a, iszeroSpec a)
  | "AND", [a, b] => some (andImpl a b, andSpec a b)
  | "OR", [a, b] => some (orImpl a b, orSpec a b)
  | "XOR", [a, b] => some (xorImpl a b, xorSpec a b)
  | "NOT", [a] => some (notImpl a, notSpec a)
  | "BYTE", [a, b] => some (byteImpl a b, byteSpec a b)
  | "SHL", [a, b] => some (shlImpl a b, shlSpec a b)
  | "SHR", [a, b] => some (shrImpl a b, shrSpec a b)
  | "SAR", [a, b] => some (sarImpl a b, sarSpec a b)
  | "CLZ", [a] => some (clzImpl a, clzSpec a)
  | _, _ => none

def showStorage (st : List (Nat × W)) : String :=
  let nz := st.filter (fun p => p.2 ≠ 0#256)
  showList ((sortBy (fun (p : Nat × W) => p.1) nz).map (fun p => s!"{showNatHex p.1}:{showWord p.2}"))

def parseStorage? (s : String) : Option (List (Nat × W)) :=
  parseList? (parsePair? parseHexNat? parseWord?) s

def parseHashes? (s : String) : Option (List (List UInt8 × W)) :=
  parseList? (parsePair? (fun x => (parseBytes? x).map Array.toList) parseWord?) s

def haltName : Halt → String
  | .invalidInstruction => "invalid_instruction"
  | .undefinedInstruction => "undefined_instruction"
  | .stackUnderflow => "stack_underflow"
  | .stackOverflow => "stack_overflow"
  | .illegalMemoryAccess => "illegal_memory_access"
  | .badJumpdest => "bad_jumpdest"
  | .unsupported op => s!"unsupported_{showNatHex op}"
  | .needHash _ => "need_hash"
  | .outOfFuel => "out_of_fuel"

/-- generated programs need < 10 000 steps (bounded loops, the 1024-deep push loop) -/
def fuel : Nat := 30000

def handle (u : Unit) (line : String) : Unit × String :=
  match words line with
  | "eval" :: name :: args =>
    match args.mapM parseWord? with
    | none => (u, "bad-op")
    | some ws =>
      match evalOp name ws with
      | none => (u, "bad-op")
      | some (i, s) => (u, s!"ok {showWord i} {showWord s}")
  | ["run", code, cd, st, hs] =>
    match parseBytes? code, parseBytes? cd, parseStorage? st, parseHashes? hs with
    | some code, some cd, some st, some hs =>
      let oracle : List UInt8 → Option W := fun inp => (hs.find? (fun p => p.1 == inp)).map (·.2)
      match exec code cd oracle st fuel with
      | .error (.needHash inp) => (u, s!"needhash {showBytes inp}")
      | .error e => (u, s!"err {haltName e} | st {showStorage st}")
      | .ok (.ret, d, st') => (u, s!"ok return {showBytes d.toList} | st {showStorage st'}")
      | .ok (.revert, d, st') => (u, s!"ok revert {showBytes d.toList} | st {showStorage st'}")
    | _, _, _, _ => (u, "bad-op")
  | _ => (u, "bad-op")

end Driver.Evm
