/- parsing / printing helpers for the line protocol (no imports beyond core) -/
namespace Driver

def words (line : String) : List String :=
  (line.trimAscii.toString.splitOn " ").filter (· ≠ "")

def parseInt? (s : String) : Option Int := s.toInt?
def parseNat? (s : String) : Option Nat := s.toNat?
def parseBool? (s : String) : Option Bool :=
  if s = "1" then some true else if s = "0" then some false else none

/-- "a,b,c" or "-" for the empty list -/
def parseList? {α : Type} (f : String → Option α) (s : String) : Option (List α) :=
  if s = "-" then some [] else (s.splitOn ",").mapM f

/-- "a:b" -/
def parsePair? {α β : Type} (f : String → Option α) (g : String → Option β) (s : String) :
    Option (α × β) :=
  match s.splitOn ":" with
  | [a, b] => do let x ← f a; let y ← g b; pure (x, y)
  | _ => none

def joinWith (sep : String) (xs : List String) : String := sep.intercalate xs

def showList (xs : List String) : String := if xs.isEmpty then "-" else joinWith "," xs

/-- insertion sort on a key (small lists only; keeps the driver import-free) -/
def insertBy {α : Type} (key : α → Nat) (x : α) : List α → List α
  | [] => [x]
  | y :: t => if key x ≤ key y then x :: y :: t else y :: insertBy key x t
def sortBy {α : Type} (key : α → Nat) (xs : List α) : List α :=
  xs.foldl (fun acc x => insertBy key x acc) []

end Driver
