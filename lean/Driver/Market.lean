import BA.Model.Market
import Driver.Util
namespace Driver.Market
open BA BA.Market Driver

def b2s (b : Bool) : String := if b then "1" else "0"

def dedupNat (xs : List Nat) : List Nat :=
  xs.foldl (fun acc x => if acc.contains x then acc else acc ++ [x]) []

def showBalances (s : State) : String :=
  let keys := sortBy id (dedupNat (s.escrow.map (·.1) ++ s.locked.map (·.1)))
  let keys := keys.filter (fun k => bal s.escrow k ≠ 0 ∨ bal s.locked k ≠ 0)
  showList (keys.map (fun k => s!"{k}:{bal s.escrow k}:{bal s.locked k}"))

def showDeal (s : State) (p : Nat × Proposal) : String :=
  let d := p.2
  let st := match alookup p.1 s.states with
    | some st => s!"{st.sectorStart}:{st.lastUpdated}:{st.sector}"
    | none => "x:x:x"
  let pend := if d ∈ s.pending then "1" else "0"
  s!"{p.1}:{d.client}:{d.provider}:{d.startE}:{d.endE}:{d.price}:{d.clientColl}:{d.providerColl}:{d.tag}:{st}:{pend}"

def showState (s : State) : String :=
  let deals := (sortBy (fun (p : Nat × Proposal) => p.1) s.proposals).map (showDeal s)
  let ops := (sortBy (fun (p : Int × Nat) => p.1.toNat * 1000000007 + p.2) s.dealOps).map
    (fun p => s!"{p.1}:{p.2}")
  s!"e={s.epoch} next={s.nextId} lc={s.lastCron} tot={s.totalClientColl},{s.totalProviderColl},{s.totalClientFee} bal={showBalances s} deals={showList deals} pend={s.pending.length} ops={showList ops} burnt={s.burntTotal}"

def showSettle : SettleRes → String
  | .fail => "f"
  | .ok p c => s!"{p}:{b2s c}"

def showOut : Out → String
  | .ok => "ok"
  | .withdrawn w => s!"ok w={w.amount} to={w.recipient}"
  | .published r =>
    s!"ok ids={showList (r.ids.map toString)} valid={showList (r.valid.map toString)}"
  | .activated r => s!"ok res={showList (r.map b2s)}"
  | .changed r =>
    s!"ok res={showList (r.map (fun l => if l.isEmpty then "_" else joinWith "+" (l.map b2s)))}"
  | .settled r => s!"ok res={showList (r.map showSettle)}"
  | .err e => s!"err {e}"

def splitOnChar (sep : String) (s : String) : List String := s.splitOn sep

def parsePlusList? {α : Type} (f : String → Option α) (s : String) : Option (List α) :=
  if s = "_" then some [] else (s.splitOn "+").mapM f

def parseDeal? (s : String) : Option DealIn :=
  match s.splitOn ":" with
  | [client, provider, st, en, price, cc, pc, verified, tag, sigOk, boundsOk, dcOk, pm] => do
    let d : Proposal := {
      client := ← parseNat? client, provider := ← parseNat? provider,
      startE := ← parseInt? st, endE := ← parseInt? en, price := ← parseInt? price,
      clientColl := ← parseInt? cc, providerColl := ← parseInt? pc,
      verified := ← parseBool? verified, tag := ← parseNat? tag }
    pure { d := d, sigOk := ← parseBool? sigOk, boundsOk := ← parseBool? boundsOk,
           dcOk := ← parseBool? dcOk, providerMatches := ← parseBool? pm }
  | _ => none

def parseSector? (s : String) : Option SectorDeals :=
  match s.splitOn ":" with
  | [num, expiry, ids] => do
    pure { sector := ← parseNat? num, expiry := ← parseInt? expiry,
           ids := ← parsePlusList? parseNat? ids }
  | _ => none

def parsePiece? (s : String) : Option Piece :=
  match s.splitOn "~" with
  | [id, ok] => do pure { id := ← parseNat? id, pieceOk := ← parseBool? ok }
  | _ => none

def parseChanges? (s : String) : Option SectorChanges :=
  match s.splitOn ":" with
  | [num, mc, pieces] => do
    pure { sector := ← parseNat? num, minCommit := ← parseInt? mc,
           pieces := ← parsePlusList? parsePiece? pieces }
  | _ => none

def parseOp (ws : List String) : Option Op :=
  match ws with
  | ["epoch", e] => do pure (.advance (← parseInt? e))
  | ["add", addr, value, resolves] => do
    pure (.addBalance (← parseNat? addr) (← parseInt? value) (← parseBool? resolves))
  | ["withdraw", caller, nominal, amount, resolves, isMiner, owner, worker, sendOk] => do
    let m ← parseBool? isMiner
    let o ← parseNat? owner
    let w ← parseNat? worker
    let env : PartyEnv := { resolves := ← parseBool? resolves, miner := if m then some (o, w) else none }
    pure (.withdraw (← parseNat? caller) (← parseNat? nominal) (← parseInt? amount) env
      (← parseBool? sendOk))
  | ["publish", prov, pr, pm, cc, dc, no, deals] => do
    let env : PublishEnv := {
      provider := ← parseNat? prov, providerResolves := ← parseBool? pr, providerIsMiner := ← parseBool? pm,
      callerControls := ← parseBool? cc, datacapOk := ← parseBool? dc, notifyOk := ← parseBool? no }
    pure (.publish env (← parseList? parseDeal? deals))
  | ["activate", caller, isMiner, sectors] => do
    pure (.activate (← parseNat? caller) (← parseBool? isMiner) (← parseList? parseSector? sectors))
  | ["scc", caller, isMiner, sectors] => do
    pure (.scc (← parseNat? caller) (← parseBool? isMiner) (← parseList? parseChanges? sectors))
  | ["settle", ids, burnOk] => do
    pure (.settle (← parseList? parseNat? ids) (← parseBool? burnOk))
  | ["terminate", caller, isMiner, sectors, burnOk] => do
    pure (.terminate (← parseNat? caller) (← parseBool? isMiner)
      (← parseList? parseNat? sectors) (← parseBool? burnOk))
  | ["cron", isCron, burnOk] => do pure (.cron (← parseBool? isCron) (← parseBool? burnOk))
  | _ => none

def handle (s : State) (line : String) : State × String :=
  match words line with
  | ["init"] => (init, s!"ok | {showState init}")
  | ws =>
    match parseOp ws with
    | none => (s, "bad-op")
    | some op =>
      let (s', out) := step s op
      (s', s!"{showOut out} | {showState s'}")

end Driver.Market
