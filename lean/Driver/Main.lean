import Driver.Paych
import Driver.VM
import Driver.MinerLedger
import Driver.Cron
import Driver.Multisig
import Driver.EvmStorage
import Driver.MinerControl
import Driver.Vesting
import Driver.Init
import Driver.MinerPenalty
import Driver.Dispatch
import Driver.EvmMachine
import Driver.Partition
import Driver.Power
import Driver.Verifreg
import Driver.Market
import Driver.Evm
import Driver.Reward

/-- generic stdin/stdout loop over a pure handler -/
partial def loop {σ : Type} (h : IO.FS.Stream) (out : IO.FS.Stream) (step : σ → String → σ × String)
    (s : σ) : IO Unit := do
  let line ← h.getLine
  if line.isEmpty then return ()
  let (s', o) := step s line
  out.putStrLn o
  out.flush
  loop h out step s'

def main (args : List String) : IO UInt32 := do
  let stdin ← IO.getStdin
  let stdout ← IO.getStdout
  match args with
  | ["partition"] => loop stdin stdout Driver.Partition.handle default; return 0
  | ["paych"] => loop stdin stdout Driver.Paych.handle (BA.Paych.init 0 0); return 0
  | ["vm"] => loop stdin stdout Driver.VM.handle (); return 0
  | ["minerledger"] => loop stdin stdout Driver.MinerLedger.handle []; return 0
  | ["cron"] => loop stdin stdout Driver.Cron.handle (); return 0
  | ["multisig"] => loop stdin stdout Driver.Multisig.handle []; return 0
  | ["evmstorage"] => loop stdin stdout Driver.EvmStorage.handle (Driver.EvmStorage.State.init 0); return 0
  | ["minercontrol"] =>
    loop stdin stdout Driver.MinerControl.handle (BA.MinerControl.init 0 0 []); return 0
  | ["vesting"] => loop stdin stdout Driver.Vesting.handle ({} : Driver.Vesting.St); return 0
  | ["init"] => loop stdin stdout Driver.Init.handle BA.Init.genesis; return 0
  | ["minerpenalty"] => loop stdin stdout Driver.MinerPenalty.handle (); return 0
  | ["dispatch"] => loop stdin stdout Driver.Dispatch.handle (); return 0
  | ["evmmachine"] => loop stdin stdout Driver.EvmMachine.handle (); return 0
  | ["power"] => loop stdin stdout Driver.Power.handle Driver.Power.dinit; return 0
  | ["verifreg"] =>
    loop stdin stdout Driver.Verifreg.handle { sys := BA.Verifreg.init 0 [] }; return 0
  | ["market"] => loop stdin stdout Driver.Market.handle BA.Market.init; return 0
  | ["evm"] => loop stdin stdout Driver.Evm.handle (); return 0
  | ["reward"] => loop stdin stdout Driver.Reward.handle (); return 0
  | _ => IO.eprintln "usage: driver <model>"; return 2
