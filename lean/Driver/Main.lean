import Driver.Paych
import Driver.Evm

/-- generic stdin/stdout loop over a pure handler -/
partial def loop {σ : Type} (h : IO.FS.Stream) (out : IO.FS.Stream) (step : σ → String → σ × String)
    (s : σ) : IO Unit := do
  let line ← h.getLine
  if line.isEmpty then return ()
  let (s', o) := step s line
  out.putStrLn o
  out.flush
  loop h out step s'

def main (args : List String) : IO UInt32 := do
  let stdin ← IO.getStdin
  let stdout ← IO.getStdout
  match args with
  | ["paych"] => loop stdin stdout Driver.Paych.handle (BA.Paych.init 0 0); return 0
  | ["evm"] => loop stdin stdout Driver.Evm.handle (); return 0
  | _ => IO.eprintln "usage: driver <model>"; return 2
