import BA.Model.Eam
import Driver.Util
/-! Line-protocol handler of model "init" (C20): init actor + EAM + EVM deployer nonces.
    Also answers `keccak <hex>`, `rlp <addrhex> <nonce>`, `createaddr`, `create2addr`, `selftest`. -/
namespace Driver.Init
open BA BA.Init BA.Eam BA.Evm Driver

def hexDigit (n : Nat) : Char := "0123456789abcdef".toList.getD n '0'

def toHex (l : Bytes) : String :=
  if l.isEmpty then "-" else
  String.ofList (l.flatMap fun b => [hexDigit (b.toNat / 16), hexDigit (b.toNat % 16)])

def hexVal? (c : Char) : Option Nat :=
  if '0' ≤ c ∧ c ≤ '9' then some (c.toNat - '0'.toNat)
  else if 'a' ≤ c ∧ c ≤ 'f' then some (c.toNat - 'a'.toNat + 10)
  else if 'A' ≤ c ∧ c ≤ 'F' then some (c.toNat - 'A'.toNat + 10)
  else none

def parseHexAux : List Char → Option Bytes
  | [] => some []
  | [_] => none
  | a :: b :: t => do
    let x ← hexVal? a
    let y ← hexVal? b
    let r ← parseHexAux t
    pure (UInt8.ofNat (x * 16 + y) :: r)

/-- "-" is the empty byte string -/
def parseHex? (s : String) : Option Bytes := if s = "-" then some [] else parseHexAux s.toList

def kindName : Kind → String
  | .system => "system" | .init => "init" | .reward => "reward" | .cron => "cron"
  | .power => "power" | .market => "market" | .verifreg => "verifreg" | .datacap => "datacap"
  | .eam => "eam" | .account => "account" | .placeholder => "placeholder"
  | .ethaccount => "ethaccount" | .evm => "evm" | .multisig => "multisig" | .paych => "paych"
  | .miner => "miner" | .unknown => "unknown"

def parseKind? (s : String) : Option Kind :=
  [Kind.system, .init, .reward, .cron, .power, .market, .verifreg, .datacap, .eam, .account,
   .placeholder, .ethaccount, .evm, .multisig, .paych, .miner, .unknown].find? (fun k => kindName k = s)

def parseCtor? (s : String) : Option Ctor :=
  if s = "ok" then some .ok else if s = "fail" then some .fail
  else if s = "sd" then some .selfdestruct else none

def insertStr (x : String) : List String → List String
  | [] => [x]
  | y :: t => if x ≤ y then x :: y :: t else y :: insertStr x t
def sortStr (xs : List String) : List String := xs.foldl (fun acc x => insertStr x acc) []

def showActor (p : Nat × Actor) : String :=
  let a := p.2
  let d := match a.deleg with
    | some (ns, sub) => s!"{ns}.{toHex sub}"
    | none => "-"
  let t := match a.tomb with
    | some m => s!"{m}"
    | none => "-"
  s!"{p.1}:{kindName a.kind}:{d}:{a.nonce}:{t}:{toHex a.keyAddr}"

def showWorld (w : World) : String :=
  let m := sortStr (w.addrMap.map fun (k, v) => s!"{toHex k}:{v}")
  let acts := (sortBy (fun (p : Nat × Actor) => p.1) w.actors).map showActor
  s!"next={w.nextId} map={showList m} act={showList acts}"

def showOut : Out → String
  | .ok id eth =>
    let i := match id with | some i => s!"{i}" | none => "-"
    let e := match eth with | some e => toHex e | none => "-"
    s!"ok {i} {e}"
  | .err e => s!"err {e}"

def parseOp (ws : List String) : Option Op :=
  match ws with
  | ["exec", msg, caller, kind, robust, ctor] => do
    pure (.exec (← parseNat? msg) (← parseNat? caller) (← parseKind? kind) (← parseHex? robust) (← parseCtor? ctor))
  | ["exec4", msg, caller, sub, kind, robust, ctor] => do
    pure (.exec4 (← parseNat? msg) (← parseNat? caller) (← parseHex? sub) (← parseKind? kind)
      (← parseHex? robust) (← parseCtor? ctor))
  | ["eamcreate", msg, caller, nonce, robust, ctor] => do
    pure (.eamCreate (← parseNat? msg) (← parseNat? caller) (← parseNat? nonce) (← parseHex? robust) (← parseCtor? ctor))
  | ["eamcreate2", msg, caller, salt, ih, robust, ctor] => do
    pure (.eamCreate2 (← parseNat? msg) (← parseNat? caller) (← parseHex? salt) (← parseHex? ih)
      (← parseHex? robust) (← parseCtor? ctor))
  | ["eamassign", msg, caller, addr, robust, ctor] => do
    pure (.eamAssign (← parseNat? msg) (← parseNat? caller) (← parseHex? addr) (← parseHex? robust) (← parseCtor? ctor))
  | ["createext", msg, caller, n, robust, ctor] => do
    pure (.createExternal (← parseNat? msg) (← parseNat? caller) (← parseNat? n) (← parseHex? robust) (← parseCtor? ctor))
  | ["evmcreate", msg, dep, endow, robust, ctor] => do
    pure (.evmCreate (← parseNat? msg) (← parseNat? dep) (← parseBool? endow) .create (← parseHex? robust) (← parseCtor? ctor))
  | ["evmcreate2", msg, dep, endow, salt, ih, robust, ctor] => do
    pure (.evmCreate (← parseNat? msg) (← parseNat? dep) (← parseBool? endow)
      (.create2 (← parseHex? salt) (← parseHex? ih)) (← parseHex? robust) (← parseCtor? ctor))
  | ["selfdestruct", msg, c] => do pure (.selfdestruct (← parseNat? msg) (← parseNat? c))
  | ["sendkey", msg, sender, addr] => do
    pure (.sendKey (← parseNat? msg) (← parseNat? sender) (← parseHex? addr))
  | ["senddel", msg, sender, ns, sub] => do
    pure (.sendDeleg (← parseNat? msg) (← parseNat? sender) (← parseNat? ns) (← parseHex? sub))
  | _ => none

/-- known-answer tests of the hash/RLP functions (a test, run by the harness on every start) -/
def selftest : Bool :=
  toHex (keccak256 []) = "c5d2460186f7233c927e7db2dcc703c0e500b653ca82273b7bfad8045d85a470" &&
  toHex (keccak256 "abc".toUTF8.toList) = "4e03657aea45a94fc7d47ba826c8d667c0d1e6e33a64a036ec44f58fa12d6c45" &&
  -- the vectors of actors/eam/src/lib.rs (test_create_address, test_create_address2)
  toHex (createAddr (List.replicate 20 0) 0) = "bd770416a3345f91e4b34576cb804a576fa48eb1" &&
  toHex (createAddr (List.replicate 20 0) 200) = "a6b14387c1356b443061155e9c3e17f72c1777e5" &&
  toHex (createAddr (List.replicate 20 123) 12345) = "809a9ab0471e78ee5100e96ca4d0828d1b97e2ba" &&
  toHex (create2Addr (List.replicate 20 0) (List.replicate 32 0) (keccak256 [])) = "e33c0c7f7df4809055c3eba6c09cfe4baf1bd9e0" &&
  toHex (create2Addr (List.replicate 20 0x99) (List.replicate 32 0x42) (keccak256 "foobar".toUTF8.toList)) =
    "64425c93a90901271fa355c2bc462190803b97d4"

def handle (w : World) (line : String) : World × String :=
  match words line with
  | ["init"] => (genesis, s!"ok | {showWorld genesis}")
  | ["show"] => (w, s!"ok - - | {showWorld w}")
  | ["selftest"] => (w, if selftest then "ok" else "FAILED")
  | ["keccak", h] =>
    match parseHex? h with
    | some b => (w, toHex (keccak256 b))
    | none => (w, "bad-op")
  | ["rlp", a, n] =>
    match parseHex? a, parseNat? n with
    | some a, some n => (w, toHex (rlpCreate a n))
    | _, _ => (w, "bad-op")
  | ["createaddr", a, n] =>
    match parseHex? a, parseNat? n with
    | some a, some n => (w, toHex (createAddr a n))
    | _, _ => (w, "bad-op")
  | ["create2addr", a, s, ih] =>
    match parseHex? a, parseHex? s, parseHex? ih with
    | some a, some s, some ih => (w, toHex (create2Addr a s ih))
    | _, _, _ => (w, "bad-op")
  | ws =>
    match parseOp ws with
    | none => (w, "bad-op")
    | some op =>
      let (w', out) := step w op
      (w', s!"{showOut out} | {showWorld w'}")

end Driver.Init
