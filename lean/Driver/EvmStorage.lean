import BA.Model.Evm.Storage
import Driver.Util
/-
  Line protocol of model "evmstorage" (C19).
    init <n>                                  → ok
    msg <origin> <nonce> <entry> <value> <tok>…  → <SPEC> || <IMPL>
  script tokens (prefix form): ss k v | sl k | ts k v | tl k | rv | sd b | lg t | ev i |
    c t v [ … ] | s t v [ … ] | d t v [ … ]     (call / static / delegate)
  state string: f=<flag> log=<w,…|-> st=<a:k:v;…|-> bal=<b0,…> dead=<d0,…> ev=<a:t;…|->
-/
namespace Driver.EvmStorage
open BA BA.Evm.Storage Driver

structure State where
  n : Nat
  w : SWorld
  vm : VM
  keys : List Nat

def State.init (n : Nat) : State := { n := n, w := SWorld.init, vm := VM.init, keys := [] }

/-- parse ops until `]` or end of input; returns the ops and the remaining tokens
    (fuel = number of tokens) -/
def parseOps : Nat → List String → Option (List Op × List String)
  | 0, _ => none
  | _ + 1, [] => some ([], [])
  | _ + 1, "]" :: rest => some ([], "]" :: rest)
  | fuel + 1, tok :: rest =>
    let one (op : Op) (rest : List String) : Option (List Op × List String) := do
      let (ops, r) ← parseOps fuel rest
      pure (op :: ops, r)
    let callOf (kind : Kind) (rest : List String) : Option (List Op × List String) :=
      match rest with
      | t :: v :: "[" :: rest' => do
        let (body, r) ← parseOps fuel rest'
        match r with
        | "]" :: r' => one (.call kind (← parseNat? t) (← parseNat? v) body) r'
        | _ => none
      | _ => none
    match tok, rest with
    | "ss", k :: v :: r => do one (.sstore (← parseNat? k) (← parseNat? v)) r
    | "sl", k :: r => do one (.sload (← parseNat? k)) r
    | "ts", k :: v :: r => do one (.tstore (← parseNat? k) (← parseNat? v)) r
    | "tl", k :: r => do one (.tload (← parseNat? k)) r
    | "rv", r => one .revert r
    | "sd", b :: r => do one (.selfdestruct (← parseNat? b)) r
    | "lg", t :: r => do one (.log (← parseNat? t)) r
    | "ev", i :: r => do one (.env (← parseNat? i)) r
    | "c", r => callOf .call r
    | "s", r => callOf .static r
    | "d", r => callOf .delegate r
    | _, _ => none

mutual
def keysOfOps : List Op → List Nat
  | [] => []
  | op :: rest => keysOfOp op ++ keysOfOps rest
def keysOfOp : Op → List Nat
  | .sstore k _ => [k]
  | .sload k => [k]
  | .call _ _ _ body => keysOfOps body
  | _ => []
end

def addKeys (ks : List Nat) (new : List Nat) : List Nat :=
  sortBy id (new.foldl (fun acc k => if acc.contains k then acc else k :: acc) ks)

def showNats (xs : List Nat) : String := showList (xs.map toString)

def showSemi (xs : List String) : String := if xs.isEmpty then "-" else joinWith ";" xs

def showState (n : Nat) (keys : List Nat) (res : Nat × List Nat) (stor : Nat → Nat → Nat)
    (bal : Nat → Nat) (dead : Nat → Bool) (evs : List (Nat × Nat)) : String :=
  let cs := List.range n
  let st := cs.flatMap (fun a => keys.filterMap (fun k =>
    let v := stor a k
    if v = 0 then none else some s!"{a}:{k}:{v}"))
  let b := cs.map (fun a => toString (bal a))
  let d := cs.map (fun a => if dead a then "1" else "0")
  let e := evs.map (fun (p : Nat × Nat) => s!"{p.1}:{p.2}")
  s!"f={res.1} log={showNats res.2} st={showSemi st} bal={joinWith "," b} dead={joinWith "," d} ev={showSemi e}"

def handle (s : State) (line : String) : State × String :=
  match words line with
  | ["init", n] =>
    match parseNat? n with
    | some n => (State.init n, "ok")
    | none => (s, "bad-op")
  | "msg" :: origin :: nonce :: entry :: value :: toks =>
    match parseNat? origin, parseNat? nonce, parseNat? entry, parseNat? value,
          parseOps (toks.length + 1) toks with
    | some origin, some nonce, some entry, some value, some (body, []) =>
      let m : Msg := { life := { origin := origin, nonce := nonce }, entry := entry, value := value, body := body }
      let keys := addKeys s.keys (keysOfOps body)
      let (rs, w') := specMsg s.w m
      let (ri, vm') := implMsg s.vm m
      let specStr := showState s.n keys rs w'.stor w'.bal w'.dead (w'.logs.drop s.w.logs.length)
      let implStr := showState s.n keys ri vm'.storageAt vm'.bal vm'.isDestroyed
        (vm'.events.drop s.vm.events.length)
      ({ s with w := w', vm := vm', keys := keys }, s!"{specStr} || {implStr}")
    | _, _, _, _, _ => (s, "bad-op")
  | _ => (s, "bad-op")

end Driver.EvmStorage
