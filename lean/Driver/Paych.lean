import BA.Model.Paych
import Driver.Util
namespace Driver.Paych
open BA BA.Paych Driver

def showState (s : State) : String :=
  if s.dead then "dead" else
  let lanes := (sortBy (fun (p : Nat × Lane) => p.1) s.lanes).map
    (fun (p : Nat × Lane) => s!"{p.1}:{p.2.redeemed}:{p.2.nonce}")
  s!"{if s.dead then 1 else 0} {s.toSend} {s.settlingAt} {s.minSettle} {s.balance} {showList lanes}"

def showOut : Out → String
  | .ok => "ok"
  | .paid p => s!"ok paid {p.toPayee} {p.toPayer}"
  | .err e => s!"err {e}"

def parseExtra? (s : String) : Option Extra :=
  if s = "0" then some .none else if s = "1" then some .ok else if s = "2" then some .fail else none

/-- update caller epoch value hasSig sigOk secretTooLong chanOk tlMin tlMax amount secretOk extra lane nonce minSettle merges -/
def parseOp (ws : List String) : Option Op :=
  match ws with
  | ["update", caller, epoch, value, hasSig, sigOk, stl, chanOk, tlMin, tlMax, amount, secretOk,
     extra, lane, nonce, minSettle, merges] => do
    let v : Voucher := {
      hasSig := ← parseBool? hasSig, sigOk := ← parseBool? sigOk,
      secretTooLong := ← parseBool? stl, chanOk := ← parseBool? chanOk,
      tlMin := ← parseInt? tlMin, tlMax := ← parseInt? tlMax, amount := ← parseInt? amount,
      secretOk := ← parseBool? secretOk, extra := ← parseExtra? extra,
      lane := ← parseNat? lane, nonce := ← parseNat? nonce, minSettle := ← parseInt? minSettle,
      merges := ← parseList? (parsePair? parseNat? parseNat?) merges }
    pure (.update (← parseNat? caller) (← parseInt? epoch) (← parseInt? value) v)
  | ["settle", caller, epoch, value] => do
    pure (.settle (← parseNat? caller) (← parseInt? epoch) (← parseInt? value))
  | ["collect", caller, epoch, value] => do
    pure (.collect (← parseNat? caller) (← parseInt? epoch) (← parseInt? value))
  | ["deposit", value] => do pure (.deposit (← parseInt? value))
  | _ => none

def handle (s : State) (line : String) : State × String :=
  match words line with
  | ["init", f, t] =>
    match parseNat? f, parseNat? t with
    | some f, some t => let s' := init f t; (s', s!"ok | {showState s'}")
    | _, _ => (s, "bad-op")
  | ws =>
    match parseOp ws with
    | none => (s, "bad-op")
    | some op =>
      let (s', out) := step s op
      (s', s!"{showOut out} | {showState s'}")

end Driver.Paych
