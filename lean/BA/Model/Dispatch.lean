/-
  C11 — the runtime's caller-validation state machine and method dispatch.

  Follows `runtime/src/dispatch.rs` (`actor_dispatch!` / `actor_dispatch_unrestricted!`),
  `runtime/src/builtin/shared.rs` (`restrict_internal_api`) and `runtime/src/runtime/fvm.rs`
  (`assert_not_validated`, `validate_immediate_caller_*`, `trampoline`):

    invoke_method(rt, method, args):
      [actor_dispatch! only]  restrict_internal_api(rt, method)?
      match Method::from_u64(method)      -- table lookup, `_ =>` fallback row, else unhandled_message
      handler(rt, args)                   -- contains exactly one validate_immediate_caller_* on its path
    trampoline: Err e ⇒ exit e;  Ok but flag unset ⇒ abort(USR_ASSERTION_FAILED);  Ok ⇒ return

  A handler is abstracted to a program over the runtime (`Prog`): caller validations, opaque steps
  (actor logic and other runtime calls, may fail) and state-dependent branches.  The handler of a
  table row is `validate term; body` (or `pre; validate term; body` where the translator saw a
  runtime interaction before the validation).  The world `σ`, `pre` and `body` are parameters,
  universally quantified in the theorems.  A failing message leaves the world unchanged (VM rollback).
-/
import BA.Prelude
import BA.Model.DispatchTerm
import BA.Generated.Methods
import BA.Generated.FvmRuntime

namespace BA.Dispatch

/-- What the runtime can observe about the immediate caller of a message. -/
structure Caller where
  /-- built-in type of the caller's code CID; `none` = not a built-in actor (or no code) -/
  code : Option CodeType
  /-- the address expressions (evaluated in the receiver's current state / message) that equal
      the caller's ID address, e.g. `[.system, .id0]` for f00, `[.owner, .beneficiary]` for the
      owner of a miner whose beneficiary is the owner -/
  atoms : List Atom
  /-- namespace manager of the caller's delegated (f4) address, if it has one -/
  ns : Option Actor
  deriving DecidableEq, Repr, Inhabited

/-- the set of callers a validation term accepts -/
def denote : VTerm → Caller → Bool
  | .any, _ => true
  | .is l, c => l.any (fun a => c.atoms.contains a)
  | .type l, c => match c.code with
    | some t => l.contains t
    | none => false
  | .namespace l, c => match c.ns with
    | some n => l.contains n
    | none => false
  | .alt a b, c => denote a c || denote b c

/-- runtime state during one invocation: the world, the `caller_validated` flag and a ghost log
    of the validations that accepted -/
structure Rt (σ : Type) where
  world : σ
  validated : Bool
  log : List VTerm

/-- `validate_immediate_caller_*` (fvm.rs): `assert_not_validated()?`, then the flag is set on
    the accepting branch only; the rejecting branch returns `forbidden` -/
def validateCall (t : VTerm) (c : Caller) (validated : Bool) : Except Err Unit :=
  if validated then .error .assertion
  else if denote t c then .ok ()
  else .error .forbidden

/-- handler programs -/
inductive Prog (σ : Type) where
  | done : Prog σ
  | validate (t : VTerm) (k : Prog σ) : Prog σ
  | step (f : σ → Except Err σ) (k : Prog σ) : Prog σ
  | branch (p : σ → Bool) (k₁ k₂ : Prog σ) : Prog σ

def Prog.run {σ : Type} : Prog σ → Caller → Rt σ → Except Err (Rt σ)
  | .done, _, r => .ok r
  | .validate t k, c, r =>
    match validateCall t c r.validated with
    | .error e => .error e
    | .ok () => k.run c { r with validated := true, log := r.log ++ [t] }
  | .step f k, c, r =>
    match f r.world with
    | .error e => .error e
    | .ok w => k.run c { r with world := w }
  | .branch p k₁ k₂, c, r => if p r.world then k₁.run c r else k₂.run c r

/-- `trampoline`: fresh runtime (flag unset); an error exits with that error; a successful return
    with the flag still unset aborts with `assertion_failed` -/
def trampoline {σ : Type} (p : Prog σ) (c : Caller) (w : σ) : Except Err σ :=
  match p.run c ⟨w, false, []⟩ with
  | .error e => .error e
  | .ok r => if r.validated then .ok r.world else .error .assertion

/-- the three generated tables (or the specified ones) -/
structure Tables where
  methods : List Entry
  fallbacks : List Fallback
  tables : List Table
  deriving DecidableEq, Repr

def genTables : Tables := ⟨Gen.methods, Gen.fallbacks, Gen.tables⟩

/-- `restrict_internal_api`: exported numbers pass; below, a caller without built-in code or
    whose type is in the rejecting arm (EVM) is `forbidden` -/
def restrictInternalApi (m : Nat) (c : Caller) : Except Err Unit :=
  if m ≥ Gen.firstExportedMethodNumber then .ok ()
  else match c.code with
    | none => .error .forbidden
    | some t => if Gen.riaRejectedTypes.contains t then .error .forbidden else .ok ()

def isRestricted (T : Tables) (a : Actor) : Bool :=
  match T.tables.find? (fun t => t.actor = a) with
  | some t => t.restricted
  | none => false

/-- `Method::from_u64(method)` then the dispatch row; `_ =>` row for every other number -/
def lookup (T : Tables) (a : Actor) (m : Nat) : Option (VTerm × Bool) :=
  match T.methods.find? (fun e => e.actor = a ∧ e.num = m) with
  | some e => some (e.term, e.first)
  | none =>
    match T.fallbacks.find? (fun f => f.actor = a) with
    | some f => some (f.term, f.first)
    | none => none

/-- actor logic around the validation: opaque, may fail, may change the world -/
structure Bodies (σ : Type) where
  pre : Actor → Nat → Caller → σ → Except Err σ
  body : Actor → Nat → Caller → σ → Except Err σ

def handlerProg {σ : Type} (t : VTerm) (first : Bool) (pre body : σ → Except Err σ) : Prog σ :=
  if first then .validate t (.step body .done)
  else .step pre (.validate t (.step body .done))

/-- one message to actor type `a`, method `m`, from caller `c`.  Method 0 is a plain value
    transfer handled by the VM: no actor code runs. -/
def invoke {σ : Type} (T : Tables) (B : Bodies σ) (a : Actor) (m : Nat) (c : Caller) (w : σ) :
    Except Err σ :=
  if m = 0 then .ok w
  else
    match (if isRestricted T a then restrictInternalApi m c else .ok ()) with
    | .error e => .error e
    | .ok () =>
      match lookup T a m with
      | none => .error .unhandled
      | some (t, first) => trampoline (handlerProg t first (B.pre a m c) (B.body a m c)) c w

/-- message application with the VM's rollback: the new world and the error, if any -/
def apply {σ : Type} (T : Tables) (B : Bodies σ) (a : Actor) (m : Nat) (c : Caller) (w : σ) :
    σ × Option Err :=
  match invoke T B a m c w with
  | .ok w' => (w', none)
  | .error e => (w, some e)

/-- Outcome class of a cell of the (actor, method, caller) matrix as far as it is determined by
    dispatch and validation alone (the body is opaque). -/
inductive Verdict where
  | send                 -- method 0
  | restricted           -- rejected by restrict_internal_api: forbidden
  | unhandled            -- no row, no fallback
  | rejected (first : Bool) -- validation fails (forbidden); `first = false`: an earlier step may fail first
  | passes (first : Bool)   -- validation accepts; the outcome is the body's
  deriving DecidableEq, Repr

def verdict (T : Tables) (a : Actor) (m : Nat) (c : Caller) : Verdict :=
  if m = 0 then .send
  else
    match (if isRestricted T a then restrictInternalApi m c else .ok ()) with
    | .error _ => .restricted
    | .ok () =>
      match lookup T a m with
      | none => .unhandled
      | some (t, first) => if denote t c then .passes first else .rejected first

end BA.Dispatch
