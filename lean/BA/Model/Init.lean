/-
  Model of actors/init/src/{lib,state}.rs (Exec, Exec4, map_addresses_to_id, can_exec), of the
  runtime's `create_actor` rule (harness/src/vvm/messaging.rs, mirroring ref-fvm: new actor, or
  placeholder → code swap, else forbidden) and of the VM's auto-creation of accounts/placeholders
  by plain sends (`resolve_target`).  The world is the init actor's `address_map`/`next_id` plus
  the state tree reduced to `id ↦ (kind, delegated address, EVM nonce, tombstone, key address)`.
  Environment answers (the robust address from `new_actor_address`, whether the constructor
  call succeeds) are inputs of each step.
-/
import BA.Prelude
import BA.Generated.Constants

namespace BA.Init
open BA

abbrev Bytes := List UInt8

/-! ### the address map: association list keyed by the address bytes (HAMT[Address]ActorID) -/

def klookup (k : Bytes) : List (Bytes × Nat) → Option Nat
  | [] => none
  | (k', v) :: t => if k' = k then some v else klookup k t

/-- builtin actor types (`runtime::builtins::Type`) plus `unknown` for a code cid that is not in
    the manifest -/
inductive Kind where
  | system | init | reward | cron | power | market | verifreg | datacap | eam
  | account | placeholder | ethaccount | evm | multisig | paych | miner | unknown
  deriving Repr, DecidableEq, Inhabited

/-- `NON_SINGLETON_CODES` of the vvm / `is_singleton_actor` of the FVM: what `create_actor` accepts -/
def Kind.creatable : Kind → Bool
  | .account | .paych | .multisig | .miner | .placeholder | .evm | .ethaccount => true
  | _ => false

structure Actor where
  kind : Kind
  /-- `delegated_address` of the state-tree entry: (namespace, subaddress) -/
  deleg : Option (Nat × Bytes) := none
  /-- EVM contract nonce (`evm::State::nonce`), 0 for other actors -/
  nonce : Nat := 0
  /-- EVM tombstone: the message in which the contract self-destructed -/
  tomb : Option Nat := none
  /-- ghost: how many times the contract at this id was resurrected -/
  inc : Nat := 0
  /-- account actor: its key address bytes -/
  keyAddr : Bytes := []
  deriving Repr, DecidableEq, Inhabited

structure World where
  addrMap : List (Bytes × Nat) := []
  nextId : Nat
  actors : List (Nat × Actor)
  deriving Repr, Inhabited

def eamId : Nat := BA.Gen.eamActorId
def powerId : Nat := BA.Gen.powerActorId

/-- the state `State::new` + the singleton actors of a fresh network -/
def genesis : World :=
  { addrMap := [], nextId := BA.Gen.firstNonSingletonAddr,
    actors := [(0, { kind := .system }), (1, { kind := .init }), (2, { kind := .reward }),
               (3, { kind := .cron }), (4, { kind := .power }), (5, { kind := .market }),
               (6, { kind := .verifreg }), (7, { kind := .datacap }), (10, { kind := .eam }),
               (99, { kind := .account, keyAddr := [0, 99] })] }

/-! ### address bytes -/

def leb128Aux : Nat → Nat → List UInt8
  | 0, _ => []
  | f + 1, n => if n < 128 then [UInt8.ofNat n] else UInt8.ofNat (n % 128 + 128) :: leb128Aux f (n / 128)

/-- unsigned varint of an actor id (u64: at most 10 groups) -/
def leb128 (n : Nat) : List UInt8 := leb128Aux 10 n

/-- bytes of the f4 address `(namespace, subaddress)`: `0x04 ‖ varint(ns) ‖ sub` -/
def delegatedKey (ns : Nat) (sub : Bytes) : Bytes := 4 :: (leb128 ns ++ sub)

/-! ### init actor -/

/-- `can_exec`: anyone may create multisigs and payment channels, only the power actor miners. -/
def canExec (caller exec : Kind) : Bool :=
  match exec with
  | .multisig => true
  | .paych => true
  | .miner => caller == .power
  | _ => false

/-- `State::map_addresses_to_id`.  Returns the new world, the id and `existing`. -/
def mapAddresses (w : World) (robust : Bytes) (deleg : Option Bytes) :
    Except Err (World × Nat × Bool) :=
  match deleg with
  | some d =>
    match klookup d w.addrMap with
    | some e =>
      -- recall the already-mapped id; robust address → that id (set_if_absent)
      if (klookup robust w.addrMap).isSome then .error .forbidden
      else .ok ({ w with addrMap := (robust, e) :: w.addrMap }, e, true)
    | none =>
      let m1 := (d, w.nextId) :: w.addrMap
      if (klookup robust m1).isSome then .error .forbidden
      else .ok ({ w with addrMap := (robust, w.nextId) :: m1, nextId := w.nextId + 1 }, w.nextId, false)
  | none =>
    if (klookup robust w.addrMap).isSome then .error .forbidden
    else .ok ({ w with addrMap := (robust, w.nextId) :: w.addrMap, nextId := w.nextId + 1 },
              w.nextId, false)

/-- the runtime's `create_actor`: only non-singleton builtin code; over nothing, or over a
    placeholder (code swap keeping the entry); anything else is forbidden. -/
def createActor (w : World) (code : Kind) (id : Nat) (deleg : Option (Nat × Bytes)) :
    Except Err World :=
  if !code.creatable then .error .assertion
  else match alookup id w.actors with
    | some a =>
      if a.kind = .placeholder then .ok { w with actors := aset id { a with kind := code } w.actors }
      else .error .forbidden
    | none => .ok { w with actors := aset id { kind := code, deleg := deleg } w.actors }

/-- what the constructor (for an EVM contract: the init code) does -/
inductive Ctor where
  | ok | fail | selfdestruct
  deriving Repr, DecidableEq, Inhabited

/-- effect of the constructor call on the new actor: an EVM contract starts with nonce 1
    (`System::new`), and carries a tombstone if its init code self-destructed. -/
def runCtor (w : World) (msg id : Nat) (c : Ctor) : Except Err World :=
  match c with
  | .fail => .error .illegalState
  | c =>
    match alookup id w.actors with
    | none => .error .assertion
    | some a =>
      if a.kind = .evm then
        let t : Option Nat := if c = .selfdestruct then some msg else none
        .ok { w with actors := aset id { a with nonce := 1, tomb := t } w.actors }
      else .ok w

/-- `Actor::exec`. -/
def exec (w : World) (msg caller : Nat) (code : Kind) (robust : Bytes) (ctor : Ctor) :
    Except Err (World × Nat) :=
  match alookup caller w.actors with
  | none => .error .forbidden
  | some ca =>
    -- `actor_dispatch!` → `restrict_internal_api`: Exec (method 2) is below the FRC-42 range, so
    -- the caller must be a built-in actor other than an EVM contract
    if ca.kind = .evm ∨ ca.kind = .unknown then .error .forbidden
    else if !canExec ca.kind code then .error .forbidden
    else match mapAddresses w robust none with
      | .error e => .error e
      | .ok (w1, id, existing) =>
        if existing then .error .forbidden
        else match createActor w1 code id none with
          | .error e => .error e
          | .ok w2 =>
            match runCtor w2 msg id ctor with
            | .error e => .error e
            | .ok w3 => .ok (w3, id)

/-- `MAX_SUBADDRESS_LEN` of fvm_shared (`Address::new_delegated` fails above it) -/
def maxSubaddressLen : Nat := 54

/-- the actor at `id` is missing (deleted) or is not a placeholder -/
def notPlaceholderAt (w : World) (id : Nat) : Bool :=
  match alookup id w.actors with
  | none => true
  | some a => a.kind != .placeholder

/-- `Actor::exec4`. -/
def exec4 (w : World) (msg caller : Nat) (sub : Bytes) (code : Kind) (robust : Bytes) (ctor : Ctor) :
    Except Err (World × Nat) :=
  if caller ≠ eamId then .error .forbidden
  else if sub.length > maxSubaddressLen then .error .illegalArgument
  else match mapAddresses w robust (some (delegatedKey caller sub)) with
    | .error e => .error e
    | .ok (w1, id, existing) =>
      -- a mapped f4 address must belong to a placeholder that still exists
      if existing && notPlaceholderAt w1 id then .error .forbidden
      else match createActor w1 code id (some (caller, sub)) with
        | .error e => .error e
        | .ok w2 =>
          match runCtor w2 msg id ctor with
          | .error e => .error e
          | .ok w3 => .ok (w3, id)

/-! ### the VM: auto-creation by plain sends, placeholder → EthAccount for a top-level sender -/

/-- `execute_message`: a placeholder that originates a message becomes an EthAccount. -/
def promote (w : World) (sender : Nat) : World :=
  match alookup sender w.actors with
  | some a => if a.kind = .placeholder then { w with actors := aset sender { a with kind := .ethaccount } w.actors }
              else w
  | none => w

/-- `resolve_target` for a key (f1/f3) address: existing → nothing to do, else a new account. -/
def sendKey (w : World) (addr : Bytes) : Except Err (World × Nat) :=
  match klookup addr w.addrMap with
  | some id => .ok (w, id)
  | none =>
    match mapAddresses w addr none with
    | .error e => .error e
    | .ok (w1, id, _) =>
      match createActor w1 .account id none with
      | .error e => .error e
      | .ok w2 =>
        match alookup id w2.actors with
        | none => .error .assertion
        | some a => .ok ({ w2 with actors := aset id { a with keyAddr := addr } w2.actors }, id)

/-- `resolve_target` for an f4 address: existing → nothing to do; else a placeholder, provided
    an actor exists at the namespace id. -/
def sendDeleg (w : World) (ns : Nat) (sub : Bytes) : Except Err (World × Nat) :=
  match klookup (delegatedKey ns sub) w.addrMap with
  | some id => .ok (w, id)
  | none =>
    if (alookup ns w.actors).isNone then .error .sysError
    else match mapAddresses w (delegatedKey ns sub) none with
      | .error e => .error e
      | .ok (w1, id, _) =>
        match createActor w1 .placeholder id (some (ns, sub)) with
        | .error e => .error e
        | .ok w2 => .ok (w2, id)

end BA.Init
