/-
  Model of the penalty / fee-debt side of the miner actor
  (actors/miner/src/{monies.rs, policy.rs, state.rs, lib.rs}), following the Rust control flow.

  * fee functions of monies.rs / policy.rs over `Int` (`div_floor` by a positive constant is Lean's
    `/` on `Int`, which rounds towards −∞ for a positive divisor).  The α-β filter estimates enter
    as opaque inputs (`cumSumRatio` = `smooth::extrapolated_cum_sum_of_ratio`, a Q.128 number).
  * the funds record `Funds` (actor balance, pre-commit deposits, locked = vesting total, initial
    pledge, fee debt).  The vesting table is abstract: its total is `lockedFunds`, and the part of
    it whose epoch is `< now` is the environment input `vested` of every step
    (`0 ≤ vested ≤ lockedFunds` is the table's invariant, property C14's domain).
  * `apply_penalty`, `repay_partial_debt_in_priority_order`, `repay_debts`,
    `check_balance_invariants` as in state.rs, and the messages that penalise or are gated by debt.
  Each step returns the new state, what was charged / burnt / sent to the reporter / sent to the
  beneficiary, and the list of sends (`Effect`).  A failing step changes nothing (VM rollback).
-/
import BA.Prelude
import BA.Generated.Constants

namespace BA.MinerPenalty
open BA

/-! ### fee functions (monies.rs, policy.rs) -/

/-- `expected_reward_for_power`: `BR(t)`.  `netPowerZero` = the smoothed network QA power estimate
    is zero; `rewardEst` = `reward_estimate.estimate()`; `cumSumRatio` = the extrapolated cumulative
    sum of reward/power over the projection period (Q.128). -/
def expectedRewardForPower (netPowerZero : Bool) (rewardEst cumSumRatio qaPower : Int) : Int :=
  if netPowerZero then rewardEst
  else max ((qaPower * cumSumRatio) / (2 ^ 128 : Int)) 0

/-- `pledge_penalty_for_continued_fault` = BR over `CONTINUED_FAULT_PROJECTION_PERIOD`
    (the period is baked into `cumSumRatio`). -/
def pledgePenaltyForContinuedFault (netPowerZero : Bool) (rewardEst cumSumRatio qaPower : Int) : Int :=
  expectedRewardForPower netPowerZero rewardEst cumSumRatio qaPower

/-- `pledge_penalty_for_termination(initial_pledge, sector_age, fault_fee)` (FIP-0098). -/
def pledgePenaltyForTermination (initialPledge sectorAge faultFee : Int) : Int :=
  let simple := initialPledge * Gen.termFeePledgeNum / Gen.termFeePledgeDenom
  let duration := sectorAge * simple / (Gen.terminationLifetimeCap * Gen.epochsInDay)
  let base := min simple duration
  let minAbs := initialPledge * Gen.termFeeMinPledgeNum / Gen.termFeeMinPledgeDenom
  let minFf := faultFee * Gen.termFeeMaxFaultFeeNum / Gen.termFeeMaxFaultFeeDenom
  max base (max minAbs minFf)

/-- `pledge_penalty_for_invalid_windowpost` = BR(invalid-post period) + 20 FIL. -/
def pledgePenaltyForInvalidWindowPost (br : Int) : Int :=
  br + Gen.basePenaltyForDisputedWindowPost

/-- `reward_for_disputed_window_post`: currently the 4 FIL base. -/
def rewardForDisputedWindowPost : Int := Gen.baseRewardForDisputedWindowPost

/-- `consensus_fault_penalty(this_epoch_reward)` -/
def consensusFaultPenalty (thisEpochReward : Int) : Int :=
  thisEpochReward * Gen.consensusFaultFactor / Gen.expectedLeadersPerEpoch

/-- `reward_for_consensus_slash_report(epoch_reward)` -/
def rewardForConsensusSlashReport (epochReward : Int) : Int :=
  epochReward / (Gen.expectedLeadersPerEpoch * Gen.consensusFaultReporterShare)

/-- `locked_reward_from_reward` (amount only) -/
def lockedRewardFromReward (reward : Int) : Int :=
  reward * Gen.lockedRewardFactorNum / Gen.lockedRewardFactorDenom

/-- `daily_proof_fee_payable(policy, daily_fee, estimated_day_reward)` -/
def dailyProofFeePayable (dailyFee dayReward : Int) : Int :=
  min (dayReward / Gen.dailyFeeBlockRewardCapDenom) dailyFee

/-! ### funds record and its operations (state.rs) -/

structure Funds where
  /-- actor balance kept by the VM (`rt.current_balance()`), message value already credited -/
  balance : Int
  /-- `pre_commit_deposits` -/
  pcd : Int
  /-- `locked_funds` = total of the vesting table -/
  lockedFunds : Int
  /-- `initial_pledge` -/
  initialPledge : Int
  /-- `fee_debt` -/
  feeDebt : Int
  deriving Repr, DecidableEq, Inhabited

structure MState where
  funds : Funds
  /-- `info.consensus_fault_elapsed` -/
  cfElapsed : Int := -1
  deriving Repr, DecidableEq, Inhabited

/-- whom a send goes to (roles, not addresses) -/
inductive Dest where
  | burnt | reporter | beneficiary | power | reward | market
  deriving Repr, DecidableEq, Inhabited

/-- a send made by the step; `ok = false` for a send that failed and was tolerated -/
structure Effect where
  dest : Dest
  value : Int
  ok : Bool
  deriving Repr, DecidableEq, Inhabited

/-- result of a step -/
structure Out where
  /-- penalty/fee amounts added to fee debt by `apply_penalty` in this step -/
  charged : Int := 0
  /-- value transferred to the burnt-funds actor -/
  burnt : Int := 0
  /-- value actually transferred to the reporter -/
  toReporter : Int := 0
  /-- value transferred to the beneficiary (withdrawal) -/
  toBeneficiary : Int := 0
  /-- charged value that was taken off the fee debt but neither burnt nor paid out (finding F4) -/
  lost : Int := 0
  effects : List Effect := []
  deriving Repr, DecidableEq, Inhabited

/-- `State::apply_penalty` (callers map the error to illegal_state). -/
def applyPenalty (f : Funds) (p : Int) : Except Err Funds :=
  if p < 0 then .error .illegalState else .ok { f with feeDebt := f.feeDebt + p }

/-- `State::get_unlocked_balance(rt.current_balance())` -/
def getUnlockedBalance (f : Funds) : Except Err Int :=
  if f.balance - f.lockedFunds - f.pcd - f.initialPledge < 0 then .error .illegalState
  else .ok (f.balance - f.lockedFunds - f.pcd - f.initialPledge)

/-- `State::unlock_vested_and_unvested_funds(epoch, target)` over the abstract table:
    returns (funds', unlocked_unvested, total_unlocked). -/
def unlockVestedAndUnvested (f : Funds) (vested target : Int) : Except Err (Funds × Int × Int) :=
  if target = 0 ∨ f.lockedFunds = 0 then .ok (f, 0, 0)
  else
    let unvested := min target (f.lockedFunds - vested)
    let total := vested + unvested
    if f.lockedFunds - total < 0 then .error .illegalState
    else .ok ({ f with lockedFunds := f.lockedFunds - total }, unvested, total)

/-- vested part of the table that is still in it after `repay_partial_debt_in_priority_order` ran on `f` -/
def vestedLeft (f : Funds) (vested : Int) : Int :=
  if f.feeDebt = 0 ∨ f.lockedFunds = 0 then vested else 0

/-- `State::repay_partial_debt_in_priority_order`: unlock vesting funds up to the debt, then pay
    `min(unlocked balance, debt)`.  Returns (funds', to_burn, total_unlocked). -/
def repayPartial (f : Funds) (vested : Int) : Except Err (Funds × Int × Int) :=
  match unlockVestedAndUnvested f vested f.feeDebt with
  | .error e => .error e
  | .ok (f1, fromVesting, total) =>
    if fromVesting > f1.feeDebt then .error .illegalState
    else match getUnlockedBalance f1 with
      | .error e => .error e
      | .ok u => .ok ({ f1 with feeDebt := f1.feeDebt - min u f1.feeDebt }, min u f1.feeDebt, total)

/-- `State::repay_debts`: all or nothing. Returns (funds', amount to burn). -/
def repayDebts (f : Funds) : Except Err (Funds × Int) :=
  match getUnlockedBalance f with
  | .error e => .error e
  | .ok u =>
    if u < f.feeDebt then .error .insufficientFunds
    else .ok ({ f with feeDebt := 0 }, f.feeDebt)

/-- `State::unlock_vested_funds` -/
def unlockVested (f : Funds) (vested : Int) : Except Err (Funds × Int) :=
  if f.lockedFunds = 0 then .ok (f, 0)
  else if f.lockedFunds - vested < 0 then .error .illegalState
  else .ok ({ f with lockedFunds := f.lockedFunds - vested }, vested)

/-- `State::check_balance_invariants` -/
def checkBalanceInvariants (f : Funds) : Except Err Unit :=
  if f.pcd < 0 ∨ f.lockedFunds < 0 ∨ f.initialPledge < 0 ∨ f.feeDebt < 0 then .error .illegalState
  else if f.balance < f.pcd + f.lockedFunds + f.initialPledge then .error .illegalState
  else .ok ()

/-- `burn_funds`: a send to the burnt-funds actor when the amount is positive; its failure
    (the VM refuses a transfer above the balance) aborts the message.
    Returns (funds', value burnt, effects). -/
def burn (f : Funds) (amt : Int) : Except Err (Funds × Int × List Effect) :=
  if amt > 0 then
    if amt > f.balance then .error .insufficientFunds
    else .ok ({ f with balance := f.balance - amt }, amt, [⟨.burnt, amt, true⟩])
  else .ok (f, 0, [])

/-- `notify_pledge_changed`: `UpdatePledgeTotal` to the power actor when the delta is non-zero;
    `pledgeOk` is the power actor's answer; a failure aborts the message. -/
def notifyPledge (delta : Int) (pledgeOk : Bool) : Except Err (List Effect) :=
  if delta ≠ 0 then
    if pledgeOk then .ok [⟨.power, 0, true⟩] else .error .illegalState
  else .ok []

/-! ### penalising steps (lib.rs) -/

/-- one early-terminated sector as `process_early_terminations` sees it -/
structure TermSector where
  pledge : Int
  age : Int
  /-- `pledge_penalty_for_continued_fault` of the sector's QA power -/
  faultFee : Int
  deriving Repr, DecidableEq, Inhabited

def termFees : List TermSector → Int
  | [] => 0
  | s :: t => pledgePenaltyForTermination s.pledge s.age s.faultFee + termFees t

def termPledges : List TermSector → Int
  | [] => 0
  | s :: t => s.pledge + termPledges t

/-- `process_early_terminations` (funds side).  `sectors` = what `pop_early_terminations` returned;
    an empty result does nothing. -/
def processEarlyTerminations (f : Funds) (vested : Int) (sectors : List TermSector) (pledgeOk : Bool) :
    Except Err (Funds × Out) :=
  if sectors = [] then .ok (f, {})
  else
    let totalPenalty := termFees sectors
    let totalPledge := termPledges sectors
    match applyPenalty f totalPenalty with
    | .error e => .error e
    | .ok f1 =>
      -- add_initial_pledge(-total_initial_pledge)
      if f1.initialPledge - totalPledge < 0 then .error .illegalState
      else
        let f2 := { f1 with initialPledge := f1.initialPledge - totalPledge }
        match repayPartial f2 vested with
        | .error e => .error e
        | .ok (f3, penalty, totalUnlocked) =>
          match burn f3 penalty with
          | .error e => .error e
          | .ok (f4, burntAmt, eff1) =>
            match notifyPledge (-totalPledge - totalUnlocked) pledgeOk with
            | .error e => .error e
            | .ok eff2 =>
              -- request_terminate_deals: a send of value 0 to the market
              .ok (f4, { charged := totalPenalty, burnt := burntAmt,
                         effects := eff1 ++ eff2 ++ [⟨.market, 0, true⟩] })

structure TermEnv where
  vested : Int
  /-- parameters well-formed, caller is a control address, deadlines mutable, sectors live -/
  allowed : Bool
  sectors : List TermSector
  pledgeOk : Bool
  deriving Repr, DecidableEq, Inhabited

/-- `terminate_sectors` (funds side): the termination fee of the sectors processed at once. -/
def terminateSectors (s : MState) (e : TermEnv) : Except Err (MState × Out) :=
  if !e.allowed then .error .illegalArgument
  else match processEarlyTerminations s.funds e.vested e.sectors e.pledgeOk with
    | .error err => .error err
    | .ok (f1, out) =>
      match checkBalanceInvariants f1 with
      | .error err => .error err
      | .ok () => .ok ({ s with funds := f1 }, out)

structure DlEnv where
  vested : Int
  /-- deposits of the pre-commits expiring at this deadline (`cleanup_expired_pre_commits`) -/
  expiredDeposit : Int
  /-- pledge of the sectors expiring on time (`advance_deadline`) -/
  onTimePledge : Int
  /-- `pledge_penalty_for_continued_fault(previously_faulty_power.qa)` -/
  faultPenalty : Int
  /-- `deadline.daily_fee` and the estimated day reward of the live power -/
  dailyFee : Int
  dayReward : Int
  /-- early terminations processed in the same callback (faults older than `fault_max_age`) -/
  terminated : List TermSector
  pledgeOk : Bool
  deriving Repr, DecidableEq, Inhabited

/-- `handle_proving_deadline` (funds side): expired pre-commit deposits, continued-fault fee and
    daily fee are applied as penalties, then repaid as far as possible; vested funds unlock. -/
def deadlineEnd (s : MState) (e : DlEnv) : Except Err (MState × Out) :=
  let f := s.funds
  -- cleanup_expired_pre_commits
  if f.pcd - e.expiredDeposit < 0 then .error .illegalState
  else match applyPenalty { f with pcd := f.pcd - e.expiredDeposit } e.expiredDeposit with
  | .error err => .error err
  | .ok f1 =>
    -- advance_deadline: add_initial_pledge(-on_time_pledge)
    if f1.initialPledge - e.onTimePledge < 0 then .error .illegalState
    else match applyPenalty { f1 with initialPledge := f1.initialPledge - e.onTimePledge } e.faultPenalty with
    | .error err => .error err
    | .ok f2 =>
      let fee := if e.dailyFee > 0 then dailyProofFeePayable e.dailyFee e.dayReward else 0
      match applyPenalty f2 fee with
      | .error err => .error err
      | .ok f3 =>
        match repayPartial f3 e.vested with
        | .error err => .error err
        | .ok (f4, penalty, totalUnlocked) =>
          match unlockVested f4 (vestedLeft f3 e.vested) with
          | .error err => .error err
          | .ok (f5, newlyVested) =>
            match burn f5 penalty with
            | .error err => .error err
            | .ok (f6, burntAmt, eff1) =>
              match notifyPledge (-e.onTimePledge - totalUnlocked - newlyVested) e.pledgeOk with
              | .error err => .error err
              | .ok eff2 =>
                let out1 : Out := { charged := e.expiredDeposit + e.faultPenalty + fee,
                                    burnt := burntAmt, effects := ⟨.power, 0, true⟩ :: (eff1 ++ eff2) }
                -- process_early_terminations when the callback created new early terminations
                match processEarlyTerminations f6 0 e.terminated e.pledgeOk with
                | .error err => .error err
                | .ok (f7, out2) =>
                  .ok ({ s with funds := f7 },
                       { charged := out1.charged + out2.charged, burnt := out1.burnt + out2.burnt,
                         effects := out1.effects ++ out2.effects })

structure DisputeEnv where
  vested : Int
  /-- deadline index valid, inside the dispute window, proof found and found invalid -/
  disputable : Bool
  /-- BR(disputed power, INVALID_WINDOW_POST_PROJECTION_PERIOD) -/
  br : Int
  rewardSendOk : Bool
  pledgeOk : Bool
  deriving Repr, DecidableEq, Inhabited

/-- `dispute_windowed_post` (funds side). -/
def disputeWindowedPost (s : MState) (e : DisputeEnv) : Except Err (MState × Out) :=
  if !e.disputable then .error .illegalArgument
  else
    let penaltyBase := pledgePenaltyForInvalidWindowPost e.br
    let rewardTarget := rewardForDisputedWindowPost
    let penaltyTarget := penaltyBase + rewardTarget
    match applyPenalty s.funds penaltyTarget with
    | .error err => .error err
    | .ok f1 =>
      match repayPartial f1 e.vested with
      | .error err => .error err
      | .ok (f2, toBurn0, totalUnlocked) =>
        let toReward := min toBurn0 rewardTarget
        let toBurn := toBurn0 - toReward
        -- the reward is sent only when non-zero; a failing send adds it back to the burn
        let attempted := toReward ≠ 0
        let sent := attempted && e.rewardSendOk && decide (0 ≤ toReward ∧ toReward ≤ f2.balance)
        let f3 := if sent then { f2 with balance := f2.balance - toReward } else f2
        let toBurn' := if attempted && !sent then toBurn + toReward else toBurn
        match burn f3 toBurn' with
        | .error err => .error err
        | .ok (f4, burntAmt, eff1) =>
          match notifyPledge (-totalUnlocked) e.pledgeOk with
          | .error err => .error err
          | .ok eff2 =>
            match checkBalanceInvariants f4 with
            | .error err => .error err
            | .ok () =>
              .ok ({ s with funds := f4 },
                   { charged := penaltyTarget, burnt := burntAmt,
                     toReporter := if sent then toReward else 0,
                     effects := ⟨.power, 0, true⟩ ::
                       ((if attempted then [⟨.reporter, toReward, sent⟩] else []) ++ eff1 ++ eff2) })

structure CfEnv where
  vested : Int
  /-- `verify_consensus_fault` returned a fault -/
  faultVerified : Bool
  /-- `fault.target == receiver` -/
  targetIsSelf : Bool
  currEpoch : Int
  faultEpoch : Int
  /-- `this_epoch_reward_smoothed.estimate()` -/
  thisEpochReward : Int
  rewardSendOk : Bool
  pledgeOk : Bool
  deriving Repr, DecidableEq, Inhabited

/-- `report_consensus_fault`.  The reward transfer is attempted unconditionally (even for 0) and
    its failure is only logged.  `Gen.cfBurnsUnsentReward` records (translator, from the source
    text) whether the failure branch adds the unsent reward back to the burn; in the unrepaired
    code it does not, and the amount — already taken off `fee_debt` — stays with the miner. -/
def reportConsensusFault (s : MState) (e : CfEnv) : Except Err (MState × Out) :=
  if !e.faultVerified then .error .illegalArgument
  else if !e.targetIsSelf then .error .illegalArgument
  else if e.currEpoch - e.faultEpoch ≤ 0 then .error .illegalArgument
  else
    let faultPenalty := consensusFaultPenalty e.thisEpochReward
    let slasherReward := rewardForConsensusSlashReport e.thisEpochReward
    if e.faultEpoch < s.cfElapsed then .error .forbidden
    else match applyPenalty s.funds faultPenalty with
    | .error err => .error err
    | .ok f1 =>
      match repayPartial f1 e.vested with
      | .error err => .error err
      | .ok (f2, burn0, totalUnlocked) =>
        let rewardAmount := min burn0 slasherReward
        let burnAmount := burn0 - rewardAmount
        let sent := e.rewardSendOk && decide (0 ≤ rewardAmount ∧ rewardAmount ≤ f2.balance)
        let f3 := if sent then { f2 with balance := f2.balance - rewardAmount } else f2
        let addBack := !sent && Gen.cfBurnsUnsentReward
        let burnAmount' := if addBack then burnAmount + rewardAmount else burnAmount
        match burn f3 burnAmount' with
        | .error err => .error err
        | .ok (f4, burntAmt, eff1) =>
          match notifyPledge (-totalUnlocked) e.pledgeOk with
          | .error err => .error err
          | .ok eff2 =>
            match checkBalanceInvariants f4 with
            | .error err => .error err
            | .ok () =>
              .ok ({ funds := f4, cfElapsed := e.currEpoch + Gen.consensusFaultIneligibilityDuration },
                   { charged := faultPenalty, burnt := burntAmt,
                     toReporter := if sent then rewardAmount else 0,
                     lost := if !sent && !Gen.cfBurnsUnsentReward then rewardAmount else 0,
                     effects := ⟨.reward, 0, true⟩ :: ⟨.reporter, rewardAmount, sent⟩ :: (eff1 ++ eff2) })

structure RewardEnv where
  vested : Int
  /-- caller is the reward actor, amounts non-negative -/
  allowed : Bool
  /-- block reward; arrives as the value of the message (already in `balance`) -/
  reward : Int
  penalty : Int
  pledgeOk : Bool
  deriving Repr, DecidableEq, Inhabited

/-- `apply_rewards`: lock 75 % of the reward, charge the block penalty, repay what can be repaid. -/
def applyRewards (s : MState) (e : RewardEnv) : Except Err (MState × Out) :=
  if e.reward < 0 then .error .illegalArgument
  else if e.penalty < 0 then .error .illegalArgument
  else if !e.allowed then .error .forbidden
  else
    let toLock := lockedRewardFromReward e.reward
    match getUnlockedBalance s.funds with
    | .error err => .error err
    | .ok u =>
      if u < toLock then .error .insufficientFunds
      else if toLock < 0 then .error .illegalState
      else
        -- add_locked_funds: vested entries leave the table, the new schedule enters it
        let unlocked := e.vested
        if s.funds.lockedFunds - unlocked < 0 then .error .illegalState
        else
          let f1 := { s.funds with lockedFunds := s.funds.lockedFunds - unlocked + toLock }
          match applyPenalty f1 e.penalty with
          | .error err => .error err
          | .ok f2 =>
            match repayPartial f2 0 with
            | .error err => .error err
            | .ok (f3, toBurn, totalUnlocked) =>
              match notifyPledge (toLock - unlocked - totalUnlocked) e.pledgeOk with
              | .error err => .error err
              | .ok eff2 =>
                match burn f3 toBurn with
                | .error err => .error err
                | .ok (f4, burntAmt, eff1) =>
                  match checkBalanceInvariants f4 with
                  | .error err => .error err
                  | .ok () =>
                    .ok ({ s with funds := f4 },
                         { charged := e.penalty, burnt := burntAmt, effects := eff2 ++ eff1 })

/-! ### methods gated by fee debt -/

structure WdEnv where
  vested : Int
  /-- caller is the owner or the beneficiary -/
  callerOk : Bool
  earlyTerminationsPending : Bool
  amountRequested : Int
  /-- `Some q`: beneficiary ≠ owner with remaining quota `q`; `none`: beneficiary = owner -/
  quota : Option Int
  pledgeOk : Bool
  deriving Repr, DecidableEq, Inhabited

/-- `withdraw_balance` -/
def withdrawBalance (s : MState) (e : WdEnv) : Except Err (MState × Out) :=
  if e.amountRequested < 0 then .error .illegalArgument
  else if !e.callerOk then .error .forbidden
  else if e.earlyTerminationsPending then .error .forbidden
  else match unlockVested s.funds e.vested with
  | .error err => .error err
  | .ok (f1, newlyVested) =>
    match getUnlockedBalance f1 with
    | .error err => .error err
    | .ok u =>
      let available := u - f1.feeDebt
      match repayDebts f1 with
      | .error err => .error err
      | .ok (f2, feeToBurn) =>
        let amt := min available e.amountRequested
        if amt < 0 then .error .illegalState
        else
          let withdrawn : Except Err Int :=
            match e.quota with
            | none => .ok amt
            | some q => if q = 0 then .error .forbidden else .ok (min amt q)
          match withdrawn with
          | .error err => .error err
          | .ok w =>
            -- the transfer to the beneficiary aborts the message when it fails
            if w > f2.balance then .error .insufficientFunds
            else
              let f3 := if w > 0 then { f2 with balance := f2.balance - w } else f2
              match burn f3 feeToBurn with
              | .error err => .error err
              | .ok (f4, burntAmt, eff1) =>
                match notifyPledge (-newlyVested) e.pledgeOk with
                | .error err => .error err
                | .ok eff2 =>
                  match checkBalanceInvariants f4 with
                  | .error err => .error err
                  | .ok () =>
                    .ok ({ s with funds := f4 },
                         { burnt := burntAmt, toBeneficiary := if w > 0 then w else 0,
                           effects := (if w > 0 then [⟨.beneficiary, w, true⟩] else []) ++ eff1 ++ eff2 })

structure PcEnv where
  /-- parameters pass the per-sector checks, market verifies the deals -/
  paramsOk : Bool
  /-- caller is a control address -/
  callerOk : Bool
  currEpoch : Int
  /-- total pre-commit deposit of the batch -/
  deposit : Int
  deriving Repr, DecidableEq, Inhabited

/-- `consensus_fault_active` -/
def consensusFaultActive (s : MState) (currEpoch : Int) : Bool := decide (currEpoch ≤ s.cfElapsed)

/-- `pre_commit_sector_batch_inner` (funds side) -/
def preCommit (s : MState) (e : PcEnv) : Except Err (MState × Out) :=
  if !e.paramsOk then .error .illegalArgument
  else match getUnlockedBalance s.funds with
  | .error err => .error err
  | .ok u =>
    let available := u - s.funds.feeDebt
    match repayDebts s.funds with
    | .error err => .error err
    | .ok (f1, feeToBurn) =>
      if !e.callerOk then .error .forbidden
      else if consensusFaultActive s e.currEpoch then .error .forbidden
      else if available < e.deposit then .error .insufficientFunds
      else if f1.pcd + e.deposit < 0 then .error .illegalState
      else
        let f2 := { f1 with pcd := f1.pcd + e.deposit }
        match burn f2 feeToBurn with
        | .error err => .error err
        | .ok (f3, burntAmt, eff1) =>
          match checkBalanceInvariants f3 with
          | .error err => .error err
          | .ok () => .ok ({ s with funds := f3 }, { burnt := burntAmt, effects := eff1 })

structure DrEnv where
  paramsOk : Bool
  callerOk : Bool
  currEpoch : Int
  /-- the declaration itself is acceptable (deadline open, sectors faulty, …) -/
  declarationOk : Bool
  deriving Repr, DecidableEq, Inhabited

/-- `declare_faults_recovered` (funds side) -/
def declareFaultsRecovered (s : MState) (e : DrEnv) : Except Err (MState × Out) :=
  if !e.paramsOk then .error .illegalArgument
  else match repayDebts s.funds with
  | .error err => .error err
  | .ok (f1, feeToBurn) =>
    if !e.callerOk then .error .forbidden
    else if consensusFaultActive s e.currEpoch then .error .forbidden
    else if !e.declarationOk then .error .illegalArgument
    else match burn f1 feeToBurn with
      | .error err => .error err
      | .ok (f2, burntAmt, eff1) =>
        match checkBalanceInvariants f2 with
        | .error err => .error err
        | .ok () => .ok ({ s with funds := f2 }, { burnt := burntAmt, effects := eff1 })

structure RdEnv where
  vested : Int
  callerOk : Bool
  pledgeOk : Bool
  deriving Repr, DecidableEq, Inhabited

/-- `repay_debt` -/
def repayDebt (s : MState) (e : RdEnv) : Except Err (MState × Out) :=
  if !e.callerOk then .error .forbidden
  else match repayPartial s.funds e.vested with
  | .error err => .error err
  | .ok (f1, burnAmount, totalUnlocked) =>
    match notifyPledge (-totalUnlocked) e.pledgeOk with
    | .error err => .error err
    | .ok eff2 =>
      match burn f1 burnAmount with
      | .error err => .error err
      | .ok (f2, burntAmt, eff1) =>
        match checkBalanceInvariants f2 with
        | .error err => .error err
        | .ok () => .ok ({ s with funds := f2 }, { burnt := burntAmt, effects := eff2 ++ eff1 })

/-! ### histories -/

/-- well-formed funds: what `check_balance_invariants` demands -/
def WF (f : Funds) : Prop :=
  0 ≤ f.pcd ∧ 0 ≤ f.lockedFunds ∧ 0 ≤ f.initialPledge ∧ 0 ≤ f.feeDebt ∧
  f.pcd + f.lockedFunds + f.initialPledge ≤ f.balance

instance (f : Funds) : Decidable (WF f) := by unfold WF; infer_instance

inductive Op where
  | deadlineEnd (e : DlEnv)
  | dispute (e : DisputeEnv)
  | reportCF (e : CfEnv)
  | terminate (e : TermEnv)
  | applyRewards (e : RewardEnv)
  | withdraw (e : WdEnv)
  | preCommit (e : PcEnv)
  | declareRecovered (e : DrEnv)
  | repayDebt (e : RdEnv)
  /-- everything else that happens to a miner (deposits, prove-commit moving deposit to pledge,
      pledge release on expiry, …): any change of balance and ledgers that leaves the fee debt
      alone and keeps the funds well-formed -/
  | other (f' : Funds)
  deriving Repr, Inhabited

/-- the vested amount the op's environment claims -/
def Op.vested : Op → Int
  | .deadlineEnd e => e.vested | .dispute e => e.vested | .reportCF e => e.vested
  | .terminate e => e.vested | .applyRewards e => e.vested | .withdraw e => e.vested
  | .repayDebt e => e.vested | _ => 0

def exec (s : MState) : Op → Except Err (MState × Out)
  | .deadlineEnd e => deadlineEnd s e
  | .dispute e => disputeWindowedPost s e
  | .reportCF e => reportConsensusFault s e
  | .terminate e => terminateSectors s e
  | .applyRewards e => applyRewards s e
  | .withdraw e => withdrawBalance s e
  | .preCommit e => preCommit s e
  | .declareRecovered e => declareFaultsRecovered s e
  | .repayDebt e => repayDebt s e
  | .other f' =>
    if f'.feeDebt = s.funds.feeDebt ∧ WF f' then .ok ({ s with funds := f' }, {})
    else .error .illegalArgument

/-- One message.  A failing message changes nothing (VM rollback). -/
def step (s : MState) (op : Op) : MState × Except Err Out :=
  match exec s op with
  | .ok (s', o) => (s', .ok o)
  | .error e => (s, .error e)

/-- running totals over a history -/
structure Ledger where
  charged : Int := 0
  burnt : Int := 0
  toReporter : Int := 0
  lost : Int := 0
  deriving Repr, DecidableEq, Inhabited

def Ledger.add (l : Ledger) (o : Out) : Ledger :=
  { charged := l.charged + o.charged, burnt := l.burnt + o.burnt,
    toReporter := l.toReporter + o.toReporter, lost := l.lost + o.lost }

def run (s : MState) (l : Ledger) : List Op → MState × Ledger
  | [] => (s, l)
  | op :: rest =>
    match step s op with
    | (s', .ok o) => run s' (l.add o) rest
    | (s', .error _) => run s' l rest

/-- the environment's vested amounts are consistent with the vesting table along the history -/
def HistOk (s : MState) : List Op → Prop
  | [] => True
  | op :: rest => (0 ≤ op.vested ∧ op.vested ≤ s.funds.lockedFunds) ∧ HistOk (step s op).1 rest

end BA.MinerPenalty
