/-
  Finite sets of naturals (the model of `fvm_ipld_bitfield::BitField`): duplicate-free lists.
  The operations are written with `filter`/`++` so that membership and `Nodup` lemmas are one-liners
  (BA/Lemmas/NatSet.lean); the driver sorts a set when it prints it, so the list order is never
  observable.  No imports beyond the prelude (model files must link into the driver).
-/
import BA.Prelude

namespace BA

abbrev NatSet := List Nat

namespace NatSet

/-- `a & b` -/
def inter (a b : NatSet) : NatSet := a.filter (fun x => decide (x ∈ b))
/-- `a - b` -/
def diff (a b : NatSet) : NatSet := a.filter (fun x => !decide (x ∈ b))
/-- `a | b` -/
def union (a b : NatSet) : NatSet := a ++ diff b a
/-- `a.contains_all(b)` -/
def containsAll (a b : NatSet) : Bool := b.all (fun x => decide (x ∈ a))
/-- `a.contains_any(b)` -/
def containsAny (a b : NatSet) : Bool := b.any (fun x => decide (x ∈ a))
/-- `BitField::try_from_bits`: forget order and multiplicity -/
def ofList : List Nat → NatSet
  | [] => []
  | x :: t => if x ∈ t then ofList t else x :: ofList t

/-- insertion sort, used only to print canonically / to iterate in ascending order -/
def insertSorted (x : Nat) : List Nat → List Nat
  | [] => [x]
  | y :: t => if x ≤ y then x :: y :: t else y :: insertSorted x t
def sort (l : List Nat) : List Nat := l.foldr insertSorted []

end NatSet

/-- Σ f over a list -/
def sumBy {α : Type} (f : α → Int) : List α → Int
  | [] => 0
  | x :: t => f x + sumBy f t

end BA
