/-
  Model of the epoch cron: cron actor `epoch_tick` (actors/cron/src/lib.rs), the power actor's
  deferred-event queue (`enroll_cron_event`, `process_deferred_cron_events`), and the miner's
  proving-deadline schedule (`deadline_info` from offset and epoch, `advance_deadline`, activation
  in pre-commit, continuation in `handle_proving_deadline`).
-/
import BA.Prelude
import BA.Generated.Constants

namespace BA.Cron
open BA

def period : Int := BA.Gen.wpostProvingPeriod
def window : Int := BA.Gen.wpostChallengeWindow
def nDeadlines : Int := BA.Gen.wpostPeriodDeadlines

/-- `QuantSpec::quantize_up` (Rust `/` and `%` on i64 truncate towards zero) -/
def quantizeUp (unit offset e : Int) : Int :=
  let off := offset.tmod unit
  let r := (e - off).tmod unit
  let q := (e - off).tdiv unit
  if r = 0 ∨ e - off < 0 then unit * q + off else unit * (q + 1) + off

/-- `QuantSpec::quantize_down` -/
def quantizeDown (unit offset e : Int) : Int :=
  let n := quantizeUp unit offset e
  if e = n then n else n - unit

/-- period start and deadline index of `new_deadline_info_from_offset_and_epoch` -/
def periodStartOf (pps e : Int) : Int := quantizeDown period pps e
def deadlineIdxOf (pps e : Int) : Int := (e - periodStartOf pps e).tdiv window

/-- the schedule part of a miner's state -/
structure Sched where
  pps : Int
  cur : Int
  cronActive : Bool
  deriving Repr, DecidableEq, Inhabited

def Sched.openEpoch (m : Sched) : Int := m.pps + m.cur * window
def Sched.closeEpoch (m : Sched) : Int := m.openEpoch + window
/-- last epoch of the deadline that contains `e` according to the offset (`deadline_info(e).last()`) -/
def lastOf (pps e : Int) : Int := periodStartOf pps e + deadlineIdxOf pps e * window + window - 1

/-- the schedule bookkeeping of `advance_deadline` at epoch `e` -/
def advance (m : Sched) (e : Int) : Sched :=
  let ps := periodStartOf m.pps e
  if e < ps then m
  else
    let cur' := (deadlineIdxOf m.pps e + 1) % nDeadlines
    { m with cur := cur', pps := if cur' = 0 then ps + period else m.pps }

/-- a queued event: (epoch, miner, type) with type 1 = proving deadline -/
abbrev Event := Int × Nat × Nat

structure Power where
  queue : List Event := []
  firstCronEpoch : Int := 0
  claims : List Nat := []
  deriving Repr, Inhabited

def enroll (p : Power) (epoch : Int) (miner ty : Nat) : Except Err Power :=
  if epoch < 0 then .error .illegalArgument
  else .ok { p with queue := p.queue ++ [(epoch, miner, ty)],
                    firstCronEpoch := if epoch < p.firstCronEpoch then epoch else p.firstCronEpoch }

structure World where
  power : Power := {}
  miners : List (Nat × Sched) := []
  deriving Repr, Inhabited

/-- pre-commit (or non-interactive prove-commit) at epoch `e`: activates the deadline cron if it
    is not active -/
def activate (w : World) (m : Nat) (e : Int) : World :=
  match alookup m w.miners with
  | none => w
  | some s =>
    if s.cronActive then w
    else match enroll w.power (lastOf s.pps e) m 1 with
      | .error _ => w
      | .ok p => { power := p, miners := aset m { s with cronActive := true } w.miners }

/-- the proving-deadline callback of miner `m` at epoch `e`; `funds` = `continue_deadline_cron`
    after the callback's bookkeeping; `fails` = the callback aborts (its effects are rolled back) -/
def callback (w : World) (m : Nat) (e : Int) (funds fails : Bool) : World :=
  if fails then
    -- power deletes the claim of a miner whose callback failed
    { w with power := { w.power with claims := w.power.claims.filter (· ≠ m) } }
  else match alookup m w.miners with
    | none => w
    | some s =>
      let s1 := advance s e
      if funds then
        match enroll w.power (lastOf s1.pps (e + 1)) m 1 with
        | .error _ => w
        | .ok p => { power := p, miners := aset m s1 w.miners }
      else { w with miners := aset m { s1 with cronActive := false } w.miners }

/-- `process_deferred_cron_events` at epoch `e`: due events of miners with a claim are removed
    from the queue and dispatched; `env m` says whether miner `m` still has funds and whether its
    callback fails -/
def powerTick (w : World) (e : Int) (env : Nat → Bool × Bool) : World :=
  let due := w.power.queue.filter (fun ev => decide (w.power.firstCronEpoch ≤ ev.1 ∧ ev.1 ≤ e))
  let rest := w.power.queue.filter (fun ev => ¬ decide (w.power.firstCronEpoch ≤ ev.1 ∧ ev.1 ≤ e))
  let w1 : World := { w with power := { w.power with queue := rest, firstCronEpoch := e + 1 } }
  due.foldl (fun acc ev =>
    if ev.2.1 ∈ w.power.claims ∧ ev.2.2 = 1 then callback acc ev.2.1 e (env ev.2.1).1 (env ev.2.1).2
    else acc) w1

/-- cron actor `epoch_tick`: every entry is sent, failures are ignored, the tick itself succeeds.
    `entryOk` records which entries succeeded (irrelevant for the result). -/
def epochTick (entryOk : List Bool) : Except Err Unit :=
  let _ := entryOk
  .ok ()

def countDeadlineEvents (p : Power) (m : Nat) : Nat :=
  (p.queue.filter (fun ev => ev.2.1 = m ∧ ev.2.2 = 1)).length

end BA.Cron
