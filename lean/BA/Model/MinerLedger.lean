/-
  Ledger-level model of the miner actor's funds and of its contribution to the power actor's
  network pledge total (actors/miner/src/{lib,state}.rs funds paths; actors/power/src/lib.rs
  update_pledge_total).  The vesting table is abstracted to its total `lf`; how much of it has
  vested at the current epoch is an environment input (`vested`, what the table holds with
  epoch < now — C14's theorems are about the table itself).  Amounts computed by the fee/pledge
  formulas (deposits, pledges, penalties) are inputs; the model decides what the *ledgers* do with
  them, in the order the code does it.
-/
import BA.Prelude

namespace BA.MinerLedger
open BA

structure St where
  balance : Int := 0
  pcd : Int := 0
  lf : Int := 0
  ip : Int := 0
  debt : Int := 0
  /-- outstanding pre-commitments: sector → deposit -/
  precommits : List (Nat × Int) := []
  /-- sectors whose pledge is held: live, or awaiting early-termination processing -/
  sectors : List (Nat × Int) := []
  cronActive : Bool := false
  /-- this miner's part of the power actor's `total_pledge_collateral` -/
  netTotal : Int := 0
  /-- ghost: creation deposit locked without any pledge-total notification -/
  unaccounted : Int := 0
  /-- ghost: total burnt so far -/
  burnt : Int := 0
  deriving Repr, DecidableEq, Inhabited

def unlocked (s : St) : Int := s.balance - s.lf - s.pcd - s.ip

/-- `get_unlocked_balance`: errors when negative -/
def getUnlocked (s : St) : Except Err Int :=
  if unlocked s < 0 then .error .illegalState else .ok (unlocked s)

/-- `get_available_balance` -/
def getAvailable (s : St) : Except Err Int :=
  match getUnlocked s with
  | .error e => .error e
  | .ok u => .ok (u - s.debt)

/-- `check_balance_invariants` -/
def balanceOk (s : St) : Bool :=
  decide (0 ≤ s.pcd) && decide (0 ≤ s.lf) && decide (0 ≤ s.ip) && decide (0 ≤ s.debt) &&
  decide (s.pcd + s.lf + s.ip ≤ s.balance)

/-- `repay_debts_or_abort` / `repay_debts`: burn the whole debt from unlocked funds or fail -/
def repayDebts (s : St) : Except Err (St × Int) :=
  match getUnlocked s with
  | .error e => .error e
  | .ok u => if u < s.debt then .error .insufficientFunds else .ok ({ s with debt := 0 }, s.debt)

/-- `repay_partial_debt_in_priority_order`; `vested` = what the vesting table holds with epoch < now.
    Returns (state, to_burn, total_unlocked). -/
def repayPartial (s : St) (vested : Int) : Except Err (St × Int × Int) :=
  let totalUnlocked :=
    if s.debt = 0 ∨ s.lf = 0 then 0 else vested + min s.debt (s.lf - vested)
  let s1 := { s with lf := s.lf - totalUnlocked }
  if s1.lf < 0 then .error .illegalState
  else match getUnlocked s1 with
    | .error e => .error e
    | .ok u =>
      let toBurn := min u s1.debt
      .ok ({ s1 with debt := s1.debt - toBurn }, toBurn, totalUnlocked)

/-- `notify_pledge_changed` → power `update_pledge_total`: fails when the total would go negative.
    `others` is the rest of the network's pledge total. -/
def notify (s : St) (others : Int) (delta : Int) : Except Err St :=
  if delta = 0 then .ok s
  else if others + s.netTotal + delta < 0 then .error .illegalState
  else .ok { s with netTotal := s.netTotal + delta }

/-- `burn_funds`: a send of `amt` to the burnt-funds actor (no-op for 0) -/
def burn (s : St) (amt : Int) : Except Err St :=
  if amt < 0 then .error .sysError
  else if amt > s.balance then .error .insufficientFunds
  else .ok { s with balance := s.balance - amt, burnt := s.burnt + amt }

/-- the end-of-method `check_balance_invariants` ("balance invariants broken" on failure);
    with `chk = false` the check is skipped (used to state that it never fires) -/
def checked (chk : Bool) (s : St) : Except Err St :=
  if chk then (if balanceOk s then .ok s else .error .illegalState) else .ok s

def depositsOf (l : List (Nat × Int)) : Int := isum (l.map (·.2))

/-- remove the listed sector numbers from a map, returning Σ of the removed values -/
def removeAll (m : List (Nat × Int)) : List Nat → List (Nat × Int) × Int
  | [] => (m, 0)
  | k :: ks =>
    match alookup k m with
    | none => removeAll m ks
    | some v => let (m', t) := removeAll (aerase k m) ks; (m', t + v)

inductive Op where
  /-- power `create_miner` → constructor: receives `value`, locks `deposit` in the vesting table
      (no pledge-total notification: F1) -/
  | create (value deposit : Int)
  /-- plain receipt of funds -/
  | fund (v : Int)
  /-- PreCommitSectorBatch2: per-sector deposits -/
  | precommit (deps : List (Nat × Int))
  /-- ProveCommitSectors3 (activate_new_sector_infos): sector → initial pledge -/
  | proveCommit (secs : List (Nat × Int))
  /-- ApplyRewards(reward, penalty) with `reward` received as message value -/
  | applyRewards (reward penalty vested : Int)
  /-- WithdrawBalance by the owner (beneficiary = owner) -/
  | withdraw (requested vested : Int) (earlyTermsPending : Bool)
  /-- RepayDebt with `value` attached -/
  | repayDebt (value vested : Int)
  /-- handle_proving_deadline: expired pre-commits, on-time expirations (pledge released),
      fault/fee penalties, debt repayment in priority order, vesting, cron continuation -/
  | deadline (expiredPre : List Nat) (expiredSectors : List Nat) (penalty vested : Int)
  /-- TerminateSectors with its inline `process_early_terminations`: `processed` = the sectors
      popped from the early-termination queue in this call (their pledge is released),
      `penalty` = their total termination fee -/
  | terminate (processed : List Nat) (penalty vested : Int)
  /-- ReportConsensusFault: `penalty` = consensus_fault_penalty, `slasherReward` =
      reward_for_consensus_slash_report, `sendOk` = the transfer to the reporter succeeds -/
  | consensusFault (penalty slasherReward vested : Int) (sendOk : Bool)
  deriving Repr, Inhabited

structure Out where
  ok : Bool
  burnt : Int := 0
  paid : Int := 0
  deriving Repr, DecidableEq, Inhabited

/-- 75 % of a reward is locked (`locked_reward_from_reward`: reward · 75 / 100, floor) -/
def lockedReward (reward : Int) : Int := reward * 75 / 100

def continueCron (s : St) : Bool := decide (s.pcd ≠ 0) || decide (s.ip ≠ 0) || decide (s.lf ≠ 0)

/-- the successful path of each operation; `others` = rest of the network's pledge total -/
def apply (chk : Bool) (s : St) (others : Int) : Op → Except Err (St × Out)
  | .create value deposit =>
    if value < 0 ∨ deposit < 0 ∨ value < deposit then .error .insufficientFunds
    else .ok ({ s with balance := s.balance + value, lf := s.lf + deposit,
                       unaccounted := s.unaccounted + deposit }, { ok := true })
  | .fund v =>
    if v < 0 then .error .sysError else .ok ({ s with balance := s.balance + v }, { ok := true })
  | .precommit deps =>
    if deps.isEmpty then .error .illegalArgument
    else if deps.any (fun d => d.2 < 0 || (alookup d.1 s.precommits).isSome) then .error .illegalArgument
    else if ¬ (deps.map (·.1)).Nodup then .error .illegalArgument
    else match getAvailable s with
      | .error e => .error e
      | .ok avail =>
        match repayDebts s with
        | .error e => .error e
        | .ok (s1, fee) =>
          let total := depositsOf deps
          if avail < total then .error .insufficientFunds
          else
            let s2 := { s1 with pcd := s1.pcd + total, precommits := s1.precommits ++ deps,
                                cronActive := true }
            match burn s2 fee with
            | .error e => .error e
            | .ok s3 => match checked chk s3 with
              | .error e => .error e
              | .ok s4 => .ok (s4, { ok := true, burnt := fee })
  | .proveCommit secs =>
    if secs.isEmpty then .error .illegalArgument
    else if secs.any (fun p => p.2 < 0 || (alookup p.1 s.precommits).isNone ||
                               (alookup p.1 s.sectors).isSome) then .error .illegalArgument
    else if ¬ (secs.map (·.1)).Nodup then .error .illegalArgument
    else
      let (pre', released) := removeAll s.precommits (secs.map (·.1))
      let pledge := depositsOf secs
      let s1 := { s with pcd := s.pcd - released, precommits := pre' }
      match getUnlocked s1 with
      | .error e => .error e
      | .ok u =>
        if u < pledge then .error .insufficientFunds
        else
          let s2 := { s1 with ip := s1.ip + pledge, sectors := s1.sectors ++ secs }
          match checked chk s2 with
          | .error e => .error e
          | .ok s3 => match notify s3 others pledge with
            | .error e => .error e
            | .ok s4 => .ok (s4, { ok := true })
  | .applyRewards reward penalty vested =>
    if reward < 0 ∨ penalty < 0 ∨ vested < 0 ∨ s.lf < vested then .error .illegalArgument
    else
      let s0 := { s with balance := s.balance + reward }
      let toLock := lockedReward reward
      match getUnlocked s0 with
      | .error e => .error e
      | .ok u =>
        if u < toLock then .error .insufficientFunds
        else
          -- add_locked_funds unlocks what has vested, then locks the new amount
          let s1 := { s0 with lf := s0.lf - vested + toLock, debt := s0.debt + penalty }
          match repayPartial s1 0 with
          | .error e => .error e
          | .ok (s2, toBurn, totalUnlocked) =>
            match notify s2 others (toLock - vested - totalUnlocked) with
            | .error e => .error e
            | .ok s3 => match burn s3 toBurn with
              | .error e => .error e
              | .ok s4 => match checked chk s4 with
                | .error e => .error e
                | .ok s5 => .ok (s5, { ok := true, burnt := toBurn })
  | .withdraw requested vested early =>
    if requested < 0 ∨ vested < 0 ∨ s.lf < vested then .error .illegalArgument
    else if early then .error .forbidden
    else
      let s1 := { s with lf := s.lf - vested }
      match getAvailable s1 with
      | .error e => .error e
      | .ok avail =>
        match repayDebts s1 with
        | .error e => .error e
        | .ok (s2, fee) =>
          let amt := min avail requested
          if amt < 0 then .error .illegalState
          else
            let s3 := { s2 with balance := s2.balance - amt }
            match burn s3 fee with
            | .error e => .error e
            | .ok s4 => match notify s4 others (-vested) with
              | .error e => .error e
              | .ok s5 => match checked chk s5 with
                | .error e => .error e
                | .ok s6 => .ok (s6, { ok := true, burnt := fee, paid := amt })
  | .repayDebt value vested =>
    if value < 0 ∨ vested < 0 ∨ s.lf < vested then .error .illegalArgument
    else
      let s0 := { s with balance := s.balance + value }
      match repayPartial s0 vested with
      | .error e => .error e
      | .ok (s1, toBurn, totalUnlocked) =>
        match notify s1 others (-totalUnlocked) with
        | .error e => .error e
        | .ok s2 => match burn s2 toBurn with
          | .error e => .error e
          | .ok s3 => match checked chk s3 with
            | .error e => .error e
            | .ok s4 => .ok (s4, { ok := true, burnt := toBurn })
  | .deadline expiredPre expiredSectors penalty vested =>
    if penalty < 0 ∨ vested < 0 ∨ s.lf < vested then .error .illegalArgument
    else
      let (pre', depositBurn) := removeAll s.precommits expiredPre
      let (secs', released) := removeAll s.sectors expiredSectors
      let s1 := { s with precommits := pre', pcd := s.pcd - depositBurn,
                         sectors := secs', ip := s.ip - released,
                         debt := s.debt + depositBurn + penalty }
      match repayPartial s1 vested with
      | .error e => .error e
      | .ok (s2, toBurn, totalUnlocked) =>
        -- whatever has vested and was not unlocked by the debt repayment is unlocked now
        let newlyVested := if totalUnlocked = 0 then vested else 0
        let s3 := { s2 with lf := s2.lf - newlyVested }
        let s4 := { s3 with cronActive := continueCron s3 }
        match burn s4 toBurn with
        | .error e => .error e
        | .ok s5 => match notify s5 others (-released - totalUnlocked - newlyVested) with
          | .error e => .error e
          | .ok s6 => .ok (s6, { ok := true, burnt := toBurn })

  | .terminate processed penalty vested =>
    if penalty < 0 ∨ vested < 0 ∨ s.lf < vested then .error .illegalArgument
    else if processed.isEmpty then
      (match checked chk s with
       | .error e => .error e
       | .ok s1 => .ok (s1, { ok := true }))
    else
      let (secs', released) := removeAll s.sectors processed
      let s1 := { s with sectors := secs', ip := s.ip - released, debt := s.debt + penalty }
      match repayPartial s1 vested with
      | .error e => .error e
      | .ok (s2, toBurn, totalUnlocked) =>
        match burn s2 toBurn with
        | .error e => .error e
        | .ok s3 => match notify s3 others (-released - totalUnlocked) with
          | .error e => .error e
          | .ok s4 => match checked chk s4 with
            | .error e => .error e
            | .ok s5 => .ok (s5, { ok := true, burnt := toBurn })
  | .consensusFault penalty slasherReward vested sendOk =>
    if penalty < 0 ∨ slasherReward < 0 ∨ vested < 0 ∨ s.lf < vested then .error .illegalArgument
    else
      let s1 := { s with debt := s.debt + penalty }
      match repayPartial s1 vested with
      | .error e => .error e
      | .ok (s2, burnAmount, totalUnlocked) =>
        -- the reporter's reward is clamped at the funds burnt and carved out of them
        let rewardAmount := min burnAmount slasherReward
        let paid := if sendOk then rewardAmount else 0
        let s3 := { s2 with balance := s2.balance - paid }
        match burn s3 (burnAmount - paid) with
        | .error e => .error e
        | .ok s4 => match notify s4 others (-totalUnlocked) with
          | .error e => .error e
          | .ok s5 => match checked chk s5 with
            | .error e => .error e
            | .ok s6 => .ok (s6, { ok := true, burnt := burnAmount - paid, paid := paid })

/-- one message: a failing message changes nothing -/
def step (s : St) (others : Int) (op : Op) : St × Out :=
  match apply true s others op with
  | .ok r => r
  | .error _ => (s, { ok := false })

/-- a history: each op comes with the then-current pledge total of the rest of the network -/
def run (s : St) : List (Int × Op) → St
  | [] => s
  | (others, op) :: rest => run (step s others op).1 rest

end BA.MinerLedger
