/-
  Minimal model of the miner actor's funds for `WithdrawBalance` (actors/miner/src/lib.rs
  `withdraw_balance`, state.rs `get_unlocked_balance` / `get_available_balance` / `repay_debts` /
  `check_balance_invariants`, beneficiary.rs `BeneficiaryTerm::available`), step by step in source
  order.  Only the fields the withdrawal reads or writes are kept.  The answers of the other
  actors (the transfer to the beneficiary, power's `UpdatePledgeTotal`) are inputs of the step.
-/
import BA.Prelude
import BA.Model.Vesting

namespace BA.MinerFunds
open BA BA.Vesting

structure State where
  owner : Nat
  beneficiary : Nat
  /-- `BeneficiaryTerm` -/
  quota : Int := 0
  usedQuota : Int := 0
  expiration : Int := 0
  /-- the actor's token balance (kept by the VM) -/
  balance : Int := 0
  /-- vesting table + `locked_funds` -/
  ledger : Ledger := {}
  preCommitDeposits : Int := 0
  initialPledge : Int := 0
  feeDebt : Int := 0
  /-- `!state.early_terminations.is_empty()` -/
  earlyTerminationsPending : Bool := false
  deriving Repr, DecidableEq, Inhabited

/-- answers of the environment to the sends of one `WithdrawBalance` -/
structure Env where
  /-- the plain transfer to the beneficiary succeeds -/
  sendOk : Bool := true
  /-- the transfer to the burnt-funds actor succeeds -/
  burnOk : Bool := true
  /-- power's `UpdatePledgeTotal(-newly_vested)` succeeds -/
  notifyOk : Bool := true
  deriving Repr, DecidableEq, Inhabited

/-- what a successful `WithdrawBalance` did -/
structure Out where
  /-- value of the transfer (no transfer when 0), also the return value -/
  amountWithdrawn : Int
  /-- receiver of the transfer -/
  sentTo : Nat
  /-- fee debt burnt -/
  burnt : Int
  /-- moved out of the vesting table by this call -/
  newlyVested : Int
  deriving Repr, DecidableEq, Inhabited

/-- `State::get_unlocked_balance` -/
def getUnlockedBalance (s : State) : Except Err Int :=
  let u := s.balance - s.ledger.lockedFunds - s.preCommitDeposits - s.initialPledge
  if u < 0 then .error .illegalState else .ok u

/-- `State::get_available_balance` -/
def getAvailableBalance (s : State) : Except Err Int :=
  match getUnlockedBalance s with
  | .error e => .error e
  | .ok u => .ok (u - s.feeDebt)

/-- `State::repay_debts` → (state with `fee_debt = 0`, amount to burn) -/
def repayDebts (s : State) : Except Err (State × Int) :=
  match getUnlockedBalance s with
  | .error _ => .error .illegalState
  | .ok u =>
    if u < s.feeDebt then .error .insufficientFunds
    else .ok ({ s with feeDebt := 0 }, s.feeDebt)

/-- `BeneficiaryTerm::available` -/
def termAvailable (s : State) (cur : Int) : Int :=
  if s.expiration > cur then (if s.quota - s.usedQuota < 0 then 0 else s.quota - s.usedQuota) else 0

/-- `State::check_balance_invariants` -/
def checkBalanceInvariants (s : State) : Except Err Unit :=
  if s.preCommitDeposits < 0 then .error .illegalState
  else if s.ledger.lockedFunds < 0 then .error .illegalState
  else if s.initialPledge < 0 then .error .illegalState
  else if s.feeDebt < 0 then .error .illegalState
  else if s.balance < s.preCommitDeposits + s.ledger.lockedFunds + s.initialPledge then
    .error .illegalState
  else .ok ()

/-- a transfer of `x` out of the actor, made only when `x` is positive -/
def debit (s : State) (x : Int) : State :=
  if 0 < x then { s with balance := s.balance - x } else s

/-- `info.beneficiary_term.used_quota += amount; save_info`, done only when `amount` is positive -/
def useQuota (s : State) (amount : Int) : State :=
  if 0 < amount then { s with usedQuota := s.usedQuota + amount } else s

/-- the transaction part of `withdraw_balance` → (state, amount withdrawn, newly vested, fee to burn) -/
def withdrawTx (s : State) (caller : Nat) (epoch : Int) (requested : Int) :
    Except Err (State × Int × Int × Int) :=
  -- rt.validate_immediate_caller_is(&[info.owner, info.beneficiary])
  if caller ≠ s.owner ∧ caller ≠ s.beneficiary then .error .forbidden
  -- pending early terminations
  else if s.earlyTerminationsPending then .error .forbidden
  else
    -- state.unlock_vested_funds(store, curr_epoch)
    match stUnlockVestedFunds s.ledger epoch with
    | .error _ => .error .illegalState
    | .ok (ledger1, newlyVested) =>
      let s1 := { s with ledger := ledger1 }
      match getAvailableBalance s1 with
      | .error _ => .error .illegalState
      | .ok available =>
        match repayDebts s1 with
        | .error e => .error e
        | .ok (s2, feeToBurn) =>
          let amount := if available ≤ requested then available else requested
          if amount < 0 then .error .illegalState
          else if s2.beneficiary ≠ s2.owner then
            let remaining := termAvailable s2 epoch
            if remaining = 0 then .error .forbidden
            else
              let amount := if amount ≤ remaining then amount else remaining
              .ok (useQuota s2 amount, amount, newlyVested, feeToBurn)
          else .ok (s2, amount, newlyVested, feeToBurn)

/-- `withdraw_balance`.  The message's `value` has already been credited to `s.balance`. -/
def withdraw (s : State) (env : Env) (caller : Nat) (epoch : Int) (requested : Int) :
    Except Err (State × Out) :=
  if requested < 0 then .error .illegalArgument
  else match withdrawTx s caller epoch requested with
    | .error e => .error e
    | .ok (s1, amount, newlyVested, feeToBurn) =>
      -- send to the beneficiary
      if 0 < amount ∧ !env.sendOk then .error .sysError
      else
        let s2 := debit s1 amount
        -- burn_funds
        if 0 < feeToBurn ∧ !env.burnOk then .error .sysError
        else
          let s3 := debit s2 feeToBurn
          -- notify_pledge_changed(-newly_vested)
          if newlyVested ≠ 0 ∧ !env.notifyOk then .error .illegalState
          else match checkBalanceInvariants s3 with
            | .error e => .error e
            | .ok () =>
              .ok (s3, { amountWithdrawn := amount, sentTo := s1.beneficiary, burnt := feeToBurn,
                         newlyVested := newlyVested })

/-- VM part: credit the message value (refused when negative) -/
def credit (s : State) (value : Int) : Except Err State :=
  if value < 0 then .error .sysError else .ok { s with balance := s.balance + value }

inductive Res where
  | ok (o : Out)
  | err (e : Err)
  deriving Repr, DecidableEq, Inhabited

/-- one `WithdrawBalance` message; a failing message changes nothing (VM rollback) -/
def step (s : State) (env : Env) (caller : Nat) (epoch value requested : Int) : State × Res :=
  match credit s value with
  | .error e => (s, .err e)
  | .ok s1 =>
    match withdraw s1 env caller epoch requested with
    | .error e => (s, .err e)
    | .ok (s', o) => (s', .ok o)

end BA.MinerFunds
