/-
  Model of actors/eam/src/lib.rs (Create, Create2, CreateExternal, create_actor,
  can_assign_address, resolve_eth_address, resolve_caller_external), of the reserved ranges in
  actors/evm/shared/src/address.rs, of the EVM's CREATE/CREATE2 opcodes
  (actors/evm/src/interpreter/instructions/lifecycle.rs: endowment check, `increment_nonce`
  *before* the EAM call and kept when that call fails), of SELFDESTRUCT/`is_dead`/Resurrect
  (actors/evm/src/lib.rs, interpreter/system.rs), and the operation alphabet of C20.
-/
import BA.Model.Init
import BA.Model.Evm.Keccak
import BA.Model.Evm.Rlp

namespace BA.Eam
open BA BA.Init BA.Evm

/-! ### reserved ranges (address.rs) -/

/-- `EthAddress::is_precompile`: first byte `0xfe` or `0x00`, the next 18 bytes zero (any last byte) -/
def isPrecompile (a : Bytes) : Bool :=
  match a with
  | p :: rest => (p == 0xfe || p == 0x00) && (rest.take 18).all (· == 0)
  | [] => false

/-- `EthAddress::is_id`: `0xff` followed by 11 zero bytes (the last 8 bytes are the actor id) -/
def isIdMasked (a : Bytes) : Bool :=
  match a with
  | p :: rest => p == 0xff && (rest.take 11).all (· == 0)
  | [] => false

/-- `EthAddress::is_null` -/
def isNull (a : Bytes) : Bool := a.all (· == 0)

/-- `can_assign_address` -/
def canAssign (a : Bytes) : Bool := !isPrecompile a && !isIdMasked a && !isNull a

/-- `EthAddress::from_id`: `0xff ‖ 0¹¹ ‖ id as 8 big-endian bytes` -/
def idMasked (id : Nat) : Bytes :=
  0xff :: List.replicate 11 0 ++
    (List.range 8).map (fun i => UInt8.ofNat (id / 256 ^ (7 - i) % 256))

/-! ### address formulas -/

/-- `hash_20` -/
def hash20 (data : Bytes) : Bytes := (keccak256 data).drop 12

/-- `compute_address_create`: `keccak256(rlp([addr20, nonce]))[12:]` -/
def createAddr (deployer : Bytes) (nonce : Nat) : Bytes := hash20 (rlpCreate deployer nonce)

/-- `compute_address_create2` given `keccak256(initcode)`:
    `keccak256(0xff ‖ addr ‖ salt ‖ keccak256(initcode))[12:]` -/
def create2Addr (deployer salt initHash : Bytes) : Bytes :=
  hash20 (create2Preimage deployer salt initHash)

/-! ### EVM contract liveness -/

/-- `is_dead`: has a tombstone that is not from the message being executed -/
def isDead (a : Actor) (msg : Nat) : Bool :=
  match a.tomb with
  | some t => t != msg
  | none => false

/-- `resolve_eth_address`: the caller's f4 address in the EAM namespace, 20 bytes -/
def ethOf (a : Actor) : Except Err Bytes :=
  match a.deleg with
  | some (ns, sub) => if ns = eamId ∧ sub.length = 20 then .ok sub else .error .forbidden
  | none => .error .forbidden

structure Ret where
  id : Nat
  eth : Bytes
  deriving Repr, DecidableEq, Inhabited

/-- EAM `create_actor(rt, creator, new_addr, initcode)`. -/
def createActorEam (w : World) (msg : Nat) (newAddr robust : Bytes) (ctor : Ctor) :
    Except Err (World × Ret) :=
  if !canAssign newAddr then .error .forbidden
  else
    let viaInit : Except Err (World × Ret) :=
      match exec4 w msg eamId newAddr .evm robust ctor with
      | .error e => .error e
      | .ok (w', id) => .ok (w', { id := id, eth := newAddr })
    match klookup (delegatedKey eamId newAddr) w.addrMap with
    | none => viaInit
    | some id =>
      match alookup id w.actors with
      | none => .error .assertion
      | some a =>
        match a.kind with
        | .evm =>
          -- Resurrect: only a dead contract; a fresh `System` (nonce 1)
          if !isDead a msg then .error .forbidden
          else if ctor = .fail then .error .illegalState
          else
            let t : Option Nat := if ctor = .selfdestruct then some msg else none
            let a' : Actor := { a with nonce := 1, inc := a.inc + 1, tomb := t }
            .ok ({ w with actors := aset id a' w.actors }, { id := id, eth := newAddr })
        | .placeholder => viaInit
        | _ => .error .forbidden

/-- `EamActor::create` (caller must be an EVM actor with an eth address; the nonce is a parameter) -/
def create (w : World) (msg caller nonce : Nat) (robust : Bytes) (ctor : Ctor) :
    Except Err (World × Ret) :=
  match alookup caller w.actors with
  | none => .error .assertion
  | some ca =>
    if ca.kind ≠ .evm then .error .forbidden
    else match ethOf ca with
      | .error e => .error e
      | .ok from_ => createActorEam w msg (createAddr from_ nonce) robust ctor

/-- `EamActor::create2` -/
def create2 (w : World) (msg caller : Nat) (salt initHash robust : Bytes) (ctor : Ctor) :
    Except Err (World × Ret) :=
  match alookup caller w.actors with
  | none => .error .assertion
  | some ca =>
    if ca.kind ≠ .evm then .error .forbidden
    else match ethOf ca with
      | .error e => .error e
      | .ok from_ => createActorEam w msg (create2Addr from_ salt initHash) robust ctor

/-- `create2` with the hash primitive answering `addr` (a scripted hash in the harness): the
    internal `create_actor` on an arbitrary candidate address. -/
def assign (w : World) (msg caller : Nat) (addr robust : Bytes) (ctor : Ctor) :
    Except Err (World × Ret) :=
  match alookup caller w.actors with
  | none => .error .assertion
  | some ca =>
    if ca.kind ≠ .evm then .error .forbidden
    else match ethOf ca with
      | .error e => .error e
      | .ok _ => createActorEam w msg addr robust ctor

/-- `EamActor::create_external`: top-level accounts only; an account's address is derived from
    the hash of its key address, an EthAccount's from its eth address; the nonce is the
    message nonce. -/
def createExternal (w : World) (msg caller msgNonce : Nat) (robust : Bytes) (ctor : Ctor) :
    Except Err (World × Ret) :=
  match alookup caller w.actors with
  | none => .error .assertion
  | some ca =>
    match ca.kind with
    | .account => createActorEam w msg (createAddr (hash20 ca.keyAddr) msgNonce) robust ctor
    | .ethaccount =>
      match ethOf ca with
      | .error e => .error e
      | .ok a => createActorEam w msg (createAddr a msgNonce) robust ctor
    | _ => .error .forbidden

/-! ### the EVM side: CREATE / CREATE2 opcodes and SELFDESTRUCT -/

inductive CreateOp where
  | create
  | create2 (salt initHash : Bytes)
  deriving Repr, DecidableEq, Inhabited

/-- `create_common` executed by contract `deployer` (an invocation that afterwards returns
    normally).  `endowOk` = the endowment does not exceed the balance.  The result is what the
    opcode pushes: `some ret` or `none` (zero). -/
def evmCreate (w : World) (msg deployer : Nat) (endowOk : Bool) (op : CreateOp)
    (robust : Bytes) (ctor : Ctor) : Except Err (World × Option Ret) :=
  match alookup deployer w.actors with
  | none => .error .notFound
  | some a =>
    if a.kind ≠ .evm then .error .illegalArgument
    -- a dead contract has no code: the invocation returns at once
    else if isDead a msg then .ok (w, none)
    else if !endowOk then .ok (w, none)
    else
      -- increment_nonce, flushed before the send
      let w1 : World := { w with actors := aset deployer { a with nonce := a.nonce + 1 } w.actors }
      let r := match op with
        | .create => create w1 msg deployer a.nonce robust ctor
        | .create2 salt ih => create2 w1 msg deployer salt ih robust ctor
      match r with
      | .ok (w2, ret) => .ok (w2, some ret)
      | .error _ => .ok (w1, none)

/-- SELFDESTRUCT executed by `contract` in message `msg` (funds transfer succeeded). -/
def selfdestruct (w : World) (msg contract : Nat) : Except Err World :=
  match alookup contract w.actors with
  | none => .error .notFound
  | some a =>
    if a.kind ≠ .evm then .error .illegalArgument
    else if isDead a msg then .ok w
    else .ok { w with actors := aset contract { a with tomb := some msg } w.actors }

/-! ### operations and histories -/

inductive Op where
  | exec (msg caller : Nat) (code : Kind) (robust : Bytes) (ctor : Ctor)
  | exec4 (msg caller : Nat) (sub : Bytes) (code : Kind) (robust : Bytes) (ctor : Ctor)
  | eamCreate (msg caller nonce : Nat) (robust : Bytes) (ctor : Ctor)
  | eamCreate2 (msg caller : Nat) (salt initHash robust : Bytes) (ctor : Ctor)
  | eamAssign (msg caller : Nat) (addr robust : Bytes) (ctor : Ctor)
  | createExternal (msg caller msgNonce : Nat) (robust : Bytes) (ctor : Ctor)
  | evmCreate (msg deployer : Nat) (endowOk : Bool) (op : CreateOp) (robust : Bytes) (ctor : Ctor)
  | selfdestruct (msg contract : Nat)
  | sendKey (msg sender : Nat) (addr : Bytes)
  | sendDeleg (msg sender ns : Nat) (sub : Bytes)
  deriving Repr, Inhabited

inductive Out where
  | ok (id : Option Nat) (eth : Option Bytes)
  | err (e : Err)
  deriving Repr, DecidableEq, Inhabited

def outOfId (r : Except Err (World × Nat)) (w0 : World) : World × Out :=
  match r with
  | .ok (w', id) => (w', .ok (some id) none)
  | .error e => (w0, .err e)

def outOfRet (r : Except Err (World × Ret)) (w0 : World) : World × Out :=
  match r with
  | .ok (w', ret) => (w', .ok (some ret.id) (some ret.eth))
  | .error e => (w0, .err e)

/-- One (possibly nested, then already flattened by the harness) call.  The sender of a
    top-level message is promoted first (placeholder → EthAccount, kept even when the message
    fails); otherwise a failing call changes nothing (VM rollback). -/
def step (w : World) : Op → World × Out
  | .exec msg caller code robust ctor =>
    let w0 := promote w caller
    outOfId (exec w0 msg caller code robust ctor) w0
  | .exec4 msg caller sub code robust ctor =>
    let w0 := promote w caller
    outOfId (exec4 w0 msg caller sub code robust ctor) w0
  | .eamCreate msg caller nonce robust ctor =>
    let w0 := promote w caller
    outOfRet (create w0 msg caller nonce robust ctor) w0
  | .eamCreate2 msg caller salt ih robust ctor =>
    let w0 := promote w caller
    outOfRet (create2 w0 msg caller salt ih robust ctor) w0
  | .eamAssign msg caller addr robust ctor =>
    let w0 := promote w caller
    outOfRet (assign w0 msg caller addr robust ctor) w0
  | .createExternal msg caller n robust ctor =>
    let w0 := promote w caller
    outOfRet (createExternal w0 msg caller n robust ctor) w0
  | .evmCreate msg deployer endowOk op robust ctor =>
    match evmCreate w msg deployer endowOk op robust ctor with
    | .ok (w', some ret) => (w', .ok (some ret.id) (some ret.eth))
    | .ok (w', none) => (w', .ok none none)
    | .error e => (w, .err e)
  | .selfdestruct msg c =>
    match selfdestruct w msg c with
    | .ok w' => (w', .ok none none)
    | .error e => (w, .err e)
  | .sendKey _ sender addr =>
    let w0 := promote w sender
    outOfId (sendKey w0 addr) w0
  | .sendDeleg _ sender ns sub =>
    let w0 := promote w sender
    outOfId (sendDeleg w0 ns sub) w0

def run (w : World) : List Op → World
  | [] => w
  | op :: rest => run (step w op).1 rest

end BA.Eam
