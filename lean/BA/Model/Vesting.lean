/-
  Model of actors/miner/src/vesting_state.rs (`VestingFunds`), quantize.rs (`quantize_up`), the
  funds layer of state.rs that keeps the `locked_funds` memo next to the table
  (`add_locked_funds`, `unlock_vested_funds`, `unlock_vested_and_unvested_funds`) and
  monies.rs `locked_reward_from_reward`, following the Rust control flow branch by branch.

  `VestingFunds(Option<{head, tail}>)` is modelled with its representation (`Funds`), because
  `load` hides a head that was drawn down to zero and the fast path of the forced unlock looks at
  the raw head.  The block store is ideal (a `tail` CID is the list it points to).
-/
import BA.Prelude
import BA.Generated.Constants

namespace BA.Vesting
open BA

/-- `(epoch, amount)` entries, in table order -/
abbrev Table := List (Int × Int)

/-- `VestSpec` (policy.rs) -/
structure VestSpec where
  initialDelay : Int
  vestPeriod : Int
  stepDuration : Int
  quantization : Int
  deriving Repr, DecidableEq, Inhabited

/-- `REWARD_VESTING_SPEC`, fields regenerated from policy.rs -/
def rewardVestingSpec : VestSpec :=
  { initialDelay := BA.Gen.rewardVestInitialDelay
    vestPeriod := BA.Gen.rewardVestPeriod
    stepDuration := BA.Gen.rewardVestStepDuration
    quantization := BA.Gen.rewardVestQuantization }

/-- `QuantSpec::quantize_up` — Rust `%` and `/` on `i64` truncate toward zero. -/
def quantizeUp (unit offset epoch : Int) : Int :=
  let off := Int.tmod offset unit
  let remainder := Int.tmod (epoch - off) unit
  let quotient := Int.tdiv (epoch - off) unit
  if remainder = 0 ∨ epoch - off < 0 then unit * quotient + off
  else unit * (quotient + 1) + off

/-- `VestingFunds(Option<VestingFundsInner { head, tail }>)` -/
abbrev Funds := Option ((Int × Int) × Table)

/-- `VestingFunds::load`: the tail, with the head in front unless its amount is not positive -/
def load : Funds → Table
  | none => []
  | some (h, t) => if 0 < h.2 then h :: t else t

/-- `VestingFunds::save`: first entry becomes the head (whatever its amount), empty → `None` -/
def save : Table → Funds
  | [] => none
  | h :: t => some (h, t)

def canVest (f : Funds) (cur : Int) : Bool :=
  match f with
  | none => false
  | some (h, _) => h.1 < cur

/-- `take_vested`: `peeking_take_while(epoch < current)` — a *prefix*, summed; returns the rest -/
def takeVested (cur : Int) : Table → Int × Table
  | [] => (0, [])
  | (e, a) :: t =>
    if e < cur then
      let r := takeVested cur t
      (a + r.1, r.2)
    else (0, (e, a) :: t)

/-- `VestingFunds::unlock_vested_funds` → (new funds, unlocked) -/
def unlockVestedFunds (f : Funds) (cur : Int) : Funds × Int :=
  if canVest f cur then
    let r := takeVested cur (load f)
    (save r.2, r.1)
  else (f, 0)

/-- The `iter::from_fn` closure of `add_locked_funds`, run to exhaustion.  State of the closure:
    `vestedSoFar`, `epoch`.  `fuel` bounds the number of calls; running out of fuel with the
    closure still producing stands for the Rust loop not terminating (`sysError`).  A zero
    quantisation unit (`% 0`) or a zero vest period reached by the division panic (`assertion`). -/
def genLoop (sum vestBegin pps : Int) (spec : VestSpec) : Nat → Int → Int → Except Err Table
  | 0, vestedSoFar, _ => if vestedSoFar ≥ sum then .ok [] else .error .sysError
  | fuel + 1, vestedSoFar, epoch =>
    if vestedSoFar ≥ sum then .ok []
    else
      let epoch' := epoch + spec.stepDuration
      if spec.quantization = 0 then .error .assertion
      else
        let vestEpoch := quantizeUp spec.quantization pps epoch'
        let elapsed := vestEpoch - vestBegin
        if elapsed < spec.vestPeriod ∧ spec.vestPeriod = 0 then .error .assertion
        else
          let targetVest :=
            if elapsed < spec.vestPeriod then Int.fdiv (sum * elapsed) spec.vestPeriod else sum
          match genLoop sum vestBegin pps spec fuel targetVest epoch' with
          | .error e => .error e
          | .ok rest => .ok ((vestEpoch, targetVest - vestedSoFar) :: rest)

/-- number of closure calls that is always enough when `step_duration > 0`
    (theorem `schedule_terminates`) -/
def fuelFor (spec : VestSpec) : Nat := (spec.vestPeriod / spec.stepDuration).toNat + 2

/-- the new schedule of `add_locked_funds(current_epoch, vesting_sum, proving_period_start, spec)` -/
def schedule (cur sum pps : Int) (spec : VestSpec) : Except Err Table :=
  let vestBegin := cur + spec.initialDelay
  genLoop sum vestBegin pps spec (fuelFor spec) 0 vestBegin

/-- `merge_join_by(epoch)` + the `EitherOrBoth` map: ordered merge, equal epochs are added up
    (one entry of each side per match) -/
def mergeFunds : Table → Table → Table
  | [], bs => bs
  | a :: as, [] => a :: as
  | (ea, aa) :: as, (eb, ab) :: bs =>
    if ea < eb then (ea, aa) :: mergeFunds as ((eb, ab) :: bs)
    else if eb < ea then (eb, ab) :: mergeFunds ((ea, aa) :: as) bs
    else (ea, aa + ab) :: mergeFunds as bs
termination_by as bs => as.length + bs.length

/-- `VestingFunds::add_locked_funds` → (new funds, unlocked) -/
def addLockedFunds (f : Funds) (cur sum pps : Int) (spec : VestSpec) : Except Err (Funds × Int) :=
  match schedule cur sum pps spec with
  | .error e => .error e
  | .ok newFunds =>
    let combined := mergeFunds (load f) newFunds
    let r := takeVested cur combined
    .ok (save r.2, r.1)

/-- the `while let` loop of the slow path: (funds left, target left, vested, unvested) →
    (funds to save, vested, unvested) -/
def slowLoop (cur : Int) : Table → Int → Int → Int → Table × Int × Int
  | [], _, vested, unvested => ([], vested, unvested)
  | (e, a) :: t, target, vested, unvested =>
    if e < cur then slowLoop cur t target (vested + a) unvested
    else if a < target then slowLoop cur t (target - a) vested (unvested + a)
    else ((e, a - target) :: t, vested, unvested + target)

/-- the slow path alone (load, loop, save) -/
def slowPath (f : Funds) (cur target : Int) : Funds × Int × Int :=
  let r := slowLoop cur (load f) target 0 0
  (save r.1, r.2.1, r.2.2)

/-- `VestingFunds::unlock_vested_and_unvested_funds` → (new funds, vested, unvested) -/
def unlockVestedAndUnvested (f : Funds) (cur target : Int) : Funds × Int × Int :=
  match f with
  | none => (none, 0, 0)
  | some (h, t) =>
    if h.1 ≥ cur ∧ h.2 ≥ target then (some ((h.1, h.2 - target), t), 0, target)
    else slowPath (some (h, t)) cur target

/-! ### state.rs: the table together with the `locked_funds` memo -/

structure Ledger where
  funds : Funds := none
  lockedFunds : Int := 0
  deriving Repr, DecidableEq, Inhabited

/-- `State::add_locked_funds` (pps = `self.proving_period_start`) → (ledger, amount unlocked) -/
def stAddLockedFunds (l : Ledger) (cur sum pps : Int) (spec : VestSpec) : Except Err (Ledger × Int) :=
  if sum < 0 then .error .illegalState
  else match addLockedFunds l.funds cur sum pps spec with
    | .error e => .error e
    | .ok (f, unlocked) =>
      let lf := l.lockedFunds - unlocked
      if lf < 0 then .error .illegalState
      else .ok ({ funds := f, lockedFunds := lf + sum }, unlocked)

/-- `State::unlock_vested_funds` → (ledger, amount unlocked) -/
def stUnlockVestedFunds (l : Ledger) (cur : Int) : Except Err (Ledger × Int) :=
  if l.lockedFunds = 0 then .ok (l, 0)
  else
    let r := unlockVestedFunds l.funds cur
    let lf := l.lockedFunds - r.2
    if lf < 0 then .error .illegalState
    else .ok ({ funds := r.1, lockedFunds := lf }, r.2)

/-- `State::unlock_vested_and_unvested_funds` → (ledger, unlocked unvested, total unlocked) -/
def stUnlockVestedAndUnvested (l : Ledger) (cur target : Int) : Except Err (Ledger × Int × Int) :=
  if target = 0 ∨ l.lockedFunds = 0 then .ok (l, 0, 0)
  else
    let r := unlockVestedAndUnvested l.funds cur target
    let total := r.2.1 + r.2.2
    let lf := l.lockedFunds - total
    if lf < 0 then .error .illegalState
    else .ok ({ funds := r.1, lockedFunds := lf }, r.2.2, total)

/-- `locked_reward_from_reward` (monies.rs): `(reward * NUM).div_floor(DENOM)` -/
def lockedRewardFromReward (reward : Int) : Int :=
  Int.fdiv (reward * BA.Gen.lockedRewardFactorNum) BA.Gen.lockedRewardFactorDenom

/-! ### histories over the ledger -/

inductive Op where
  | add (cur sum pps : Int) (spec : VestSpec)
  | unlock (cur : Int)
  | forced (cur target : Int)
  deriving Repr, Inhabited

/-- running totals next to the ledger: everything ever locked, everything ever unlocked -/
structure Hist where
  ledger : Ledger := {}
  everLocked : Int := 0
  everUnlocked : Int := 0
  deriving Repr, Inhabited

/-- one call; a failing call changes nothing (the message aborts) -/
def step (h : Hist) : Op → Hist
  | .add cur sum pps spec =>
    match stAddLockedFunds h.ledger cur sum pps spec with
    | .error _ => h
    | .ok (l, u) => { ledger := l, everLocked := h.everLocked + sum, everUnlocked := h.everUnlocked + u }
  | .unlock cur =>
    match stUnlockVestedFunds h.ledger cur with
    | .error _ => h
    | .ok (l, u) => { h with ledger := l, everUnlocked := h.everUnlocked + u }
  | .forced cur target =>
    match stUnlockVestedAndUnvested h.ledger cur target with
    | .error _ => h
    | .ok (l, _, total) => { h with ledger := l, everUnlocked := h.everUnlocked + total }

def run (h : Hist) : List Op → Hist
  | [] => h
  | op :: rest => run (step h op) rest

end BA.Vesting
