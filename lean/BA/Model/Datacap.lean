/-
  Model of the DataCap token ledger: actors/datacap/src/lib.rs on top of the external
  `frc46_token` crate (modelled as an ideal ledger: balances, allowances, supply).
  Amounts are in token atto-units (`Int`); every mint/burn/transfer amount must be non-negative
  and a multiple of the granularity `precision` (= TOKEN_PRECISION, whole DataCap units only).
  Ghost fields `minted` / `burnt` accumulate what the ledger ever minted / burnt.

  Zero balances / allowances are kept as explicit zero entries (the real HAMTs delete them);
  the projection compared with the implementation filters zeros.
-/
import BA.Prelude
import BA.Generated.Constants

namespace BA.Datacap
open BA

def precision : Int := BA.Gen.datacapTokenPrecision
/-- `INFINITE_ALLOWANCE` of actors/datacap/src/lib.rs -/
def infiniteAllowance : Int := precision * 1000000000000000000000

structure State where
  governor : Nat
  balances : List (Nat × Int) := []
  /-- owner ↦ operator ↦ allowance -/
  allowances : List (Nat × List (Nat × Int)) := []
  supply : Int := 0
  /-- ghost: Σ of all successful mints -/
  minted : Int := 0
  /-- ghost: Σ of all successful burns -/
  burnt : Int := 0
  deriving Repr, DecidableEq, Inhabited

def bal (s : State) (a : Nat) : Int :=
  match alookup a s.balances with
  | some v => v
  | none => 0

def allowance (s : State) (owner operator : Nat) : Int :=
  match alookup owner s.allowances with
  | none => 0
  | some m => match alookup operator m with
    | some v => v
    | none => 0

/-- `validate_amount_with_granularity` -/
def checkAmount (a : Int) : Except Err Unit :=
  if a < 0 then .error .illegalArgument
  else if a % precision ≠ 0 then .error .illegalArgument
  else .ok ()

/-- `TokenState::change_balance_by` -/
def changeBalance (s : State) (a : Nat) (d : Int) : Except Err State :=
  if bal s a + d < 0 then .error .insufficientFunds
  else .ok { s with balances := aset a (bal s a + d) s.balances }

/-- `TokenState::change_supply_by` -/
def changeSupply (s : State) (d : Int) : Except Err State :=
  if s.supply + d < 0 then .error .illegalState
  else .ok { s with supply := s.supply + d }

def setAllowanceRaw (s : State) (owner operator : Nat) (v : Int) : State :=
  let m := match alookup owner s.allowances with
    | some m => m
    | none => []
  { s with allowances := aset owner (aset operator v m) s.allowances }

/-- `TokenState::change_allowance_by` (new allowance = max(old + delta, 0)) -/
def changeAllowance (s : State) (owner operator : Nat) (d : Int) : State :=
  let n := allowance s owner operator + d
  setAllowanceRaw s owner operator (if n < 0 then 0 else n)

/-- `TokenState::attempt_use_allowance` -/
def useAllowance (s : State) (operator owner : Nat) (amount : Int) : Except Err State :=
  let cur := allowance s owner operator
  if (cur = 0 ∧ operator ≠ owner) ∨ cur < amount then .error .insufficientFunds
  else if amount = 0 then .ok s
  else .ok (changeAllowance s owner operator (-amount))

/-- `TokenState::make_transfer` -/
def makeTransfer (s : State) (from_ to : Nat) (amount : Int) : Except Err State :=
  if from_ = to then
    if bal s from_ < amount then .error .insufficientFunds else .ok s
  else
    match changeBalance s from_ (-amount) with
    | .error e => .error e
    | .ok s1 => changeBalance s1 to amount

/-- the `for delegate in operators { set_allowance(to, delegate, INFINITE) }` loop of `mint` -/
def setInfinite (s : State) (owner : Nat) : List Nat → State
  | [] => s
  | op :: rest => setInfinite (setAllowanceRaw s owner op infiniteAllowance) owner rest

/-- `Token::mint` + the operator allowances of `Actor::mint` (before the receiver hook) -/
def mintL (s : State) (to : Nat) (amount : Int) (operators : List Nat) : Except Err State :=
  match checkAmount amount with
  | .error e => .error e
  | .ok () =>
    match changeBalance s to amount with
    | .error e => .error e
    | .ok s1 =>
      match changeSupply s1 amount with
      | .error e => .error e
      | .ok s2 => .ok (setInfinite { s2 with minted := s2.minted + amount } to operators)

/-- `Token::burn` -/
def burnL (s : State) (owner : Nat) (amount : Int) : Except Err State :=
  match checkAmount amount with
  | .error e => .error e
  | .ok () =>
    match changeBalance s owner (-amount) with
    | .error e => .error e
    | .ok s1 =>
      match changeSupply s1 (-amount) with
      | .error e => .error e
      | .ok s2 => .ok { s2 with burnt := s2.burnt + amount }

/-- `Token::burn_from` -/
def burnFromL (s : State) (operator owner : Nat) (amount : Int) : Except Err State :=
  match checkAmount amount with
  | .error e => .error e
  | .ok () =>
    if operator = owner then .error .illegalArgument
    else match useAllowance s operator owner amount with
      | .error e => .error e
      | .ok s1 =>
        match changeBalance s1 owner (-amount) with
        | .error e => .error e
        | .ok s2 =>
          match changeSupply s2 (-amount) with
          | .error e => .error e
          | .ok s3 => .ok { s3 with burnt := s3.burnt + amount }

/-- `Actor::transfer` up to (excluding) the receiver hook -/
def transferL (s : State) (from_ to : Nat) (amount : Int) : Except Err State :=
  if ¬ (to = s.governor ∨ from_ = s.governor) then .error .forbidden
  else match checkAmount amount with
    | .error e => .error e
    | .ok () => makeTransfer s from_ to amount

/-- `Actor::transfer_from` up to (excluding) the receiver hook -/
def transferFromL (s : State) (operator from_ to : Nat) (amount : Int) : Except Err State :=
  if to ≠ s.governor then .error .forbidden
  else match checkAmount amount with
    | .error e => .error e
    | .ok () =>
      if operator = from_ then .error .illegalArgument
      else match useAllowance s operator from_ amount with
        | .error e => .error e
        | .ok s1 => makeTransfer s1 from_ to amount

def increaseAllowanceL (s : State) (owner operator : Nat) (d : Int) : Except Err State :=
  if d < 0 then .error .illegalArgument else .ok (changeAllowance s owner operator d)

def decreaseAllowanceL (s : State) (owner operator : Nat) (d : Int) : Except Err State :=
  if d < 0 then .error .illegalArgument else .ok (changeAllowance s owner operator (-d))

def revokeAllowanceL (s : State) (owner operator : Nat) : State :=
  setAllowanceRaw s owner operator 0

def init (governor : Nat) : State := { governor := governor }

end BA.Datacap
