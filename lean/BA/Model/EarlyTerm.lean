/-
  Early-termination work of one miner (actors/miner/src/lib.rs): the queue of sectors awaiting
  early-termination processing (`state.early_terminations` / the partitions' `early_terminated`
  queues, abstracted to its size), and the miner's `ProcessEarlyTerminations` events in the power
  actor's cron queue (`schedule_early_termination_work` enrolls one for the next epoch).
-/
import BA.Prelude

namespace BA.EarlyTerm
open BA

structure St where
  /-- sectors awaiting early-termination processing -/
  q : Nat := 0
  /-- epochs of this miner's queued ProcessEarlyTerminations events -/
  events : List Int := []
  deriving Repr, DecidableEq, Inhabited

/-- what one `process_early_terminations` call takes off the queue: at most `cap`
    (`addressed_sectors_max` / `addressed_partitions_max`) -/
def take (q cap : Nat) : Nat := min q cap

/-- `schedule_early_termination_work` at epoch `e` -/
def schedule (s : St) (e : Int) : St := { s with events := s.events ++ [e + 1] }

/-- TerminateSectors at epoch `e`: `n` sectors join the queue, then one inline
    `process_early_terminations`; an event is scheduled when work remains and none was pending before -/
def terminate (s : St) (e : Int) (n cap : Nat) : St :=
  let had := decide (s.q > 0)
  let q1 := s.q + n
  let q2 := q1 - take q1 cap
  let s1 := { s with q := q2 }
  if q2 > 0 ∧ had = false then schedule s1 e else s1

/-- the proving-deadline callback at epoch `e` finding `n` sectors whose faults timed out: when
    nothing was pending before, it processes some at once and defers the rest to the next epoch;
    when work was already pending its event has run or will run this epoch, nothing more is done -/
def detect (s : St) (e : Int) (n cap : Nat) : St :=
  let had := decide (s.q > 0)
  let q1 := s.q + n
  if had = false ∧ q1 > 0 then
    let q2 := q1 - take q1 cap
    let s1 := { s with q := q2 }
    if q2 > 0 then schedule s1 e else s1
  else { s with q := q1 }

/-- the ProcessEarlyTerminations callback for the event queued at `ev`, running at epoch `e` -/
def event (s : St) (ev e : Int) (cap : Nat) : St :=
  let s1 := { s with events := s.events.erase ev, q := s.q - take s.q cap }
  if s1.q > 0 then schedule s1 e else s1

/-- the tick at epoch `e`: every due event of the miner is dispatched (oldest first) -/
def tick (s : St) (e : Int) (cap : Nat) : St :=
  (s.events.filter (fun ev => decide (ev ≤ e))).foldl (fun acc ev => event acc ev e cap) s

end BA.EarlyTerm
