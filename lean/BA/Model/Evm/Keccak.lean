/-
  Executable Keccak-256 (the pre-NIST padding `0x01 … 0x80`, rate 136 bytes, capacity 512,
  Keccak-f[1600] with 24 rounds) — the hash the EVM/EAM use (`SupportedHashes::Keccak256`).
  Import-free so the driver links as a `lean_exe`.

  Validation: the vectors `keccak256 "" = c5d246…5d85a470` and `keccak256 "abc" = 4e0365…d45` (and
  two multi-block ones) are checked by the compiled driver (`driver init`, op `selftest`) on every
  harness run and every CREATE/CREATE2 address the real EAM returns is compared with this function.
  That is a *test*, not a proof: kernel reduction of 24 rounds over `UInt64` is too slow for
  `decide`.  No theorem depends on the values of this function (collision resistance is an
  assumption stated in `BA/Props/C20.lean`, never an axiom).
-/
namespace BA.Evm

/-- round constants of ι -/
def keccakRC : Array UInt64 := #[
  0x0000000000000001, 0x0000000000008082, 0x800000000000808A, 0x8000000080008000,
  0x000000000000808B, 0x0000000080000001, 0x8000000080008081, 0x8000000000008009,
  0x000000000000008A, 0x0000000000000088, 0x0000000080008009, 0x000000008000000A,
  0x000000008000808B, 0x800000000000008B, 0x8000000000008089, 0x8000000000008003,
  0x8000000000008002, 0x8000000000000080, 0x000000000000800A, 0x800000008000000A,
  0x8000000080008081, 0x8000000000008080, 0x0000000080000001, 0x8000000080008008]

/-- rotation offsets of ρ, index `x + 5*y` -/
def keccakRot : Array Nat := #[
  0, 1, 62, 28, 27,
  36, 44, 6, 55, 20,
  3, 10, 43, 25, 39,
  41, 45, 15, 21, 8,
  18, 2, 61, 56, 14]

def rotl64 (x : UInt64) (n : Nat) : UInt64 :=
  let k := n % 64
  if k = 0 then x else (x <<< k.toUInt64) ||| (x >>> (64 - k).toUInt64)

/-- one round of Keccak-f[1600] on 25 lanes (index `x + 5*y`) -/
def keccakRound (a : Array UInt64) (rc : UInt64) : Array UInt64 :=
  let g := fun (i : Nat) => a.getD i 0
  -- θ
  let c : Array UInt64 := Array.ofFn (n := 5) fun x =>
    g x.val ^^^ g (x.val + 5) ^^^ g (x.val + 10) ^^^ g (x.val + 15) ^^^ g (x.val + 20)
  let d : Array UInt64 := Array.ofFn (n := 5) fun x =>
    c.getD ((x.val + 4) % 5) 0 ^^^ rotl64 (c.getD ((x.val + 1) % 5) 0) 1
  let a1 : Array UInt64 := Array.ofFn (n := 25) fun i => g i.val ^^^ d.getD (i.val % 5) 0
  -- ρ and π:  B[y, 2x+3y] = rot(A[x,y], r[x,y]);  inverted: target (X,Y) comes from x = X+3Y, y = X
  let b : Array UInt64 := Array.ofFn (n := 25) fun j =>
    let X := j.val % 5
    let Y := j.val / 5
    let x := (X + 3 * Y) % 5
    let y := X
    rotl64 (a1.getD (x + 5 * y) 0) (keccakRot.getD (x + 5 * y) 0)
  -- χ
  let a2 : Array UInt64 := Array.ofFn (n := 25) fun j =>
    let X := j.val % 5
    let Y := j.val / 5
    b.getD j.val 0 ^^^ ((~~~ b.getD ((X + 1) % 5 + 5 * Y) 0) &&& b.getD ((X + 2) % 5 + 5 * Y) 0)
  -- ι
  a2.setIfInBounds 0 (a2.getD 0 0 ^^^ rc)

def keccakF (a : Array UInt64) : Array UInt64 := keccakRC.foldl keccakRound a

/-- multi-rate padding of (original) Keccak: `0x01 0x00… 0x80`, one byte `0x81` if one byte is missing -/
def keccakPad (m : List UInt8) : List UInt8 :=
  let q := 136 - m.length % 136
  if q = 1 then m ++ [0x81] else m ++ [0x01] ++ List.replicate (q - 2) 0 ++ [0x80]

/-- little-endian lane at byte offset `o` -/
def laneAt (b : Array UInt8) (o : Nat) : UInt64 :=
  (List.range 8).foldl (fun acc k => acc ||| ((b.getD (o + k) 0).toUInt64 <<< (8 * k).toUInt64)) 0

def absorbBlock (st : Array UInt64) (blk : Array UInt8) (off : Nat) : Array UInt64 :=
  Array.ofFn (n := 25) fun i =>
    if i.val < 17 then st.getD i.val 0 ^^^ laneAt blk (off + 8 * i.val) else st.getD i.val 0

/-- Keccak-256 of a byte string; 32 bytes out. -/
def keccak256 (m : List UInt8) : List UInt8 :=
  let p := (keccakPad m).toArray
  let nblk := p.size / 136
  let st := (List.range nblk).foldl (fun st k => keccakF (absorbBlock st p (136 * k)))
    (Array.replicate 25 (0 : UInt64))
  (List.range 32).map fun i => ((st.getD (i / 8) 0) >>> (8 * (i % 8)).toUInt64).toUInt8

/-- `ByteArray` front end. -/
def keccak256B (m : ByteArray) : ByteArray := ⟨(keccak256 m.data.toList).toArray⟩

end BA.Evm
