/-
  Executable model of the EVM interpreter of `actors/evm/src/interpreter` for the instruction
  families named in C17: arithmetic / comparison / bitwise (via `Word.lean`), stack (PUSH0–32, DUP,
  SWAP, POP), memory (MLOAD MSTORE MSTORE8 MSIZE MCOPY), storage and transient storage, call data,
  code and return-data copying, KECCAK256 (hash = environment oracle), control flow (JUMP JUMPI PC
  JUMPDEST with the jump-destination analysis of `bytecode.rs`), STOP RETURN REVERT INVALID, and the
  one CALL-family case needed to obtain non-empty return data: STATICCALL to the identity precompile
  (address 4).  Everything else that the real jump table defines is `unsupported` (environment), bytes
  the table does not define are `undefinedInstruction`.

  The step follows the Rust macros of `instructions/mod.rs` (pop_many → compute → push_unchecked,
  `ensure_one` for 0-ary functions, checked `push` for PUSHn/PC, overflow before underflow in DUP) and the
  helper functions (`get_memory_region`, `copy_to_memory`, `Memory::grow`) check by check.
  No Mathlib imports.
-/
import BA.Prelude
import BA.Model.Evm.Word

namespace BA.Evm
open BA

/-- failure classes = the actor's exit codes (lib.rs: 34 … 39) + model-only classes -/
inductive Halt where
  | invalidInstruction        -- 34
  | undefinedInstruction      -- 35
  | stackUnderflow            -- 36
  | stackOverflow             -- 37
  | illegalMemoryAccess       -- 38
  | badJumpdest               -- 39
  | unsupported (op : Nat)    -- defined by the real table, outside this model
  | needHash (input : List UInt8)  -- the hash oracle has no answer for this input
  | outOfFuel
  deriving Repr, DecidableEq, Inhabited

inductive Outcome where
  | ret | revert
  deriving Repr, DecidableEq, Inhabited

structure Env where
  code : Array UInt8
  calldata : Array UInt8
  /-- Keccak-256 as an environment oracle -/
  hash : List UInt8 → Option W
  /-- jump-destination bitmap of `code` (`analyze code`) -/
  jumpdest : Array Bool

structure St where
  pc : Nat := 0
  /-- head = top of the stack -/
  stack : List W := []
  /-- `ByteArray` (not `Array UInt8`) so that the compiled driver handles 64 KiB memories quickly -/
  memory : ByteArray := ByteArray.empty
  returnData : Array UInt8 := #[]
  /-- non-zero slots, keyed by `toNat` of the key -/
  storage : List (Nat × W) := []
  transient : List (Nat × W) := []
  output : Option (Outcome × Array UInt8) := none
  deriving Inhabited

def stackLimit : Nat := 1024
def u32Max : Nat := 2 ^ 32 - 1

/-! ## bytes and words -/

/-- `U256::from_big_endian` -/
def bytesToWord (bs : List UInt8) : W :=
  BitVec.ofNat 256 (bs.foldl (fun acc b => acc * 256 + b.toNat) 0)

/-- `to_big_endian`: 32 bytes, most significant first -/
def wordToBytes (w : W) : List UInt8 :=
  (List.range 32).map (fun j => UInt8.ofNat ((w.toNat >>> (8 * (31 - j))) % 256))

/-- `bytes` followed by zeros up to length `n` -/
def padRight (n : Nat) (bs : List UInt8) : List UInt8 :=
  bs ++ List.replicate (n - bs.length) 0

def slice (a : Array UInt8) (off len : Nat) : List UInt8 := (a.extract off (off + len)).toList

/-- `memory[off..off+len]` -/
def mslice (m : ByteArray) (off len : Nat) : List UInt8 := (m.extract off (off + len)).toList

def pushZeros : Nat → ByteArray → ByteArray
  | 0, m => m
  | n + 1, m => pushZeros n (m.push 0)

/-! ## bytecode.rs: jump destination analysis -/

def analyzeLoop (code : Array UInt8) : Nat → Nat → Array Bool → Array Bool
  | 0, _, jd => jd
  | fuel + 1, i, jd =>
    if h : i < code.size then
      let op := code[i]
      if op = 0x5b then analyzeLoop code fuel (i + 1) (jd.setIfInBounds i true)
      else if 0x60 ≤ op ∧ op ≤ 0x7f then analyzeLoop code fuel (i + (op.toNat - 0x60) + 2) jd
      else analyzeLoop code fuel (i + 1) jd
    else jd

/-- `Bytecode::new`: mark `i` iff the scan from 0 reaches `i` as an instruction start and `code[i] = 0x5b` -/
def analyze (code : Array UInt8) : Array Bool :=
  analyzeLoop code code.size 0 (Array.replicate code.size false)

def validJumpdest (jd : Array Bool) (dst : Nat) : Bool := jd.getD dst false

/-! ## memory.rs -/

/-- `Memory::grow`: extend with zeros to the next multiple of 32 ≥ `newSize` -/
def memGrow (m : ByteArray) (newSize : Nat) : ByteArray :=
  if newSize ≤ m.size then m
  else
    let aligned := if newSize % 32 > 0 then newSize + (32 - newSize % 32) else newSize
    pushZeros (aligned - m.size) m

/-- `get_memory_region`: error for sizes / offsets / ends beyond `u32::MAX`, `none` for size 0,
    otherwise grows the memory and returns `(offset, size)` -/
def memRegion (m : ByteArray) (off size : W) : Except Halt (ByteArray × Option (Nat × Nat)) :=
  if size.toNat > u32Max then .error .illegalMemoryAccess
  else if size.toNat = 0 then .ok (m, none)
  else if off.toNat > u32Max then .error .illegalMemoryAccess
  else if off.toNat + size.toNat > u32Max then .error .illegalMemoryAccess
  else .ok (memGrow m (off.toNat + size.toNat), some (off.toNat, size.toNat))

def writeBytes (m : ByteArray) (off : Nat) : List UInt8 → ByteArray
  | [] => m
  | b :: t => writeBytes (m.set! off b) (off + 1) t

/-- `copy_to_memory` -/
def copyToMemory (m : ByteArray) (destOff destSize dataOff : W) (data : Array UInt8)
    (zeroFill : Bool) : Except Halt ByteArray :=
  match memRegion m destOff destSize with
  | .error e => .error e
  | .ok (m, none) => .ok m
  | .ok (m, some (off, size)) =>
    let dataLen := data.size
    let dOff := if dataOff.toNat < dataLen then dataOff.toNat else dataLen
    let copySize := if destSize.toNat < dataLen - dOff then destSize.toNat else dataLen - dOff
    let m := writeBytes m off (slice data dOff copySize)
    let m := if zeroFill ∧ size > copySize then
        writeBytes m (off + copySize) (List.replicate (size - copySize) 0) else m
    .ok m

/-! ## instruction helpers -/

/-- `stack::push::<n>` applied to `code[pc+1..]`: the next `n` bytes, zero padded on the right when the
    code ends early -/
def pushImm (code : Array UInt8) (pc n : Nat) : W :=
  bytesToWord (padRight n (slice code (pc + 1) n))

/-- `calldataload` as coded -/
def calldataloadImpl (cd : Array UInt8) (idx : W) : W :=
  let start := idx.toNat
  if start < cd.size then
    let end_ := min (start + 32) cd.size
    bytesToWord (padRight 32 (slice cd start (end_ - start)))
  else 0#256

/-- CALLDATALOAD per the Yellow Paper: byte `j` of the result is `data[idx + j]`, 0 beyond the end -/
def calldataloadSpec (cd : Array UInt8) (idx : W) : W :=
  bytesToWord ((List.range 32).map (fun j => cd.getD (idx.toNat + j) 0))

def pushChecked (v : W) (st : List W) : Except Halt (List W) :=
  if st.length ≥ stackLimit then .error .stackOverflow else .ok (v :: st)

/-- `Stack::dup(i)` -/
def dupN (i : Nat) (st : List W) : Except Halt (List W) :=
  if st.length ≥ stackLimit then .error .stackOverflow
  else match st[i - 1]? with
    | none => .error .stackUnderflow
    | some v => .ok (v :: st)

/-- `Stack::swap_top(i)` -/
def swapN (i : Nat) (st : List W) : Except Halt (List W) :=
  match st, st[i]? with
  | top :: _, some v => .ok ((st.set i top).set 0 v)
  | _, _ => .error .stackUnderflow

def sset (k : W) (v : W) (m : List (Nat × W)) : List (Nat × W) :=
  if v = 0#256 then aerase k.toNat m else aset k.toNat v (aerase k.toNat m)

def sget (k : W) (m : List (Nat × W)) : W := (alookup k.toNat m).getD 0#256

def unop (f : W → W) (s : St) : Except Halt St :=
  match s.stack with
  | a :: rest => .ok { s with stack := f a :: rest, pc := s.pc + 1 }
  | _ => .error .stackUnderflow

def binop (f : W → W → W) (s : St) : Except Halt St :=
  match s.stack with
  | a :: b :: rest => .ok { s with stack := f a b :: rest, pc := s.pc + 1 }
  | _ => .error .stackUnderflow

def ternop (f : W → W → W → W) (s : St) : Except Halt St :=
  match s.stack with
  | a :: b :: c :: rest => .ok { s with stack := f a b c :: rest, pc := s.pc + 1 }
  | _ => .error .stackUnderflow

/-- 0-ary `def_stdfun!`: `ensure_one` then `push_unchecked` -/
def nullop (v : W) (s : St) : Except Halt St :=
  if s.stack.length ≥ stackLimit then .error .stackOverflow
  else .ok { s with stack := v :: s.stack, pc := s.pc + 1 }

def exitWith (env : Env) (kind : Outcome) (s : St) : Except Halt St :=
  match s.stack with
  | off :: size :: rest =>
    match memRegion s.memory off size with
    | .error e => .error e
    | .ok (m, none) => .ok { s with stack := rest, memory := m, output := some (kind, #[]), pc := env.code.size }
    | .ok (m, some (o, n)) =>
      .ok { s with stack := rest, memory := m, output := some (kind, (m.extract o (o + n)).data), pc := env.code.size }
  | _ => .error .stackUnderflow

def jumpTo (env : Env) (dest : W) (s : St) (rest : List W) : Except Halt St :=
  if dest.toNat > u32Max then .error .badJumpdest
  else if validJumpdest env.jumpdest dest.toNat then .ok { s with stack := rest, pc := dest.toNat + 1 }
  else .error .badJumpdest

/-- every opcode outside PUSH0–32 / DUP1–16 / SWAP1–16 -/
def stepOther (env : Env) (s : St) (op : Nat) : Except Halt St :=
  match op with
  | 0x00 => .ok { s with output := some (.ret, #[]), pc := env.code.size }
  | 0x01 => binop addImpl s
  | 0x02 => binop mulImpl s
  | 0x03 => binop subImpl s
  | 0x04 => binop divImpl s
  | 0x05 => binop sdivImpl s
  | 0x06 => binop modImpl s
  | 0x07 => binop smodImpl s
  | 0x08 => ternop addmodImpl s
  | 0x09 => ternop mulmodImpl s
  | 0x0a => binop expImpl s
  | 0x0b => binop signextendImpl s
  | 0x10 => binop ltImpl s
  | 0x11 => binop gtImpl s
  | 0x12 => binop sltImpl s
  | 0x13 => binop sgtImpl s
  | 0x14 => binop eqImpl s
  | 0x15 => unop iszeroImpl s
  | 0x16 => binop andImpl s
  | 0x17 => binop orImpl s
  | 0x18 => binop xorImpl s
  | 0x19 => unop notImpl s
  | 0x1a => binop byteImpl s
  | 0x1b => binop shlImpl s
  | 0x1c => binop shrImpl s
  | 0x1d => binop sarImpl s
  | 0x1e => unop clzImpl s
  | 0x20 => -- KECCAK256(index, size)
    match s.stack with
    | idx :: size :: rest =>
      match memRegion s.memory idx size with
      | .error e => .error e
      | .ok (m, region) =>
        let input := match region with
          | none => []
          | some (o, n) => mslice m o n
        match env.hash input with
        | none => .error (.needHash input)
        | some h => .ok { s with stack := h :: rest, memory := m, pc := s.pc + 1 }
    | _ => .error .stackUnderflow
  | 0x35 => unop (calldataloadImpl env.calldata) s
  | 0x36 => nullop (BitVec.ofNat 256 env.calldata.size) s
  | 0x37 => -- CALLDATACOPY(mem, input, size)
    match s.stack with
    | a :: b :: c :: rest =>
      match copyToMemory s.memory a c b env.calldata true with
      | .error e => .error e
      | .ok m => .ok { s with stack := rest, memory := m, pc := s.pc + 1 }
    | _ => .error .stackUnderflow
  | 0x38 => nullop (BitVec.ofNat 256 env.code.size) s
  | 0x39 => -- CODECOPY
    match s.stack with
    | a :: b :: c :: rest =>
      match copyToMemory s.memory a c b env.code true with
      | .error e => .error e
      | .ok m => .ok { s with stack := rest, memory := m, pc := s.pc + 1 }
    | _ => .error .stackUnderflow
  | 0x3d => nullop (BitVec.ofNat 256 s.returnData.size) s
  | 0x3e => -- RETURNDATACOPY(mem, input, size)
    match s.stack with
    | memIdx :: inIdx :: size :: rest =>
      match memRegion s.memory memIdx size with
      | .error e => .error e
      | .ok (m, region) =>
        if inIdx.toNat ≥ 2 ^ 64 then .error .illegalMemoryAccess
        else
          let src := inIdx.toNat
          if src > s.returnData.size then .error .illegalMemoryAccess
          else
            let n := match region with | none => 0 | some (_, n) => n
            if src + n > s.returnData.size then .error .illegalMemoryAccess
            else
              let m := match region with
                | none => m
                | some (o, n) => writeBytes m o (slice s.returnData src n)
              .ok { s with stack := rest, memory := m, pc := s.pc + 1 }
    | _ => .error .stackUnderflow
  | 0x50 => -- POP
    match s.stack with
    | _ :: rest => .ok { s with stack := rest, pc := s.pc + 1 }
    | _ => .error .stackUnderflow
  | 0x51 => -- MLOAD
    match s.stack with
    | idx :: rest =>
      match memRegion s.memory idx 32#256 with
      | .error e => .error e
      | .ok (m, none) => .ok { s with stack := 0#256 :: rest, memory := m, pc := s.pc + 1 }
      | .ok (m, some (o, n)) =>
        .ok { s with stack := bytesToWord (mslice m o n) :: rest, memory := m, pc := s.pc + 1 }
    | _ => .error .stackUnderflow
  | 0x52 => -- MSTORE
    match s.stack with
    | idx :: v :: rest =>
      match memRegion s.memory idx 32#256 with
      | .error e => .error e
      | .ok (m, none) => .ok { s with stack := rest, memory := m, pc := s.pc + 1 }
      | .ok (m, some (o, _)) =>
        .ok { s with stack := rest, memory := writeBytes m o (wordToBytes v), pc := s.pc + 1 }
    | _ => .error .stackUnderflow
  | 0x53 => -- MSTORE8
    match s.stack with
    | idx :: v :: rest =>
      match memRegion s.memory idx 1#256 with
      | .error e => .error e
      | .ok (m, none) => .ok { s with stack := rest, memory := m, pc := s.pc + 1 }
      | .ok (m, some (o, _)) =>
        .ok { s with stack := rest, memory := m.set! o (UInt8.ofNat (v.toNat % 2 ^ 32 % 256)),
                     pc := s.pc + 1 }
    | _ => .error .stackUnderflow
  | 0x54 => -- SLOAD
    match s.stack with
    | k :: rest => .ok { s with stack := sget k s.storage :: rest, pc := s.pc + 1 }
    | _ => .error .stackUnderflow
  | 0x55 => -- SSTORE
    match s.stack with
    | k :: v :: rest => .ok { s with stack := rest, storage := sset k v s.storage, pc := s.pc + 1 }
    | _ => .error .stackUnderflow
  | 0x56 => -- JUMP
    match s.stack with
    | dest :: rest => jumpTo env dest s rest
    | _ => .error .stackUnderflow
  | 0x57 => -- JUMPI
    match s.stack with
    | dest :: test :: rest =>
      if test ≠ 0#256 then jumpTo env dest s rest
      else .ok { s with stack := rest, pc := s.pc + 1 }
    | _ => .error .stackUnderflow
  | 0x58 => -- PC (`def_special!`: checked push)
    match pushChecked (BitVec.ofNat 256 s.pc) s.stack with
    | .error e => .error e
    | .ok st => .ok { s with stack := st, pc := s.pc + 1 }
  | 0x59 => nullop (BitVec.ofNat 256 s.memory.size) s
  | 0x5b => .ok { s with pc := s.pc + 1 }
  | 0x5c => -- TLOAD
    match s.stack with
    | k :: rest => .ok { s with stack := sget k s.transient :: rest, pc := s.pc + 1 }
    | _ => .error .stackUnderflow
  | 0x5d => -- TSTORE
    match s.stack with
    | k :: v :: rest => .ok { s with stack := rest, transient := sset k v s.transient, pc := s.pc + 1 }
    | _ => .error .stackUnderflow
  | 0x5e => -- MCOPY(dest, src, size)
    match s.stack with
    | dst :: src :: size :: rest =>
      if size = 0#256 then .ok { s with stack := rest, pc := s.pc + 1 }
      else
        match memRegion s.memory src size with
        | .error e => .error e
        | .ok (m, none) => .ok { s with stack := rest, memory := m, pc := s.pc + 1 }
        | .ok (m, some (so, n)) =>
          match memRegion m dst size with
          | .error e => .error e
          | .ok (m, none) => .ok { s with stack := rest, memory := m, pc := s.pc + 1 }
          | .ok (m, some (d, _)) =>
            .ok { s with stack := rest, memory := writeBytes m d (mslice m so n), pc := s.pc + 1 }
    | _ => .error .stackUnderflow
  | 0xf3 => exitWith env .ret s
  | 0xfd => exitWith env .revert s
  | 0xfe => .error .invalidInstruction
  | 0xfa => -- STATICCALL; only the identity precompile (address 4) is modelled
    match s.stack with
    | _gas :: dst :: ioff :: isz :: ooff :: osz :: rest =>
      if dst ≠ 4#256 then .error (.unsupported op)
      else
        match memRegion s.memory ioff isz with
        | .error e => .error e
        | .ok (m, region) =>
          let input : Array UInt8 := match region with
            | none => #[]
            | some (o, n) => (m.extract o (o + n)).data
          match copyToMemory m ooff osz 0#256 input false with
          | .error e => .error e
          | .ok m => .ok { s with stack := 1#256 :: rest, memory := m, returnData := input, pc := s.pc + 1 }
    | _ => .error .stackUnderflow
  | _ =>
    if (0x30 ≤ op ∧ op ≤ 0x34) ∨ (0x3a ≤ op ∧ op ≤ 0x3c) ∨ (0x3f ≤ op ∧ op ≤ 0x48) ∨ op = 0x5a
        ∨ (0xa0 ≤ op ∧ op ≤ 0xa4) ∨ op = 0xf0 ∨ op = 0xf1 ∨ op = 0xf4 ∨ op = 0xf5 ∨ op = 0xff then
      .error (.unsupported op)
    else .error .undefinedInstruction

/-- PUSHn: `pc += 1; pc += push::<n>(stack, &code[pc..])?` (checked push) -/
def stepPush (env : Env) (s : St) (n : Nat) : Except Halt St :=
  match pushChecked (pushImm env.code s.pc n) s.stack with
  | .error e => .error e
  | .ok st => .ok { s with stack := st, pc := s.pc + 1 + n }

def stepDup (s : St) (n : Nat) : Except Halt St :=
  match dupN n s.stack with
  | .error e => .error e
  | .ok st => .ok { s with stack := st, pc := s.pc + 1 }

def stepSwap (s : St) (n : Nat) : Except Halt St :=
  match swapN n s.stack with
  | .error e => .error e
  | .ok st => .ok { s with stack := st, pc := s.pc + 1 }

/-- one instruction at `s.pc < env.code.size` -/
def step (env : Env) (s : St) : Except Halt St :=
  let op := (env.code.getD s.pc 0).toNat
  if 0x5f ≤ op ∧ op ≤ 0x7f then stepPush env s (op - 0x5f)
  else if 0x80 ≤ op ∧ op ≤ 0x8f then stepDup s (op - 0x7f)
  else if 0x90 ≤ op ∧ op ≤ 0x9f then stepSwap s (op - 0x8f)
  else stepOther env s op

/-- `Machine::execute`: `while pc < code.len() { step }`, then the output (default: Return, empty) -/
def run (env : Env) : Nat → St → Except Halt St
  | 0, s => if s.pc < env.code.size then .error .outOfFuel else .ok s
  | fuel + 1, s =>
    if s.pc < env.code.size then
      match step env s with
      | .error e => .error e
      | .ok s' => run env fuel s'
    else .ok s

def mkEnv (code calldata : Array UInt8) (hash : List UInt8 → Option W) : Env :=
  { code, calldata, hash, jumpdest := analyze code }

/-- outcome of a whole invocation: outcome kind + data + final storage, or the failure class -/
def exec (code calldata : Array UInt8) (hash : List UInt8 → Option W) (storage : List (Nat × W))
    (fuel : Nat) : Except Halt (Outcome × Array UInt8 × List (Nat × W)) :=
  match run (mkEnv code calldata hash) fuel { storage := storage } with
  | .error e => .error e
  | .ok s =>
    match s.output with
    | none => .ok (.ret, #[], s.storage)
    | some (.ret, d) => .ok (.ret, d, s.storage)
    -- a revert rolls the storage back (VM rollback of the failed message)
    | some (.revert, d) => .ok (.revert, d, storage)

end BA.Evm
