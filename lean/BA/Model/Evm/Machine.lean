/-
  Abstract EVM machine for C18 (totality, stack/memory/jump bounds, read-only mode).

  It keeps exactly what C18 is about and follows `actors/evm/src/interpreter` branch by branch:
  * the stack is a list (head = top) manipulated only through the operations of `stack.rs`
    (`push`, `push_unchecked`, `ensure_one`, `pop_many`, `dup`, `swap_top`, `drop`), whose limits and
    comparisons come from `BA/Generated/Opcodes.lean`;
  * one `step` per macro kind of `instructions/mod.rs` (table `BA.Gen.Evm.table`, regenerated from the
    source on every run); the *values* instructions compute are an input (`Answer.value`, owned by C17);
  * `analyze` is the jumpdest analysis of `Bytecode::new` (index loop that skips push data);
  * `memRegion` is `get_memory_region` + `Memory::grow` on the memory *size* (contents belong to C17);
  * the effectful instructions append to `effects` (storage contents belong to C19), guarded by the
    read-only checks of the handlers; `flush` and the flag handed to nested calls as in system.rs / call.rs.
  No imports beyond the generated tables (the driver must link as a plain `lean_exe`).
-/
import BA.Generated.Opcodes
import BA.Generated.Constants

namespace BA.Evm.Machine
open BA.Gen.Evm

abbrev Word := Nat

/-- error classes of an EVM activation (exit codes 34–40 of lib.rs, USR_READ_ONLY, USR_FORBIDDEN from
    `flush`, `env` = any failure handed back by the runtime with `?`).  `arityMismatch` has no
    counterpart in the code (it would not compile) and `panic` stands for a Rust panic (`assert!(i > 0)`
    in `dup`, `topics[i]` out of range in `log`); `no_panic_no_mismatch` shows no table entry reaches them. -/
inductive Err where
  | stackUnderflow | stackOverflow | undefinedInstruction | invalidInstruction
  | illegalMemoryAccess | badJumpdest | selfdestructFailed | readOnly | forbidden | env
  | arityMismatch | panic
  deriving DecidableEq, Repr, Inhabited

def Err.toString : Err → String
  | .stackUnderflow => "stack_underflow" | .stackOverflow => "stack_overflow"
  | .undefinedInstruction => "undefined_instruction" | .invalidInstruction => "invalid_instruction"
  | .illegalMemoryAccess => "illegal_memory_access" | .badJumpdest => "bad_jumpdest"
  | .selfdestructFailed => "selfdestruct_failed" | .readOnly => "read_only"
  | .forbidden => "forbidden" | .env => "env" | .arityMismatch => "arity_mismatch"
  | .panic => "panic"
instance : ToString Err := ⟨Err.toString⟩

/-- exit code of an error class (`env` has no fixed code) -/
def Err.code : Err → Option Nat
  | .stackUnderflow => some exitStackUnderflow | .stackOverflow => some exitStackOverflow
  | .undefinedInstruction => some exitUndefinedInstruction
  | .invalidInstruction => some exitInvalidInstruction
  | .illegalMemoryAccess => some exitIllegalMemoryAccess | .badJumpdest => some exitBadJumpdest
  | .selfdestructFailed => some exitSelfdestructFailed
  | .readOnly => some 25 | .forbidden => some 18 | .env => none | .arityMismatch => none
  | .panic => none

inductive CallKind where
  | call | delegateCall | staticCall
  deriving DecidableEq, Repr, Inhabited

/-- observable effects an activation performs, in order -/
inductive Effect where
  | sstore (k v : Word) | tstore (k v : Word)
  | log (ntopics : Nat) (size : Word)
  | nonceInc | tombstone
  | transfer (dst : Word)
  /-- nested activation: kind, destination, value, READ_ONLY send flag given by the actor -/
  | send (kind : CallKind) (dst value : Word) (roFlag : Bool)
  | createSend (value : Word)
  | stateRootWritten
  deriving DecidableEq, Repr, Inhabited

structure State where
  pc : Nat := 0
  stack : List Word := []
  /-- length of the memory vector in bytes -/
  memSize : Nat := 0
  /-- `System.readonly` -/
  readonly : Bool := false
  /-- `System.saved_state_root == None` -/
  dirty : Bool := false
  /-- `ExecutionState.return_data.len()` -/
  retLen : Nat := 0
  effects : List Effect := []
  deriving Repr, Inhabited

/-- what the environment / the value semantics answer at one step (universally quantified in the theorems) -/
structure Answer where
  /-- the result value the handler computes -/
  value : Word := 0
  /-- a runtime call inside the handler fails and the error is propagated with `?` -/
  fail : Bool := false
  /-- SSTORE/TSTORE: the slot changed; SELFDESTRUCT: the transfer succeeded; CREATE: balance covers the endowment -/
  flag : Bool := true
  /-- CALL family: no nested activation is spawned (precompile, account, missing code, …) -/
  noSend : Bool := false
  /-- length of the data the nested call returned -/
  retLen : Nat := 0
  deriving Repr, Inhabited

/-! ## stack.rs -/

def push (st : List Word) (v : Word) : Except Err (List Word) :=
  if st.length ≥ pushRejectAt then .error .stackOverflow else .ok (v :: st)

def pushUnchecked (st : List Word) (v : Word) : List Word := v :: st

def ensureOne (st : List Word) : Except Err Unit :=
  if st.length ≥ ensureOneRejectAt then .error .stackOverflow else .ok ()

/-- `pop_many::<n>`: (popped values, top first — the order of the macro's argument names; rest) -/
def popMany (n : Nat) (st : List Word) : Except Err (List Word × List Word) :=
  if st.length < n + popManySlack then .error .stackUnderflow else .ok (st.take n, st.drop n)

/-- `dup(i)` -/
def dup (i : Nat) (st : List Word) : Except Err (List Word) :=
  if i = 0 then .error .panic   -- `assert!(i > 0)`
  else if st.length ≥ dupRejectAt then .error .stackOverflow
  else if i + dupSlack > st.length then .error .stackUnderflow
  else match st[i - 1]? with
    | some v => .ok (v :: st)
    | none => .error .stackUnderflow

/-- `swap_top(i)`: exchange the top with the element `i` below it -/
def swapTop (i : Nat) (st : List Word) : Except Err (List Word) :=
  if st.length < i + swapSlack then .error .stackUnderflow
  else match st[0]?, st[i]? with
    | some top, some x => .ok ((st.set 0 x).set i top)
    | _, _ => .error .stackUnderflow

/-- `drop()` -/
def dropTop : List Word → Except Err (List Word)
  | [] => .error .stackUnderflow
  | _ :: t => .ok t

/-! ## memory -/

def align (n : Nat) : Nat := if n % wordSize = 0 then n else n + (wordSize - n % wordSize)

/-- `Memory::grow` on the size -/
def grow (mem newSize : Nat) : Nat := if newSize ≤ mem then mem else align newSize

/-- `get_memory_region`: `none` region for size 0 (offset not even looked at); error when the size, the
    offset or their sum does not fit the 32-bit types; otherwise memory grows to the aligned end. -/
def getMemoryRegion (mem : Nat) (off size : Word) : Except Err (Option (Nat × Nat) × Nat) :=
  if size ≥ 2 ^ memSizeBits then .error .illegalMemoryAccess
  else if size = 0 then .ok (none, mem)
  else if off ≥ 2 ^ memOffsetBits then .error .illegalMemoryAccess
  else if memSumChecked then
    if off + size ≥ 2 ^ memSumBits then .error .illegalMemoryAccess
    else .ok (some (off, size), grow mem (off + size))
  else .ok (some (off, size), grow mem ((off + size) % 2 ^ memSumBits))

/-! ## bytecode.rs -/

abbrev Code := List UInt8

def byteAt (code : Code) (i : Nat) : Option Nat := (code[i]?).map (·.toNat)

/-- the `while i < len` loop of `Bytecode::new`; `fuel` bounds the iterations (each advances `i`) -/
def analyzeLoop (code : Code) : Nat → Nat → List Bool → List Bool
  | 0, _, jd => jd
  | fuel + 1, i, jd =>
    match byteAt code i with
    | none => jd
    | some b =>
      if b = anaJumpdestByte then analyzeLoop code fuel (i + anaJumpdestStep) (jd.set i true)
      else if anaPushLo ≤ b ∧ b ≤ anaPushHi then analyzeLoop code fuel (i + (b - anaPushBase) + anaPushAdd) jd
      else analyzeLoop code fuel (i + anaOtherStep) jd

def analyze (code : Code) : List Bool :=
  analyzeLoop code code.length 0 (List.replicate code.length false)

/-- `valid_jump_destination` -/
def validJumpDest (jd : List Bool) (dst : Nat) : Bool := jd[dst]?.getD false

/-- value pushed by PUSHn at `start` (first data byte): big endian, zero-padded on the right when the
    code ends early -/
def pushValue (code : Code) (start : Nat) : Nat → Nat → Nat
  | 0, acc => acc
  | n + 1, acc => pushValue code (start + 1) n (acc * 256 + ((byteAt code start).getD 0))

/-! ## per-macro-kind stack discipline -/

/-- number of operands the handler function takes (its Rust signature) -/
def handlerArity : Target → Nat
  | .arithmetic_addmod | .arithmetic_mulmod => 3
  | .arithmetic_add | .arithmetic_mul | .arithmetic_sub | .arithmetic_div | .arithmetic_sdiv
  | .arithmetic_modulo | .arithmetic_smod | .arithmetic_exp | .arithmetic_signextend
  | .boolean_lt | .boolean_gt | .boolean_slt | .boolean_sgt | .boolean_eq | .boolean_and
  | .boolean_or | .boolean_xor | .bitwise_byte | .bitwise_shl | .bitwise_shr | .bitwise_sar => 2
  | .boolean_iszero | .boolean_not | .bitwise_clz => 1
  | .hash_keccak256 => 2
  | .state_balance | .call_calldataload | .ext_extcodesize | .ext_extcodehash | .context_blockhash
  | .memory_mload | .storage_sload | .storage_tload => 1
  | .call_calldatacopy | .control_returndatacopy | .call_codecopy | .memory_mcopy => 3
  | .ext_extcodecopy => 4
  | .memory_mstore | .memory_mstore8 | .storage_sstore | .storage_tstore => 2
  | .call_call_call => 7
  | .call_call_delegatecall | .call_call_staticcall => 6
  | .lifecycle_create => 3
  | .lifecycle_create2 => 4
  | .control_ret | .control_revert => 2
  | .lifecycle_selfdestruct => 1
  | .control_jump => 1
  | .control_jumpi => 2
  | _ => 0

/-- pops and pre-handler guard of the `pop_many` macro kinds -/
def pre (e : Entry) (st : List Word) : Except Err (List Word × List Word) :=
  match popMany e.pops st with
  | .error er => .error er
  | .ok (args, rest) =>
    match e.guard with
    | .ensureOne =>
      match ensureOne rest with
      | .error er => .error er
      | .ok () => .ok (args, rest)
    | _ => .ok (args, rest)

/-- push of the handler's result according to the macro arm -/
def post (e : Entry) (rest : List Word) (v : Word) : Except Err (List Word) :=
  match e.guard with
  | .none => .ok rest
  | .unchecked | .ensureOne | .ensureOneIgnored => .ok (pushUnchecked rest v)
  | .checked => push rest v

/-! ## handlers -/

inductive Outcome where
  | stop | ret | revert | selfdestruct | endOfCode
  deriving DecidableEq, Repr, Inhabited

/-- failure of a handler: class and the state at the point of failure -/
abbrev HErr := Err × State

/-- run `k` on the state whose memory has been grown for the region, or fail -/
def withRegion {α : Type} (s : State) (off size : Word) (k : State → Except HErr α) : Except HErr α :=
  match getMemoryRegion s.memSize off size with
  | .error er => .error (er, s)
  | .ok (_, m) => k { s with memSize := m }

def envOr {α : Type} (a : Answer) (s : State) (k : Except HErr α) : Except HErr α :=
  if a.fail then .error (.env, s) else k

/-- `System::flush` -/
def flush (s : State) : Except Err State :=
  if !s.dirty then .ok s
  else if flushRefusesReadonly && s.readonly then .error .forbidden
  else .ok { s with dirty := false, effects := s.effects ++ [.stateRootWritten] }

/-- READ_ONLY flag the actor puts on the send of a CALL-family instruction -/
def sendFlagReadOnly (k : CallKind) : Bool :=
  match k with
  | .staticCall => staticCallPassesReadOnly
  | _ => false

/-- the runtime's rule (FVM / vvm `send`): a read-only caller can only make read-only calls -/
def vmChildReadOnly (callerRtReadOnly flag : Bool) : Bool := callerRtReadOnly || flag

/-- `System::load`: the activation's `readonly` field -/
def systemReadonly (rtReadOnly dead : Bool) : Bool :=
  if dead then true else if systemReadonlyFromRuntime then rtReadOnly else false

/-- `call_generic` -/
def callGeneric (kind : CallKind) (a : Answer) (s : State)
    (dst value inOff inSize outOff outSize : Word) : Except HErr (Word × State) :=
  if roGuardCallValue && s.readonly && decide (value > 0) then .error (.readOnly, s)
  else withRegion s inOff inSize fun s1 =>
    let afterCall : State → Except HErr (Word × State) := fun s2 =>
      withRegion { s2 with retLen := a.retLen } outOff outSize fun s4 => .ok (a.value, s4)
    if a.noSend then envOr a s1 (afterCall s1)
    else
      match flush s1 with
      | .error er => .error (er, s1)
      | .ok s2 =>
        let s2' := { s2 with effects := s2.effects ++ [.send kind dst value (sendFlagReadOnly kind)] }
        envOr a s2' (afterCall s2')

/-- `create_common` -/
def createCommon (a : Answer) (s : State) (endowment : Word) : Except HErr (Word × State) :=
  let s0 := { s with retLen := 0 }
  if !a.flag then .ok (0, s0)
  else
    let s1 := { s0 with dirty := true, effects := s0.effects ++ [.nonceInc] }
    match flush s1 with
    | .error er => .error (er, s1)
    | .ok s2 =>
      let s3 := { s2 with effects := s2.effects ++ [.createSend endowment], retLen := a.retLen }
      envOr a s3 (.ok (a.value, s3))

/-- does the target consult the runtime in a way that can fail? -/
def envFallible : Target → Bool
  | .state_balance | .state_selfbalance | .ext_extcodesize | .ext_extcodehash | .context_blockhash
  | .context_prevrandao | .storage_sload | .storage_tload | .context_gas | .context_gas_limit
  | .context_base_fee | .context_gas_price | .context_origin | .context_timestamp
  | .context_block_number | .context_coinbase | .context_chain_id => true
  | _ => false

/-- number of operands the instruction hands to its handler: the Rust signature, and for LOGn the two
    memory operands plus the topic identifiers -/
def expectedArity (e : Entry) : Nat :=
  match e.target with
  | .log_event_log => 2 + e.idents
  | t => handlerArity t

/-- handlers of the value-producing / procedural macro kinds (`def_primop!`, `def_stdfun!`,
    `def_stdproc!`, `def_std*_code!`, `def_stdlog!`), applied to the popped operands (`args`, top first)
    on the state whose stack is already the rest.  Returns the value the macro pushes (if it pushes). -/
def handleValue (e : Entry) (a : Answer) (args : List Word) (s : State) : Except HErr (Word × State) :=
  -- `arg i` is inside the list: `step` checks `args.length = expectedArity e` first
  let arg := fun (i : Nat) => args.getD i 0
  match e.target with
  | .hash_keccak256 => withRegion s (arg 0) (arg 1) fun s1 => .ok (a.value, s1)
  | .call_calldatacopy | .call_codecopy => withRegion s (arg 0) (arg 2) fun s1 => .ok (0, s1)
  | .ext_extcodecopy => envOr a s (withRegion s (arg 1) (arg 3) fun s1 => .ok (0, s1))
  | .control_returndatacopy =>
    withRegion s (arg 0) (arg 2) fun s1 =>
      if arg 1 ≥ 2 ^ 64 then .error (.illegalMemoryAccess, s1)
      else if arg 1 > s1.retLen then .error (.illegalMemoryAccess, s1)
      else if arg 1 + arg 2 > s1.retLen then .error (.illegalMemoryAccess, s1)
      else .ok (0, s1)
  | .memory_mload => withRegion s (arg 0) wordSize fun s1 => .ok (a.value, s1)
  | .memory_mstore => withRegion s (arg 0) wordSize fun s1 => .ok (0, s1)
  | .memory_mstore8 => withRegion s (arg 0) 1 fun s1 => .ok (0, s1)
  | .memory_msize => .ok (s.memSize, s)
  | .memory_mcopy =>
    if arg 2 > 0 then
      withRegion s (arg 1) (arg 2) fun s1 => withRegion s1 (arg 0) (arg 2) fun s2 => .ok (0, s2)
    else .ok (0, s)
  | .storage_sstore =>
    if roGuardSstore && s.readonly then .error (.readOnly, s)
    else envOr a s (.ok (0, { s with dirty := s.dirty || a.flag, effects := s.effects ++ [.sstore (arg 0) (arg 1)] }))
  | .storage_tstore =>
    if roGuardTstore && s.readonly then .error (.readOnly, s)
    else envOr a s (.ok (0, { s with dirty := s.dirty || a.flag, effects := s.effects ++ [.tstore (arg 0) (arg 1)] }))
  | .log_event_log =>
    if roGuardLog && s.readonly then .error (.readOnly, s)
    else withRegion s (arg 0) (arg 1) fun s1 =>
      -- `topics[i]` for `i < ntopics` over a slice of `idents` elements
      if e.arg > e.idents then .error (.panic, s1)
      else envOr a s1 (.ok (0, { s1 with effects := s1.effects ++ [.log e.arg (arg 1)] }))
  | .call_call_call => callGeneric .call a s (arg 1) (arg 2) (arg 3) (arg 4) (arg 5) (arg 6)
  | .call_call_delegatecall => callGeneric .delegateCall a s (arg 1) 0 (arg 2) (arg 3) (arg 4) (arg 5)
  | .call_call_staticcall => callGeneric .staticCall a s (arg 1) 0 (arg 2) (arg 3) (arg 4) (arg 5)
  | .lifecycle_create =>
    if roGuardCreate && s.readonly then .error (.readOnly, s)
    else withRegion { s with retLen := 0 } (arg 1) (arg 2) fun s1 => createCommon a s1 (arg 0)
  | .lifecycle_create2 =>
    if roGuardCreate2 && s.readonly then .error (.readOnly, s)
    else withRegion s (arg 1) (arg 2) fun s1 => createCommon a s1 (arg 0)
  | .control_invalid => .error (.invalidInstruction, s)
  | .control_nop => .ok (0, s)
  -- not handlers of these macro kinds (the Rust signatures differ: would not compile)
  | .none_ | .stack_dup | .stack_swap | .stack_pop | .stack_push | .special_pc
  | .control_jump | .control_jumpi | .control_ret | .control_revert | .control_stop
  | .lifecycle_selfdestruct => .error (.arityMismatch, s)
  | t => if envFallible t then envOr a s (.ok (a.value, s)) else .ok (a.value, s)

/-- handlers of `def_jmp!`: the new program counter -/
def handleJmp (e : Entry) (jd : List Bool) (args : List Word) (s : State) : Except HErr (Nat × State) :=
  let arg := fun (i : Nat) => args.getD i 0
  match e.target with
  | .control_jump =>
    if jumpValidates then
      if validJumpDest jd (arg 0) then .ok (arg 0 + 1, s) else .error (.badJumpdest, s)
    else .ok (arg 0 + 1, s)
  | .control_jumpi =>
    if arg 1 ≠ 0 then
      if jumpiValidates then
        if validJumpDest jd (arg 0) then .ok (arg 0 + 1, s) else .error (.badJumpdest, s)
      else .ok (arg 0 + 1, s)
    else .ok (s.pc + 1, s)
  | _ => .error (.arityMismatch, s)

/-- handlers of `def_exit!` -/
def handleExit (e : Entry) (a : Answer) (args : List Word) (s : State) : Except HErr (Outcome × State) :=
  let arg := fun (i : Nat) => args.getD i 0
  match e.target with
  | .control_ret => withRegion s (arg 0) (arg 1) fun s1 => .ok (.ret, s1)
  | .control_revert => withRegion s (arg 0) (arg 1) fun s1 => .ok (.revert, s1)
  | .control_stop => .ok (.stop, s)
  | .lifecycle_selfdestruct =>
    if roGuardSelfdestruct && s.readonly then .error (.readOnly, s)
    else if !a.flag then .error (.selfdestructFailed, s)
    else .ok (.selfdestruct, { s with dirty := true, effects := s.effects ++ [.transfer (arg 0), .tombstone] })
  | _ => .error (.arityMismatch, s)

/-! ## step / run -/

def undefinedEntry : Entry :=
  { byte := 0, name := "UNDEFINED", kind := .undefined, pops := 0, pushes := 0, guard := .none,
    arg := 0, idents := 0, target := .none_ }

/-- `JMPTABLE[op as usize]` -/
def lookup (b : UInt8) : Entry := table.getD b.toNat undefinedEntry

inductive StepResult where
  | next (s : State)
  | halt (o : Outcome) (s : State)
  | fail (e : Err) (s : State)

/-- one iteration of `Machine::execute` (`while pc < len { step() }`) for the entry `e` the byte at
    `pc` dispatches to -/
def stepEntry (e : Entry) (code : Code) (jd : List Bool) (a : Answer) (s : State) : StepResult :=
  match e.kind with
  | .undefined => .fail .undefinedInstruction s
  | .dup =>
    match dup e.arg s.stack with
    | .error er => .fail er s
    | .ok st => .next { s with stack := st, pc := s.pc + 1 }
  | .swap =>
    match swapTop e.arg s.stack with
    | .error er => .fail er s
    | .ok st => .next { s with stack := st, pc := s.pc + 1 }
  | .pop =>
    match dropTop s.stack with
    | .error er => .fail er s
    | .ok st => .next { s with stack := st, pc := s.pc + 1 }
  | .push =>
    match push s.stack (pushValue code (s.pc + 1) e.arg 0) with
    | .error er => .fail er s
    | .ok st => .next { s with stack := st, pc := s.pc + 1 + e.arg }
  | .special =>
    match push s.stack s.pc with
    | .error er => .fail er s
    | .ok st => .next { s with stack := st, pc := s.pc + 1 }
  | .jmp =>
    match pre e s.stack with
    | .error er => .fail er s
    | .ok (args, rest) =>
      if args.length ≠ expectedArity e then .fail .arityMismatch s else
      match handleJmp e jd args { s with stack := rest } with
      | .error (er, s') => .fail er s'
      | .ok (pc, s') => .next { s' with stack := rest, pc := pc }
  | .exit =>
    match pre e s.stack with
    | .error er => .fail er s
    | .ok (args, rest) =>
      if args.length ≠ expectedArity e then .fail .arityMismatch s else
      match handleExit e a args { s with stack := rest } with
      | .error (er, s') => .fail er s'
      | .ok (o, s') => .halt o s'
  | .primop | .stdfun | .stdproc | .stdfunCode | .stdprocCode | .stdlog =>
    match pre e s.stack with
    | .error er => .fail er s
    | .ok (args, rest) =>
      if args.length ≠ expectedArity e then .fail .arityMismatch s else
      match handleValue e a args { s with stack := rest } with
      | .error (er, s') => .fail er s'
      | .ok (v, s') =>
        -- the handlers have no access to the stack: the result goes on top of `rest`
        match post e rest v with
        | .error er => .fail er s'
        | .ok st => .next { s' with stack := st, pc := s.pc + 1 }

def step (code : Code) (jd : List Bool) (a : Answer) (s : State) : StepResult :=
  match code[s.pc]? with
  | none => .halt .endOfCode s
  | some b => stepEntry (lookup b) code jd a s

inductive Result where
  | done (o : Outcome) (s : State)
  | err (e : Err) (s : State)
  | outOfFuel (s : State)

/-- `Machine::execute` with fuel; `ans k` is the environment's answer when `k` units of fuel remain -/
def run (code : Code) (jd : List Bool) (ans : Nat → Answer) : Nat → State → Result
  | 0, s => .outOfFuel s
  | fuel + 1, s =>
    match step code jd (ans fuel) s with
    | .next s' => run code jd ans fuel s'
    | .halt o s' => .done o s'
    | .fail e s' => .err e s'

/-- exit of `invoke_contract` -/
inductive Exit where
  | ok | reverted | err (e : Err) | outOfFuel
  deriving DecidableEq, Repr, Inhabited

/-- `invoke_contract_inner`: empty code returns at once; otherwise analyse, execute, and on a
    `Return` outcome flush the state -/
def invoke (code : Code) (ans : Nat → Answer) (fuel : Nat) (s0 : State) : Exit × State :=
  if code.isEmpty then (.ok, s0) else
  match run code (analyze code) ans fuel s0 with
  | .outOfFuel s => (.outOfFuel, s)
  | .err e s => (.err e, s)
  | .done .revert s => (.reverted, s)
  | .done _ s =>
    match flush s with
    | .error e => (.err e, s)
    | .ok s' => (.ok, s')

/-- exit codes an EVM activation can end with, as far as the actor fixes them -/
def Exit.code : Exit → Option Nat
  | .ok => some 0
  | .reverted => some exitReverted
  | .err e => e.code
  | .outOfFuel => none

/-! ## nested activations -/

/-- `readonly` of the activation spawned by a CALL-family instruction of kind `k` from an activation
    whose runtime is read-only iff `parentRo` (callee not dead) -/
def childReadonly (parentRo : Bool) (k : CallKind) : Bool :=
  systemReadonly (vmChildReadOnly parentRo (sendFlagReadOnly k)) false

/-- `readonly` at the end of a chain of nested calls -/
def readonlyAlong (top : Bool) : List CallKind → Bool
  | [] => top
  | k :: ks => readonlyAlong (childReadonly top k) ks

end BA.Evm.Machine
