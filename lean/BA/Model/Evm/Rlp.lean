/-
  RLP encoding of the pair `[deployer address, nonce]` exactly as `compute_address_create`
  (actors/eam/src/lib.rs) produces it with the `rlp` crate:

      stream.begin_list(2).append(&&from.0[..]).append(&nonce)

  * a byte string of length 1 below `0x80` is its own encoding, a string of `len ≤ 55` bytes is
    `0x80+len ‖ bytes` (the 20-byte address: `0x94 ‖ addr`);
  * a `u64` is its big-endian bytes without leading zero bytes, encoded as a byte string
    (so `0 ↦ 0x80`, `1..0x7f ↦` the byte itself, `0x80.. ↦ 0x80+len ‖ bytes`);
  * a list whose payload is `≤ 55` bytes is `0xc0+len ‖ payload` (here at most 21 + 9 bytes).
  Import-free.
-/
namespace BA.Evm

/-- big-endian bytes of `n` without leading zeros, prepended to `acc`; `fuel ≥` number of digits -/
def beAux : Nat → Nat → List UInt8 → List UInt8
  | 0, _, acc => acc
  | f + 1, n, acc => if n = 0 then acc else beAux f (n / 256) (UInt8.ofNat (n % 256) :: acc)

/-- minimal big-endian bytes (`u64::to_be_bytes` with the leading zero bytes skipped); `0 ↦ []` -/
def beBytes (n : Nat) : List UInt8 := beAux n n []

/-- value of a big-endian byte string -/
def fromBE (l : List UInt8) : Nat := l.foldl (fun acc b => acc * 256 + b.toNat) 0

/-- RLP of an unsigned integer (`impl Encodable for u64` + `encode_value`, payload ≤ 55 bytes) -/
def rlpUInt (n : Nat) : List UInt8 :=
  match beBytes n with
  | [] => [0x80]
  | [x] => if x < 0x80 then [x] else [0x81, x]
  | x :: y :: t => UInt8.ofNat (0x80 + (t.length + 2)) :: x :: y :: t

/-- RLP of a byte string of 2..55 bytes (the address) -/
def rlpShortBytes (b : List UInt8) : List UInt8 := UInt8.ofNat (0x80 + b.length) :: b

/-- `rlp([addr, nonce])` for a 20-byte `addr` (payload ≤ 55 bytes) -/
def rlpCreate (addr : List UInt8) (nonce : Nat) : List UInt8 :=
  let payload := rlpShortBytes addr ++ rlpUInt nonce
  UInt8.ofNat (0xc0 + payload.length) :: payload

/-- the pre-image hashed by CREATE2: `0xff ‖ deployer ‖ salt ‖ keccak256(initcode)` -/
def create2Preimage (addr salt initHash : List UInt8) : List UInt8 :=
  [0xff] ++ addr ++ salt ++ initHash

end BA.Evm
