/-
  C19 — EVM contract state across nested, re-entrant and reverted calls.  Two layers.

  SPEC (`SWorld`, `specOps`, `specMsg`): Ethereum journaled-state semantics for a set of contracts:
  one global `stor : Addr → Key → Word` and `trans`, balances, logs; a call-tree script; a failing /
  reverting sub-call restores the snapshot while the caller continues; transient storage cleared
  between top-level messages; SELFDESTRUCT moves the balance immediately (as the code does) and
  empties the contract when the top-level message ends; DELEGATECALL runs the sub-script on the
  caller's storage with the caller's `caller/value`; STATICCALL is read-only.

  IMPLEMENTATION MODEL (`VM`, `System`, `implOps`, `implMsg`) follows
  actors/evm/src/interpreter/system.rs: per actor a persisted `PState` (state-tree entry: slots,
  transient data with lifespan, nonce, tombstone), per activation a `System` cache
  {slots, tslots, life, nonce, saved (= saved_state_root, `none` = dirty), readonly, tomb};
  `send_raw = flush; send; if ok then reload`; `flush` no-op when clean, error when readonly;
  `set_storage` marks dirty only on change; `load/reload` drop transient data whose lifespan
  differs; `is_dead`; the VM rolls a failed send back to the checkpoint taken after the flush.
  A state root is modelled by the state value itself (content addressing).

  Not modelled: CREATE/CREATE2 (and `Resurrect`), precompiles, gas, the call-depth limit.
-/
import BA.Prelude

namespace BA.Evm.Storage
open BA

/-! ## maps (the KAMT) -/

abbrev Map := List (Nat × Nat)

/-- `slots.get(&key).unwrap_or_default()` -/
def get (m : Map) (k : Nat) : Nat :=
  match alookup k m with
  | some v => v
  | none => 0

/-- `set_storage`: a zero value deletes the key; the flag is the code's `changed`. -/
def setv (m : Map) (k v : Nat) : Map × Bool :=
  if v = 0 then (aerase k m, (alookup k m).isSome)
  else (aset k v m, decide (alookup k m ≠ some v))

/-! ## scripts -/

inductive Kind where
  | call | static | delegate
  deriving DecidableEq, Repr, Inhabited

inductive Op where
  | sstore (k v : Nat)
  | sload (k : Nat)
  | tstore (k v : Nat)
  | tload (k : Nat)
  /-- CALL / STATICCALL / DELEGATECALL to contract `target` running the sub-script `body`
      (`value` is used by `Kind.call` only) -/
  | call (kind : Kind) (target value : Nat) (body : List Op)
  | revert
  | selfdestruct (beneficiary : Nat)
  | log (topic : Nat)
  /-- observe ADDRESS (0), CALLER (1), CALLVALUE (2), SELFBALANCE (otherwise) -/
  | env (i : Nat)
  deriving Repr, Inhabited

/-- the activation context: storage owner, `msg.sender`, `msg.value`, static mode -/
structure Ctx where
  self : Nat
  caller : Nat
  value : Nat
  readonly : Bool
  deriving Repr, DecidableEq, Inhabited

/-- how an activation ends; the lists are the observation logs (return / revert data) -/
inductive Outcome where
  | ret (log : List Nat)
  | revert (log : List Nat)
  | fail
  deriving Repr, DecidableEq, Inhabited

/-- VM-level value transfer (debit first, then credit: a self-transfer changes nothing) -/
def transfer (bal : Nat → Nat) (src dst v : Nat) : Nat → Nat :=
  fun a =>
    let b1 := if a = src then bal a - v else bal a
    if a = dst then b1 + v else b1

def envVal (ctx : Ctx) (bal : Nat → Nat) (i : Nat) : Nat :=
  if i = 0 then ctx.self else if i = 1 then ctx.caller else if i = 2 then ctx.value
  else bal ctx.self

/-- effective value of a call: only CALL carries value -/
def callValue (kind : Kind) (value : Nat) : Nat := if kind = .call then value else 0

/-- context of the callee -/
def calleeCtx (ctx : Ctx) (kind : Kind) (t val : Nat) : Ctx :=
  match kind with
  | .delegate => ctx
  | .call => { self := t, caller := ctx.self, value := val, readonly := ctx.readonly }
  | .static => { self := t, caller := ctx.self, value := val, readonly := true }

/-- the account that sends the top-level messages (any id that is not a contract) -/
def extCaller : Nat := 1000000

/-! ## SPEC: journaled state -/

structure SWorld where
  stor : Nat → Nat → Nat
  trans : Nat → Nat → Nat
  bal : Nat → Nat
  logs : List (Nat × Nat)
  /-- self-destructed during the current top-level message -/
  doomed : Nat → Bool
  /-- destroyed by an earlier top-level message: no code -/
  dead : Nat → Bool

def SWorld.setStor (w : SWorld) (a k v : Nat) : SWorld :=
  { w with stor := fun a' k' => if a' = a ∧ k' = k then v else w.stor a' k' }
def SWorld.setTrans (w : SWorld) (a k v : Nat) : SWorld :=
  { w with trans := fun a' k' => if a' = a ∧ k' = k then v else w.trans a' k' }

inductive SRes where
  /-- fell through, activation continues -/
  | cont (w : SWorld) (log : List Nat)
  /-- the activation ended -/
  | stop (o : Outcome) (w : SWorld)

/-- reaching the end of the script is `RETURN(log)` -/
def SRes.finish : SRes → Outcome × SWorld
  | .cont w l => (.ret l, w)
  | .stop o w => (o, w)

/-- back in the caller: success keeps the callee's world, anything else restores the snapshot `w` -/
def specResume (w : SWorld) (log : List Nat) : Outcome × SWorld → SRes
  | (.ret l, w') => .cont w' (log ++ 1 :: l)
  | (.revert l, _) => .cont w (log ++ 0 :: l)
  | (.fail, _) => .cont w (log ++ [0])

mutual
def specOps (ctx : Ctx) (w : SWorld) (log : List Nat) : List Op → SRes
  | [] => .cont w log
  | op :: rest =>
    match specOp ctx w log op with
    | .cont w' log' => specOps ctx w' log' rest
    | .stop o w' => .stop o w'
def specOp (ctx : Ctx) (w : SWorld) (log : List Nat) : Op → SRes
  | .sstore k v => if ctx.readonly then .stop .fail w else .cont (w.setStor ctx.self k v) log
  | .sload k => .cont w (log ++ [w.stor ctx.self k])
  | .tstore k v => if ctx.readonly then .stop .fail w else .cont (w.setTrans ctx.self k v) log
  | .tload k => .cont w (log ++ [w.trans ctx.self k])
  | .revert => .stop (.revert log) w
  | .log t =>
    if ctx.readonly then .stop .fail w else .cont { w with logs := w.logs ++ [(ctx.self, t)] } log
  | .env i => .cont w (log ++ [envVal ctx w.bal i])
  | .selfdestruct b =>
    if ctx.readonly then .stop .fail w
    else .stop (.ret [])
      { w with bal := transfer w.bal ctx.self b (w.bal ctx.self),
               doomed := fun a => if a = ctx.self then true else w.doomed a }
  | .call kind t value body =>
    let val := callValue kind value
    if ctx.readonly ∧ 0 < val then .stop .fail w
    else if kind = .delegate then
      if w.dead t then .cont w (log ++ [1])
      else specResume w log (specOps ctx w [] body).finish
    else if w.bal ctx.self < val then .cont w (log ++ [0])
    else
      let w1 := { w with bal := transfer w.bal ctx.self t val }
      if w.dead t then .cont w1 (log ++ [1])
      else specResume w log (specOps (calleeCtx ctx kind t val) w1 [] body).finish
end

structure Life where
  origin : Nat
  nonce : Nat
  deriving DecidableEq, Repr, Inhabited

/-- a top-level message: the (origin, nonce) of the chain message, the entry contract, the value
    sent along and the script -/
structure Msg where
  life : Life
  entry : Nat
  value : Nat
  body : List Op

def topCtx (m : Msg) : Ctx := { self := m.entry, caller := extCaller, value := m.value, readonly := false }

def credit (bal : Nat → Nat) (a v : Nat) : Nat → Nat := fun x => if x = a then bal x + v else bal x

/-- end of a successful top-level message: self-destructed contracts become empty -/
def SWorld.finalize (w : SWorld) : SWorld :=
  { w with stor := fun a k => if w.doomed a then 0 else w.stor a k,
           dead := fun a => w.dead a || w.doomed a,
           doomed := fun _ => false }

/-- one top-level message: (success flag, observation log) and the world afterwards.
    Transient storage starts empty; a failing message changes nothing. -/
def specMsg (w : SWorld) (m : Msg) : (Nat × List Nat) × SWorld :=
  let w0 : SWorld := { w with trans := fun _ _ => 0, bal := credit w.bal m.entry m.value }
  let r := if w.dead m.entry then (Outcome.ret [], w0) else (specOps (topCtx m) w0 [] m.body).finish
  match r with
  | (.ret l, w') => ((1, l), w'.finalize)
  | (.revert l, _) => ((0, l), w)
  | (.fail, _) => ((0, []), w)

def specRun (w : SWorld) : List Msg → List (Nat × List Nat) × SWorld
  | [] => ([], w)
  | m :: ms =>
    let (o, w') := specMsg w m
    let (os, w'') := specRun w' ms
    (o :: os, w'')

/-! ## IMPLEMENTATION MODEL: state tree + per-activation `System` cache -/

/-- `State` of actors/evm/src/state.rs (bytecode omitted: every live contract runs the script
    interpreter) -/
structure PState where
  slots : Map
  /-- `transient_data: Option<TransientData>` = (KAMT, lifespan) -/
  tdata : Option (Map × Life)
  nonce : Nat
  tomb : Option Life
  deriving DecidableEq, Repr, Inhabited

/-- the part of the VM the EVM actors see: state-tree entries, balances, committed events -/
structure VM where
  actors : Nat → PState
  bal : Nat → Nat
  events : List (Nat × Nat)

def VM.setActor (vm : VM) (a : Nat) (st : PState) : VM :=
  { vm with actors := fun x => if x = a then st else vm.actors x }

/-- `System` of interpreter/system.rs; `saved = none` ⇔ `saved_state_root == None` ⇔ dirty -/
structure System where
  slots : Map
  tslots : Map
  /-- `current_transient_data_lifespan` -/
  life : Life
  nonce : Nat
  saved : Option PState
  readonly : Bool
  tomb : Option Life
  deriving DecidableEq, Repr, Inhabited

/-- `is_dead`: has a tombstone that is not from the current message -/
def isDead (cur : Life) (st : PState) : Bool :=
  match st.tomb with
  | some t => decide (t ≠ cur)
  | none => false

/-- transient slots visible under lifespan `cur` -/
def tview (cur : Life) (td : Option (Map × Life)) : Map :=
  match td with
  | some (m, l) => if l = cur then m else []
  | none => []

/-- `System::load` for a live contract (`ro = rt.read_only()`) -/
def load (cur : Life) (ro : Bool) (st : PState) : System :=
  { slots := st.slots, tslots := tview cur st.tdata, life := cur, nonce := st.nonce,
    saved := some st, readonly := ro, tomb := st.tomb }

/-- the `State` that `flush` writes -/
def System.toState (sys : System) : PState :=
  { slots := sys.slots,
    tdata := if sys.tslots.isEmpty then none else some (sys.tslots, sys.life),
    nonce := sys.nonce, tomb := sys.tomb }

/-- `System::flush` -/
def flush (sys : System) (vm : VM) (self : Nat) : Except Err (System × VM) :=
  if sys.saved.isSome then .ok (sys, vm)
  else if sys.readonly then .error .forbidden
  else
    let st := sys.toState
    .ok ({ sys with saved := some st }, vm.setActor self st)

/-- `System::reload` -/
def reload (sys : System) (vm : VM) (self : Nat) : System :=
  if sys.readonly then sys
  else
    let root := vm.actors self
    if sys.saved = some root then sys
    else { sys with tslots := tview sys.life root.tdata, slots := root.slots, nonce := root.nonce,
                    saved := some root, tomb := root.tomb }

/-- `System::set_storage` -/
def System.setStorage (sys : System) (k v : Nat) : System :=
  let (m, changed) := setv sys.slots k v
  { sys with slots := m, saved := if changed then none else sys.saved }

/-- `System::set_transient_storage` -/
def System.setTransient (sys : System) (k v : Nat) : System :=
  let (m, changed) := setv sys.tslots k v
  { sys with tslots := m, saved := if changed then none else sys.saved }

inductive IRes where
  | cont (sys : System) (vm : VM) (log : List Nat)
  | stop (o : Outcome) (sys : System) (vm : VM)

/-- end of `invoke_contract_inner`: `Outcome::Return` flushes, a revert exits with
    `EVM_CONTRACT_REVERTED` (the VM then discards the callee's changes) -/
def implFinish (self : Nat) : IRes → Outcome × VM
  | .cont sys vm l =>
    match flush sys vm self with
    | .ok (_, vm') => (.ret l, vm')
    | .error _ => (.fail, vm)
  | .stop (.ret l) sys vm =>
    match flush sys vm self with
    | .ok (_, vm') => (.ret l, vm')
    | .error _ => (.fail, vm)
  | .stop o _ vm => (o, vm)

/-- `invoke_contract` / `invoke_contract_delegate` on actor `self`: a dead contract has no code
    and returns immediately; otherwise `System::load`, run, final flush -/
def activate (cur : Life) (ro : Bool) (self : Nat) (vm : VM) (run : System → IRes) : Outcome × VM :=
  let st := vm.actors self
  if isDead cur st then (.ret [], vm) else implFinish self (run (load cur ro st))

/-- back in the caller after `rt.send`: reload on success and only on success; on failure the VM
    has rolled back to the checkpoint `vm0` (taken after the caller's flush) -/
def implResume (sys0 : System) (vm0 : VM) (self : Nat) (log : List Nat) : Outcome × VM → IRes
  | (.ret l, vm') => .cont (reload sys0 vm' self) vm' (log ++ 1 :: l)
  | (.revert l, _) => .cont sys0 vm0 (log ++ 0 :: l)
  | (.fail, _) => .cont sys0 vm0 (log ++ [0])

mutual
def implOps (cur : Life) (ctx : Ctx) (sys : System) (vm : VM) (log : List Nat) : List Op → IRes
  | [] => .cont sys vm log
  | op :: rest =>
    match implOp cur ctx sys vm log op with
    | .cont sys' vm' log' => implOps cur ctx sys' vm' log' rest
    | .stop o sys' vm' => .stop o sys' vm'
def implOp (cur : Life) (ctx : Ctx) (sys : System) (vm : VM) (log : List Nat) : Op → IRes
  | .sstore k v => if sys.readonly then .stop .fail sys vm else .cont (sys.setStorage k v) vm log
  | .sload k => .cont sys vm (log ++ [get sys.slots k])
  | .tstore k v => if sys.readonly then .stop .fail sys vm else .cont (sys.setTransient k v) vm log
  | .tload k => .cont sys vm (log ++ [get sys.tslots k])
  | .revert => .stop (.revert log) sys vm
  | .log t =>
    if sys.readonly then .stop .fail sys vm
    else .cont sys { vm with events := vm.events ++ [(ctx.self, t)] } log
  | .env i => .cont sys vm (log ++ [envVal ctx vm.bal i])
  | .selfdestruct b =>
    if sys.readonly then .stop .fail sys vm
    else
      -- `rt.send_simple(beneficiary, METHOD_SEND, balance)` (no flush/reload), then
      -- `mark_selfdestructed`, then `Outcome::Return` with empty data
      .stop (.ret []) { sys with saved := none, tomb := some cur }
        { vm with bal := transfer vm.bal ctx.self b (vm.bal ctx.self) }
  | .call kind t value body =>
    let val := callValue kind value
    if sys.readonly ∧ 0 < val then .stop .fail sys vm
    else if kind = .delegate then
      -- `get_evm_bytecode_cid`: `system.send(dst, GetBytecode, READ_ONLY)` = flush; send; reload
      match flush sys vm ctx.self with
      | .error _ => .stop .fail sys vm
      | .ok (sys1, vm1) =>
        let sys2 := reload sys1 vm1 ctx.self
        if isDead cur (vm1.actors t) then .cont sys2 vm1 (log ++ [1])
        else
          -- `system.send(self, InvokeContractDelegate, …)`
          match flush sys2 vm1 ctx.self with
          | .error _ => .cont sys2 vm1 (log ++ [0])
          | .ok (sys3, vm3) =>
            implResume sys3 vm3 ctx.self log
              (activate cur ctx.readonly ctx.self vm3 (fun s => implOps cur ctx s vm3 [] body))
    else
      -- `send_raw`: flush, `rt.send`, reload on success
      match flush sys vm ctx.self with
      | .error _ => .stop .fail sys vm
      | .ok (sys1, vm1) =>
        if vm1.bal ctx.self < val then .cont sys1 vm1 (log ++ [0])
        else
          let vm2 := { vm1 with bal := transfer vm1.bal ctx.self t val }
          let cctx := calleeCtx ctx kind t val
          implResume sys1 vm1 ctx.self log
            (activate cur cctx.readonly t vm2 (fun s => implOps cur cctx s vm2 [] body))
end

/-- one top-level message on the implementation model -/
def implMsg (vm : VM) (m : Msg) : (Nat × List Nat) × VM :=
  let vm0 : VM := { vm with bal := credit vm.bal m.entry m.value }
  match activate m.life false m.entry vm0 (fun s => implOps m.life (topCtx m) s vm0 [] m.body) with
  | (.ret l, vm') => ((1, l), vm')
  | (.revert l, _) => ((0, l), vm)
  | (.fail, _) => ((0, []), vm)

def implRun (vm : VM) : List Msg → List (Nat × List Nat) × VM
  | [] => ([], vm)
  | m :: ms =>
    let (o, vm') := implMsg vm m
    let (os, vm'') := implRun vm' ms
    (o :: os, vm'')

/-- what `GetStorageAt` answers in any later message: a contract with a tombstone is dead then -/
def VM.storageAt (vm : VM) (a k : Nat) : Nat :=
  if (vm.actors a).tomb.isSome then 0 else get (vm.actors a).slots k

/-- `GetBytecode` answers `None` in any later message -/
def VM.isDestroyed (vm : VM) (a : Nat) : Bool := (vm.actors a).tomb.isSome

/-! ## initial states -/

def PState.empty : PState := { slots := [], tdata := none, nonce := 1, tomb := none }

def SWorld.init : SWorld :=
  { stor := fun _ _ => 0, trans := fun _ _ => 0, bal := fun _ => 0, logs := [],
    doomed := fun _ => false, dead := fun _ => false }

def VM.init : VM := { actors := fun _ => PState.empty, bal := fun _ => 0, events := [] }

end BA.Evm.Storage
