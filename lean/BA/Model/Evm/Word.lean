/-
  EVM word arithmetic (C17).  For every arithmetic / comparison / bitwise instruction two
  definitions:

  * `xImpl` — a transliteration of the Rust algorithm in
    `actors/evm/src/interpreter/instructions/{arithmetic,bitwise,boolean}.rs` and the I256 helpers of
    `actors/evm/shared/src/uints.rs` over `BitVec 256`.  The `uint` crate's primitive operations are
    taken as exact machine arithmetic: `overflowing_add/sub/mul` ↦ `+ - *` of `BitVec 256`,
    `/ %` ↦ `udiv umod`, `<< >>` by a machine integer ↦ `<<< >>>` by a `Nat`, `!` ↦ `~~~`,
    `bit(i)` ↦ `getLsbD i`, `byte(i)` ↦ the i-th little-endian byte, `low_u32/low_u64` ↦ `% 2^32 / % 2^64`,
    comparisons with a `u64` ↦ unsigned comparison, `U512` values ↦ `Nat` (they never overflow:
    (2^256-1)^2 < 2^512), `low_u256` ↦ `BitVec.ofNat 256`.
  * `xSpec` — the Yellow Paper (Appendix H) / EIP-145 / EIP-7939 definition over `Nat`/`Int`.

  `BA/Props/C17.lean` proves `xImpl = xSpec` for all operands.  No imports (the driver links this file).
-/
namespace BA.Evm

/-- an EVM word -/
abbrev W := BitVec 256

/-- `U256::MAX` -/
def wMax : W := BitVec.allOnes 256

/-- `U256::from_u64(b.into())` for a `bool` -/
def boolW (b : Bool) : W := if b then 1#256 else 0#256

/-! ## `uints.rs`: I256 helpers -/

/-- `i256_is_negative`: `(self.0[3] as i64) < 0` — the top bit -/
def isNeg (x : W) : Bool := x.msb

/-- `i256_neg`: `if self.is_zero() { ZERO } else { !*self + ONE }` -/
def i256Neg (x : W) : W := if x = 0#256 then 0#256 else ~~~x + 1#256

/-- `i256_cmp`: `match other.is_negative().cmp(&self.is_negative()) { Equal => self.cmp(other), s => s }`
    (`false < true` on `bool`) -/
def i256Cmp (a b : W) : Ordering :=
  match isNeg b, isNeg a with
  | false, true => .lt
  | true, false => .gt
  | _, _ => compare a.toNat b.toNat

/-- `i256_div` -/
def i256Div (a b : W) : W :=
  if a = 0#256 ∨ b = 0#256 then 0#256 else
  let firstNeg := isNeg a
  let secondNeg := isNeg b
  let first := if firstNeg then i256Neg a else a
  let second := if secondNeg then i256Neg b else b
  let d := first / second
  if d = 0#256 ∨ firstNeg = secondNeg then d else i256Neg d

/-- `i256_mod` -/
def i256Mod (a b : W) : W :=
  if a = 0#256 ∨ b = 0#256 then 0#256 else
  let negative := isNeg a
  let first := if negative then i256Neg a else a
  let second := if isNeg b then i256Neg b else b
  let r := first % second
  if negative ∧ r ≠ 0#256 then i256Neg r else r

/-! ## the `uint` crate's `leading_zeros`, limbs, bytes -/

/-- zeros counted downwards from bit `n-1` -/
def lzFrom (x : W) : Nat → Nat
  | 0 => 0
  | n + 1 => if x.getLsbD n then 0 else 1 + lzFrom x n

/-- `U256::leading_zeros()` -/
def leadingZeros (x : W) : Nat := lzFrom x 256

/-- `self.0[i]`: the i-th 64-bit limb (little endian) -/
def limb (x : W) (i : Nat) : Nat := (x.toNat >>> (64 * i)) % 2 ^ 64

/-- `U256::byte(i)`: the i-th byte, little endian -/
def byteLE (x : W) (i : Nat) : Nat := (x.toNat >>> (8 * i)) % 256

/-! ## arithmetic.rs -/

def addImpl (a b : W) : W := a + b
def mulImpl (a b : W) : W := a * b
def subImpl (a b : W) : W := a - b

/-- `if !b.is_zero() { a / b } else { b }` -/
def divImpl (a b : W) : W := if b ≠ 0#256 then a / b else b
def sdivImpl (a b : W) : W := i256Div a b
def modImpl (a b : W) : W := if b ≠ 0#256 then a % b else b
def smodImpl (a b : W) : W := i256Mod a b

/-- `((al + bl) % cl).low_u256()` on 512-bit intermediates -/
def addmodImpl (a b c : W) : W :=
  if c ≠ 0#256 then BitVec.ofNat 256 ((a.toNat + b.toNat) % c.toNat) else c

def mulmodImpl (a b c : W) : W :=
  if c ≠ 0#256 then BitVec.ofNat 256 ((a.toNat * b.toNat) % c.toNat) else c

/-- `signextend(a, b)`: mask construction as coded -/
def signextendImpl (a b : W) : W :=
  if a < 32#256 then
    let bitIndex := 8 * (a.toNat % 2 ^ 32) + 7
    let mask := wMax >>> (256 - bitIndex)
    if b.getLsbD bitIndex then b ||| ~~~mask else b &&& mask
  else b

/-- the inner loop of `exp`: `n` iterations over one limb; returns `(base, v)` -/
def expInner : Nat → Nat → W → W → W × W
  | 0, _, base, v => (base, v)
  | n + 1, word, base, v =>
    let v' := if word % 2 ≠ 0 then v * base else v
    expInner n (word / 2) (base * base) v'

/-- the outer loop over the limbs, with `remaining_bits` -/
def expOuter : List Nat → Nat → W → W → W
  | [], _, _, v => v
  | word :: rest, remaining, base, v =>
    let r := expInner (min 64 remaining) word base v
    expOuter rest (remaining - 64) r.1 r.2

/-- `exp(base, power)`: square-and-multiply, word by word, least significant first -/
def expImpl (base power : W) : W :=
  let remaining := 256 - leadingZeros power
  expOuter [limb power 0, limb power 1, limb power 2, limb power 3] remaining base 1#256

/-! ## boolean.rs -/

def ltImpl (a b : W) : W := boolW (decide (a < b))
def gtImpl (a b : W) : W := boolW (decide (a > b))
def sltImpl (a b : W) : W := boolW (i256Cmp a b == .lt)
def sgtImpl (a b : W) : W := boolW (i256Cmp a b == .gt)
def eqImpl (a b : W) : W := boolW (decide (a = b))
def iszeroImpl (a : W) : W := boolW (decide (a = 0#256))
def andImpl (a b : W) : W := a &&& b
def orImpl (a b : W) : W := a ||| b
def xorImpl (a b : W) : W := a ^^^ b
def notImpl (a : W) : W := ~~~a

/-! ## bitwise.rs -/

/-- `if i >= 32 { ZERO } else { from_u64(x.byte(31 - i.low_u64() as usize)) }` -/
def byteImpl (i x : W) : W :=
  if 32#256 ≤ i then 0#256 else BitVec.ofNat 256 (byteLE x (31 - i.toNat % 2 ^ 64))

/-- `if value.is_zero() || shift >= 256 { ZERO } else { value << shift }` -/
def shlImpl (shift value : W) : W :=
  if value = 0#256 ∨ 256#256 ≤ shift then 0#256 else value <<< shift.toNat

def shrImpl (shift value : W) : W :=
  if value = 0#256 ∨ 256#256 ≤ shift then 0#256 else value >>> shift.toNat

/-- `sar`: sign test / negate / shift / fill, as coded -/
def sarImpl (shift value0 : W) : W :=
  let negative := isNeg value0
  let value := if negative then i256Neg value0 else value0
  if value = 0#256 ∨ 256#256 ≤ shift then
    if negative then wMax else 0#256
  else
    let s := shift.toNat % 2 ^ 32
    if negative then i256Neg (((value - 1#256) >>> s) + 1#256) else value >>> s

/-- `U256::from(value.leading_zeros())` -/
def clzImpl (x : W) : W := BitVec.ofNat 256 (leadingZeros x)

/-! ## Specification side (Yellow Paper appendix H.2, EIP-145, EIP-7939) -/

/-- 2^256 -/
def twoTo256 : Nat := 2 ^ 256

/-- the signed (two's complement) reading of a word -/
def sInt (x : W) : Int := if x.toNat < 2 ^ 255 then (x.toNat : Int) else (x.toNat : Int) - 2 ^ 256

/-- the word encoding an integer (mod 2^256) -/
def ofI (i : Int) : W := BitVec.ofNat 256 (i % 2 ^ 256).toNat

/-- the word encoding a natural (mod 2^256) -/
def ofN (n : Nat) : W := BitVec.ofNat 256 (n % 2 ^ 256)

/-- ADD: (a + b) mod 2^256 -/
def addSpec (a b : W) : W := ofN (a.toNat + b.toNat)
/-- MUL: (a × b) mod 2^256 -/
def mulSpec (a b : W) : W := ofN (a.toNat * b.toNat)
/-- SUB: (a − b) mod 2^256 -/
def subSpec (a b : W) : W := ofI ((a.toNat : Int) - (b.toNat : Int))
/-- DIV: 0 if b = 0, else ⌊a ÷ b⌋ -/
def divSpec (a b : W) : W := if b.toNat = 0 then ofN 0 else ofN (a.toNat / b.toNat)
/-- MOD: 0 if b = 0, else a mod b -/
def modSpec (a b : W) : W := if b.toNat = 0 then ofN 0 else ofN (a.toNat % b.toNat)
/-- SDIV: 0 if b = 0; −2^255 if a = −2^255 ∧ b = −1; else sgn(a ÷ b)·⌊|a ÷ b|⌋ (truncation) -/
def sdivSpec (a b : W) : W :=
  if sInt b = 0 then ofN 0
  else if sInt a = -(2 ^ 255) ∧ sInt b = -1 then ofI (-(2 ^ 255))
  else ofI (Int.tdiv (sInt a) (sInt b))
/-- SMOD: 0 if b = 0, else sgn(a)·(|a| mod |b|) -/
def smodSpec (a b : W) : W :=
  if sInt b = 0 then ofN 0
  else ofI (Int.sign (sInt a) * ((sInt a).natAbs % (sInt b).natAbs : Nat))
/-- ADDMOD: 0 if c = 0, else (a + b) mod c, no intermediate reduction mod 2^256 -/
def addmodSpec (a b c : W) : W := if c.toNat = 0 then ofN 0 else ofN ((a.toNat + b.toNat) % c.toNat)
/-- MULMOD -/
def mulmodSpec (a b c : W) : W := if c.toNat = 0 then ofN 0 else ofN ((a.toNat * b.toNat) % c.toNat)
/-- EXP: a^b mod 2^256 (not evaluable for big exponents; see `expSpecExec`) -/
def expSpec (a b : W) : W := ofN (a.toNat ^ b.toNat)

/-- modular power by halving the exponent — an executable form of `expSpec` -/
def powMod (b e m : Nat) : Nat :=
  if h : e = 0 then 1 % m
  else
    let half := powMod b (e / 2) m
    let sq := (half * half) % m
    if e % 2 = 1 then (sq * b) % m else sq
termination_by e
decreasing_by omega

def expSpecExec (a b : W) : W := BitVec.ofNat 256 (powMod a.toNat b.toNat (2 ^ 256))

/-- SIGNEXTEND: for a < 31... the low `8(a+1)` bits of `b` read as a two's complement number,
    re-encoded on 256 bits; `b` itself when a ≥ 31 (YP: t = 256 − 8(a+1); bits above t copy bit t). -/
def signextendSpec (a b : W) : W :=
  if 31 ≤ a.toNat then b
  else
    let n := 8 * (a.toNat + 1)
    let x := b.toNat % 2 ^ n
    if x < 2 ^ (n - 1) then ofN x else ofI ((x : Int) - 2 ^ n)

def ltSpec (a b : W) : W := if a.toNat < b.toNat then ofN 1 else ofN 0
def gtSpec (a b : W) : W := if a.toNat > b.toNat then ofN 1 else ofN 0
def sltSpec (a b : W) : W := if sInt a < sInt b then ofN 1 else ofN 0
def sgtSpec (a b : W) : W := if sInt a > sInt b then ofN 1 else ofN 0
def eqSpec (a b : W) : W := if a.toNat = b.toNat then ofN 1 else ofN 0
def iszeroSpec (a : W) : W := if a.toNat = 0 then ofN 1 else ofN 0

/-- AND / OR / XOR: bit `i` of the result is the conjunction / disjunction / exclusive or of the
    operands' bits `i` (`Nat`'s bitwise operations; characterised bit by bit in `Props/C17.lean`) -/
def andSpec (a b : W) : W := ofN (a.toNat &&& b.toNat)
def orSpec (a b : W) : W := ofN (a.toNat ||| b.toNat)
def xorSpec (a b : W) : W := ofN (a.toNat ^^^ b.toNat)
/-- NOT: 2^256 − 1 − a (every bit flipped) -/
def notSpec (a : W) : W := ofN (2 ^ 256 - 1 - a.toNat)

/-- BYTE: the i-th byte counting from the most significant; 0 for i ≥ 32 -/
def byteSpec (i x : W) : W :=
  if 32 ≤ i.toNat then ofN 0 else ofN ((x.toNat / 2 ^ (8 * (31 - i.toNat))) % 256)

/-- SHL (EIP-145): (value × 2^shift) mod 2^256; 0 if shift ≥ 256 -/
def shlSpec (shift value : W) : W :=
  if 256 ≤ shift.toNat then ofN 0 else ofN (value.toNat * 2 ^ shift.toNat)

/-- SHR (EIP-145): ⌊value ÷ 2^shift⌋; 0 if shift ≥ 256 -/
def shrSpec (shift value : W) : W :=
  if 256 ≤ shift.toNat then ofN 0 else ofN (value.toNat / 2 ^ shift.toNat)

/-- SAR (EIP-145): ⌊value ÷ 2^shift⌋ on the signed reading (floor); if shift ≥ 256: 0 for value ≥ 0,
    −1 otherwise -/
def sarSpec (shift value : W) : W :=
  if 256 ≤ shift.toNat then (if 0 ≤ sInt value then ofN 0 else ofI (-1))
  else ofI (sInt value / (2 ^ shift.toNat : Int))

/-- CLZ (EIP-7939): number of leading zero bits; 256 for 0 -/
def clzSpec (x : W) : W := if x.toNat = 0 then ofN 256 else ofN (255 - Nat.log2 x.toNat)

end BA.Evm
