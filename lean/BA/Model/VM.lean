/-
  Message / ledger / rollback model of the VM (what the harness VM and the FVM do around actor
  code): a message transfers `value` from caller to receiver, the receiver's code may send nested
  messages, and a failing invocation rolls back everything it (and its sub-calls) did.
  Actor behaviour is arbitrary: a call tree records what an execution did, and *every* tree is a
  possible behaviour, so theorems over all trees cover every family of actors.
-/
import BA.Prelude

namespace BA.VM

/-- balances of all actors (0 for an actor that does not exist) -/
abbrev Bal := Nat → Int

def upd (b : Bal) (k : Nat) (v : Int) : Bal := fun i => if i = k then v else b i

/-- debit `f`, then credit `t` (in this order, so a self-send is neutral) -/
def transfer (b : Bal) (f t : Nat) (v : Int) : Bal :=
  let b1 := upd b f (b f - v)
  upd b1 t (b1 t + v)

/-- One invocation: caller, receiver, value, whether it completed successfully, nested sends. -/
inductive Call where
  | node (from_ to : Nat) (value : Int) (ok : Bool) (children : List Call)
  deriving Inhabited

mutual
/-- effect of an invocation on the ledger -/
def exec (b : Bal) : Call → Bal
  | .node f t v ok cs =>
    -- the VM refuses a negative or uncovered transfer before running any code
    if v < 0 ∨ b f < v then b
    else
      let b2 := execList (transfer b f t v) cs
      -- a failing invocation is rolled back entirely
      if ok then b2 else b
def execList (b : Bal) : List Call → Bal
  | [] => b
  | c :: cs => execList (exec b c) cs
end

mutual
def ids : Call → List Nat
  | .node f t _ _ cs => f :: t :: idsList cs
def idsList : List Call → List Nat
  | [] => []
  | c :: cs => ids c ++ idsList cs
end

/-- Σ of balances over a list of actor ids -/
def total (ks : List Nat) (b : Bal) : Int :=
  match ks with
  | [] => 0
  | k :: t => b k + total t b

end BA.VM
