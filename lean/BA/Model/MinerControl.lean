/-
  Model of the control-handover part of the miner actor (actors/miner/src/lib.rs:
  change_owner_address, change_worker_address, confirm_change_worker_address, change_beneficiary,
  the beneficiary-quota side of withdraw_balance, and process_pending_worker as run by
  confirm_change_worker_address and by handle_proving_deadline), following the Rust control flow
  branch by branch.  The state is the corresponding projection of `MinerInfo`
  (actors/miner/src/state.rs, beneficiary.rs).

  Environment answers are inputs of the step: whether an address parameter is an ID address /
  resolves (`isId`, `resolves`), whether the new worker resolves to an account with a BLS key
  (`workerOk`), whether all control addresses resolve (`controlsOk`), and whether the parts of
  withdraw_balance outside this projection succeed (`restOk`).
-/
import BA.Prelude
import BA.Generated.Constants

namespace BA.MinerControl
open BA

/-- `WorkerKeyChange` -/
structure PendingWorker where
  newWorker : Nat
  effectiveAt : Int
  deriving Repr, DecidableEq, Inhabited

/-- `BeneficiaryTerm` -/
structure Term where
  quota : Int := 0
  usedQuota : Int := 0
  expiration : Int := 0
  deriving Repr, DecidableEq, Inhabited

/-- `PendingBeneficiaryChange` -/
structure PendingBen where
  newBeneficiary : Nat
  newQuota : Int
  newExpiration : Int
  approvedByBeneficiary : Bool
  approvedByNominee : Bool
  deriving Repr, DecidableEq, Inhabited

/-- the control-relevant projection of `MinerInfo` -/
structure State where
  owner : Nat
  pendingOwner : Option Nat := none
  worker : Nat
  pendingWorker : Option PendingWorker := none
  controls : List Nat := []
  beneficiary : Nat
  benTerm : Term := {}
  pendingBen : Option PendingBen := none
  deriving Repr, DecidableEq, Inhabited

def workerKeyChangeDelay : Int := BA.Gen.minerWorkerKeyChangeDelay
def maxControlAddresses : Nat := BA.Gen.minerMaxControlAddresses

/-- `MinerInfo::new`: beneficiary = owner, default term, nothing pending. -/
def init (owner worker : Nat) (controls : List Nat) : State :=
  { owner := owner, worker := worker, controls := controls, beneficiary := owner }

/-- `BeneficiaryTerm::available`: zero once expired, else `max (quota - used) 0`. -/
def Term.available (t : Term) (cur : Int) : Int :=
  if t.expiration > cur then (if t.quota - t.usedQuota < 0 then 0 else t.quota - t.usedQuota) else 0

/-- the "Clear any no-op change" tail of `change_owner_address` -/
def clearNoop (s : State) : State :=
  match s.pendingOwner with
  | some p => if p = s.owner then { s with pendingOwner := none } else s
  | none => s

/-- `change_owner_address` -/
def changeOwner (s : State) (caller newAddr : Nat) (isId : Bool) : Except Err State :=
  if !isId then .error .illegalArgument
  else if caller = s.owner ∨ s.pendingOwner = none then
    -- validate_immediate_caller_is(owner)
    if caller ≠ s.owner then .error .forbidden
    else .ok (clearNoop { s with pendingOwner := some newAddr })
  else
    match s.pendingOwner with
    | some p =>
      -- validate_immediate_caller_is(pending)
      if caller ≠ p then .error .forbidden
      else if newAddr ≠ p then .error .illegalArgument
      else
        .ok (clearNoop { s with
          beneficiary := if s.beneficiary = s.owner then p else s.beneficiary
          pendingBen := none
          owner := p })
    | none => .ok (clearNoop s)

/-- `change_worker_address` -/
def changeWorker (s : State) (caller newWorker : Nat) (newControls : List Nat) (epoch : Int)
    (workerOk controlsOk : Bool) : Except Err State :=
  if newControls.length > maxControlAddresses then .error .illegalArgument
  else if !workerOk then .error .illegalArgument
  else if !controlsOk then .error .illegalArgument
  -- inside the transaction: only the owner
  else if caller ≠ s.owner then .error .forbidden
  else
    let s1 := { s with controls := newControls }
    if newWorker ≠ s.worker ∧ s.pendingWorker = none then
      .ok { s1 with
        pendingWorker := some { newWorker := newWorker, effectiveAt := epoch + workerKeyChangeDelay } }
    else .ok s1

/-- `process_pending_worker` -/
def processPendingWorker (s : State) (epoch : Int) : State :=
  match s.pendingWorker with
  | none => s
  | some k =>
    if epoch < k.effectiveAt then s
    else { s with worker := k.newWorker, pendingWorker := none }

/-- `confirm_change_worker_address` -/
def confirmChangeWorker (s : State) (caller : Nat) (epoch : Int) : Except Err State :=
  if caller ≠ s.owner then .error .forbidden
  else .ok (processPendingWorker s epoch)

/-- the tail of `change_beneficiary` (`if let Some(pending_term) = info.pending_beneficiary_term.as_mut()`) -/
def benFinish (s : State) (caller new : Nat) : State :=
  match s.pendingBen with
  | none => s
  | some p =>
    let p1 := if caller = s.beneficiary then { p with approvedByBeneficiary := true } else p
    let p2 := if caller = new then { p1 with approvedByNominee := true } else p1
    if p2.approvedByBeneficiary ∧ p2.approvedByNominee then
      { s with
        benTerm := {
          quota := p2.newQuota
          usedQuota := if new ≠ s.beneficiary then 0 else s.benTerm.usedQuota
          expiration := p2.newExpiration }
        beneficiary := new
        pendingBen := none }
    else { s with pendingBen := some p2 }

/-- `change_beneficiary` -/
def changeBeneficiary (s : State) (caller new : Nat) (quota expiration epoch : Int)
    (resolves : Bool) : Except Err State :=
  if !resolves then .error .illegalArgument
  else if caller = s.owner then
    -- proposal by the owner
    if new ≠ s.owner ∧ quota ≤ 0 then .error .illegalArgument
    else if new = s.owner ∧ quota ≠ 0 then .error .illegalArgument
    else if new = s.owner ∧ expiration ≠ 0 then .error .illegalArgument
    else
      let p : PendingBen := {
        newBeneficiary := new, newQuota := quota, newExpiration := expiration
        approvedByBeneficiary := decide (s.benTerm.available epoch = 0)
        approvedByNominee := false }
      .ok (benFinish { s with pendingBen := some p } caller new)
  else
    match s.pendingBen with
    | some p =>
      if caller ≠ s.beneficiary ∧ caller ≠ p.newBeneficiary then .error .forbidden
      else if p.newBeneficiary ≠ new then .error .illegalArgument
      else if p.newQuota ≠ quota then .error .illegalArgument
      else if p.newExpiration ≠ expiration then .error .illegalArgument
      else .ok (benFinish s caller new)
    | none => .error .forbidden

/-- The beneficiary-quota side of `withdraw_balance`.  `amount` is
    `min(available_balance, amount_requested)` (computed by parts of the actor outside this
    projection); `restOk` says that those parts (vesting, debt repayment, the transfer, the pledge
    notification, the balance invariants) succeed.  Returns the amount actually withdrawn. -/
def withdrawUse (s : State) (caller : Nat) (amount epoch : Int) (restOk : Bool) :
    Except Err (State × Int) :=
  if caller ≠ s.owner ∧ caller ≠ s.beneficiary then .error .forbidden
  else if amount < 0 then .error .illegalState
  else if s.beneficiary ≠ s.owner then
    let remaining := s.benTerm.available epoch
    if remaining = 0 then .error .forbidden
    else
      let w := if amount ≤ remaining then amount else remaining
      if !restOk then .error .illegalState
      else if w > 0 then
        .ok ({ s with benTerm := { s.benTerm with usedQuota := s.benTerm.usedQuota + w } }, w)
      else .ok (s, w)
  else
    if !restOk then .error .illegalState else .ok (s, amount)

inductive Op where
  | changeOwner (caller newAddr : Nat) (isId : Bool)
  | changeWorker (caller newWorker : Nat) (newControls : List Nat) (epoch : Int)
      (workerOk controlsOk : Bool)
  | confirmChangeWorker (caller : Nat) (epoch : Int)
  | changeBeneficiary (caller new : Nat) (quota expiration epoch : Int) (resolves : Bool)
  | withdrawUse (caller : Nat) (amount epoch : Int) (restOk : Bool)
  /-- the proving-deadline cron callback (caller: the power actor), which runs
      `process_pending_worker` -/
  | cronTick (epoch : Int)
  deriving Repr, DecidableEq, Inhabited

inductive Out where
  | ok
  | withdrawn (amount : Int)
  | err (e : Err)
  deriving Repr, DecidableEq, Inhabited

/-- One message to the miner actor.  A failing message changes nothing (VM rollback). -/
def step (s : State) : Op → State × Out
  | .changeOwner caller newAddr isId =>
    match changeOwner s caller newAddr isId with
    | .ok s' => (s', .ok)
    | .error e => (s, .err e)
  | .changeWorker caller newWorker newControls epoch workerOk controlsOk =>
    match changeWorker s caller newWorker newControls epoch workerOk controlsOk with
    | .ok s' => (s', .ok)
    | .error e => (s, .err e)
  | .confirmChangeWorker caller epoch =>
    match confirmChangeWorker s caller epoch with
    | .ok s' => (s', .ok)
    | .error e => (s, .err e)
  | .changeBeneficiary caller new quota expiration epoch resolves =>
    match changeBeneficiary s caller new quota expiration epoch resolves with
    | .ok s' => (s', .ok)
    | .error e => (s, .err e)
  | .withdrawUse caller amount epoch restOk =>
    match withdrawUse s caller amount epoch restOk with
    | .ok (s', w) => (s', .withdrawn w)
    | .error e => (s, .err e)
  | .cronTick epoch => (processPendingWorker s epoch, .ok)

def run (s : State) : List Op → State
  | [] => s
  | op :: rest => run (step s op).1 rest

/-- the message caller of an op (`none` for the cron callback, whose caller is the power actor) -/
def Op.caller? : Op → Option Nat
  | .changeOwner c _ _ => some c
  | .changeWorker c _ _ _ _ _ => some c
  | .confirmChangeWorker c _ => some c
  | .changeBeneficiary c _ _ _ _ _ => some c
  | .withdrawUse c _ _ _ => some c
  | .cronTick _ => none

/-! caller checks used elsewhere in the actor, as predicates on the record -/

/-- passes `validate_immediate_caller_is(owner)` -/
def isOwner (s : State) (c : Nat) : Prop := c = s.owner
/-- passes `validate_immediate_caller_is(control_addresses ∪ {worker, owner})` -/
def isControlling (s : State) (c : Nat) : Prop := c = s.owner ∨ c = s.worker ∨ c ∈ s.controls
/-- passes `validate_immediate_caller_is([owner, beneficiary])` of withdraw_balance -/
def mayWithdraw (s : State) (c : Nat) : Prop := c = s.owner ∨ c = s.beneficiary

end BA.MinerControl
