/-
  Miner side of C10: model of `validate_extension_declarations`, `extend_sector_committment`
  (`validate_extended_expiration` + `extend_simple_qap_sector`) of actors/miner/src/lib.rs, as the
  code is, over a small sector record.  The claims table is the registry's (BA.Model.Verifreg);
  `GetClaims` is a look-up in it.  Only SIMPLE_QA_POWER sectors are modelled (every sector
  onboarded since nv18); deal weight, fees, partitions and deadline grouping are out of the model.
-/
import BA.Prelude
import BA.Generated.Constants
import BA.Model.Verifreg

namespace BA.SectorExt
open BA BA.Verifreg

structure Sector where
  number : Nat
  activation : Int
  expiration : Int
  /-- `power_base_epoch` -/
  powerBase : Int
  /-- `verified_deal_weight` (space × time) -/
  verifiedWeight : Int
  deriving Repr, DecidableEq, Inhabited

structure SectorClaim where
  sector : Nat
  maintain : List Nat
  drop : List Nat
  deriving Repr, DecidableEq, Inhabited

structure Decl where
  newExpiration : Int
  /-- sectors listed without claims -/
  sectors : List Nat
  withClaims : List SectorClaim
  deriving Repr, DecidableEq, Inhabited

def dropPeriod : Int := BA.Gen.endOfLifeClaimDropPeriod
def minSectorExpiration : Int := BA.Gen.minSectorExpiration
def maxExtension : Int := BA.Gen.maxSectorExpirationExtension
/-- `seal_proof_sector_maximum_lifetime` of the V1P1 proofs: 5 years -/
def maxLifetime : Int := BA.Gen.verifregMaxAllocTerm

/-- sector ↦ (check, maintain): `claim_space_by_sector` -/
abbrev SpaceMap := List (Nat × (Int × Int))

/-- the miner's `get_claims`: every id must be a claim of this provider -/
def getClaims (claims : List (Nat × Claim)) (provider : Nat) : List Nat → Except Err (List Claim)
  | [] => .ok []
  | id :: rest =>
    match getClaim claims provider id with
    | none => .error .illegalArgument
    | some c =>
      match getClaims claims provider rest with
      | .error e => .error e
      | .ok cs => .ok (c :: cs)

def addSpace (m : SpaceMap) (sector : Nat) (size maintainDelta : Int) : SpaceMap :=
  match alookup sector m with
  | some (c, mt) => aset sector (c + size, mt + maintainDelta) m
  | none => aset sector (size, maintainDelta) m

/-- the `i < first_drop` part of the loop over the fetched claims -/
def accMaintain (sector : Nat) (newExp : Int) : List Claim → SpaceMap → Except Err SpaceMap
  | [], m => .ok m
  | c :: rest, m =>
    if c.sector ≠ sector then .error .illegalArgument
    else if newExp > c.termStart + c.termMax then .error .forbidden
    else accMaintain sector newExp rest (addSpace m sector c.size c.size)

/-- the `i ≥ first_drop` part -/
def accDrop (sector : Nat) : List Claim → SpaceMap → Except Err SpaceMap
  | [], m => .ok m
  | c :: rest, m =>
    if c.sector ≠ sector then .error .illegalArgument
    else accDrop sector rest (addSpace m sector c.size 0)

/-- the check added by the fix of finding F2 (flag `rc` = the source has it): a claim id may be
    declared (maintained or dropped) at most once per message. Returns the ids seen so far. -/
def checkDeclared (rc : Bool) (seen : List Nat) : List Nat → Except Err (List Nat)
  | [] => .ok seen
  | id :: rest =>
    if rc ∧ id ∈ seen then .error .illegalArgument else checkDeclared rc (id :: seen) rest

def accSectorClaims (rc : Bool) (claims : List (Nat × Claim)) (provider : Nat) (newExp : Int) :
    List SectorClaim → SpaceMap → List Nat → Except Err (SpaceMap × List Nat)
  | [], m, seen => .ok (m, seen)
  | sc :: rest, m, seen =>
    match checkDeclared rc seen (sc.maintain ++ sc.drop) with
    | .error e => .error e
    | .ok seen1 =>
      match getClaims claims provider (sc.maintain ++ sc.drop) with
      | .error e => .error e
      | .ok _ =>
        match getClaims claims provider sc.maintain with
        | .error e => .error e
        | .ok mcs =>
          match accMaintain sc.sector newExp mcs m with
          | .error e => .error e
          | .ok m1 =>
            match getClaims claims provider sc.drop with
            | .error e => .error e
            | .ok dcs =>
              match accDrop sc.sector dcs m1 with
              | .error e => .error e
              | .ok m2 => accSectorClaims rc claims provider newExp rest m2 seen1

/-- ascending, de-duplicated sector numbers of a declaration (the bitfield) -/
def insertSorted (x : Nat) : List Nat → List Nat
  | [] => [x]
  | y :: t => if x < y then x :: y :: t else if x = y then y :: t else y :: insertSorted x t

def declSectors (d : Decl) : List Nat :=
  (d.withClaims.map (fun sc => sc.sector) ++ d.sectors).foldl (fun acc x => insertSorted x acc) []

/-- `validate_extension_declarations`.  Flags: `rc` = a claim id declared twice in the message is
    rejected (fix of F2), `rs` = a sector listed in more than one declaration is rejected (fix of
    F2b).  The unchanged source has neither check. -/
def validateDeclsF (rc rs : Bool) (claims : List (Nat × Claim)) (provider : Nat) :
    List Decl → SpaceMap → List Nat → List Nat → Except Err SpaceMap
  | [], m, _, _ => .ok m
  | d :: rest, m, seenC, seenS =>
    if rs ∧ (declSectors d).any (fun x => x ∈ seenS) then .error .illegalArgument
    else match accSectorClaims rc claims provider d.newExpiration d.withClaims m seenC with
      | .error e => .error e
      | .ok (m1, seenC1) => validateDeclsF rc rs claims provider rest m1 seenC1 (declSectors d ++ seenS)

/-- `validate_extended_expiration` + `extend_simple_qap_sector` -/
def extendOne (epoch newExp : Int) (m : SpaceMap) (sec : Sector) : Except Err Sector :=
  if sec.expiration < epoch then .error .forbidden
  else if newExp < sec.expiration then .error .illegalArgument
  else if newExp ≤ sec.activation then .error .illegalArgument
  else if newExp - sec.activation < minSectorExpiration then .error .illegalArgument
  else if newExp > epoch + maxExtension then .error .illegalArgument
  else if newExp - sec.activation > maxLifetime then .error .illegalArgument
  else
    let oldDuration := sec.expiration - sec.powerBase
    let newDuration := newExp - epoch
    if sec.verifiedWeight > 0 then
      if oldDuration = 0 then .error .assertion
      else match alookup sec.number m with
        | none => .error .illegalArgument
        | some (check, maintain) =>
          if check ≠ Int.tdiv sec.verifiedWeight oldDuration then .error .illegalArgument
          else if check ≠ maintain ∧ sec.expiration - epoch > dropPeriod then .error .forbidden
          else .ok { sec with expiration := newExp, powerBase := epoch,
                              verifiedWeight := maintain * newDuration }
    else .ok { sec with expiration := newExp, powerBase := epoch }

def extendSectors (epoch newExp : Int) (m : SpaceMap) :
    List Nat → List (Nat × Sector) → Except Err (List (Nat × Sector))
  | [], secs => .ok secs
  | n :: rest, secs =>
    match alookup n secs with
    | none => .error .notFound
    | some sec =>
      match extendOne epoch newExp m sec with
      | .error e => .error e
      | .ok sec' => extendSectors epoch newExp m rest (aset n sec' secs)

def extendDecls (epoch : Int) (m : SpaceMap) :
    List Decl → List (Nat × Sector) → Except Err (List (Nat × Sector))
  | [], secs => .ok secs
  | d :: rest, secs =>
    match extendSectors epoch d.newExpiration m (declSectors d) secs with
    | .error e => .error e
    | .ok secs' => extendDecls epoch m rest secs'

/-- `extend_sector_expiration2` with explicit fix flags -/
def extendMessageF (rc rs : Bool) (claims : List (Nat × Claim)) (provider : Nat) (epoch : Int)
    (secs : List (Nat × Sector)) (decls : List Decl) : Except Err (List (Nat × Sector)) :=
  match validateDeclsF rc rs claims provider decls [] [] [] with
  | .error e => .error e
  | .ok m => extendDecls epoch m decls secs

/-- do the sources carry the fixes? (regenerated from actors/miner/src/lib.rs on every run) -/
def rejectDupClaims : Bool := BA.Gen.minerExtRejectsDuplicateClaims
def rejectDupSectors : Bool := BA.Gen.minerExtRejectsDuplicateSectors

/-- `extend_sector_expiration2` as the current source has it -/
def extendMessage (claims : List (Nat × Claim)) (provider : Nat) (epoch : Int)
    (secs : List (Nat × Sector)) (decls : List Decl) : Except Err (List (Nat × Sector)) :=
  extendMessageF rejectDupClaims rejectDupSectors claims provider epoch secs decls

end BA.SectorExt
