/-
  Model of the storage market actor (actors/market/src/{lib,state,balance_table,deal,policy}.rs),
  following the Rust control flow branch by branch.  Shared by C06, C07, C08.

  Representation choices (all checked by the correspondence run):
  * `BalanceTable` → assoc list read through `bal` (a missing key reads 0, as `BalanceTable::get`).
  * proposals / states AMTs → assoc lists keyed by deal id.
  * the pending-proposals set is keyed by the *normalised proposal itself* (the CID is the
    blake2b hash of its serialisation; collision-freeness is part of the trusted base).  The
    fields of a proposal that the three properties never look at (piece CID, piece size, label)
    are folded into `tag`.
  * `provider_sectors[provider][sector] ∋ id` ⇔ the deal's state has `mapped = true`, its sector is
    `sector` and its proposal's provider is `provider` (activation checks provider = caller).
  * the current epoch is part of the state and only moves forward (`advance`).
  * `DealState.slash_epoch` is not modelled: no method of the current code ever stores a value
    other than EPOCH_UNDEFINED (termination is synchronous and deletes the deal), so the legacy
    "marked-for-termination" branches of `process_deal_update` are unreachable from `init`.
  * `paid`, `closed`, `burntTotal` are ghost ledgers: written, never read by a transition.
  Environment answers (signature check, static validity bounds, miner control addresses, results
  of burn / notify / datacap sends) are inputs of the step.
-/
import BA.Prelude
import BA.Generated.Constants

namespace BA.Market
open BA

/-! ### Balance tables -/

abbrev Table := List (Nat × Int)

/-- `BalanceTable::get`: zero when absent -/
def bal (m : Table) (k : Nat) : Int :=
  match alookup k m with
  | some v => v
  | none => 0

/-- `BalanceTable::add` (rejects a negative result) -/
def badd (m : Table) (k : Nat) (v : Int) : Except Err Table :=
  if bal m k + v < 0 then .error .illegalArgument else .ok (aset k (bal m k + v) m)

/-- `BalanceTable::must_subtract` -/
def bmustSub (m : Table) (k : Nat) (req : Int) : Except Err Table :=
  if req > bal m k then .error .illegalArgument else badd m k (-req)

/-! ### Deals -/

structure Proposal where
  client : Nat
  provider : Nat
  startE : Int
  endE : Int
  price : Int
  clientColl : Int
  providerColl : Int
  verified : Bool
  /-- piece CID / piece size / label, interned -/
  tag : Nat
  deriving Repr, DecidableEq, Inhabited

/-- `total_storage_fee` -/
def Proposal.fee (d : Proposal) : Int := d.price * (d.endE - d.startE)
/-- `client_balance_requirement` -/
def Proposal.clientReq (d : Proposal) : Int := d.clientColl + d.fee

structure DealState where
  sector : Nat
  sectorStart : Int
  /-- -1 = never updated (EPOCH_UNDEFINED) -/
  lastUpdated : Int
  mapped : Bool
  deriving Repr, DecidableEq, Inhabited

inductive CloseKind where
  | completed | terminated | timedOut
  deriving Repr, DecidableEq, Inhabited

/-- ghost record of how a deal left the market -/
structure Closed where
  kind : CloseKind
  deal : Proposal
  atEpoch : Int
  /-- credited to the provider over the deal's life -/
  paid : Int
  /-- storage fee unlocked back to the client at the end -/
  feeRefund : Int
  clientCollRefund : Int
  providerCollRefund : Int
  burnt : Int
  deriving Repr, DecidableEq, Inhabited

structure State where
  epoch : Int := 0
  escrow : Table := []
  locked : Table := []
  proposals : List (Nat × Proposal) := []
  states : List (Nat × DealState) := []
  pending : List Proposal := []
  nextId : Nat := 0
  /-- deal_ops_by_epoch -/
  dealOps : List (Int × Nat) := []
  lastCron : Int := -1
  totalClientColl : Int := 0
  totalProviderColl : Int := 0
  totalClientFee : Int := 0
  -- ghost
  paid : Table := []
  closed : List (Nat × Closed) := []
  burntTotal : Int := 0
  deriving Repr, Inhabited

def init : State := {}

inductive Reason where
  | clientColl | clientFee | providerColl
  deriving Repr, DecidableEq

def dealUpdatesInterval : Int := BA.Gen.marketDealUpdatesInterval

/-! ### state.rs: lock / unlock / transfer / slash -/

/-- `unlock_balance` -/
def unlockBalance (s : State) (a : Nat) (amt : Int) (r : Reason) : Except Err State :=
  if amt < 0 then .error .illegalState
  else match bmustSub s.locked a amt with
    | .error e => .error e
    | .ok l =>
      match r with
      | .clientColl => .ok { s with locked := l, totalClientColl := s.totalClientColl - amt }
      | .clientFee => .ok { s with locked := l, totalClientFee := s.totalClientFee - amt }
      | .providerColl => .ok { s with locked := l, totalProviderColl := s.totalProviderColl - amt }

/-- `transfer_balance`: from locked-in-client to available-in-provider -/
def transferBalance (s : State) (frm to : Nat) (amt : Int) : Except Err State :=
  if amt < 0 then .error .illegalState
  else match bmustSub s.escrow frm amt with
    | .error e => .error e
    | .ok esc =>
      match unlockBalance s frm amt .clientFee with
      | .error e => .error e
      | .ok s1 =>
        match badd esc to amt with
        | .error e => .error e
        | .ok esc2 => .ok { s1 with escrow := esc2 }

/-- `slash_balance` -/
def slashBalance (s : State) (a : Nat) (amt : Int) (r : Reason) : Except Err State :=
  if amt < 0 then .error .illegalState
  else match bmustSub s.escrow a amt with
    | .error e => .error e
    | .ok esc => unlockBalance { s with escrow := esc } a amt r

/-- `maybe_lock_balance` -/
def maybeLock (s : State) (a : Nat) (amt : Int) : Except Err State :=
  if amt < 0 then .error .illegalState
  else if bal s.locked a + amt > bal s.escrow a then .error .insufficientFunds
  else match badd s.locked a amt with
    | .error e => .error e
    | .ok l => .ok { s with locked := l }

/-- `lock_client_and_provider_balances` -/
def lockBoth (s : State) (d : Proposal) : Except Err State :=
  match maybeLock s d.client d.clientReq with
  | .error e => .error e
  | .ok s1 =>
    match maybeLock s1 d.provider d.providerColl with
    | .error e => .error e
    | .ok s2 => .ok { s2 with
        totalClientColl := s2.totalClientColl + d.clientColl
        totalClientFee := s2.totalClientFee + d.fee
        totalProviderColl := s2.totalProviderColl + d.providerColl }

/-- `balance_covered` -/
def balanceCovered (s : State) (a : Nat) (amt : Int) : Bool :=
  bal s.locked a + amt ≤ bal s.escrow a

/-! ### pending set, ghost ledger, removal -/

def pendingRemove (p : List Proposal) (d : Proposal) : List Proposal := p.filter (fun x => x ≠ d)
def pendingPut (p : List Proposal) (d : Proposal) : List Proposal := if d ∈ p then p else p ++ [d]

def addPaid (s : State) (id : Nat) (amt : Int) : State :=
  { s with paid := aset id (bal s.paid id + amt) s.paid }

/-- `remove_completed_deal` + ghost closing record -/
def removeDeal (s : State) (id : Nat) (c : Closed) : State :=
  { s with
    proposals := aerase id s.proposals
    states := aerase id s.states
    paid := aerase id s.paid
    closed := s.closed ++ [(id, c)]
    burntTotal := s.burntTotal + c.burnt }

/-! ### lib.rs: AddBalance / WithdrawBalance -/

/-- `add_balance`; `resolves` = the address resolves to an actor with code -/
def addBalance (s : State) (addr : Nat) (value : Int) (resolves : Bool) : Except Err State :=
  if value ≤ 0 then .error .illegalArgument
  else if !resolves then .error .illegalArgument
  else match badd s.escrow addr value with
    | .error e => .error e
    | .ok esc => .ok { s with escrow := esc }

/-- what `escrow_address` learns from the environment about the nominal address -/
structure PartyEnv where
  resolves : Bool
  /-- `some (owner, worker)` when the address is a storage miner actor -/
  miner : Option (Nat × Nat)
  deriving Repr, DecidableEq, Inhabited

def recipientOf (nominal : Nat) (env : PartyEnv) : Nat :=
  match env.miner with
  | some (o, _) => o
  | none => nominal

def approvedCallers (nominal : Nat) (env : PartyEnv) : List Nat :=
  match env.miner with
  | some (o, w) => [o, w]
  | none => [nominal]

structure Withdrawal where
  amount : Int
  recipient : Nat
  deriving Repr, DecidableEq, Inhabited

/-- `withdraw_balance` (+ `subtract_with_minimum`); `sendOk` = the payout send succeeds -/
def withdraw (s : State) (caller nominal : Nat) (amount : Int) (env : PartyEnv) (sendOk : Bool) :
    Except Err (State × Withdrawal) :=
  if amount < 0 then .error .illegalArgument
  else if !env.resolves then .error .illegalArgument
  else if caller ∉ approvedCallers nominal env then .error .forbidden
  else
    let avail := max 0 (bal s.escrow nominal - bal s.locked nominal)
    let ex := min avail amount
    let escR : Except Err Table := if ex > 0 then badd s.escrow nominal (-ex) else .ok s.escrow
    match escR with
    | .error e => .error e
    | .ok esc =>
      if !sendOk then .error .sysError
      else .ok ({ s with escrow := esc }, { amount := ex, recipient := recipientOf nominal env })

/-! ### lib.rs: PublishStorageDeals -/

structure DealIn where
  d : Proposal
  /-- `AuthenticateMessage` of the client accepts the signature over the proposal -/
  sigOk : Bool
  /-- the static parts of `validate_deal` that the three properties do not mention: label length,
      piece size / CID form, duration bounds, upper bounds on price and collaterals, lower bound on
      the provider collateral -/
  boundsOk : Bool
  /-- verified deal: the client's remaining datacap covers the piece -/
  dcOk : Bool
  /-- the provider address written in the deal is the first deal's provider (its ID form, or the
      very form used by the first deal) -/
  providerMatches : Bool
  deriving Repr, DecidableEq, Inhabited

/-- `validate_deal` (the parts the properties depend on are explicit) -/
def dealValid (epoch : Int) (di : DealIn) : Bool :=
  di.sigOk && di.boundsOk && decide (di.d.startE < di.d.endE) && decide (epoch ≤ di.d.startE)
    && decide (0 ≤ di.d.price) && decide (0 ≤ di.d.providerColl) && decide (0 ≤ di.d.clientColl)

/-- running state of the selection loop of `publish_storage_deals` -/
structure Sel where
  clientLockup : Table := []
  providerLockup : Int := 0
  seen : List Proposal := []
  /-- (index in the message, proposal) of the accepted deals, in order -/
  accepted : List (Nat × Proposal) := []
  deriving Repr, Inhabited

/-- the proposal as stored on chain: provider (and client) normalised to ID addresses -/
def normalise (provider : Nat) (d : Proposal) : Proposal := { d with provider := provider }

/-- one iteration of the selection loop; `none` = deal dropped -/
def selectOne (s : State) (provider : Nat) (acc : Sel) (di : DealIn) : Option (Int × Int) :=
  if !dealValid s.epoch di then none
  else if !di.providerMatches then none
  else
    let cl := bal acc.clientLockup di.d.client + di.d.clientReq
    if !balanceCovered s di.d.client cl then none
    else
      let pl := acc.providerLockup + di.d.providerColl
      if !balanceCovered s provider pl then none
      else if normalise provider di.d ∈ s.pending ∨ normalise provider di.d ∈ acc.seen then none
      else if di.d.verified && !di.dcOk then none
      else some (cl, pl)

def selectDeals (s : State) (provider : Nat) : List DealIn → Nat → Sel → Sel
  | [], _, acc => acc
  | di :: rest, i, acc =>
    match selectOne s provider acc di with
    | none => selectDeals s provider rest (i + 1) acc
    | some (cl, pl) =>
      selectDeals s provider rest (i + 1)
        { clientLockup := aset di.d.client cl acc.clientLockup,
          providerLockup := pl,
          seen := acc.seen ++ [normalise provider di.d],
          accepted := acc.accepted ++ [(i, normalise provider di.d)] }

/-- `next_update_epoch` (Rust `%` and `/` truncate) -/
def nextUpdateEpoch (id : Nat) (interval : Int) (earliest : Int) : Int :=
  let offset := Int.tmod (id : Int) interval
  let r := Int.tmod (earliest - offset) interval
  let q := Int.tdiv (earliest - offset) interval
  if r = 0 ∨ earliest - offset < 0 then interval * q + offset else interval * (q + 1) + offset

/-- body of the publish transaction for one accepted deal -/
def publishOne (s : State) (d : Proposal) : Except Err (State × Nat) :=
  match lockBoth s d with
  | .error e => .error e
  | .ok s1 =>
    let id := s1.nextId
    .ok ({ s1 with
      pending := pendingPut s1.pending d
      nextId := id + 1
      proposals := aset id d s1.proposals
      dealOps := s1.dealOps ++ [(nextUpdateEpoch id dealUpdatesInterval d.startE, id)] }, id)

def publishAll : State → List Proposal → Except Err (State × List Nat)
  | s, [] => .ok (s, [])
  | s, d :: rest =>
    match publishOne s d with
    | .error e => .error e
    | .ok (s1, id) =>
      match publishAll s1 rest with
      | .error e => .error e
      | .ok (s2, ids) => .ok (s2, id :: ids)

structure PublishEnv where
  /-- ID of the first deal's provider -/
  provider : Nat
  /-- the first deal's provider resolves -/
  providerResolves : Bool
  providerIsMiner : Bool
  /-- `IsControllingAddress(caller)` of the provider -/
  callerControls : Bool
  /-- datacap balance / transfer calls succeed -/
  datacapOk : Bool
  /-- every `MarketNotifyDeal` call to a client succeeds -/
  notifyOk : Bool
  deriving Repr, DecidableEq, Inhabited

structure PublishRet where
  ids : List Nat
  valid : List Nat
  deriving Repr, DecidableEq, Inhabited

def publish (s : State) (env : PublishEnv) (deals : List DealIn) : Except Err (State × PublishRet) :=
  match deals with
  | [] => .error .illegalArgument
  | _ :: _ =>
    if !env.providerResolves then .error .notFound
    else if !env.providerIsMiner then .error .illegalArgument
    else if !env.callerControls then .error .forbidden
    else
      let sel := selectDeals s env.provider deals 0 {}
      if !env.datacapOk && sel.accepted.any (fun p => p.2.verified) then .error .illegalState
      else if sel.accepted.isEmpty then .error .illegalArgument
      else match publishAll s (sel.accepted.map (·.2)) with
        | .error e => .error e
        | .ok (s', ids) =>
          if !env.notifyOk then .error .illegalArgument
          else .ok (s', { ids := ids, valid := sel.accepted.map (·.1) })

/-! ### lib.rs: activation (BatchActivateDeals, SectorContentChanged) -/

/-- `preactivate_deal` = `get_proposal` + `validate_deal_can_activate` + not yet activated +
    still in the pending set -/
def canActivate (s : State) (caller : Nat) (sectorExpiry : Int) (id : Nat) : Bool :=
  match alookup id s.proposals with
  | none => false
  | some d =>
    decide (d.provider = caller) && decide (s.epoch ≤ d.startE) && decide (d.endE ≤ sectorExpiry)
      && (alookup id s.states).isNone && decide (d ∈ s.pending)

def activateOne (s : State) (sector : Nat) (id : Nat) : State :=
  let st : DealState := { sector := sector, sectorStart := s.epoch, lastUpdated := -1, mapped := true }
  { s with states := aset id st s.states }

def hasDup : List Nat → Bool
  | [] => false
  | x :: t => t.contains x || hasDup t

structure SectorDeals where
  sector : Nat
  expiry : Int
  ids : List Nat
  deriving Repr, DecidableEq, Inhabited

/-- one sector of `batch_activate_deals`: all of its deals or none -/
def activateSector (s : State) (caller : Nat) (sd : SectorDeals) : State × Bool :=
  if hasDup sd.ids then (s, false)
  else if sd.ids.all (canActivate s caller sd.expiry) then
    (sd.ids.foldl (fun acc id => activateOne acc sd.sector id) s, true)
  else (s, false)

def activateSectors (caller : Nat) : State → List SectorDeals → State × List Bool
  | s, [] => (s, [])
  | s, sd :: rest =>
    let (s1, ok) := activateSector s caller sd
    let (s2, oks) := activateSectors caller s1 rest
    (s2, ok :: oks)

def batchActivate (s : State) (caller : Nat) (callerIsMiner : Bool) (sectors : List SectorDeals) :
    Except Err (State × List Bool) :=
  if !callerIsMiner then .error .forbidden
  else .ok (activateSectors caller s sectors)

/-- a piece of `SectorContentChanged`: deal id in the payload; `pieceOk` = payload decodes and the
    piece CID and size match the proposal -/
structure Piece where
  id : Nat
  pieceOk : Bool
  deriving Repr, DecidableEq, Inhabited

structure SectorChanges where
  sector : Nat
  minCommit : Int
  pieces : List Piece
  deriving Repr, DecidableEq, Inhabited

def sccPieces (caller : Nat) (sector : Nat) (minCommit : Int) : State → List Piece → State × List Bool
  | s, [] => (s, [])
  | s, p :: rest =>
    if p.pieceOk && canActivate s caller minCommit p.id then
      let (s2, oks) := sccPieces caller sector minCommit (activateOne s sector p.id) rest
      (s2, true :: oks)
    else
      let (s2, oks) := sccPieces caller sector minCommit s rest
      (s2, false :: oks)

def sccSectors (caller : Nat) : State → List SectorChanges → State × List (List Bool)
  | s, [] => (s, [])
  | s, sc :: rest =>
    let (s1, oks) := sccPieces caller sc.sector sc.minCommit s sc.pieces
    let (s2, okss) := sccSectors caller s1 rest
    (s2, oks :: okss)

def sectorContentChanged (s : State) (caller : Nat) (callerIsMiner : Bool)
    (sectors : List SectorChanges) : Except Err (State × List (List Bool)) :=
  if !callerIsMiner then .error .forbidden
  else .ok (sccSectors caller s sectors)

/-! ### state.rs: deal processing -/

/-- `process_deal_init_timed_out` + the removals of `get_active_deal_or_process_timeout` -/
def timeoutDeal (s : State) (id : Nat) (d : Proposal) : Except Err State :=
  match unlockBalance s d.client d.fee .clientFee with
  | .error e => .error e
  | .ok s1 =>
    match unlockBalance s1 d.client d.clientColl .clientColl with
    | .error e => .error e
    | .ok s2 =>
      -- collateral_penalty_for_deal_activation_missed = the whole provider collateral
      match slashBalance s2 d.provider d.providerColl .providerColl with
      | .error e => .error e
      | .ok s3 =>
        match unlockBalance s3 d.provider (d.providerColl - d.providerColl) .providerColl with
        | .error e => .error e
        | .ok s4 =>
          if d ∉ s4.pending then .error .illegalState
          else .ok (removeDeal { s4 with pending := pendingRemove s4.pending d } id
            { kind := .timedOut, deal := d, atEpoch := s.epoch, paid := bal s.paid id, feeRefund := d.fee,
              clientCollRefund := d.clientColl, providerCollRefund := 0, burnt := d.providerColl })

/-- `process_deal_update` for a deal that was never slashed; returns (state, payment, completed).
    The caller stores `last_updated_epoch := epoch` when the deal continues. -/
def processDealUpdate (s : State) (id : Nat) (d : Proposal) (st : DealState) :
    Except Err (State × Int × Bool) :=
  let everUpdated := st.lastUpdated ≠ -1
  let s0 := if everUpdated then s else { s with pending := pendingRemove s.pending d }
  if everUpdated ∧ st.lastUpdated > s.epoch then .error .illegalState
  else if d.startE > s.epoch then .ok (s0, 0, false)
  else
    let payEnd := min d.endE s.epoch
    let payStart := if everUpdated ∧ st.lastUpdated > d.startE then st.lastUpdated else d.startE
    let payment := d.price * (payEnd - payStart)
    let s1R : Except Err State := if payment > 0 then
        (match transferBalance s0 d.client d.provider payment with
         | .error e => .error e
         | .ok t => .ok (addPaid t id payment))
      else .ok s0
    match s1R with
    | .error e => .error e
    | .ok s1 =>
      if s.epoch ≥ d.endE then
        -- process_deal_expired
        if st.sectorStart = -1 then .error .illegalState
        else match unlockBalance s1 d.provider d.providerColl .providerColl with
          | .error e => .error e
          | .ok s2 =>
            match unlockBalance s2 d.client d.clientColl .clientColl with
            | .error e => .error e
            | .ok s3 => .ok (s3, payment, true)
      else .ok (s1, payment, false)

def completedRecord (s : State) (id : Nat) (d : Proposal) : Closed :=
  { kind := .completed, deal := d, atEpoch := s.epoch, paid := bal s.paid id, feeRefund := 0,
    clientCollRefund := d.clientColl, providerCollRefund := d.providerColl, burnt := 0 }

/-! ### lib.rs: SettleDealPayments -/

inductive SettleRes where
  | fail
  | ok (payment : Int) (completed : Bool)
  deriving Repr, DecidableEq, Inhabited

/-- one deal of `settle_deal_payments`; returns (state, result, amount slashed).
    In the code an error in the middle of the per-deal work is reported as a failed entry while the
    partial mutations stay; every such error requires inconsistent balance tables, and the model
    treats the deal as failed without effect. -/
def settleOne (s : State) (id : Nat) : State × SettleRes × Int :=
  match alookup id s.proposals with
  | none => (s, .fail, 0)
  | some d =>
    match alookup id s.states with
    | none =>
      if s.epoch < d.startE then (s, .ok 0 false, 0)
      else match timeoutDeal s id d with
        | .error _ => (s, .fail, 0)
        | .ok s' => (s', .fail, d.providerColl)
    | some st =>
      match processDealUpdate s id d st with
      | .error _ => (s, .fail, 0)
      | .ok (s1, payment, completed) =>
        if completed then (removeDeal s1 id (completedRecord s1 id d), .ok payment true, 0)
        else ({ s1 with states := aset id { st with lastUpdated := s.epoch } s1.states },
              .ok payment false, 0)

def settleAll : State → List Nat → State × List SettleRes × Int
  | s, [] => (s, [], 0)
  | s, id :: rest =>
    let (s1, r, sl) := settleOne s id
    let (s2, rs, sl2) := settleAll s1 rest
    (s2, r :: rs, sl + sl2)

/-- `settle_deal_payments`; `ids` are the elements of the `deal_ids` bitfield (ascending, distinct:
    the deferred `put_deal_states` after the loop is then the same as storing at once).
    `burnOk` = the send to the burnt-funds actor succeeds. -/
def settle (s : State) (ids : List Nat) (burnOk : Bool) : Except Err (State × List SettleRes) :=
  let (s1, rs, slashed) := settleAll s ids
  if slashed ≠ 0 ∧ !burnOk then .error .sysError
  else .ok (s1, rs)

/-! ### lib.rs: OnMinerSectorsTerminate -/

/-- `deal_get_payment_remaining` -/
def paymentRemaining (d : Proposal) (slashEpoch : Int) : Except Err Int :=
  if slashEpoch > d.endE then .error .illegalState
  else
    let se := max slashEpoch d.startE
    if d.endE - se < 0 then .error .illegalState
    else .ok (d.price * (d.endE - se))

/-- one deal of `on_miner_sectors_terminate` (with `process_slashed_deal`); returns the slashed amount -/
def terminateOne (s : State) (caller : Nat) (slashEpoch : Int) (id : Nat) : Except Err (State × Int) :=
  match alookup id s.proposals with
  | none => .ok (s, 0)
  | some d =>
    if d.provider ≠ caller then .error .illegalState
    else if d.endE ≤ slashEpoch then .ok (s, 0)
    else match alookup id s.states with
      | none => .error .illegalArgument
      | some st =>
        let s0 := if st.lastUpdated = -1 then { s with pending := pendingRemove s.pending d } else s
        let payStart := max d.startE st.lastUpdated
        let payEnd := min d.endE slashEpoch
        let payment := d.price * (max 0 (payEnd - payStart))
        let s1R : Except Err State := if payment > 0 then
            (match transferBalance s0 d.client d.provider payment with
             | .error e => .error e
             | .ok t => .ok (addPaid t id payment))
          else .ok s0
        match s1R with
        | .error e => .error e
        | .ok s1 =>
          match paymentRemaining d slashEpoch with
          | .error e => .error e
          | .ok remaining =>
            match unlockBalance s1 d.client remaining .clientFee with
            | .error e => .error e
            | .ok s2 =>
              match unlockBalance s2 d.client d.clientColl .clientColl with
              | .error e => .error e
              | .ok s3 =>
                match slashBalance s3 d.provider d.providerColl .providerColl with
                | .error e => .error e
                | .ok s4 =>
                  .ok (removeDeal s4 id
                    { kind := .terminated, deal := d, atEpoch := slashEpoch, paid := bal s4.paid id,
                      feeRefund := remaining, clientCollRefund := d.clientColl,
                      providerCollRefund := 0, burnt := d.providerColl }, d.providerColl)

def terminateAll (caller : Nat) (slashEpoch : Int) : State → List Nat → Except Err (State × Int)
  | s, [] => .ok (s, 0)
  | s, id :: rest =>
    match terminateOne s caller slashEpoch id with
    | .error e => .error e
    | .ok (s1, a) =>
      match terminateAll caller slashEpoch s1 rest with
      | .error e => .error e
      | .ok (s2, b) => .ok (s2, a + b)

def providerOf (s : State) (id : Nat) : Option Nat :=
  match alookup id s.proposals with
  | some d => some d.provider
  | none => none

/-- deal ids listed under `provider_sectors[caller][sector]` for a sector in `sectors` -/
def sectorDealIds (s : State) (caller : Nat) (sectors : List Nat) : List Nat :=
  (s.states.filter (fun p => p.2.mapped && sectors.contains p.2.sector
      && (providerOf s p.1 == some caller))).map (·.1)

/-- `pop_sector_deal_ids`: the mapping entries of the given sectors are dropped -/
def unmapSectors (s : State) (caller : Nat) (sectors : List Nat) : State :=
  { s with states := s.states.map (fun p =>
      if p.2.mapped && sectors.contains p.2.sector && (providerOf s p.1 == some caller)
      then (p.1, { p.2 with mapped := false }) else p) }

/-- `on_miner_sectors_terminate`; `slashEpoch` is the `epoch` parameter of the message (the miner
    actor, the only possible caller, always passes the current epoch). -/
def terminate (s : State) (caller : Nat) (callerIsMiner : Bool) (slashEpoch : Int)
    (sectors : List Nat) (burnOk : Bool) : Except Err State :=
  if !callerIsMiner then .error .forbidden
  else
    let ids := sectorDealIds s caller sectors
    match terminateAll caller slashEpoch (unmapSectors s caller sectors) ids with
    | .error e => .error e
    | .ok (s1, burn) =>
      if burn > 0 ∧ !burnOk then .error .sysError
      else .ok s1

/-! ### lib.rs: CronTick -/

/-- one scheduled deal of `cron_tick`; returns (state, amount slashed) -/
def cronOne (s : State) (id : Nat) : Except Err (State × Int) :=
  match alookup id s.proposals with
  | none => .ok (s, 0)
  | some d =>
    match alookup id s.states with
    | none =>
      if s.epoch < d.startE then .error .illegalState
      else match timeoutDeal s id d with
        | .error e => .error e
        | .ok s' => .ok (s', d.providerColl)
    | some st =>
      if st.lastUpdated = -1 then
        if d ∉ s.pending then .error .illegalState
        else .ok ({ s with pending := pendingRemove s.pending d }, 0)
      else match processDealUpdate s id d st with
        | .error e => .error e
        | .ok (s1, _, completed) =>
          if completed then .ok (removeDeal s1 id (completedRecord s1 id d), 0)
          else .ok ({ s1 with
            states := aset id { st with lastUpdated := s.epoch } s1.states
            dealOps := s1.dealOps ++ [(nextUpdateEpoch id dealUpdatesInterval (s.epoch + 1), id)] }, 0)

def cronAll : State → List Nat → Except Err (State × Int)
  | s, [] => .ok (s, 0)
  | s, id :: rest =>
    match cronOne s id with
    | .error e => .error e
    | .ok (s1, a) =>
      match cronAll s1 rest with
      | .error e => .error e
      | .ok (s2, b) => .ok (s2, a + b)

def dueNow (s : State) (e : Int) : Bool := decide (s.lastCron < e) && decide (e ≤ s.epoch)

/-- `cron_tick` -/
def cronTick (s : State) (callerIsCron : Bool) (burnOk : Bool) : Except Err State :=
  if !callerIsCron then .error .forbidden
  else
    let due := (s.dealOps.filter (fun p => dueNow s p.1)).map (·.2)
    let s0 := { s with dealOps := s.dealOps.filter (fun p => !dueNow s p.1) }
    match cronAll s0 due with
    | .error e => .error e
    | .ok (s1, slashed) =>
      if slashed ≠ 0 ∧ !burnOk then .error .sysError
      else .ok { s1 with lastCron := s.epoch }

/-! ### Messages -/

inductive Op where
  | advance (toEpoch : Int)
  | addBalance (addr : Nat) (value : Int) (resolves : Bool)
  | withdraw (caller nominal : Nat) (amount : Int) (env : PartyEnv) (sendOk : Bool)
  | publish (env : PublishEnv) (deals : List DealIn)
  | activate (caller : Nat) (callerIsMiner : Bool) (sectors : List SectorDeals)
  | scc (caller : Nat) (callerIsMiner : Bool) (sectors : List SectorChanges)
  | settle (ids : List Nat) (burnOk : Bool)
  /-- the `epoch` parameter of OnMinerSectorsTerminate is not part of the op: the only possible
      caller, the miner actor (`request_terminate_deals`), always passes the current epoch -/
  | terminate (caller : Nat) (callerIsMiner : Bool) (sectors : List Nat) (burnOk : Bool)
  | cron (callerIsCron : Bool) (burnOk : Bool)
  deriving Repr, Inhabited

inductive Out where
  | ok
  | withdrawn (w : Withdrawal)
  | published (r : PublishRet)
  | activated (r : List Bool)
  | changed (r : List (List Bool))
  | settled (r : List SettleRes)
  | err (e : Err)
  deriving Repr, Inhabited

/-- One message (or a clock move).  A failing message changes nothing (VM rollback). -/
def step (s : State) : Op → State × Out
  | .advance e => if e < s.epoch then (s, .err .illegalArgument) else ({ s with epoch := e }, .ok)
  | .addBalance a v r =>
    match addBalance s a v r with
    | .ok s' => (s', .ok)
    | .error e => (s, .err e)
  | .withdraw c n a env sendOk =>
    match withdraw s c n a env sendOk with
    | .ok (s', w) => (s', .withdrawn w)
    | .error e => (s, .err e)
  | .publish env deals =>
    match publish s env deals with
    | .ok (s', r) => (s', .published r)
    | .error e => (s, .err e)
  | .activate c m secs =>
    match batchActivate s c m secs with
    | .ok (s', r) => (s', .activated r)
    | .error e => (s, .err e)
  | .scc c m secs =>
    match sectorContentChanged s c m secs with
    | .ok (s', r) => (s', .changed r)
    | .error e => (s, .err e)
  | .settle ids b =>
    match settle s ids b with
    | .ok (s', r) => (s', .settled r)
    | .error e => (s, .err e)
  | .terminate c m secs b =>
    match terminate s c m s.epoch secs b with
    | .ok s' => (s', .ok)
    | .error e => (s, .err e)
  | .cron c b =>
    match cronTick s c b with
    | .ok s' => (s', .ok)
    | .error e => (s, .err e)

def run (s : State) : List Op → State
  | [] => s
  | op :: rest => run (step s op).1 rest

end BA.Market
