/-
  C11 — term language of caller validations and the row types of the generated method table.
  Types only (imported by the generated `BA/Generated/Methods.lean` and by `BA/Model/Dispatch.lean`).
-/
import BA.Prelude
namespace BA.Dispatch

/-- The 16 built-in actor types (`runtime::Type`); also used as the code type of a caller. -/
inductive Actor where
  | account | cron | datacap | eam | ethaccount | evm | init | market | miner | multisig
  | paych | placeholder | power | reward | system | verifreg
  deriving DecidableEq, Repr, Inhabited

abbrev CodeType := Actor

/-- Address expressions that occur inside `validate_immediate_caller_is(…)`:
    well-known singleton addresses, message-relative addresses and addresses read from the
    receiver's state (or derived from the parameters, `escrowApproved`). -/
inductive Atom where
  | system | init | reward | cron | power | market | verifreg | datacap | eam | burnt
  | id0            -- `Address::new_id(0)` (numerically the system actor)
  | self           -- `rt.message().receiver()`
  | origin         -- `rt.message().origin()`
  | owner | worker | control | beneficiary | pendingOwner          -- miner `info.*`
  | chFrom | chTo                                                   -- paych `st.from`, `st.to`
  | rootKey                                                         -- verifreg `st.root_key`
  | governor                                                        -- datacap `st.governor`
  | escrowApproved -- market `escrow_address(params.provider_or_client).2`: the party itself, or a miner's owner/worker
  deriving DecidableEq, Repr, Inhabited

/-- Normalised caller validation. `alt a b`: two validations in the two arms of an if/else
    (exactly one runs; the accepted set is contained in the union). -/
inductive VTerm where
  | any
  | is (l : List Atom)
  | type (l : List CodeType)
  | namespace (l : List Actor)
  | alt (a b : VTerm)
  deriving DecidableEq, Repr, Inhabited

/-- one row of an actor's dispatch table -/
structure Entry where
  actor : Actor
  name : String
  num : Nat
  /-- dispatched by `actor_dispatch!` (which calls `restrict_internal_api` first) -/
  restricted : Bool
  term : VTerm
  /-- no state-changing / sending runtime call precedes the validation in the handler text -/
  first : Bool
  deriving DecidableEq, Repr, Inhabited

/-- `_ => handler` row -/
structure Fallback where
  actor : Actor
  term : VTerm
  first : Bool
  deriving DecidableEq, Repr, Inhabited

structure Table where
  actor : Actor
  restricted : Bool
  hasFallback : Bool
  rows : Nat
  deriving DecidableEq, Repr, Inhabited

end BA.Dispatch
