/-
  Model of the claims / network-totals bookkeeping of the storage power actor
  (actors/power/src/state.rs: add_to_claim, set_claim, delete_claim, current_total_power,
  update_stats_for_new_miner, miner_nominal_power_meets_consensus_minimum;
  actors/power/src/lib.rs: create_miner, update_claimed_power, the claim-deleting transaction of
  process_deferred_cron_events, the this_epoch_* snapshot of on_epoch_tick_end).

  Environment answers are inputs of the step: the id the Init actor hands out for a new miner
  (`gap` above the ids handed out so far: Init never reuses an id), whether `Init.Exec` succeeded,
  whether the caller of UpdateClaimedPower is an actor of type Miner, and the list of miners whose
  deferred cron callback failed.
-/
import BA.Prelude
import BA.Generated.Constants

namespace BA.Power
open BA

structure Claim where
  raw : Int
  qa : Int
  deriving Repr, DecidableEq, Inhabited

abbrev Claims := List (Nat × Claim)

/-- `policy.minimum_consensus_power`: `consensus_miner_min_power` returns it for every valid
    PoSt proof type (an invalid proof type never reaches the power state: the miner constructor
    rejects it, so `Init.Exec` fails). -/
structure Params where
  minPower : Int
  deriving Repr, DecidableEq, Inhabited

/-- `CONSENSUS_MINER_MIN_MINERS` (actors/power/src/policy.rs) -/
def minMiners : Int := BA.Gen.powerConsensusMinerMinMiners

structure State where
  /-- HAMT[miner id address]Claim -/
  claims : Claims := []
  totalRaw : Int := 0
  totalQA : Int := 0
  totalBytesCommitted : Int := 0
  totalQABytesCommitted : Int := 0
  minerCount : Int := 0
  minerAboveMinPowerCount : Int := 0
  thisEpochRaw : Int := 0
  thisEpochQA : Int := 0
  /-- environment (Init actor): every actor id handed out so far is below this bound -/
  nextId : Nat := 0
  deriving Repr, DecidableEq, Inhabited

/-- `set_claim` -/
def setClaim (cl : Claims) (m : Nat) (c : Claim) : Except Err Claims :=
  if c.raw < 0 then .error .illegalState
  else if c.qa < 0 then .error .illegalState
  else .ok (aset m c cl)

/-- the transaction of `create_miner` (after `Init.Exec` returned `id`):
    set_claim(id, 0/0) — an existing claim would be overwritten, the code has no check —,
    `miner_count += 1`, `update_stats_for_new_miner`. -/
def createMiner (P : Params) (s : State) (id : Nat) : Except Err State :=
  match setClaim s.claims id { raw := 0, qa := 0 } with
  | .error e => .error e
  | .ok cl =>
    .ok { s with
      claims := cl
      minerCount := s.minerCount + 1
      minerAboveMinPowerCount :=
        if ¬ (P.minPower > 0) then s.minerAboveMinPowerCount + 1 else s.minerAboveMinPowerCount }

/-- the in-place statistics update of `add_to_claim` (everything between reading the old claim
    and the negativity checks).  prev_below = `old.raw < min_power`,
    still_below = `new.raw < min_power`.
    `checked_sub(..).expect(..)` on a `BigInt` never fails (signed big integers). -/
def addToClaimStats (P : Params) (s : State) (old : Claim) (power qa : Int) : State :=
  let s1 := { s with
    totalQABytesCommitted := s.totalQABytesCommitted + qa
    totalBytesCommitted := s.totalBytesCommitted + power }
  let new : Claim := { raw := old.raw + power, qa := old.qa + qa }
  if old.raw < P.minPower ∧ ¬ (new.raw < P.minPower) then
    -- just passed min miner size
    { s1 with
      minerAboveMinPowerCount := s1.minerAboveMinPowerCount + 1
      totalQA := s1.totalQA + new.qa
      totalRaw := s1.totalRaw + new.raw }
  else if ¬ (old.raw < P.minPower) ∧ new.raw < P.minPower then
    -- just went below min miner size
    { s1 with
      minerAboveMinPowerCount := s1.minerAboveMinPowerCount - 1
      totalQA := s1.totalQA - old.qa
      totalRaw := s1.totalRaw - old.raw }
  else if ¬ (old.raw < P.minPower) ∧ ¬ (new.raw < P.minPower) then
    -- was above the threshold, still above
    { s1 with
      totalQA := s1.totalQA + qa
      totalRaw := s1.totalRaw + power }
  else s1

/-- `add_to_claim`, returning the state *as mutated so far* together with the error, because the
    code updates `self` in place before its checks (the callers inside a transaction drop the
    mutated state on error; the cron path logs the error and keeps going with it). -/
def addToClaimD (P : Params) (s : State) (m : Nat) (power qa : Int) : State × Option Err :=
  match alookup m s.claims with
  | none => (s, some .notFound)
  | some old =>
    let new : Claim := { raw := old.raw + power, qa := old.qa + qa }
    let s2 := addToClaimStats P s old power qa
    if new.raw < 0 then (s2, some .illegalState)
    else if new.qa < 0 then (s2, some .illegalState)
    else if s2.minerAboveMinPowerCount < 0 then (s2, some .illegalState)
    else match setClaim s2.claims m new with
      | .error e => (s2, some e)
      | .ok cl => ({ s2 with claims := cl }, none)

/-- `add_to_claim` inside `rt.transaction`: an error aborts and changes nothing. -/
def addToClaim (P : Params) (s : State) (m : Nat) (power qa : Int) : Except Err State :=
  match addToClaimD P s m power qa with
  | (s', none) => .ok s'
  | (_, some e) => .error e

/-- `update_claimed_power`: caller must be of type Miner; its id address is the claim key. -/
def updateClaimedPower (P : Params) (s : State) (miner : Nat) (callerIsMiner : Bool)
    (rawDelta qaDelta : Int) : Except Err State :=
  if !callerIsMiner then .error .forbidden
  else addToClaim P s miner rawDelta qaDelta

/-- `delete_claim` (same convention as `addToClaimD`): no-op without a claim; else subtract the
    whole claim through `add_to_claim`, then delete the map entry. -/
def deleteClaimD (P : Params) (s : State) (m : Nat) : State × Option Err :=
  match alookup m s.claims with
  | none => (s, none)
  | some c =>
    match addToClaimD P s m (-c.raw) (-c.qa) with
    | (s1, some e) => (s1, some e)
    | (s1, none) =>
      -- claims.delete(miner)?.ok_or_else("failed to delete claim …: doesn't exist")
      match alookup m s1.claims with
      | none => (s1, some .illegalState)
      | some _ => ({ s1 with claims := aerase m s1.claims }, none)

/-- one iteration of `for miner_addr in failed_miner_crons`: an error of `delete_claim` is logged
    and skipped (`continue`, keeping whatever `delete_claim` did to `st` so far), otherwise
    `miner_count -= 1`. -/
def cronDeleteOne (P : Params) (s : State) (m : Nat) : State :=
  match deleteClaimD P s m with
  | (s', some _) => s'
  | (s', none) => { s' with minerCount := s'.minerCount - 1 }

/-- the claim-deleting transaction of `process_deferred_cron_events`.  `failed` are the miners
    whose callback failed, one entry per failed cron event (a miner may occur more than once);
    events of miners without a claim were filtered out before the callbacks were sent. -/
def cronDelete (P : Params) (s : State) (failed : List Nat) : State :=
  (failed.filter (fun m => (alookup m s.claims).isSome)).foldl (cronDeleteOne P) s

/-- `current_total_power` -/
def currentTotalPower (s : State) : Int × Int :=
  if s.minerAboveMinPowerCount < minMiners then (s.totalBytesCommitted, s.totalQABytesCommitted)
  else (s.totalRaw, s.totalQA)

/-- the snapshot transaction of `on_epoch_tick_end` -/
def snapshot (s : State) : State :=
  { s with thisEpochRaw := (currentTotalPower s).1, thisEpochQA := (currentTotalPower s).2 }

/-- `miner_nominal_power_meets_consensus_minimum` -/
def minerMeetsConsensusMinimum (P : Params) (s : State) (m : Nat) : Except Err (Int × Bool) :=
  match alookup m s.claims with
  | none => .error .illegalArgument
  | some c =>
    if c.raw ≥ P.minPower then .ok (c.raw, true)
    else if s.minerAboveMinPowerCount ≥ minMiners then .ok (c.raw, false)
    else .ok (c.raw, decide (c.raw > 0))

inductive Op where
  /-- CreateMiner.  `execOk = false`: `Init.Exec` (the miner constructor) failed.
      Otherwise the new actor gets id `nextId + gap`. -/
  | create (gap : Nat) (execOk : Bool)
  /-- UpdateClaimedPower sent by actor `miner` -/
  | update (miner : Nat) (callerIsMiner : Bool) (rawDelta qaDelta : Int)
  /-- the claim-deleting transaction of a cron tick -/
  | cronDelete (failed : List Nat)
  /-- the this_epoch_* snapshot of a cron tick -/
  | snapshot
  deriving Repr, DecidableEq, Inhabited

inductive Out where
  | ok
  | err (e : Err)
  deriving Repr, DecidableEq, Inhabited

/-- One message / transaction.  A failing message changes nothing (VM rollback). -/
def step (P : Params) (s : State) : Op → State × Out
  | .create gap execOk =>
    if !execOk then (s, .err .illegalArgument)
    else
      let id := s.nextId + gap
      match createMiner P { s with nextId := id + 1 } id with
      | .ok s' => (s', .ok)
      | .error e => (s, .err e)
  | .update m isMiner dr dq =>
    match updateClaimedPower P s m isMiner dr dq with
    | .ok s' => (s', .ok)
    | .error e => (s, .err e)
  | .cronDelete failed => (cronDelete P s failed, .ok)
  | .snapshot => (snapshot s, .ok)

def run (P : Params) (s : State) : List Op → State
  | [] => s
  | op :: rest => run P (step P s op).1 rest

def init : State := {}

end BA.Power
