/- Model of actors/power/src/state.rs (claims, totals, consensus-minimum rule). stub -/
import BA.Prelude
namespace BA.Power
structure State where
  dummy : Nat := 0
  deriving Repr, Inhabited
def init : State := {}
end BA.Power
