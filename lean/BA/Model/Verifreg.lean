/-
  Model of actors/verifreg/src/{lib,state,expiration}.rs together with the DataCap ledger it
  governs (BA.Model.Datacap).  One `Sys` = verifreg state + datacap state + the table of
  actor kinds the two actors ask the runtime about (account / miner / other).
  Each `Op` is one top-level message (or one call the market / a miner makes on behalf of a
  message) to the verifreg or the datacap actor; a failing op changes nothing (VM rollback).

  Tables: allocations and claims are keyed by id (ids are issued by one global counter, so the
  two-level HAMT `client ↦ id ↦ allocation` is a partition of one id-keyed table; a lookup
  `(client, id)` is a lookup of `id` plus a check of the record's owner).
  Ghost: `claimedIds`, `refundedIds` log how each allocation ended.
-/
import BA.Prelude
import BA.Generated.Constants
import BA.Model.Datacap

namespace BA.Verifreg
open BA

inductive Kind where
  | account | miner | other
  deriving Repr, DecidableEq, Inhabited

structure Allocation where
  client : Nat
  provider : Nat
  data : Nat
  size : Int
  termMin : Int
  termMax : Int
  expiration : Int
  deriving Repr, DecidableEq, Inhabited

structure Claim where
  provider : Nat
  client : Nat
  data : Nat
  size : Int
  termMin : Int
  termMax : Int
  termStart : Int
  sector : Nat
  deriving Repr, DecidableEq, Inhabited

structure VState where
  root : Nat
  verifiers : List (Nat × Int) := []
  allocs : List (Nat × Allocation) := []
  claims : List (Nat × Claim) := []
  nextAllocId : Nat := 1
  /-- ghost: ids of allocations that ended by being claimed, in order -/
  claimedIds : List Nat := []
  /-- ghost: ids of allocations that ended by expiry + refund, in order -/
  refundedIds : List Nat := []
  deriving Repr, DecidableEq, Inhabited

structure Sys where
  dc : Datacap.State
  vr : VState
  actors : List (Nat × Kind) := []
  deriving Repr, DecidableEq, Inhabited

/-- singleton actor ids -/
def marketId : Nat := 5
def verifregId : Nat := 6
def datacapId : Nat := 7

def minAllocSize : Int := BA.Gen.verifregMinAllocSize
def minAllocTerm : Int := BA.Gen.verifregMinAllocTerm
def maxAllocTerm : Int := BA.Gen.verifregMaxAllocTerm
def maxAllocExpiration : Int := BA.Gen.verifregMaxAllocExpiration

/-- `datacap_to_tokens` -/
def toTokens (d : Int) : Int := d * Datacap.precision
/-- `tokens_to_datacap` (BigInt `/` truncates) -/
def toDatacap (t : Int) : Int := Int.tdiv t Datacap.precision

def kindOf (s : Sys) (a : Nat) : Option Kind := alookup a s.actors
def isMiner (s : Sys) (a : Nat) : Bool := kindOf s a = some .miner

/-! ### requests carried by a transfer's operator data -/

structure AllocReq where
  provider : Nat
  data : Nat
  size : Int
  termMin : Int
  termMax : Int
  expiration : Int
  deriving Repr, DecidableEq, Inhabited

structure ExtReq where
  provider : Nat
  claim : Nat
  termMax : Int
  deriving Repr, DecidableEq, Inhabited

structure Reqs where
  allocs : List AllocReq
  exts : List ExtReq
  deriving Repr, DecidableEq, Inhabited

/-- what a message returns (the parts the correspondence compares) -/
structure Ret where
  /-- per-item exit codes of a batch (0 = ok) -/
  codes : List Nat := []
  /-- ids: new allocation ids / considered ids -/
  ids : List Nat := []
  /-- per-sector claimed space / recovered datacap -/
  amounts : List Int := []
  deriving Repr, DecidableEq, Inhabited

/-! ### allocation / claim look-ups -/

def getAlloc (allocs : List (Nat × Allocation)) (client id : Nat) : Option Allocation :=
  match alookup id allocs with
  | some a => if a.client = client then some a else none
  | none => none

def getClaim (claims : List (Nat × Claim)) (provider id : Nat) : Option Claim :=
  match alookup id claims with
  | some c => if c.provider = provider then some c else none
  | none => none

def allocSizes (allocs : List (Nat × Allocation)) : List Int := allocs.map (fun p => p.2.size)

/-! ### receiver hook (`universal_receiver_hook`) -/

/-- `validate_new_allocation` + `check_miner_id` -/
def validateAllocReq (s : Sys) (epoch : Int) (r : AllocReq) : Except Err Unit :=
  if r.size < minAllocSize then .error .illegalArgument
  else if r.termMin < minAllocTerm then .error .illegalArgument
  else if r.termMax > maxAllocTerm then .error .illegalArgument
  else if r.termMin > r.termMax then .error .illegalArgument
  else if r.expiration < epoch then .error .illegalArgument
  else if r.expiration > epoch + maxAllocExpiration then .error .illegalArgument
  else if !isMiner s r.provider then .error .illegalArgument
  else .ok ()

def validateAllocReqs (s : Sys) (epoch : Int) : List AllocReq → Except Err Unit
  | [] => .ok ()
  | r :: rest =>
    match validateAllocReq s epoch r with
    | .error e => .error e
    | .ok () => validateAllocReqs s epoch rest

/-- `validate_claim_extension` -/
def validateExt (epoch : Int) (r : ExtReq) (c : Claim) : Except Err Unit :=
  if r.termMax > epoch + maxAllocTerm - c.termStart then .error .illegalArgument
  else if r.termMax ≤ c.termMax then .error .illegalArgument
  else if epoch > c.termStart + c.termMax then .error .forbidden
  else .ok ()

/-- the loop over `reqs.extensions`: every request is validated against the claims table as it
    was *before* the message; returns the updated claims (in request order) and their total size -/
def collectExts (claims : List (Nat × Claim)) (epoch : Int) :
    List ExtReq → Except Err (List (Nat × Claim) × Int)
  | [] => .ok ([], 0)
  | r :: rest =>
    match getClaim claims r.provider r.claim with
    | none => .error .notFound
    | some c =>
      match validateExt epoch r c with
      | .error e => .error e
      | .ok () =>
        match collectExts claims epoch rest with
        | .error e => .error e
        | .ok (ups, tot) => .ok ((r.claim, { c with termMax := r.termMax }) :: ups, c.size + tot)

/-- `State::put_claims` -/
def putClaims (claims : List (Nat × Claim)) : List (Nat × Claim) → List (Nat × Claim)
  | [] => claims
  | (id, c) :: rest => putClaims (aset id c claims) rest

/-- `State::insert_allocations` -/
def insertAllocs (allocs : List (Nat × Allocation)) (client : Nat) (next : Nat) :
    List AllocReq → List (Nat × Allocation) × Nat
  | [] => (allocs, next)
  | r :: rest =>
    let a : Allocation :=
      { client := client, provider := r.provider, data := r.data, size := r.size,
        termMin := r.termMin, termMax := r.termMax, expiration := r.expiration }
    insertAllocs (allocs ++ [(next, a)]) client (next + 1) rest

def reqSizes (rs : List AllocReq) : List Int := rs.map (fun r => r.size)

/-- the registry's `burn` helper: `Burn` on the datacap actor from the registry's own balance,
    skipped when the amount is zero -/
def burnOwn (dc : Datacap.State) (amount : Int) : Except Err Datacap.State :=
  if amount = 0 then .ok dc else Datacap.burnL dc verifregId (toTokens amount)

/-- `universal_receiver_hook`, called by the datacap actor after it moved `amount` from `client`
    to the registry. `data = none` stands for operator data that does not decode. -/
def receive (s : Sys) (epoch : Int) (client : Nat) (amount : Int) (data : Option Reqs) :
    Except Err (Sys × Ret) :=
  match data with
  | none => .error .illegalArgument
  | some reqs =>
    match validateAllocReqs s epoch reqs.allocs with
    | .error e => .error e
    | .ok () =>
      match collectExts s.vr.claims epoch reqs.exts with
      | .error e => .error e
      | .ok (ups, extTotal) =>
        if isum (reqSizes reqs.allocs) + extTotal ≠ toDatacap amount then .error .illegalArgument
        else
          match burnOwn s.dc extTotal with
          | .error e => .error e
          | .ok dc1 =>
            let (allocs', next') := insertAllocs s.vr.allocs client s.vr.nextAllocId reqs.allocs
            .ok ({ s with dc := dc1,
                          vr := { s.vr with allocs := allocs', nextAllocId := next',
                                            claims := putClaims s.vr.claims ups } },
                 { codes := (reqs.allocs.map (fun _ => 0)) ++ (reqs.exts.map (fun _ => 0)),
                   ids := (List.range (next' - s.vr.nextAllocId)).map (fun i => s.vr.nextAllocId + i) })

/-- the FRC-46 receiver hook of `to`: the registry runs `receive`; an account accepts anything;
    every other actor (miner, market, datacap, a missing actor) has no `Receive` method. -/
def hook (s : Sys) (epoch : Int) (from_ to : Nat) (amount : Int) (data : Option Reqs) :
    Except Err (Sys × Ret) :=
  if to = verifregId then receive s epoch from_ amount data
  else match kindOf s to with
    | some .account => .ok (s, {})
    | _ => .error .unhandled

/-! ### datacap messages -/

/-- `datacap::Transfer` sent by `caller` -/
def dcTransfer (s : Sys) (epoch : Int) (caller to : Nat) (amount : Int) (data : Option Reqs) :
    Except Err (Sys × Ret) :=
  match Datacap.transferL s.dc caller to amount with
  | .error e => .error e
  | .ok dc1 => hook { s with dc := dc1 } epoch caller to amount data

/-- `datacap::TransferFrom` sent by `caller` (the operator) -/
def dcTransferFrom (s : Sys) (epoch : Int) (caller from_ to : Nat) (amount : Int)
    (data : Option Reqs) : Except Err (Sys × Ret) :=
  match Datacap.transferFromL s.dc caller from_ to amount with
  | .error e => .error e
  | .ok dc1 => hook { s with dc := dc1 } epoch from_ to amount data

/-- `datacap::Mint` sent by `caller` -/
def dcMint (s : Sys) (epoch : Int) (caller to : Nat) (amount : Int) (operators : List Nat) :
    Except Err Sys :=
  if caller ≠ s.dc.governor then .error .forbidden
  else match Datacap.mintL s.dc to amount operators with
    | .error e => .error e
    | .ok dc1 =>
      match hook { s with dc := dc1 } epoch datacapId to amount none with
      | .error e => .error e
      | .ok (s', _) => .ok s'

/-- `datacap::Destroy` sent by `caller` -/
def dcDestroy (s : Sys) (caller owner : Nat) (amount : Int) : Except Err Sys :=
  if caller ≠ s.dc.governor then .error .forbidden
  else match Datacap.burnL s.dc owner amount with
    | .error e => .error e
    | .ok dc1 => .ok { s with dc := dc1 }

/-! ### verifreg messages -/

def exists_ (s : Sys) (a : Nat) : Bool := (kindOf s a).isSome

/-- `add_verifier` -/
def addVerifier (s : Sys) (caller addr : Nat) (allowance : Int) : Except Err Sys :=
  if allowance < minAllocSize then .error .illegalArgument
  else if !exists_ s addr then .error .notFound
  else if caller ≠ s.vr.root then .error .forbidden
  else if addr = s.vr.root then .error .illegalArgument
  else if Datacap.bal s.dc addr > 0 then .error .illegalArgument
  else .ok { s with vr := { s.vr with verifiers := aset addr allowance s.vr.verifiers } }

/-- `remove_verifier` -/
def removeVerifier (s : Sys) (caller addr : Nat) : Except Err Sys :=
  if caller ≠ s.vr.root then .error .forbidden
  else match alookup addr s.vr.verifiers with
    | none => .error .illegalArgument
    | some _ => .ok { s with vr := { s.vr with verifiers := aerase addr s.vr.verifiers } }

/-- `add_verified_client` -/
def addClient (s : Sys) (epoch : Int) (caller client : Nat) (allowance : Int) : Except Err Sys :=
  if allowance < minAllocSize then .error .illegalArgument
  else if !exists_ s client then .error .notFound
  else if client = s.vr.root then .error .illegalArgument
  else match alookup caller s.vr.verifiers with
    | none => .error .notFound
    | some cap =>
      if (alookup client s.vr.verifiers).isSome then .error .illegalArgument
      else if cap < allowance then .error .illegalArgument
      else
        let s1 := { s with vr := { s.vr with verifiers := aset caller (cap - allowance) s.vr.verifiers } }
        dcMint s1 epoch verifregId client (toTokens allowance) [marketId]

/-- the tail of `remove_verified_client_data_cap`: `destroy` (skipped when zero) -/
def destroyUpTo (s : Sys) (client : Nat) (burnt : Int) : Except Err (Sys × Ret) :=
  if burnt = 0 then .ok (s, { amounts := [0] })
  else match dcDestroy s verifregId client (toTokens burnt) with
    | .error e => .error e
    | .ok s' => .ok (s', { amounts := [burnt] })

/-- `remove_verified_client_data_cap`; `sig1Ok`/`sig2Ok` are the answers of the verifiers'
    `AuthenticateMessage` for the proposals with the current proposal ids (environment). -/
def removeClientDataCap (s : Sys) (caller client v1 v2 : Nat) (sig1Ok sig2Ok : Bool)
    (amount : Int) : Except Err (Sys × Ret) :=
  if !exists_ s v1 then .error .notFound
  else if !exists_ s v2 then .error .notFound
  else if v1 = v2 then .error .illegalArgument
  else if caller ≠ s.vr.root then .error .forbidden
  else if client = verifregId then .error .illegalArgument
  else if (alookup v1 s.vr.verifiers).isNone then .error .notFound
  else if (alookup v2 s.vr.verifiers).isNone then .error .notFound
  else if !sig1Ok then .error .illegalArgument
  else if !sig2Ok then .error .illegalArgument
  else
    destroyUpTo s client
      (if toDatacap (Datacap.bal s.dc client) < amount then toDatacap (Datacap.bal s.dc client) else amount)

/-! #### claim_allocations -/

structure ClaimReq where
  client : Nat
  allocId : Nat
  data : Nat
  size : Int
  deriving Repr, DecidableEq, Inhabited

structure SectorReq where
  sector : Nat
  expiry : Int
  claims : List ClaimReq
  deriving Repr, DecidableEq, Inhabited

/-- `can_claim_alloc` -/
def canClaim (r : ClaimReq) (provider : Nat) (a : Allocation) (epoch expiry : Int) : Bool :=
  provider = a.provider && r.client = a.client && r.data = a.data && r.size = a.size &&
  epoch ≤ a.expiration && a.termMin ≤ expiry - epoch && expiry - epoch ≤ a.termMax

/-- validation pass over one sector's claims (no state change): the new claims, or the fail code -/
def validateSector (allocs : List (Nat × Allocation)) (provider : Nat) (epoch : Int)
    (sector : Nat) (expiry : Int) : List ClaimReq → Except Nat (List (Nat × Claim))
  | [] => .ok []
  | r :: rest =>
    match getAlloc allocs r.client r.allocId with
    | none => .error 17
    | some a =>
      if !canClaim r provider a epoch expiry then .error 18
      else match validateSector allocs provider epoch sector expiry rest with
        | .error c => .error c
        | .ok cs =>
          let c : Claim :=
            { provider := provider, client := a.client, data := a.data, size := a.size,
              termMin := a.termMin, termMax := a.termMax, termStart := epoch, sector := sector }
          .ok ((r.allocId, c) :: cs)

/-- update pass: `put_if_absent` (abort when present), remove the allocation, add up the space -/
def applySector (allocs : List (Nat × Allocation)) (claims : List (Nat × Claim)) :
    List (Nat × Claim) → Except Err (List (Nat × Allocation) × List (Nat × Claim) × Int)
  | [] => .ok (allocs, claims, 0)
  | (id, c) :: rest =>
    if (alookup id claims).isSome then .error .illegalArgument
    else match applySector (aerase id allocs) (aset id c claims) rest with
      | .error e => .error e
      | .ok (a', c', sp) => .ok (a', c', c.size + sp)

structure ClaimAcc where
  allocs : List (Nat × Allocation)
  claims : List (Nat × Claim)
  codes : List Nat := []
  spaces : List Int := []
  newIds : List Nat := []
  total : Int := 0

/-- the `'sectors` loop -/
def claimLoop (provider : Nat) (epoch : Int) : List SectorReq → ClaimAcc → Except Err ClaimAcc
  | [], acc => .ok acc
  | sr :: rest, acc =>
    match validateSector acc.allocs provider epoch sr.sector sr.expiry sr.claims with
    | .error code => claimLoop provider epoch rest { acc with codes := acc.codes ++ [code] }
    | .ok cs =>
      match applySector acc.allocs acc.claims cs with
      | .error e => .error e
      | .ok (a', c', sp) =>
        claimLoop provider epoch rest
          { allocs := a', claims := c', codes := acc.codes ++ [0], spaces := acc.spaces ++ [sp],
            newIds := acc.newIds ++ cs.map (fun p => p.1), total := acc.total + sp }

/-- `claim_allocations` -/
def claimAllocations (s : Sys) (epoch : Int) (caller : Nat) (sectors : List SectorReq)
    (allOrNothing : Bool) : Except Err (Sys × Ret) :=
  if !isMiner s caller then .error .forbidden
  else if sectors.isEmpty then .error .illegalArgument
  else match claimLoop caller epoch sectors { allocs := s.vr.allocs, claims := s.vr.claims } with
    | .error e => .error e
    | .ok acc =>
      if allOrNothing ∧ acc.codes.any (fun c => c ≠ 0) then .error .illegalArgument
      else
        match burnOwn s.dc acc.total with
        | .error e => .error e
        | .ok dc1 =>
          .ok ({ s with dc := dc1,
                        vr := { s.vr with allocs := acc.allocs, claims := acc.claims,
                                          claimedIds := s.vr.claimedIds ++ acc.newIds } },
               { codes := acc.codes, amounts := acc.spaces })

/-! #### expiry -/

/-- `expiration::check_expired` on allocations: per-candidate exit codes -/
def checkExpiredAllocs (allocs : List (Nat × Allocation)) (client : Nat) (epoch : Int) :
    List Nat → List Nat
  | [] => []
  | id :: rest =>
    (match getAlloc allocs client id with
     | none => 17
     | some a => if epoch ≥ a.expiration then 0 else 18) :: checkExpiredAllocs allocs client epoch rest

/-- `expiration::find_expired` on allocations: the keys of the client's table whose record has
    expired (the HAMT has one entry per key, so iterating entries = looking each key up) -/
def findExpiredAllocs (allocs : List (Nat × Allocation)) (client : Nat) (epoch : Int) : List Nat :=
  (allocs.map (fun p => p.1)).filter (fun id =>
    match getAlloc allocs client id with
    | some a => decide (epoch ≥ a.expiration)
    | none => false)

/-- ids whose code is 0 (`BatchReturn::successes`) -/
def successes : List Nat → List Nat → List Nat
  | id :: ids, c :: cs => if c = 0 then id :: successes ids cs else successes ids cs
  | _, _ => []

/-- the removal loop; a missing entry is the `.unwrap()` on `None` (panic → abort) -/
def removeAllocs (allocs : List (Nat × Allocation)) (client : Nat) :
    List Nat → Except Err (List (Nat × Allocation) × Int)
  | [] => .ok (allocs, 0)
  | id :: rest =>
    match getAlloc allocs client id with
    | none => .error .assertion
    | some a =>
      match removeAllocs (aerase id allocs) client rest with
      | .error e => .error e
      | .ok (al, tot) => .ok (al, a.size + tot)

/-- `remove_expired_allocations` -/
def removeExpiredAllocations (s : Sys) (epoch : Int) (client : Nat) (ids : List Nat) :
    Except Err (Sys × Ret) :=
  let considered := if ids.isEmpty then findExpiredAllocs s.vr.allocs client epoch else ids
  let codes := if ids.isEmpty then considered.map (fun _ => 0)
               else checkExpiredAllocs s.vr.allocs client epoch ids
  let toRemove := successes considered codes
  match removeAllocs s.vr.allocs client toRemove with
  | .error e => .error e
  | .ok (allocs', recovered) =>
    let s1 := { s with vr := { s.vr with allocs := allocs',
                                         refundedIds := s.vr.refundedIds ++ toRemove } }
    match dcTransfer s1 epoch verifregId client (toTokens recovered) none with
    | .error e => .error e
    | .ok (s2, _) => .ok (s2, { codes := codes, ids := considered, amounts := [recovered] })

def checkExpiredClaims (claims : List (Nat × Claim)) (provider : Nat) (epoch : Int) :
    List Nat → List Nat
  | [] => []
  | id :: rest =>
    (match getClaim claims provider id with
     | none => 17
     | some c => if epoch ≥ c.termStart + c.termMax then 0 else 18)
      :: checkExpiredClaims claims provider epoch rest

def findExpiredClaims (claims : List (Nat × Claim)) (provider : Nat) (epoch : Int) : List Nat :=
  (claims.map (fun p => p.1)).filter (fun id =>
    match getClaim claims provider id with
    | some c => decide (epoch ≥ c.termStart + c.termMax)
    | none => false)

def removeClaims (claims : List (Nat × Claim)) (provider : Nat) :
    List Nat → Except Err (List (Nat × Claim))
  | [] => .ok claims
  | id :: rest =>
    match getClaim claims provider id with
    | none => .error .assertion
    | some _ => removeClaims (aerase id claims) provider rest

/-- `remove_expired_claims` -/
def removeExpiredClaims (s : Sys) (epoch : Int) (provider : Nat) (ids : List Nat) :
    Except Err (Sys × Ret) :=
  let considered := if ids.isEmpty then findExpiredClaims s.vr.claims provider epoch else ids
  let codes := if ids.isEmpty then considered.map (fun _ => 0)
               else checkExpiredClaims s.vr.claims provider epoch ids
  match removeClaims s.vr.claims provider (successes considered codes) with
  | .error e => .error e
  | .ok claims' =>
    .ok ({ s with vr := { s.vr with claims := claims' } }, { codes := codes, ids := considered })

/-! #### extend_claim_terms -/

structure TermReq where
  provider : Nat
  claim : Nat
  termMax : Int
  deriving Repr, DecidableEq, Inhabited

def extendLoop (caller : Nat) : List TermReq → List (Nat × Claim) → List (Nat × Claim) × List Nat
  | [], claims => (claims, [])
  | t :: rest, claims =>
    if t.termMax > maxAllocTerm then
      let (c', codes) := extendLoop caller rest claims; (c', 16 :: codes)
    else match getClaim claims t.provider t.claim with
      | none => let (c', codes) := extendLoop caller rest claims; (c', 17 :: codes)
      | some c =>
        if c.client ≠ caller then
          let (c', codes) := extendLoop caller rest claims; (c', 18 :: codes)
        else if t.termMax < c.termMax then
          let (c', codes) := extendLoop caller rest claims; (c', 16 :: codes)
        else
          let (c', codes) := extendLoop caller rest (aset t.claim { c with termMax := t.termMax } claims)
          (c', 0 :: codes)

/-- `extend_claim_terms` -/
def extendClaimTerms (s : Sys) (caller : Nat) (terms : List TermReq) : Sys × Ret :=
  let (claims', codes) := extendLoop caller terms s.vr.claims
  ({ s with vr := { s.vr with claims := claims' } }, { codes := codes })

/-! ### one message -/

inductive Op where
  | addVerifier (caller addr : Nat) (allowance : Int)
  | removeVerifier (caller addr : Nat)
  | addClient (epoch : Int) (caller client : Nat) (allowance : Int)
  | removeClientDataCap (caller client v1 v2 : Nat) (sig1Ok sig2Ok : Bool) (amount : Int)
  | transfer (epoch : Int) (caller to : Nat) (amount : Int) (data : Option Reqs)
  | transferFrom (epoch : Int) (caller from_ to : Nat) (amount : Int) (data : Option Reqs)
  | claim (epoch : Int) (caller : Nat) (sectors : List SectorReq) (allOrNothing : Bool)
  | removeExpiredAllocs (epoch : Int) (client : Nat) (ids : List Nat)
  | removeExpiredClaims (epoch : Int) (provider : Nat) (ids : List Nat)
  | extendClaimTerms (caller : Nat) (terms : List TermReq)
  | mint (epoch : Int) (caller to : Nat) (amount : Int)
  | destroy (caller owner : Nat) (amount : Int)
  | burn (caller : Nat) (amount : Int)
  | burnFrom (caller owner : Nat) (amount : Int)
  | increaseAllowance (caller operator : Nat) (delta : Int)
  | decreaseAllowance (caller operator : Nat) (delta : Int)
  | revokeAllowance (caller operator : Nat)
  deriving Repr, Inhabited

def liftDc (s : Sys) (r : Except Err Datacap.State) : Except Err (Sys × Ret) :=
  match r with
  | .error e => .error e
  | .ok dc => .ok ({ s with dc := dc }, {})

def noRet (r : Except Err Sys) : Except Err (Sys × Ret) :=
  match r with
  | .error e => .error e
  | .ok s => .ok (s, {})

def exec (s : Sys) : Op → Except Err (Sys × Ret)
  | .addVerifier caller addr allowance => noRet (addVerifier s caller addr allowance)
  | .removeVerifier caller addr => noRet (removeVerifier s caller addr)
  | .addClient epoch caller client allowance => noRet (addClient s epoch caller client allowance)
  | .removeClientDataCap caller client v1 v2 s1 s2 amount =>
      removeClientDataCap s caller client v1 v2 s1 s2 amount
  | .transfer epoch caller to amount data => dcTransfer s epoch caller to amount data
  | .transferFrom epoch caller from_ to amount data => dcTransferFrom s epoch caller from_ to amount data
  | .claim epoch caller sectors aon => claimAllocations s epoch caller sectors aon
  | .removeExpiredAllocs epoch client ids => removeExpiredAllocations s epoch client ids
  | .removeExpiredClaims epoch provider ids => removeExpiredClaims s epoch provider ids
  | .extendClaimTerms caller terms => .ok (extendClaimTerms s caller terms)
  | .mint epoch caller to amount => noRet (dcMint s epoch caller to amount [])
  | .destroy caller owner amount => noRet (dcDestroy s caller owner amount)
  | .burn caller amount => liftDc s (Datacap.burnL s.dc caller amount)
  | .burnFrom caller owner amount => liftDc s (Datacap.burnFromL s.dc caller owner amount)
  | .increaseAllowance caller operator d => liftDc s (Datacap.increaseAllowanceL s.dc caller operator d)
  | .decreaseAllowance caller operator d => liftDc s (Datacap.decreaseAllowanceL s.dc caller operator d)
  | .revokeAllowance caller operator => .ok ({ s with dc := Datacap.revokeAllowanceL s.dc caller operator }, {})

/-- One message; a failing message changes nothing (VM rollback). -/
def step (s : Sys) (op : Op) : Sys × Except Err Ret :=
  match exec s op with
  | .ok (s', r) => (s', .ok r)
  | .error e => (s, .error e)

def run (s : Sys) : List Op → Sys
  | [] => s
  | op :: rest => run (step s op).1 rest

def init (root : Nat) (actors : List (Nat × Kind)) : Sys :=
  { dc := Datacap.init verifregId, vr := { root := root }, actors := actors }

end BA.Verifreg
