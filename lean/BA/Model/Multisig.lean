/-
  Model of actors/multisig/src/{lib,state}.rs, following the Rust control flow branch by branch.

  * One wallet.  `State` = the actor state + the actor's token balance (kept by the VM) + a ghost
    list `executed` of the transaction ids whose inner send was issued (it is part of the state, so a
    VM rollback restores it together with everything else).
  * A message to the wallet is an *activation* `Act.node msg sendOk children`: `msg` is the decoded
    method call with its caller and the value it carries; `sendOk`/`children` script the environment
    for the (at most one) inner send this activation performs:
      - target is another actor: the callee may re-enter the wallet with the activations `children`
        (in order, each with its own script) and finally returns ok (`sendOk`) or aborts; on abort
        everything the callee did — including the re-entrant activations — is rolled back, but the
        pending entry stays deleted and the Propose/Approve message itself succeeds;
      - target is the wallet itself: the callee *is* the wallet, called with `caller = self`, the
        transaction's value, and the call decoded from (method, params); its own script is the script
        of the first child; `sendOk = false` forces the call to abort (gas, call depth).
    Nested activations are run by the parameter `sub`; `exec` ties the knot with a call-depth fuel.
  * Messages whose caller is the wallet itself exist only as the direct callee of the wallet's own
    inner send (an actor is the caller only of messages it sends, and the multisig actor sends only
    in `execute_transaction_if_approved`); re-entrant activations of a foreign callee that claim
    `caller = self` are therefore skipped.
  * Addresses are actor ids (`Nat`); address resolution in AddSigner/SwapSigner/Constructor is assumed
    to succeed (ID addresses of existing actors).  The proposal-hash comparison is an input boolean.
-/
import BA.Prelude
import BA.Generated.Constants

namespace BA.Multisig
open BA

/-- `Transaction` (types.rs).  `params` is the flat integer encoding of the parameter bytes. -/
structure Tx where
  to : Nat
  value : Int
  method : Nat
  params : List Int
  approved : List Nat
  deriving Repr, DecidableEq, Inhabited

abbrev Pending := List (Nat × Tx)

structure State where
  /-- the wallet's own actor id (never changes) -/
  self : Nat
  signers : List Nat
  threshold : Nat
  nextId : Nat
  pending : Pending
  /-- `initial_balance`, `start_epoch`, `unlock_duration` -/
  initial : Int
  start : Int
  duration : Int
  /-- the actor's token balance (kept by the VM) -/
  balance : Int
  /-- ghost: ids of the transactions whose inner send was issued (and not rolled back) -/
  executed : List Nat
  deriving Repr, DecidableEq, Inhabited

def signersMax : Nat := BA.Gen.msigSignersMax
def firstExported : Nat := BA.Gen.firstExportedMethodNumber

/-- `BigInt::div_ceil` as num-integer implements it: floor division, plus one when there is a
    remainder. -/
def divCeil (n d : Int) : Int :=
  if Int.fmod n d = 0 then Int.fdiv n d else Int.fdiv n d + 1

/-- `State::amount_locked(elapsed_epoch)`. -/
def amountLocked (s : State) (elapsed : Int) : Int :=
  if elapsed ≥ s.duration then 0
  else if elapsed ≤ 0 then s.initial
  else divCeil (s.initial * (s.duration - elapsed)) s.duration

/-- `State::check_available(balance, amount_to_spend, curr_epoch)`. -/
def checkAvailable (s : State) (value : Int) (epoch : Int) : Except Err Unit :=
  if value < 0 then .error .illegalArgument
  else if s.balance < value then .error .insufficientFunds
  else if value = 0 then .ok ()
  else if s.balance - value < amountLocked s (epoch - s.start) then .error .insufficientFunds
  else .ok ()

/-- `State::purge_approvals`: remove `a` from every approval list that contains it; a transaction
    whose list becomes empty is deleted. -/
def purge (a : Nat) : Pending → Pending
  | [] => []
  | (id, tx) :: rest =>
    if a ∈ tx.approved then
      let ap := tx.approved.filter (fun x => x != a)
      if ap = [] then purge a rest else (id, { tx with approved := ap }) :: purge a rest
    else (id, tx) :: purge a rest

/-- a decoded method call -/
inductive Call where
  | propose (to : Nat) (value : Int) (method : Nat) (params : List Int)
  | approve (id : Nat) (hashOk : Bool)
  | cancel (id : Nat) (hashOk : Bool)
  | addSigner (a : Nat) (increase : Bool)
  | removeSigner (a : Nat) (decrease : Bool)
  | swapSigner (from_ to : Nat)
  | changeThreshold (n : Nat)
  | lockBalance (start duration amount : Int)
  /-- method 0 (plain send) and the exported-range fallback / receiver hook: accept, change nothing -/
  | receive
  /-- unknown method number, the constructor, or parameters that do not deserialize -/
  | bad
  deriving Repr, DecidableEq, Inhabited

def intToBool? (i : Int) : Option Bool :=
  if i = 0 then some false else if i = 1 then some true else none

/-- Deserialisation of (method number, parameter encoding) as the dispatcher does it.
    Encodings: Propose `to :: value :: method :: params`, Approve/Cancel `[id, h]` (`h = 0` no hash
    given, otherwise a hash that does not match), AddSigner `[a, increase]`, RemoveSigner
    `[a, decrease]`, SwapSigner `[from, to]`, ChangeNumApprovalsThreshold `[n]`,
    LockBalance `[start, duration, amount]`. -/
def decode (method : Nat) (params : List Int) : Call :=
  if method = 0 then .receive
  else if method = 2 then
    match params with
    | to :: value :: m :: rest => if to < 0 ∨ m < 0 then .bad else .propose to.toNat value m.toNat rest
    | _ => .bad
  else if method = 3 then
    match params with
    | [id, h] => if id < 0 then .bad else .approve id.toNat (h == 0)
    | _ => .bad
  else if method = 4 then
    match params with
    | [id, h] => if id < 0 then .bad else .cancel id.toNat (h == 0)
    | _ => .bad
  else if method = 5 then
    match params with
    | [a, b] => match intToBool? b with
      | some b => if a < 0 then .bad else .addSigner a.toNat b
      | none => .bad
    | _ => .bad
  else if method = 6 then
    match params with
    | [a, b] => match intToBool? b with
      | some b => if a < 0 then .bad else .removeSigner a.toNat b
      | none => .bad
    | _ => .bad
  else if method = 7 then
    match params with
    | [a, b] => if a < 0 ∨ b < 0 then .bad else .swapSigner a.toNat b.toNat
    | _ => .bad
  else if method = 8 then
    match params with
    | [n] => if n < 0 then .bad else .changeThreshold n.toNat
    | _ => .bad
  else if method = 9 then
    match params with
    | [st, d, amt] => .lockBalance st d amt
    | _ => .bad
  else if method ≥ firstExported then .receive
  else .bad

structure Msg where
  caller : Nat
  /-- value carried by the message (credited by the VM before the method runs) -/
  value : Int
  call : Call
  deriving Repr, Inhabited

/-- an activation of the wallet with the script of its inner send (see the header) -/
inductive Act where
  | node (msg : Msg) (sendOk : Bool) (children : List Act)
  deriving Inhabited

def Act.msg : Act → Msg | .node m _ _ => m
def Act.sendOk : Act → Bool | .node _ b _ => b
def Act.children : Act → List Act | .node _ _ c => c

/-- `ProposeReturn` / `ApproveReturn` (without the returned bytes) -/
structure Ret where
  txId : Nat := 0
  applied : Bool := false
  codeOk : Bool := true
  deriving Repr, DecidableEq, Inhabited

/-- the inner send of `execute_transaction_if_approved`, with the state it was issued in
    (`pre`: after the approval was recorded, before the pending entry is deleted) -/
structure Event where
  id : Nat
  to : Nat
  value : Int
  method : Nat
  params : List Int
  pre : State
  epoch : Int
  deriving Repr, Inhabited

/-- outcome of an activation: `out` is the message's result (an error means the VM rolled the
    activation back); `trace` lists every inner send issued inside it, including those that were
    rolled back later. -/
structure Res where
  out : Except Err (State × Ret)
  trace : List Event

abbrev Sub := State → Act → Res

/-- the state an activation leaves behind (unchanged when it failed) -/
def Res.stateOr (r : Res) (s : State) : State :=
  match r.out with
  | .ok (s', _) => s'
  | .error _ => s

/-- re-entrant activations made by a foreign callee, in order -/
def runChildren (sub : Sub) (self : Nat) : State → List Act → State × List Event
  | s, [] => (s, [])
  | s, a :: rest =>
    if a.msg.caller = self then runChildren sub self s rest
    else
      let r := sub s a
      let n := runChildren sub self (r.stateOr s) rest
      (n.1, r.trace ++ n.2)

/-- `execute_transaction_if_approved(rt, st, txn_id, txn)`. -/
def execIfApproved (sub : Sub) (epoch : Int) (s : State) (id : Nat) (txn : Tx)
    (sendOk : Bool) (children : List Act) : Res :=
  if s.threshold ≤ txn.approved.length then
    match checkAvailable s txn.value epoch with
    | .error e => ⟨.error e, []⟩
    | .ok () =>
      let ev : Event := { id := id, to := txn.to, value := txn.value, method := txn.method,
                          params := txn.params, pre := s, epoch := epoch }
      -- the pending entry is deleted before the send
      let s1 : State := { s with pending := aerase id s.pending, executed := id :: s.executed }
      -- the send debits the value
      let s2 : State := { s1 with balance := s1.balance - txn.value }
      if txn.to = s.self then
        let m : Msg := { caller := s.self, value := txn.value, call := decode txn.method txn.params }
        let script : Bool × List Act :=
          match children with
          | a :: _ => (a.sendOk, a.children)
          | [] => (true, [])
        let r := sub s2 (.node m script.1 script.2)
        -- the callee's effects are kept only when it returned ok (and was not forced to abort)
        let fin : State × Bool :=
          match r.out with
          | .ok (s3, _) => if sendOk then (s3, true) else (s1, false)
          | .error _ => (s1, false)
        ⟨.ok (fin.1, { txId := id, applied := true, codeOk := fin.2 }), ev :: r.trace⟩
      else
        let n := runChildren sub s.self s2 children
        ⟨.ok (if sendOk then n.1 else s1, { txId := id, applied := true, codeOk := sendOk }),
         ev :: n.2⟩
  else ⟨.ok (s, { txId := id, applied := false, codeOk := true }), []⟩

/-- `Actor::approve_transaction(rt, tx_id, txn)`. -/
def approveTransaction (sub : Sub) (epoch : Int) (s : State) (caller id : Nat) (txn : Tx)
    (sendOk : Bool) (children : List Act) : Res :=
  if caller ∈ txn.approved then ⟨.error .forbidden, []⟩
  else
    let txn' : Tx := { txn with approved := txn.approved ++ [caller] }
    let s' : State := { s with pending := aset id txn' s.pending }
    execIfApproved sub epoch s' id txn' sendOk children

def propose (sub : Sub) (epoch : Int) (s : State) (caller : Nat) (to : Nat) (value : Int)
    (method : Nat) (params : List Int) (sendOk : Bool) (children : List Act) : Res :=
  if value < 0 then ⟨.error .illegalArgument, []⟩
  else if caller ∉ s.signers then ⟨.error .forbidden, []⟩
  else
    let id := s.nextId
    let txn : Tx := { to := to, value := value, method := method, params := params, approved := [] }
    let s1 : State := { s with nextId := id + 1, pending := aset id txn s.pending }
    approveTransaction sub epoch s1 caller id txn sendOk children

def approve (sub : Sub) (epoch : Int) (s : State) (caller : Nat) (id : Nat) (hashOk : Bool)
    (sendOk : Bool) (children : List Act) : Res :=
  if caller ∉ s.signers then ⟨.error .forbidden, []⟩
  else match alookup id s.pending with
    | none => ⟨.error .notFound, []⟩
    | some txn =>
      if !hashOk then ⟨.error .illegalArgument, []⟩
      else
        -- first try to execute on the approvals already stored
        let r := execIfApproved sub epoch s id txn sendOk children
        match r.out with
        | .error e => ⟨.error e, r.trace⟩
        | .ok (_, ret) =>
          if ret.applied then r
          else approveTransaction sub epoch s caller id txn sendOk children

def cancel (s : State) (caller : Nat) (id : Nat) (hashOk : Bool) : Except Err State :=
  if caller ∉ s.signers then .error .forbidden
  else match alookup id s.pending with
    | none => .error .notFound
    | some txn =>
      if txn.approved.head? ≠ some caller then .error .forbidden
      else if !hashOk then .error .illegalState
      else .ok { s with pending := aerase id s.pending }

def addSigner (s : State) (caller : Nat) (a : Nat) (increase : Bool) : Except Err State :=
  if caller ≠ s.self then .error .forbidden
  else if s.signers.length ≥ signersMax then .error .forbidden
  else if a ∈ s.signers then .error .forbidden
  else .ok { s with signers := s.signers ++ [a],
                    threshold := if increase then s.threshold + 1 else s.threshold }

def removeSigner (s : State) (caller : Nat) (a : Nat) (decrease : Bool) : Except Err State :=
  if caller ≠ s.self then .error .forbidden
  else if a ∉ s.signers then .error .forbidden
  else if s.signers.length = 1 then .error .forbidden
  else if !decrease ∧ s.signers.length - 1 < s.threshold then .error .illegalArgument
  else if decrease ∧ s.threshold < 2 then .error .illegalArgument
  else .ok { s with threshold := if decrease then s.threshold - 1 else s.threshold,
                    pending := purge a s.pending,
                    signers := s.signers.filter (fun x => x != a) }

def swapSigner (s : State) (caller : Nat) (from_ to : Nat) : Except Err State :=
  if caller ≠ s.self then .error .forbidden
  else if from_ ∉ s.signers then .error .forbidden
  else if to ∈ s.signers then .error .illegalArgument
  else .ok { s with signers := s.signers.filter (fun x => x != from_) ++ [to],
                    pending := purge from_ s.pending }

def changeThreshold (s : State) (caller : Nat) (n : Nat) : Except Err State :=
  if caller ≠ s.self then .error .forbidden
  else if n = 0 ∨ n > s.signers.length then .error .illegalArgument
  else .ok { s with threshold := n }

def lockBalance (s : State) (caller : Nat) (start duration amount : Int) : Except Err State :=
  if caller ≠ s.self then .error .forbidden
  else if duration ≤ 0 then .error .illegalArgument
  else if amount < 0 then .error .illegalArgument
  else if s.duration ≠ 0 then .error .forbidden
  else .ok { s with start := start, duration := duration, initial := amount }

def pureRes (r : Except Err State) : Res :=
  match r with
  | .ok s => ⟨.ok (s, {}), []⟩
  | .error e => ⟨.error e, []⟩

/-- one activation of the wallet; nested activations are run by `sub`. -/
def execMsg (sub : Sub) (epoch : Int) (s : State) (a : Act) : Res :=
  let m := a.msg
  if m.value < 0 then ⟨.error .sysError, []⟩
  else
    let s0 : State := { s with balance := s.balance + m.value }
    match m.call with
    | .receive => ⟨.ok (s0, {}), []⟩
    | .bad => ⟨.error .unhandled, []⟩
    | .propose to value method params =>
      propose sub epoch s0 m.caller to value method params a.sendOk a.children
    | .approve id hashOk => approve sub epoch s0 m.caller id hashOk a.sendOk a.children
    | .cancel id hashOk => pureRes (cancel s0 m.caller id hashOk)
    | .addSigner x inc => pureRes (addSigner s0 m.caller x inc)
    | .removeSigner x dec => pureRes (removeSigner s0 m.caller x dec)
    | .swapSigner f t => pureRes (swapSigner s0 m.caller f t)
    | .changeThreshold n => pureRes (changeThreshold s0 m.caller n)
    | .lockBalance st d amt => pureRes (lockBalance s0 m.caller st d amt)

/-- at call depth 0 every nested activation aborts (call-depth limit) -/
def failSub : Sub := fun _ _ => ⟨.error .sysError, []⟩

/-- an activation with `fuel` further levels of nesting available -/
def exec : Nat → Int → Sub
  | 0, epoch => execMsg failSub epoch
  | n + 1, epoch => execMsg (exec n epoch) epoch

/-- a top-level message: the epoch it is executed in and its activation tree -/
structure Op where
  epoch : Int
  act : Act
  deriving Inhabited

/-- One top-level message.  A failing message changes nothing (VM rollback). -/
def step (fuel : Nat) (s : State) (op : Op) : State × Res :=
  let r := exec fuel op.epoch s op.act
  (r.stateOr s, r)

/-- all states after a history, with the inner sends issued along it -/
def run (fuel : Nat) : State → List Op → State × List Event
  | s, [] => (s, [])
  | s, op :: rest =>
    let r := step fuel s op
    let n := run fuel r.1 rest
    (n.1, r.2.trace ++ n.2)

/-- `Actor::constructor` (caller = init actor; `value` = value received). -/
def construct (self : Nat) (signers : List Nat) (threshold : Nat) (duration start value : Int) :
    Except Err State :=
  if signers = [] then .error .illegalArgument
  else if signers.length > signersMax then .error .illegalArgument
  else if ¬ signers.Nodup then .error .illegalArgument
  else if threshold > signers.length then .error .illegalArgument
  else if threshold < 1 then .error .illegalArgument
  else if duration < 0 then .error .illegalArgument
  else if value < 0 then .error .sysError
  else
    let s : State := { self := self, signers := signers, threshold := threshold, nextId := 0,
                       pending := [], initial := 0, start := 0, duration := 0, balance := value,
                       executed := [] }
    if duration ≠ 0 then .ok { s with start := start, duration := duration, initial := value }
    else .ok s

end BA.Multisig
