/-
  Model of actors/paych/src/lib.rs (UpdateChannelState / Settle / Collect), following the Rust
  control flow check by check.  Environment answers (signature authentication, address
  resolution, secret hash, the optional `extra` call) are inputs of the step.
-/
import BA.Prelude
import BA.Generated.Constants

namespace BA.Paych
open BA

structure Lane where
  redeemed : Int
  nonce : Nat
  deriving Repr, DecidableEq, Inhabited

abbrev Lanes := List (Nat × Lane)

structure State where
  from_ : Nat
  to : Nat
  toSend : Int := 0
  settlingAt : Int := 0
  minSettle : Int := 0
  lanes : Lanes := []
  /-- the actor's token balance (kept by the VM, not by the actor state) -/
  balance : Int := 0
  /-- set once `Collect` deleted the actor -/
  dead : Bool := false
  deriving Repr, DecidableEq, Inhabited

/-- `extra` verification call of a voucher. -/
inductive Extra where
  | none | ok | fail
  deriving Repr, DecidableEq, Inhabited

structure Voucher where
  /-- a signature is present -/
  hasSig : Bool
  /-- the account actor of the *other* party authenticates the signature over the voucher -/
  sigOk : Bool
  /-- `params.secret.len() > MAX_SECRET_SIZE` -/
  secretTooLong : Bool
  /-- `channel_addr` resolves to the receiver -/
  chanOk : Bool
  tlMin : Int
  tlMax : Int
  amount : Int
  /-- pre-image empty, or blake2b(secret) equals it -/
  secretOk : Bool
  extra : Extra
  lane : Nat
  nonce : Nat
  minSettle : Int
  merges : List (Nat × Nat)
  deriving Repr, DecidableEq, Inhabited

def maxLane : Nat := BA.Gen.paychMaxLane
def settleDelay : Int := BA.Gen.paychSettleDelay

/-- `find_lane`: error above MAX_LANE, else AMT lookup. -/
def findLane (ls : Lanes) (id : Nat) : Except Err (Option Lane) :=
  if id > maxLane then .error .illegalArgument else .ok (alookup id ls)

/-- the `for merge in sv.merges` loop: returns updated lanes and Σ redeemed of merged lanes. -/
def mergeLoop (lane : Nat) : List (Nat × Nat) → Lanes → Int → Except Err (Lanes × Int)
  | [], ls, acc => .ok (ls, acc)
  | (ml, mn) :: rest, ls, acc =>
    if ml = lane then .error .illegalArgument
    else match findLane ls ml with
      | .error e => .error e
      | .ok none => .error .illegalArgument
      | .ok (some other) =>
        if other.nonce ≥ mn then .error .illegalArgument
        else mergeLoop lane rest (aset ml { other with nonce := mn } ls) (acc + other.redeemed)

/-- the part of the transaction after the voucher lane was found (`laneState` = its prior state
    or the default): merges, delta, balance checks, settle-height extension, stores. -/
def redeem (s : State) (v : Voucher) (laneState : Lane) : Except Err State :=
  match mergeLoop v.lane v.merges s.lanes 0 with
  | .error e => .error e
  | .ok (ls, redeemedFromOthers) =>
    let delta := v.amount - (redeemedFromOthers + laneState.redeemed)
    let newSend := delta + s.toSend
    if newSend < 0 then .error .illegalArgument
    else if newSend > s.balance then .error .illegalArgument
    else
      let settlingAt :=
        if v.minSettle ≠ 0 ∧ s.settlingAt ≠ 0 ∧ s.settlingAt < v.minSettle
        then v.minSettle else s.settlingAt
      let minSettle :=
        if v.minSettle ≠ 0 ∧ s.minSettle < v.minSettle then v.minSettle else s.minSettle
      .ok { s with
        toSend := newSend
        settlingAt := settlingAt
        minSettle := minSettle
        lanes := aset v.lane { redeemed := v.amount, nonce := v.nonce } ls }

/-- the checks of `update_channel_state` that precede the transaction, in source order. -/
def precheck (s : State) (caller : Nat) (epoch : Int) (v : Voucher) : Except Err Unit :=
  if caller ≠ s.from_ ∧ caller ≠ s.to then .error .forbidden
  else if !v.hasSig then .error .illegalArgument
  else if s.settlingAt ≠ 0 ∧ epoch ≥ s.settlingAt then .error .settled
  else if v.secretTooLong then .error .illegalArgument
  else if !v.sigOk then .error .illegalArgument
  else if !v.chanOk then .error .illegalArgument
  else if epoch < v.tlMin then .error .illegalArgument
  else if v.tlMax ≠ 0 ∧ epoch > v.tlMax then .error .illegalArgument
  else if v.amount < 0 then .error .illegalArgument
  else if !v.secretOk then .error .illegalArgument
  else if v.extra = .fail then .error .illegalArgument
  else .ok ()

/-- `update_channel_state`. `value` has already been credited to `s.balance` by the VM. -/
def update (s : State) (caller : Nat) (epoch : Int) (v : Voucher) : Except Err State :=
  match precheck s caller epoch v with
  | .error e => .error e
  | .ok () =>
    -- inside rt.transaction
    match findLane s.lanes v.lane with
    | .error e => .error e
    | .ok (some l) => if l.nonce ≥ v.nonce then .error .illegalArgument else redeem s v l
    | .ok none => redeem s v { redeemed := 0, nonce := 0 }

def settle (s : State) (caller : Nat) (epoch : Int) : Except Err State :=
  if caller ≠ s.from_ ∧ caller ≠ s.to then .error .forbidden
  else if s.settlingAt ≠ 0 then .error .illegalState
  else
    let sa := epoch + settleDelay
    .ok { s with settlingAt := if sa < s.minSettle then s.minSettle else sa }

/-- what `Collect` pays out: (to payee, to payer). -/
structure Payout where
  toPayee : Int
  toPayer : Int
  deriving Repr, DecidableEq, Inhabited

def collect (s : State) (caller : Nat) (epoch : Int) : Except Err (State × Payout) :=
  if caller ≠ s.from_ ∧ caller ≠ s.to then .error .forbidden
  else if s.settlingAt = 0 ∨ epoch < s.settlingAt then .error .forbidden
  -- the VM refuses a transfer above the balance / of a negative amount
  else if s.toSend < 0 ∨ s.toSend > s.balance then .error .insufficientFunds
  else .ok ({ s with balance := 0, dead := true },
            { toPayee := s.toSend, toPayer := s.balance - s.toSend })

inductive Op where
  | update (caller : Nat) (epoch : Int) (value : Int) (v : Voucher)
  | settle (caller : Nat) (epoch : Int) (value : Int)
  | collect (caller : Nat) (epoch : Int) (value : Int)
  | deposit (value : Int)
  deriving Repr, Inhabited

inductive Out where
  | ok
  | paid (p : Payout)
  | err (e : Err)
  deriving Repr, DecidableEq, Inhabited

/-- the VM part of a message: refuses a dead receiver and a negative value, credits `value`. -/
def credit (s : State) (value : Int) : Except Err State :=
  if s.dead then .error .notFound
  else if value < 0 then .error .sysError
  else .ok { s with balance := s.balance + value }

/-- One message to the channel actor.  A failing message changes nothing (VM rollback). -/
def step (s : State) : Op → State × Out
  | .deposit value =>
    match credit s value with
    | .error e => (s, .err e)
    | .ok s1 => (s1, .ok)
  | .update caller epoch value v =>
    match credit s value with
    | .error e => (s, .err e)
    | .ok s1 => match update s1 caller epoch v with
      | .ok s' => (s', .ok)
      | .error e => (s, .err e)
  | .settle caller epoch value =>
    match credit s value with
    | .error e => (s, .err e)
    | .ok s1 => match settle s1 caller epoch with
      | .ok s' => (s', .ok)
      | .error e => (s, .err e)
  | .collect caller epoch value =>
    match credit s value with
    | .error e => (s, .err e)
    | .ok s1 => match collect s1 caller epoch with
      | .ok (s', p) => (s', .paid p)
      | .error e => (s, .err e)

def run (s : State) : List Op → State
  | [] => s
  | op :: rest => run (step s op).1 rest

def init (from_ to : Nat) : State := { from_ := from_, to := to }

end BA.Paych
