/-
  Level 2 (concrete) model of actors/miner/src/partition_state.rs: the five bitfields, the four
  power memos, the expiration queue and the early-termination queue, method by method, including
  the error returns and `validate_state`.  `tbl` is the `Sectors` AMT (sector number → info).
  A method that returns an error leaves garbage in `self` in the Rust; callers run inside a
  transaction that is rolled back, so `step` keeps the old partition on error.
-/
import BA.Model.Sector.ExpQueue

namespace BA.Sector
open BA BA.NatSet

abbrev Table := List (Nat × SectorInfo)

structure Partition where
  sectors : NatSet := []
  unproven : NatSet := []
  faults : NatSet := []
  recoveries : NatSet := []
  terminated : NatSet := []
  expirations : Queue := []
  earlyTerminated : BfQueue := []
  livePower : PowerPair := PowerPair.zero
  unprovenPower : PowerPair := PowerPair.zero
  faultyPower : PowerPair := PowerPair.zero
  recoveringPower : PowerPair := PowerPair.zero
  deriving Repr, Inhabited

namespace Partition

def new : Partition := {}

def liveSectors (p : Partition) : NatSet := diff p.sectors p.terminated
def activeSectors (p : Partition) : NatSet := diff (diff p.liveSectors p.faults) p.unproven
/-- `active_power()` = live − faulty − unproven (memos) -/
def activePower (p : Partition) : PowerPair := (p.livePower - p.faultyPower) - p.unprovenPower

/-- `Sectors::load_sectors` -/
def loadSectors (tbl : Table) : NatSet → Except Err (List SectorInfo)
  | [] => .ok []
  | n :: t =>
    match alookup n tbl with
    | none => .error .notFound
    | some i =>
      match loadSectors tbl t with
      | .error e => .error e
      | .ok l => .ok (i :: l)

/-- `select_sectors`: the first info of every wanted number; error if a wanted number is missing -/
def selectSectors : List SectorInfo → NatSet → Except Err (List SectorInfo)
  | [], want => if want.isEmpty then .ok [] else .error .illegalState
  | i :: t, want =>
    if i.num ∈ want then
      match selectSectors t (diff want [i.num]) with
      | .error e => .error e
      | .ok l => .ok (i :: l)
    else selectSectors t want

/-- `validate_power_state` -/
def validatePower (p : Partition) : Except Err Unit :=
  if p.livePower.raw < 0 ∨ p.livePower.qa < 0 then .error .illegalState
  else if p.unprovenPower.raw < 0 ∨ p.unprovenPower.qa < 0 then .error .illegalState
  else if p.faultyPower.raw < 0 ∨ p.faultyPower.qa < 0 then .error .illegalState
  else if p.recoveringPower.raw < 0 ∨ p.recoveringPower.qa < 0 then .error .illegalState
  else if p.unprovenPower.raw > p.livePower.raw then .error .illegalState
  else if p.faultyPower.raw > p.livePower.raw then .error .illegalState
  else if p.recoveringPower.raw > p.livePower.raw ∨ p.recoveringPower.raw > p.faultyPower.raw then
    .error .illegalState
  else .ok ()

/-- `validate_bf_state` -/
def validateBf (p : Partition) : Except Err Unit :=
  let merge := union p.unproven p.faults
  if containsAny p.terminated merge then .error .illegalState
  else if !containsAll p.sectors (union merge p.terminated) then .error .illegalState
  else if !containsAll p.faults p.recoveries then .error .illegalState
  else .ok ()

def validate (p : Partition) : Except Err Unit :=
  match p.validatePower with
  | .error e => .error e
  | .ok () => p.validateBf

/-- finish a method: `self.validate_state()?; Ok(ret)` -/
def validated {α : Type} (p : Partition) (ret : α) : Except Err (Partition × α) :=
  match p.validate with
  | .error e => .error e
  | .ok () => .ok (p, ret)

/-- `add_sectors` → (power, daily fee) -/
def addSectors (p : Partition) (qs : QuantSpec) (proven : Bool) (infos : List SectorInfo) :
    Except Err (Partition × PowerPair × Int) :=
  match addActiveSectors qs p.expirations infos with
  | .error e => .error e
  | .ok (q', ns, power, _, fee) =>
    if containsAny p.sectors ns then .error .illegalState
    else
      let p1 := { p with expirations := q', sectors := union p.sectors ns,
                         livePower := p.livePower + power }
      let p2 := if proven then p1
        else { p1 with unprovenPower := p1.unprovenPower + power, unproven := union p1.unproven ns }
      validated p2 (power, fee)

/-- `add_faults` → (power delta, new faulty power) -/
def addFaults (p : Partition) (qs : QuantSpec) (sectorNos : NatSet) (infos : List SectorInfo)
    (faultExp : Int) : Except Err (Partition × PowerPair × PowerPair) :=
  match rescheduleAsFaults qs p.expirations faultExp infos with
  | .error e => .error e
  | .ok (q', newFaulty) =>
    let unproven := inter sectorNos p.unproven
    match selectSectors infos unproven with
    | .error e => .error e
    | .ok unprovenInfos =>
      let lost := sumPow unprovenInfos
      -- `if !unproven_infos.is_empty()`: subtracting the empty sum is the same
      let p1 := { p with expirations := q', faults := union p.faults sectorNos,
                         faultyPower := p.faultyPower + newFaulty,
                         unproven := diff p.unproven unproven,
                         unprovenPower := p.unprovenPower - lost }
      validated p1 (-newFaulty + lost, newFaulty)

/-- `remove_recoveries` -/
def removeRecoveries (p : Partition) (sectorNos : NatSet) (power : PowerPair) : Partition :=
  if sectorNos.isEmpty then p
  else { p with recoveries := diff p.recoveries sectorNos,
                recoveringPower := p.recoveringPower - power }

/-- `record_faults` → (new faults, power delta, new faulty power) -/
def recordFaults (p : Partition) (tbl : Table) (qs : QuantSpec) (sectorNos : NatSet)
    (faultExp : Int) : Except Err (Partition × NatSet × PowerPair × PowerPair) :=
  if !containsAll p.sectors sectorNos then .error .illegalArgument
  else
    let retracted := inter p.recoveries sectorNos
    let newFaults := diff (diff (diff sectorNos retracted) p.terminated) p.faults
    match loadSectors tbl newFaults with
    | .error e => .error e
    | .ok newInfos =>
      let r1 : Except Err (Partition × PowerPair × PowerPair) :=
        if !newInfos.isEmpty then addFaults p qs newFaults newInfos faultExp
        else .ok (p, PowerPair.zero, PowerPair.zero)
      match r1 with
      | .error e => .error e
      | .ok (p1, delta, newFaulty) =>
        match loadSectors tbl retracted with
        | .error e => .error e
        | .ok retrInfos =>
          let p2 := if !retrInfos.isEmpty then p1.removeRecoveries retracted (sumPow retrInfos) else p1
          validated p2 (newFaults, delta, newFaulty)

/-- `recover_faults` → recovered power -/
def recoverFaults (p : Partition) (tbl : Table) (qs : QuantSpec) :
    Except Err (Partition × PowerPair) :=
  match loadSectors tbl p.recoveries with
  | .error e => .error e
  | .ok infos =>
    match rescheduleRecovered qs p.expirations infos with
    | .error e => .error e
    | .ok (q', power) =>
      validated { p with expirations := q', faults := diff p.faults p.recoveries, recoveries := [],
                         faultyPower := p.faultyPower - power,
                         recoveringPower := p.recoveringPower - power } power

/-- `activate_unproven` → activated power (cannot fail, does not validate) -/
def activateUnproven (p : Partition) : Partition × PowerPair :=
  ({ p with unproven := [], unprovenPower := PowerPair.zero }, p.unprovenPower)

/-- `declare_faults_recovered` -/
def declareFaultsRecovered (p : Partition) (tbl : Table) (sectorNos : NatSet) :
    Except Err (Partition × Unit) :=
  if !containsAll p.sectors sectorNos then .error .illegalArgument
  else
    let recoveries := diff (inter sectorNos p.faults) p.recoveries
    match loadSectors tbl recoveries with
    | .error e => .error e
    | .ok infos =>
      validated { p with recoveries := union p.recoveries recoveries,
                         recoveringPower := p.recoveringPower + sumPow infos } ()

/-- `reschedule_expirations` → the rescheduled infos -/
def rescheduleExpirationsP (p : Partition) (tbl : Table) (qs : QuantSpec) (newExp : Int)
    (sectorNos : NatSet) : Except Err (Partition × List SectorInfo) :=
  let active := diff (diff (inter sectorNos p.sectors) p.terminated) p.faults
  match loadSectors tbl active with
  | .error e => .error e
  | .ok infos =>
    match rescheduleExpirations qs p.expirations newExp infos with
    | .error e => .error e
    | .ok q' => validated { p with expirations := q' } infos

/-- `replace_sectors` → (power delta, pledge delta, fee delta) -/
def replaceSectors (p : Partition) (qs : QuantSpec) (old new : List SectorInfo) :
    Except Err (Partition × PowerPair × Int × Int) :=
  match replaceSectorsQ qs p.expirations old new with
  | .error e => .error e
  | .ok (q', oldNs, newNs, powerDelta, pledgeDelta, feeDelta) =>
    if !containsAll p.activeSectors oldNs then .error .illegalState
    else
      validated { p with expirations := q', sectors := union (diff p.sectors oldNs) newNs,
                         livePower := p.livePower + powerDelta } (powerDelta, pledgeDelta, feeDelta)

/-- `record_early_termination` -/
def recordEarlyTermination (p : Partition) (epoch : Int) (sectors : NatSet) : Except Err Partition :=
  match bfAdd p.earlyTerminated epoch sectors with
  | .error e => .error e
  | .ok q => .ok { p with earlyTerminated := q }

/-- `terminate_sectors` → (removed, removed unproven power) -/
def terminateSectors (p : Partition) (tbl : Table) (qs : QuantSpec) (epoch : Int)
    (sectorNos : NatSet) : Except Err (Partition × ExpSet × PowerPair) :=
  if !containsAll p.liveSectors sectorNos then .error .illegalArgument
  else match loadSectors tbl sectorNos with
  | .error e => .error e
  | .ok infos =>
    match removeSectors qs p.expirations infos p.faults p.recoveries with
    | .error e => .error e
    | .ok (q', removed, removedRecovering) =>
      let removedSectors := union removed.onTime removed.early
      match ({ p with expirations := q' } : Partition).recordEarlyTermination epoch removedSectors with
      | .error e => .error e
      | .ok p1 =>
        let unprovenNos := inter removedSectors p1.unproven
        match selectSectors infos unprovenNos with
        | .error e => .error e
        | .ok unprovenInfos =>
          let rup := sumPow unprovenInfos
          let p2 := { p1 with
            faults := diff p1.faults removedSectors
            recoveries := diff p1.recoveries removedSectors
            terminated := union p1.terminated removedSectors
            livePower := (p1.livePower - removed.active) - removed.faulty
            faultyPower := p1.faultyPower - removed.faulty
            recoveringPower := p1.recoveringPower - removedRecovering
            unproven := diff p1.unproven unprovenNos
            unprovenPower := p1.unprovenPower - rup }
          validated p2 ({ removed with active := removed.active - rup }, rup)

/-- `pop_expired_sectors` → the popped aggregate -/
def popExpiredSectors (p : Partition) (untilE : Int) : Except Err (Partition × ExpSet) :=
  if !p.unproven.isEmpty then .error .illegalState
  else
    let (q', popped) := popUntil untilE p.expirations
    let expired := union popped.onTime popped.early
    if !p.recoveries.isEmpty then .error .illegalState
    else if !p.recoveringPower.isZero then .error .illegalState
    else if containsAny p.terminated expired then .error .illegalState
    else
      let p1 := { p with expirations := q', terminated := union p.terminated expired,
                         faults := diff p.faults expired,
                         livePower := p.livePower - (popped.active + popped.faulty),
                         faultyPower := p.faultyPower - popped.faulty }
      match p1.recordEarlyTermination untilE popped.early with
      | .error e => .error e
      | .ok p2 => validated p2 popped

/-- `record_missed_post` → (power delta, penalized power, new faulty power) -/
def recordMissedPost (p : Partition) (qs : QuantSpec) (faultExp : Int) :
    Except Err (Partition × PowerPair × PowerPair × PowerPair) :=
  match rescheduleAllAsFaults qs p.expirations faultExp with
  | .error e => .error e
  | .ok q' =>
    let newFaulty := p.livePower - p.faultyPower
    let penalized := p.recoveringPower + newFaulty
    let delta := p.unprovenPower - newFaulty
    validated { p with expirations := q', faults := p.liveSectors, recoveries := [], unproven := [],
                       faultyPower := p.livePower, recoveringPower := PowerPair.zero,
                       unprovenPower := PowerPair.zero } (delta, penalized, newFaulty)

/-- `record_skipped_faults` → (power delta, new fault power, retracted recovery power, any new) -/
def recordSkippedFaults (p : Partition) (tbl : Table) (qs : QuantSpec) (faultExp : Int)
    (skipped : NatSet) : Except Err (Partition × PowerPair × PowerPair × PowerPair × Bool) :=
  if skipped.isEmpty then .ok (p, PowerPair.zero, PowerPair.zero, PowerPair.zero, false)
  else if !containsAll p.sectors skipped then .error .illegalArgument
  else
    let retracted := inter p.recoveries skipped
    match loadSectors tbl retracted with
    | .error e => .error e
    | .ok retrInfos =>
      let retrPower := sumPow retrInfos
      let newFaults := diff (diff skipped p.terminated) p.faults
      match loadSectors tbl newFaults with
      | .error e => .error e
      | .ok newInfos =>
        match addFaults p qs newFaults newInfos faultExp with
        | .error e => .error e
        | .ok (p1, delta, newFaulty) =>
          validated (p1.removeRecoveries retracted retrPower)
            (delta, newFaulty, retrPower, !newInfos.isEmpty)

/-- the `for_each_while` of `pop_early_terminations`: returns (entries kept, result entries,
    processed count).  `slice(0, limit)` takes the `limit` lowest sector numbers. -/
def popEarlyWalk (maxSectors : Nat) : BfQueue → Nat → BfQueue × List (Int × NatSet) × Nat
  | [], processed => ([], [], processed)
  | (e, secs) :: rest, processed =>
    let count := secs.length
    let limit := maxSectors - processed
    if limit < count then
      let toProcess := (NatSet.sort secs).take limit
      ((e, diff secs toProcess) :: rest, [(e, toProcess)], processed + limit)
    else if processed + count < maxSectors then
      let (kept, res, n) := popEarlyWalk maxSectors rest (processed + count)
      (kept, (e, secs) :: res, n)
    else (rest, [(e, secs)], processed + count)

/-- `pop_early_terminations` → (result entries, sectors processed, has more) -/
def popEarlyTerminations (p : Partition) (maxSectors : Nat) :
    Except Err (Partition × List (Int × NatSet) × Nat × Bool) :=
  let (kept, res, n) := popEarlyWalk maxSectors p.earlyTerminated 0
  validated { p with earlyTerminated := kept } (res, n, !kept.isEmpty)

end Partition

/-! ### one transition system over all partition methods -/

inductive Op where
  | addSectors (proven : Bool) (infos : List SectorInfo)
  | recordFaults (sectorNos : NatSet) (faultExp : Int)
  | declareFaultsRecovered (sectorNos : NatSet)
  | recoverFaults
  | activateUnproven
  | recordMissedPost (faultExp : Int)
  | popExpiredSectors (untilE : Int)
  | terminateSectors (epoch : Int) (sectorNos : NatSet)
  | recordSkippedFaults (faultExp : Int) (skipped : NatSet)
  | rescheduleExpirations (newExp : Int) (sectorNos : NatSet)
  | replaceSectors (old new : List SectorInfo)
  | popEarlyTerminations (maxSectors : Nat)
  deriving Repr, Inhabited

inductive Ret where
  | unit
  | added (power : PowerPair) (fee : Int)
  | faults (newFaults : NatSet) (delta newFaulty : PowerPair)
  | power (p : PowerPair)
  | missed (delta penalized newFaulty : PowerPair)
  | expset (es : ExpSet)
  | terminated (removed : ExpSet) (removedUnproven : PowerPair)
  | skipped (delta newFaulty retracted : PowerPair) (anyNew : Bool)
  | rescheduled (nums : List Nat)
  | replaced (power : PowerPair) (pledge fee : Int)
  | early (res : List (Int × NatSet)) (processed : Nat) (hasMore : Bool)
  | err (e : Err)
  deriving Repr, Inhabited

/-- the environment of a partition: the sector table and the deadline's quantisation -/
structure Env where
  tbl : Table
  qs : QuantSpec
  deriving Repr, Inhabited

def stepE (env : Env) (p : Partition) : Op → Except Err (Partition × Ret)
  | .addSectors proven infos =>
    match p.addSectors env.qs proven infos with
    | .error e => .error e
    | .ok (p', power, fee) => .ok (p', .added power fee)
  | .recordFaults ns fe =>
    match p.recordFaults env.tbl env.qs ns fe with
    | .error e => .error e
    | .ok (p', nf, d, f) => .ok (p', .faults nf d f)
  | .declareFaultsRecovered ns =>
    match p.declareFaultsRecovered env.tbl ns with
    | .error e => .error e
    | .ok (p', ()) => .ok (p', .unit)
  | .recoverFaults =>
    match p.recoverFaults env.tbl env.qs with
    | .error e => .error e
    | .ok (p', pw) => .ok (p', .power pw)
  | .activateUnproven => let (p', pw) := p.activateUnproven; .ok (p', .power pw)
  | .recordMissedPost fe =>
    match p.recordMissedPost env.qs fe with
    | .error e => .error e
    | .ok (p', d, pen, nf) => .ok (p', .missed d pen nf)
  | .popExpiredSectors u =>
    match p.popExpiredSectors u with
    | .error e => .error e
    | .ok (p', es) => .ok (p', .expset es)
  | .terminateSectors ep ns =>
    match p.terminateSectors env.tbl env.qs ep ns with
    | .error e => .error e
    | .ok (p', es, rup) => .ok (p', .terminated es rup)
  | .recordSkippedFaults fe sk =>
    match p.recordSkippedFaults env.tbl env.qs fe sk with
    | .error e => .error e
    | .ok (p', d, nf, rp, b) => .ok (p', .skipped d nf rp b)
  | .rescheduleExpirations ne ns =>
    match p.rescheduleExpirationsP env.tbl env.qs ne ns with
    | .error e => .error e
    | .ok (p', infos) => .ok (p', .rescheduled (nums infos))
  | .replaceSectors old new =>
    match p.replaceSectors env.qs old new with
    | .error e => .error e
    | .ok (p', d, pl, f) => .ok (p', .replaced d pl f)
  | .popEarlyTerminations m =>
    match p.popEarlyTerminations m with
    | .error e => .error e
    | .ok (p', res, n, more) => .ok (p', .early res n more)

/-- one call inside a transaction: an error leaves the partition unchanged -/
def step (env : Env) (p : Partition) (op : Op) : Partition × Ret :=
  match stepE env p op with
  | .ok r => r
  | .error e => (p, .err e)

def run (env : Env) (p : Partition) : List Op → Partition
  | [] => p
  | op :: rest => run env (step env p op).1 rest

/-- the power delta the deadline / actor glue forwards to the power actor for a call
    (deadline_state.rs `add_sectors`/`record_faults`/`record_proven_sectors`/`process_deadline_end`/
    `pop_expired_sectors`/`terminate_sectors`) -/
def powerDelta : Op → Ret → PowerPair
  | .addSectors true _, .added power _ => power
  | .recordFaults _ _, .faults _ delta _ => delta
  | .recoverFaults, .power pw => pw
  | .activateUnproven, .power pw => pw
  | .recordMissedPost _, .missed delta _ _ => delta
  | .popExpiredSectors _, .expset es => -es.active
  | .terminateSectors _ _, .terminated removed _ => -removed.active
  | .recordSkippedFaults _ _, .skipped delta _ _ _ => delta
  | .replaceSectors _ _, .replaced power _ _ => power
  | _, _ => PowerPair.zero

end BA.Sector
