/-
  Level 2 (concrete) model of actors/miner/src/expiration_queue.rs, quantize.rs, bitfield_queue.rs.

  * `BitField`  → `NatSet` (duplicate-free list, order unobservable)
  * `AMT[ChainEpoch]ExpirationSet` → list of `(epoch, ExpSet)` kept strictly ascending by `qset`
    (AMT iteration order = ascending key); a negative key is the `try_into::<u64>()` error.
  * `TokenAmount`, `StoragePower`, `ChainEpoch` → `Int`.
  Every function follows the Rust control flow, including the error returns.  Simple accumulation
  loops (`total += x` over a vector) are written as the sum over that vector.
-/
import BA.Model.NatSet

namespace BA.Sector
open BA BA.NatSet

/-! ### PowerPair, sector infos, quantisation -/

structure PowerPair where
  raw : Int := 0
  qa : Int := 0
  deriving Repr, DecidableEq, Inhabited

namespace PowerPair
def zero : PowerPair := ⟨0, 0⟩
instance : Add PowerPair := ⟨fun a b => ⟨a.raw + b.raw, a.qa + b.qa⟩⟩
instance : Sub PowerPair := ⟨fun a b => ⟨a.raw - b.raw, a.qa - b.qa⟩⟩
instance : Neg PowerPair := ⟨fun a => ⟨-a.raw, -a.qa⟩⟩
def isZero (p : PowerPair) : Bool := decide (p.raw = 0 ∧ p.qa = 0)
def anyNeg (p : PowerPair) : Bool := decide (p.raw < 0 ∨ p.qa < 0)
end PowerPair

/-- the fields of `SectorOnChainInfo` the bookkeeping reads; `raw`/`qa` = `power_for_sector` -/
structure SectorInfo where
  num : Nat
  raw : Int
  qa : Int
  pledge : Int
  fee : Int
  exp : Int
  deriving Repr, DecidableEq, Inhabited

def SectorInfo.power (i : SectorInfo) : PowerPair := ⟨i.raw, i.qa⟩

/-- `power_for_sectors` -/
def sumPow (l : List SectorInfo) : PowerPair := ⟨sumBy (·.raw) l, sumBy (·.qa) l⟩
def sumPledge (l : List SectorInfo) : Int := sumBy (·.pledge) l
def sumFee (l : List SectorInfo) : Int := sumBy (·.fee) l
def nums (l : List SectorInfo) : List Nat := l.map (·.num)

structure QuantSpec where
  unit : Int
  offset : Int
  deriving Repr, DecidableEq, Inhabited

/-- `QuantSpec::quantize_up` (`%` and `/` of i64 truncate). Precondition of the code: `unit > 0`. -/
def QuantSpec.quantizeUp (q : QuantSpec) (epoch : Int) : Int :=
  let offset := q.offset.tmod q.unit
  let remainder := (epoch - offset).tmod q.unit
  let quotient := (epoch - offset).tdiv q.unit
  if remainder = 0 ∨ epoch - offset < 0 then q.unit * quotient + offset
  else q.unit * (quotient + 1) + offset

/-! ### ExpirationSet -/

structure ExpSet where
  onTime : NatSet := []
  early : NatSet := []
  pledge : Int := 0
  active : PowerPair := PowerPair.zero
  faulty : PowerPair := PowerPair.zero
  fee : Int := 0
  deriving Repr, DecidableEq, Inhabited

namespace ExpSet
def empty : ExpSet := {}
def isEmpty (es : ExpSet) : Bool := es.onTime.isEmpty && es.early.isEmpty

/-- `ExpirationSet::validate_state` -/
def validate (es : ExpSet) : Except Err Unit :=
  if es.pledge < 0 then .error .illegalState
  else if es.active.raw < 0 then .error .illegalState
  else if es.active.qa < 0 then .error .illegalState
  else if es.faulty.raw < 0 then .error .illegalState
  else if es.faulty.qa < 0 then .error .illegalState
  else if es.fee < 0 then .error .illegalState
  else .ok ()

/-- `ExpirationSet::add` -/
def add (es : ExpSet) (onTime early : NatSet) (pledge : Int) (active faulty : PowerPair)
    (fee : Int) : Except Err ExpSet :=
  let es' : ExpSet := {
    onTime := union es.onTime onTime, early := union es.early early,
    pledge := es.pledge + pledge, active := es.active + active, faulty := es.faulty + faulty,
    fee := es.fee + fee }
  match es'.validate with
  | .error e => .error e
  | .ok () => .ok es'

/-- `ExpirationSet::remove` -/
def remove (es : ExpSet) (onTime early : NatSet) (pledge : Int) (active faulty : PowerPair)
    (fee : Int) : Except Err ExpSet :=
  if !containsAll es.onTime onTime then .error .illegalState
  else if !containsAll es.early early then .error .illegalState
  else
    let es' : ExpSet := {
      onTime := diff es.onTime onTime, early := diff es.early early,
      pledge := es.pledge - pledge, active := es.active - active, faulty := es.faulty - faulty,
      fee := es.fee - fee }
    if es'.pledge < 0 then .error .illegalState
    else if es'.active.qa < 0 ∨ es'.faulty.qa < 0 then .error .illegalState
    else if es'.fee < 0 then .error .illegalState
    else match es'.validate with
      | .error e => .error e
      | .ok () => .ok es'
end ExpSet

/-! ### the AMT as a sorted association list -/

abbrev Queue := List (Int × ExpSet)

def qget (k : Int) : Queue → Option ExpSet
  | [] => none
  | (e, v) :: t => if e = k then some v else qget k t

/-- `amt.set`: replace, or insert keeping ascending key order -/
def qset (k : Int) (v : ExpSet) : Queue → Queue
  | [] => [(k, v)]
  | (e, w) :: t =>
    if e = k then (k, v) :: t
    else if k < e then (k, v) :: (e, w) :: t
    else (e, w) :: qset k v t

def qdel (k : Int) : Queue → Queue
  | [] => []
  | (e, w) :: t => if e = k then t else (e, w) :: qdel k t

/-- `epoch.try_into::<u64>()?` -/
def keyCheck (k : Int) : Except Err Unit := if k < 0 then .error .illegalArgument else .ok ()

/-- `may_get` -/
def mayGet (q : Queue) (k : Int) : Except Err ExpSet :=
  match keyCheck k with
  | .error e => .error e
  | .ok () => .ok ((qget k q).getD ExpSet.empty)

/-- `must_update` -/
def mustUpdate (q : Queue) (k : Int) (es : ExpSet) : Except Err Queue :=
  match keyCheck k with
  | .error e => .error e
  | .ok () => .ok (qset k es q)

/-- `must_update_or_delete` (`amt.delete` of an absent key is not an error) -/
def mustUpdateOrDelete (q : Queue) (k : Int) (es : ExpSet) : Except Err Queue :=
  match keyCheck k with
  | .error e => .error e
  | .ok () => .ok (if es.isEmpty then qdel k q else qset k es q)

/-- `ExpirationQueue::add` (private) -/
def qadd (qs : QuantSpec) (q : Queue) (rawEpoch : Int) (onTime early : NatSet)
    (active faulty : PowerPair) (pledge fee : Int) : Except Err Queue :=
  let epoch := qs.quantizeUp rawEpoch
  match mayGet q epoch with
  | .error e => .error e
  | .ok es =>
    match es.add onTime early pledge active faulty fee with
    | .error e => .error e
    | .ok es' => mustUpdate q epoch es'

/-- `ExpirationQueue::remove` (private) -/
def qremove (qs : QuantSpec) (q : Queue) (rawEpoch : Int) (onTime early : NatSet)
    (active faulty : PowerPair) (pledge fee : Int) : Except Err Queue :=
  let epoch := qs.quantizeUp rawEpoch
  match keyCheck epoch with
  | .error e => .error e
  | .ok () =>
    match qget epoch q with
    | none => .error .illegalState
    | some es =>
      match es.remove onTime early pledge active faulty fee with
      | .error e => .error e
      | .ok es' => mustUpdateOrDelete q epoch es'

/-! ### grouping of new sectors, `add_active_sectors` -/

/-- one step of the `BTreeMap<ChainEpoch, Vec<&SectorOnChainInfo>>` construction -/
def groupInsert (e : Int) (i : SectorInfo) :
    List (Int × List SectorInfo) → List (Int × List SectorInfo)
  | [] => [(e, [i])]
  | (e', l) :: t =>
    if e = e' then (e', l ++ [i]) :: t
    else if e < e' then (e, [i]) :: (e', l) :: t
    else (e', l) :: groupInsert e i t

/-- `group_new_sectors_by_declared_expiration`: ascending by quantised expiration, the per-epoch
    order of the input kept -/
def groupNew (qs : QuantSpec) (infos : List SectorInfo) : List (Int × List SectorInfo) :=
  infos.foldl (fun acc i => groupInsert (qs.quantizeUp i.exp) i acc) []

/-- the loop of `add_active_sectors` over the groups -/
def addGroups (qs : QuantSpec) : Queue → List (Int × List SectorInfo) → Except Err Queue
  | q, [] => .ok q
  | q, (e, l) :: rest =>
    match qadd qs q e (ofList (nums l)) [] (sumPow l) PowerPair.zero (sumPledge l) (sumFee l) with
    | .error err => .error err
    | .ok q' => addGroups qs q' rest

/-- `add_active_sectors`: returns (queue, sector numbers, power, pledge, daily fee) -/
def addActiveSectors (qs : QuantSpec) (q : Queue) (infos : List SectorInfo) :
    Except Err (Queue × NatSet × PowerPair × Int × Int) :=
  match addGroups qs q (groupNew qs infos) with
  | .error e => .error e
  | .ok q' => .ok (q', ofList (nums infos), sumPow infos, sumPledge infos, sumFee infos)

/-! ### `find_sectors_by_expiration` -/

structure Group where
  epoch : Int
  sectors : List Nat
  power : PowerPair
  pledge : Int
  fee : Int
  es : ExpSet
  deriving Repr, Inhabited

/-- `sectors_by_number`: the last info given for a number wins -/
def infoMap (infos : List SectorInfo) : List (Nat × SectorInfo) :=
  infos.foldl (fun m i => aset i.num i m) []

def lookupInfos (m : List (Nat × SectorInfo)) (ns : List Nat) : List SectorInfo :=
  ns.filterMap (fun n => alookup n m)

/-- `group_expiration_set`: the on-time sectors of `es` that are still wanted; returns the group and
    the wanted set without them -/
def groupExpSet (m : List (Nat × SectorInfo)) (remaining : NatSet) (es : ExpSet) (epoch : Int) :
    Group × NatSet :=
  let found := es.onTime.filter (fun u => decide (u ∈ remaining))
  let infos := lookupInfos m found
  ({ epoch := epoch, sectors := found, power := sumPow infos, pledge := sumPledge infos,
     fee := sumFee infos, es := es },
   remaining.filter (fun u => !decide (u ∈ es.onTime)))

/-- sorted, duplicate-free list of epochs (`BTreeMap<ChainEpoch, bool>` keys) -/
def insertEpoch (e : Int) : List Int → List Int
  | [] => [e]
  | x :: t => if e = x then x :: t else if e < x then e :: x :: t else x :: insertEpoch e t
def declaredEpochs (qs : QuantSpec) (infos : List SectorInfo) : List Int :=
  infos.foldl (fun acc i => insertEpoch (qs.quantizeUp i.exp) acc) []

/-- first loop: the declared (quantised) expirations, in ascending order -/
def findDeclared (q : Queue) (m : List (Nat × SectorInfo)) :
    List Int → NatSet → Except Err (List Group × NatSet)
  | [], rem => .ok ([], rem)
  | e :: rest, rem =>
    match mayGet q e with
    | .error err => .error err
    | .ok es =>
      let (g, rem') := groupExpSet m rem es e
      match findDeclared q m rest rem' with
      | .error err => .error err
      | .ok (gs, rem'') => .ok (if g.sectors.isEmpty then gs else g :: gs, rem'')

/-- second loop (`for_each_while` over the whole queue), entered only with sectors remaining -/
def findTraverse (m : List (Nat × SectorInfo)) (declared : List Int) :
    Queue → NatSet → Except Err (List Group × NatSet)
  | [], rem => .ok ([], rem)
  | (e, es) :: rest, rem =>
    if e ∈ declared then findTraverse m declared rest rem
    else if es.early.any (fun u => decide (u ∈ rem)) then .error .illegalState
    else
      let (g, rem') := groupExpSet m rem es e
      if rem'.isEmpty then .ok (if g.sectors.isEmpty then [] else [g], rem')
      else match findTraverse m declared rest rem' with
        | .error err => .error err
        | .ok (gs, rem'') => .ok (if g.sectors.isEmpty then gs else g :: gs, rem'')

/-- stable insertion by epoch (the final `sort_by_key`) -/
def insertGroup (g : Group) : List Group → List Group
  | [] => [g]
  | h :: t => if g.epoch ≤ h.epoch then g :: h :: t else h :: insertGroup g t
def sortGroups (gs : List Group) : List Group := gs.foldr insertGroup []

def findSectorsByExpiration (qs : QuantSpec) (q : Queue) (infos : List SectorInfo) :
    Except Err (List Group) :=
  let m := infoMap infos
  let declared := declaredEpochs qs infos
  match findDeclared q m declared (ofList (nums infos)) with
  | .error e => .error e
  | .ok (gs1, rem1) =>
    let second : Except Err (List Group × NatSet) :=
      if rem1.isEmpty then .ok ([], rem1) else findTraverse m declared q rem1
    match second with
    | .error e => .error e
    | .ok (gs2, rem2) =>
      if !rem2.isEmpty then .error .illegalState
      else .ok (sortGroups (gs1 ++ gs2))

/-! ### `remove_active_sectors`, `reschedule_expirations`, `replace_sectors` -/

def removeGroups (qs : QuantSpec) : Queue → List Group → Except Err Queue
  | q, [] => .ok q
  | q, g :: rest =>
    match qremove qs q g.epoch (ofList g.sectors) [] g.power PowerPair.zero g.pledge g.fee with
    | .error e => .error e
    | .ok q' => removeGroups qs q' rest

def groupsSectors (gs : List Group) : List Nat := gs.flatMap (·.sectors)
def groupsPower (gs : List Group) : PowerPair :=
  ⟨sumBy (·.power.raw) gs, sumBy (·.power.qa) gs⟩
def groupsPledge (gs : List Group) : Int := sumBy (·.pledge) gs
def groupsFee (gs : List Group) : Int := sumBy (·.fee) gs

/-- returns (queue, sector numbers, power, pledge, daily fee) -/
def removeActiveSectors (qs : QuantSpec) (q : Queue) (infos : List SectorInfo) :
    Except Err (Queue × NatSet × PowerPair × Int × Int) :=
  match findSectorsByExpiration qs q infos with
  | .error e => .error e
  | .ok gs =>
    match removeGroups qs q gs with
    | .error e => .error e
    | .ok q' => .ok (q', ofList (groupsSectors gs), groupsPower gs, groupsPledge gs, groupsFee gs)

def rescheduleExpirations (qs : QuantSpec) (q : Queue) (newExp : Int) (infos : List SectorInfo) :
    Except Err Queue :=
  if infos.isEmpty then .ok q
  else match removeActiveSectors qs q infos with
    | .error e => .error e
    | .ok (q1, ns, power, pledge, fee) => qadd qs q1 newExp ns [] power PowerPair.zero pledge fee

/-- returns (queue, old numbers, new numbers, power delta, pledge delta, fee delta) -/
def replaceSectorsQ (qs : QuantSpec) (q : Queue) (old new : List SectorInfo) :
    Except Err (Queue × NatSet × NatSet × PowerPair × Int × Int) :=
  match removeActiveSectors qs q old with
  | .error e => .error e
  | .ok (q1, oldNs, oldPow, oldPledge, oldFee) =>
    match addActiveSectors qs q1 new with
    | .error e => .error e
    | .ok (q2, newNs, newPow, newPledge, newFee) =>
      .ok (q2, oldNs, newNs, newPow - oldPow, newPledge - oldPledge, newFee - oldFee)

/-! ### `reschedule_as_faults` -/

/-- accumulator of the loop: queue, rescheduled sector numbers, expiring power, rescheduled power,
    rescheduled daily fee -/
def rescheduleFaultGroups (newQ : Int) :
    Queue → List Group → Except Err (Queue × List Nat × PowerPair × PowerPair × Int)
  | q, [] => .ok (q, [], PowerPair.zero, PowerPair.zero, 0)
  | q, g :: rest =>
    let moved := !decide (g.epoch ≤ newQ)
    let es' : ExpSet :=
      if g.epoch ≤ newQ then
        -- expires on time before the fault-driven expiration: only the power becomes faulty
        { g.es with active := g.es.active - g.power, faulty := g.es.faulty + g.power }
      else
        { g.es with onTime := diff g.es.onTime (ofList g.sectors), pledge := g.es.pledge - g.pledge,
                    active := g.es.active - g.power, fee := g.es.fee - g.fee }
    match mustUpdateOrDelete q g.epoch es' with
    | .error e => .error e
    | .ok q1 =>
      match es'.validate with
      | .error e => .error e
      | .ok () =>
        match rescheduleFaultGroups newQ q1 rest with
        | .error e => .error e
        | .ok (q2, secs, expiring, resched, fee) =>
          if moved then .ok (q2, g.sectors ++ secs, expiring, g.power + resched, g.fee + fee)
          else .ok (q2, secs, g.power + expiring, resched, fee)

/-- returns (queue, power of the sectors) -/
def rescheduleAsFaults (qs : QuantSpec) (q : Queue) (newExp : Int) (infos : List SectorInfo) :
    Except Err (Queue × PowerPair) :=
  match findSectorsByExpiration qs q infos with
  | .error e => .error e
  | .ok gs =>
    match rescheduleFaultGroups (qs.quantizeUp newExp) q gs with
    | .error e => .error e
    | .ok (q1, secs, expiring, resched, fee) =>
      if secs.isEmpty then .ok (q1, resched + expiring)
      else match qadd qs q1 newExp [] (ofList secs) PowerPair.zero resched 0 fee with
        | .error e => .error e
        | .ok q2 => .ok (q2, resched + expiring)

/-! ### `reschedule_all_as_faults` -/

/-- the `for_each` + write-back of `reschedule_all_as_faults` as one walk over the (ascending) AMT:
    entries at or before the quantised fault expiration turn all their power faulty (the Rust
    collects the mutated sets and writes them back with `must_update` under their own keys — an
    in-place replacement — and validates each); later entries are dropped from the queue (the Rust
    `batch_delete`s their keys at the end, which commutes with the intervening `add` under the
    earlier key) and aggregated; an error if one of them has early sectors.
    Returns (kept entries, dropped epochs, their on-time sectors, their power, their fee). -/
def allFaultsWalk (faultQ : Int) :
    Queue → Except Err (Queue × List Int × NatSet × PowerPair × Int)
  | [] => .ok ([], [], [], PowerPair.zero, 0)
  | (e, es) :: rest =>
    if e ≤ faultQ then
      let es' : ExpSet := { es with faulty := es.faulty + es.active, active := PowerPair.zero }
      match allFaultsWalk faultQ rest with
      | .error err => .error err
      | .ok (kept, eps, secs, pow, fee) =>
        match es'.validate with
        | .error err => .error err
        | .ok () => .ok ((e, es') :: kept, eps, secs, pow, fee)
    else if !es.early.isEmpty then .error .illegalState
    else
      match allFaultsWalk faultQ rest with
      | .error err => .error err
      | .ok (kept, eps, secs, pow, fee) =>
        .ok (kept, e :: eps, union es.onTime secs, (es.active + es.faulty) + pow, es.fee + fee)

def rescheduleAllAsFaults (qs : QuantSpec) (q : Queue) (faultExp : Int) : Except Err Queue :=
  match allFaultsWalk (qs.quantizeUp faultExp) q with
  | .error e => .error e
  | .ok (kept, eps, secs, pow, fee) =>
    if eps.isEmpty then .ok kept
    else qadd qs kept faultExp [] secs PowerPair.zero pow 0 fee

/-! ### `reschedule_recovered` -/

/-- the `iter_while_mut` traversal: per entry, wanted on-time sectors turn their power active,
    wanted early sectors are taken out for re-scheduling.  (The Rust skips the write-back when
    nothing was found; writing back unchanged values is the same.)  Entries left empty are deleted.
    Returns (queue, remaining, sectors to reschedule, recovered power). -/
def recoverEntry (m : List (Nat × SectorInfo)) (es : ExpSet) (rem : NatSet) :
    ExpSet × NatSet × List SectorInfo × PowerPair :=
  let onHit := es.onTime.filter (fun u => decide (u ∈ rem))
  let rem1 := rem.filter (fun u => !decide (u ∈ es.onTime))
  let earlyHit := es.early.filter (fun u => decide (u ∈ rem1))
  let rem2 := rem1.filter (fun u => !decide (u ∈ es.early))
  let onInfos := lookupInfos m onHit
  let earlyInfos := lookupInfos m earlyHit
  ({ es with
      active := es.active + sumPow onInfos
      faulty := es.faulty - sumPow onInfos - sumPow earlyInfos
      fee := es.fee - sumFee earlyInfos
      early := diff es.early earlyHit },
   rem2, earlyInfos, sumPow onInfos + sumPow earlyInfos)

def recoverTraverse (m : List (Nat × SectorInfo)) :
    Queue → NatSet → Except Err (Queue × NatSet × List SectorInfo × PowerPair)
  | [], rem => .ok ([], rem, [], PowerPair.zero)
  | (e, es) :: rest, rem =>
    match recoverEntry m es rem with
    | (es', rem2, earlyInfos, recovered) =>
      match es'.validate with
      | .error err => .error err
      | .ok () =>
        if rem2.isEmpty then
          .ok (if es'.isEmpty then rest else (e, es') :: rest, rem2, earlyInfos, recovered)
        else match recoverTraverse m rest rem2 with
          | .error err => .error err
          | .ok (q', rem', resched, pow) =>
            .ok (if es'.isEmpty then q' else (e, es') :: q', rem', earlyInfos ++ resched,
                 recovered + pow)

/-- returns (queue, recovered power) -/
def rescheduleRecovered (qs : QuantSpec) (q : Queue) (infos : List SectorInfo) :
    Except Err (Queue × PowerPair) :=
  let m := infoMap infos
  match recoverTraverse m q (ofList (nums infos)) with
  | .error e => .error e
  | .ok (q1, rem, resched, pow) =>
    if !rem.isEmpty then .error .illegalState
    else match addActiveSectors qs q1 resched with
      | .error e => .error e
      | .ok (q2, _, _, _, _) => .ok (q2, pow)

/-! ### `remove_sectors` -/

/-- state of the inner `for sector in &faulty_sectors` loop on one entry -/
structure RemAcc where
  es : ExpSet
  removed : ExpSet
  recovering : PowerPair
  remaining : NatSet
  deriving Repr, Inhabited

/-- one faulty sector against one entry (`onSnap`/`earlySnap`: the entry's sets as expanded before
    the loop).  Every sector in this loop is in the fault set, so the `else` arm of
    `if faults_map.contains(..)` is dead and not modelled. -/
def removeFaultyOne (onSnap earlySnap recovering : NatSet) (a : RemAcc) (i : SectorInfo) : RemAcc :=
  let n := i.num
  let found := decide (n ∈ onSnap) || decide (n ∈ earlySnap)
  let a1 : RemAcc :=
    if n ∈ onSnap then
      { a with es := { a.es with onTime := diff a.es.onTime [n], pledge := a.es.pledge - i.pledge }
               removed := { a.removed with onTime := union a.removed.onTime [n],
                                           pledge := a.removed.pledge + i.pledge } }
    else if n ∈ earlySnap then
      { a with es := { a.es with early := diff a.es.early [n] }
               removed := { a.removed with early := union a.removed.early [n] } }
    else a
  if found then
    { es := { a1.es with faulty := a1.es.faulty - i.power, fee := a1.es.fee - i.fee }
      removed := { a1.removed with faulty := a1.removed.faulty + i.power,
                                   fee := a1.removed.fee + i.fee }
      recovering := if n ∈ recovering then a1.recovering + i.power else a1.recovering
      remaining := diff a1.remaining [n] }
  else a1

/-- the `iter_while_mut` traversal of `remove_sectors` (always visits the first entry) -/
def removeFaultyTraverse (faulty : List SectorInfo) (recovering : NatSet) :
    Queue → ExpSet → PowerPair → NatSet → Except Err (Queue × ExpSet × PowerPair × NatSet)
  | [], removed, rp, rem => .ok ([], removed, rp, rem)
  | (e, es) :: rest, removed, rp, rem =>
    let a := faulty.foldl (removeFaultyOne es.onTime es.early recovering)
      { es := es, removed := removed, recovering := rp, remaining := rem }
    match a.es.validate with
    | .error err => .error err
    | .ok () =>
      if a.remaining.isEmpty then
        .ok (if a.es.isEmpty then rest else (e, a.es) :: rest, a.removed, a.recovering, a.remaining)
      else match removeFaultyTraverse faulty recovering rest a.removed a.recovering a.remaining with
        | .error err => .error err
        | .ok (q', removed', rp', rem') =>
          .ok (if a.es.isEmpty then q' else (e, a.es) :: q', removed', rp', rem')

/-- returns (queue, removed, recovering power).  `bounded_iter` limits (25000 / 10000 sectors) are
    not modelled. -/
def removeSectors (qs : QuantSpec) (q : Queue) (infos : List SectorInfo) (faults recovering : NatSet) :
    Except Err (Queue × ExpSet × PowerPair) :=
  let nonFaulty := infos.filter (fun i => !decide (i.num ∈ faults))
  let faulty := infos.filter (fun i => decide (i.num ∈ faults))
  let remaining := ofList (nums faulty)
  match removeActiveSectors qs q nonFaulty with
  | .error e => .error e
  | .ok (q1, ns, power, pledge, fee) =>
    let removed0 : ExpSet := { onTime := ns, active := power, pledge := pledge, fee := fee }
    match removeFaultyTraverse faulty recovering q1 removed0 PowerPair.zero remaining with
    | .error e => .error e
    | .ok (q2, removed, rp, rem) =>
      if !rem.isEmpty then .error .illegalState else .ok (q2, removed, rp)

/-! ### `pop_until` -/

/-- returns (rest of the queue, aggregate of the popped entries) -/
def popUntil (untilE : Int) : Queue → Queue × ExpSet
  | [] => ([], ExpSet.empty)
  | (e, es) :: rest =>
    if e > untilE then ((e, es) :: rest, ExpSet.empty)
    else
      let (q', agg) := popUntil untilE rest
      (q', { onTime := union es.onTime agg.onTime, early := union es.early agg.early,
             pledge := es.pledge + agg.pledge, active := es.active + agg.active,
             faulty := es.faulty + agg.faulty, fee := es.fee + agg.fee })

/-! ### BitFieldQueue with NO_QUANTIZATION (early terminations) -/

abbrev BfQueue := List (Int × NatSet)

def bfGet (k : Int) : BfQueue → Option NatSet
  | [] => none
  | (e, v) :: t => if e = k then some v else bfGet k t
def bfSet (k : Int) (v : NatSet) : BfQueue → BfQueue
  | [] => [(k, v)]
  | (e, w) :: t =>
    if e = k then (k, v) :: t else if k < e then (k, v) :: (e, w) :: t else (e, w) :: bfSet k v t

/-- `BitFieldQueue::add_to_queue` with unit 1, offset 0 -/
def bfAdd (q : BfQueue) (epoch : Int) (values : NatSet) : Except Err BfQueue :=
  if values.isEmpty then .ok q
  else if epoch < 0 then .error .illegalArgument
  else .ok (bfSet epoch (union ((bfGet epoch q).getD []) values) q)

end BA.Sector
