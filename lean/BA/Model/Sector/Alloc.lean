/-
  Model of `State::allocate_sector_numbers` (actors/miner/src/state.rs): the allocated-sectors
  bitfield and the collision policy.
-/
import BA.Model.NatSet

namespace BA.Sector.Alloc
open BA BA.NatSet

inductive CollisionPolicy where
  | allowCollisions | denyCollisions
  deriving Repr, DecidableEq, Inhabited

/-- `allocate_sector_numbers(sector_numbers, policy)` on the bitfield `allocated` -/
def allocate (allocated : NatSet) (sectorNos : NatSet) (policy : CollisionPolicy) :
    Except Err NatSet :=
  if policy ≠ .allowCollisions ∧ !(inter allocated sectorNos).isEmpty then .error .illegalArgument
  else .ok (union allocated sectorNos)

/-- a history of allocation calls; a failing call changes nothing -/
def run (allocated : NatSet) : List (NatSet × CollisionPolicy) → NatSet
  | [] => allocated
  | (ns, pol) :: rest =>
    match allocate allocated ns pol with
    | .ok a => run a rest
    | .error _ => run allocated rest

end BA.Sector.Alloc
