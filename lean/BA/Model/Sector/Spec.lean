/-
  Level 1 (abstract specification) of a partition: every sector has exactly ONE status, and every
  summary is DEFINED as the sum recomputed from the sector table over the sectors of the relevant
  statuses — there are no memos at this level.  `abs` is the abstraction map from the concrete
  partition (five bitfields) to this level.
-/
import BA.Model.Sector.Partition

namespace BA.Sector
open BA BA.NatSet

/-- the weight `w` of sector `n` according to the table (0 for a sector the table does not know) -/
def tw (tbl : Table) (w : SectorInfo → Int) (n : Nat) : Int :=
  match alookup n tbl with
  | some i => w i
  | none => 0

/-- Σ power over a set of sector numbers, recomputed from the table -/
def powOf (tbl : Table) (s : NatSet) : PowerPair :=
  ⟨sumBy (tw tbl (·.raw)) s, sumBy (tw tbl (·.qa)) s⟩

namespace Spec

inductive Status where
  | unproven | active | faulty | recovering | terminated
  deriving Repr, DecidableEq, Inhabited

/-- sector number ↦ status (an association list with distinct keys) -/
structure State where
  secs : List (Nat × Status) := []
  deriving Repr, Inhabited

def statusOf (s : State) (n : Nat) : Option Status := alookup n s.secs

/-- the sectors whose status satisfies `f` -/
def withStatus (f : Status → Bool) (s : State) : NatSet :=
  s.secs.filterMap (fun x => if f x.2 then some x.1 else none)

def isLive : Status → Bool | .terminated => false | _ => true
def isFaulty : Status → Bool | .faulty => true | .recovering => true | _ => false
def isRecovering : Status → Bool | .recovering => true | _ => false
def isUnproven : Status → Bool | .unproven => true | _ => false
def isActive : Status → Bool | .active => true | _ => false

/-! summaries, recomputed -/
def livePower (tbl : Table) (s : State) : PowerPair := powOf tbl (withStatus isLive s)
def unprovenPower (tbl : Table) (s : State) : PowerPair := powOf tbl (withStatus isUnproven s)
def faultyPower (tbl : Table) (s : State) : PowerPair := powOf tbl (withStatus isFaulty s)
def recoveringPower (tbl : Table) (s : State) : PowerPair := powOf tbl (withStatus isRecovering s)
/-- the power the network credits: sectors that are live, proven and not faulty -/
def activePower (tbl : Table) (s : State) : PowerPair := powOf tbl (withStatus isActive s)

/-! operations of the protocol on statuses -/

def keys (s : State) : List Nat := s.secs.map (·.1)
def mapStatus (f : Nat → Status → Status) (s : State) : State :=
  { secs := s.secs.map (fun x => (x.1, f x.1 x.2)) }

def addSectors (proven : Bool) (ns : NatSet) (s : State) : Except Err State :=
  if ns.any (fun n => decide (n ∈ keys s)) then .error .illegalState
  else .ok { secs := s.secs ++ ns.map (fun n => (n, if proven then Status.active else Status.unproven)) }

/-- declared or detected faults: live non-faulty sectors and recovering ones become faulty -/
def recordFaults (ns : NatSet) (s : State) : Except Err State :=
  if !ns.all (fun n => decide (n ∈ keys s)) then .error .illegalArgument
  else .ok (mapStatus (fun n st => if n ∈ ns then
      match st with
      | .unproven | .active | .recovering => .faulty
      | x => x
    else st) s)

def declareFaultsRecovered (ns : NatSet) (s : State) : Except Err State :=
  if !ns.all (fun n => decide (n ∈ keys s)) then .error .illegalArgument
  else .ok (mapStatus (fun n st => if n ∈ ns ∧ st = .faulty then .recovering else st) s)

/-- a Window PoSt proves the declared recoveries -/
def recoverFaultyPower (s : State) : State :=
  mapStatus (fun _ st => if st = .recovering then .active else st) s

/-- the first Window PoSt covering a sector proves it -/
def activateUnproven (s : State) : State :=
  mapStatus (fun _ st => if st = .unproven then .active else st) s

/-- a deadline closes without a proof: everything live is faulty -/
def recordMissedPost (s : State) : State :=
  mapStatus (fun _ st => if st = .terminated then .terminated else .faulty) s

def terminateSectors (ns : NatSet) (s : State) : Except Err State :=
  if !ns.all (fun n => decide ((statusOf s n).any isLive)) then .error .illegalArgument
  else .ok (mapStatus (fun n st => if n ∈ ns then .terminated else st) s)

/-- the sectors `expired` (those the schedule says are due) terminate; refused while sectors are
    unproven or recovering -/
def popExpiredSectors (expired : NatSet) (s : State) : Except Err State :=
  if !(withStatus isUnproven s).isEmpty then .error .illegalState
  else if !(withStatus isRecovering s).isEmpty then .error .illegalState
  else if expired.any (fun n => decide (statusOf s n = some .terminated)) then .error .illegalState
  else .ok (mapStatus (fun n st => if n ∈ expired then .terminated else st) s)

end Spec

/-! ### abstraction map Level 2 → Level 1 -/

/-- the status a concrete partition gives a sector number -/
def Partition.statusOf (p : Partition) (n : Nat) : Spec.Status :=
  if n ∈ p.terminated then .terminated
  else if n ∈ p.recoveries then .recovering
  else if n ∈ p.faults then .faulty
  else if n ∈ p.unproven then .unproven
  else .active

def Partition.abs (p : Partition) : Spec.State :=
  { secs := p.sectors.map (fun n => (n, p.statusOf n)) }

end BA.Sector
