/-
  Reward actor, `award_block_reward` (actors/reward/src/lib.rs): what a block award takes out of the
  reward actor's balance, what it records, and where the funds end up.
-/
import BA.Prelude
import BA.Generated.Constants

namespace BA.Reward
open BA

/-- where the awarded funds ended up -/
inductive Dest where
  /-- `ApplyRewards` on the miner succeeded -/
  | miner
  /-- the miner refused; the funds were sent to the burnt-funds actor -/
  | burnt
  /-- both sends failed: the funds stay with the reward actor (the message still succeeds) -/
  | kept
  deriving Repr, DecidableEq, Inhabited

structure Out where
  /-- value attached to the `ApplyRewards` send (= gas reward + block reward, capped) -/
  total : Int
  /-- added to `total_storage_power_reward` -/
  blockReward : Int
  /-- the `penalty` parameter passed on to the miner -/
  penalty : Int
  dest : Dest
  deriving Repr, DecidableEq, Inhabited

/-- `award_block_reward`.  `balance` = the actor's balance when the message arrives (no value comes
    with it), `reward` = `this_epoch_reward`; `callerIsSystem`, `resolves` (the miner address
    resolves), `minerOk` / `burnOk` (the two sends succeed) are the environment. -/
def award (callerIsSystem : Bool) (balance penalty gasReward reward winCount : Int)
    (resolves minerOk burnOk : Bool) : Except Err Out :=
  if !callerIsSystem then .error .forbidden
  else if penalty < 0 then .error .illegalArgument
  else if gasReward < 0 then .error .illegalArgument
  else if balance < gasReward then .error .illegalState
  else if winCount ≤ 0 then .error .illegalArgument
  else if !resolves then .error .notFound
  else
    let blockReward := (reward * winCount) / BA.Gen.expectedLeadersPerEpoch
    let total := gasReward + blockReward
    let capped := total > balance
    let total' := if capped then balance else total
    let blockReward' := if capped then balance - gasReward else blockReward
    if capped ∧ blockReward' < 0 then .error .illegalState
    else if total' > balance then .error .illegalState
    else .ok { total := total', blockReward := blockReward',
               penalty := penalty * BA.Gen.rewardPenaltyMultiplier,
               dest := if minerOk then .miner else if burnOk then .burnt else .kept }

/-- what leaves the reward actor's balance -/
def Out.paidOut (o : Out) : Int := match o.dest with | .kept => 0 | _ => o.total

end BA.Reward
