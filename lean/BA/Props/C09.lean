/-
  C09 — DataCap is conserved and each allocation is spent exactly once.
  Property theorems over the registry + token system model `BA.Verifreg` / `BA.Datacap`
  (actors/verifreg/src/lib.rs, actors/datacap/src/lib.rs over an ideal frc46 ledger).
-/
import BA.Lemmas.Verifreg
import BA.Lemmas.VerifregInv

namespace BA.Verifreg
open BA

/-! ### The token ledger: supply = Σ balances = minted − burnt, in every reachable state -/

theorem step_dcstep (s : Sys) (op : Op) : ∃ dm, DcStepM s (step s op).1 dm := by
  unfold step
  cases h : exec s op with
  | error e => exact ⟨0, DcStep.refl _⟩
  | ok p => obtain ⟨s', r⟩ := p; obtain ⟨dm, hd, _⟩ := exec_dcstep _ _ _ _ h; exact ⟨dm, hd⟩

theorem run_inv (ops : List Op) : ∀ s, Datacap.Inv s.dc → Datacap.Inv (run s ops).dc := by
  induction ops with
  | nil => intro s h; exact h
  | cons op rest ih =>
    intro s h
    obtain ⟨_, hd⟩ := step_dcstep s op
    exact ih _ (hd.inv h)

/-- **In every reachable state the DataCap supply equals the sum of all holders' balances**
    (any history of grants, transfers with allocation / extension requests, claim batches,
    expirations, removals, burns, allowance changes, by any callers). -/
theorem supply_eq_sum_balances (root : Nat) (actors : List (Nat × Kind)) (ops : List Op) :
    (run (init root actors) ops).dc.supply
      = isum (Datacap.vals (run (init root actors) ops).dc.balances) :=
  (run_inv ops _ (Datacap.inv_init _)).sum

/-- **In every reachable state the supply equals everything ever minted minus everything ever
    burnt** (`minted` / `burnt` are ghost counters bumped by exactly the amount of each successful
    mint / burn of the ledger). -/
theorem supply_eq_minted_minus_burnt (root : Nat) (actors : List (Nat × Kind)) (ops : List Op) :
    (run (init root actors) ops).dc.supply
      = (run (init root actors) ops).dc.minted - (run (init root actors) ops).dc.burnt :=
  (run_inv ops _ (Datacap.inv_init _)).ghost

/-- **Only the governor mints or destroys**: a `Mint` or `Destroy` message is accepted only from
    the governor (the registry), and a message changes the total ever minted only if it is a
    verifier's grant (`AddVerifiedClient`, where the registry itself mints) or a `Mint` sent by
    the governor. -/
theorem only_governor_mints (s : Sys) (op : Op) :
    (∀ e c to a s', dcMint s e c to a [] = .ok s' → c = s.dc.governor) ∧
    (∀ c o a s', dcDestroy s c o a = .ok s' → c = s.dc.governor) ∧
    ((step s op).1.dc.minted ≠ s.dc.minted →
      (∃ e c cl a, op = .addClient e c cl a) ∨ (∃ e to a, op = .mint e s.dc.governor to a)) := by
  refine ⟨fun e c to a s' h => (dcMint_dcstep _ _ _ _ _ _ _ h).1,
          fun c o a s' h => (dcDestroy_dcstep _ _ _ _ _ h).1, ?_⟩
  unfold step
  cases h : exec s op with
  | error e => intro hne; exact absurd rfl hne
  | ok p =>
    obtain ⟨s', r⟩ := p
    obtain ⟨dm, hd, hm⟩ := exec_dcstep _ _ _ _ h
    intro hne
    apply hm
    intro h0
    apply hne
    simp only
    rw [hd.minted, h0]; omega

/-- the governor of the token is the registry, forever -/
theorem governor_is_registry (root : Nat) (actors : List (Nat × Kind)) (ops : List Op) :
    (run (init root actors) ops).dc.governor = verifregId := by
  suffices ∀ s : Sys, s.dc.governor = verifregId → (run s ops).dc.governor = verifregId from
    this _ rfl
  induction ops with
  | nil => intro s h; exact h
  | cons op rest ih =>
    intro s h
    obtain ⟨_, hd⟩ := step_dcstep s op
    exact ih _ (hd.gov.trans h)

/-! ### A verifier's allowance decreases by exactly what it grants -/

/-- **A grant is exact**: `AddVerifiedClient` succeeds only for a caller that is a verifier whose
    remaining allowance covers the grant; afterwards that verifier's allowance is lower by exactly
    the grant, every other verifier's allowance is unchanged, the client's token balance and the
    supply are higher by exactly the grant (in token units), and nothing else of the registry
    changed. -/
theorem verifier_allowance_exact (s : Sys) (epoch : Int) (caller client : Nat) (allowance : Int)
    (s' : Sys) (h : addClient s epoch caller client allowance = .ok s') :
    ∃ cap, alookup caller s.vr.verifiers = some cap ∧ allowance ≤ cap ∧
      BA.Gen.verifregMinAllocSize ≤ allowance ∧
      alookup caller s'.vr.verifiers = some (cap - allowance) ∧
      (∀ v, v ≠ caller → alookup v s'.vr.verifiers = alookup v s.vr.verifiers) ∧
      Datacap.bal s'.dc client = Datacap.bal s.dc client + allowance * Datacap.precision ∧
      (∀ x, x ≠ client → Datacap.bal s'.dc x = Datacap.bal s.dc x) ∧
      s'.dc.supply = s.dc.supply + allowance * Datacap.precision ∧
      s'.vr.allocs = s.vr.allocs ∧ s'.vr.claims = s.vr.claims := by
  unfold addClient at h
  simp only [guard_ok] at h
  obtain ⟨h1, _, _, h⟩ := h
  cases hl : alookup caller s.vr.verifiers with
  | none => simp [hl] at h
  | some cap =>
    simp only [hl, guard_ok] at h
    obtain ⟨_, h2, h⟩ := h
    obtain ⟨_, _, hvr, _, m⟩ := dcMint_spec _ _ _ _ _ _ _ h
    refine ⟨cap, rfl, by omega, by simpa [minAllocSize] using h1, ?_, ?_, ?_, ?_, ?_, ?_, ?_⟩
    · rw [hvr]; simp
    · intro v hv; rw [hvr]; simp only; exact alookup_aset_other _ _ _ _ hv
    · have := m.bal client; simp only [if_true, toTokens] at this; simpa using this
    · intro x hx; have := m.bal x; simp only [hx, if_false] at this; simpa using this
    · have := m.supply; simp only [toTokens] at this; simpa using this
    · rw [hvr]
    · rw [hvr]

/-- verifiers are added and removed by the root key only -/
theorem verifiers_set_by_root_only (s : Sys) (caller addr : Nat) (allowance : Int) (s' : Sys) :
    (addVerifier s caller addr allowance = .ok s' → caller = s.vr.root ∧ s'.dc = s.dc) ∧
    (removeVerifier s caller addr = .ok s' → caller = s.vr.root ∧ s'.dc = s.dc) :=
  ⟨fun h => ⟨(addVerifier_spec _ _ _ _ _ h).1, (addVerifier_spec _ _ _ _ _ h).2.1⟩,
   fun h => ⟨(removeVerifier_spec _ _ _ _ h).1, (removeVerifier_spec _ _ _ _ h).2.1⟩⟩

/-! ### The registry's balance backs the unclaimed allocations; each allocation ends once -/

theorem step_rinv (s : Sys) (op : Op) (hi : RInv s) (hw : op.external) : RInv (step s op).1 := by
  unfold step
  cases h : exec s op with
  | error e => exact hi
  | ok p => obtain ⟨s', r⟩ := p; exact exec_rinv _ _ _ _ hi hw h

theorem run_rinv (ops : List Op) (hw : ∀ op ∈ ops, op.external) : ∀ s, RInv s → RInv (run s ops) := by
  induction ops with
  | nil => intro s h; exact h
  | cons op rest ih =>
    intro s h
    exact ih (fun o ho => hw o (by simp [ho])) _ (step_rinv s op h (hw op (by simp)))

/-- **In every reachable state the registry's own DataCap balance equals the total size of the
    unclaimed allocations** (in token units: size × 10^18), for every history of messages whose
    external senders are not the registry actor itself. -/
theorem registry_balance_eq_allocs (root : Nat) (actors : List (Nat × Kind)) (ops : List Op)
    (hw : ∀ op ∈ ops, op.external) :
    Datacap.bal (run (init root actors) ops).dc verifregId
      = isum (allocSizes (run (init root actors) ops).vr.allocs) * 1000000000000000000 := by
  have := (run_rinv ops hw _ (rinv_init root actors)).reg
  simpa [toTokens, Datacap.precision, BA.Gen.datacapTokenPrecision] using this

/-- **Each allocation ends at most once, never both ways, and its id is never live again**: in
    every reachable state the ids recorded as claimed and the ids recorded as refunded (ghost logs
    appended by `ClaimAllocations` / `RemoveExpiredAllocations`) have no duplicates, are disjoint,
    are all below `next_allocation_id` (from which every new id is drawn upwards), and none of
    them is in the allocations table; the table's keys are distinct and below the counter. -/
theorem alloc_ends_once (root : Nat) (actors : List (Nat × Kind)) (ops : List Op)
    (hw : ∀ op ∈ ops, op.external) :
    let s := run (init root actors) ops
    s.vr.claimedIds.Nodup ∧ s.vr.refundedIds.Nodup ∧
    (∀ id ∈ s.vr.claimedIds, id ∉ s.vr.refundedIds) ∧
    (∀ id, id ∈ s.vr.claimedIds ∨ id ∈ s.vr.refundedIds →
        id < s.vr.nextAllocId ∧ alookup id s.vr.allocs = none) ∧
    (keys s.vr.allocs).Nodup ∧ (∀ id ∈ keys s.vr.allocs, id < s.vr.nextAllocId) := by
  intro s
  have hi := run_rinv ops hw _ (rinv_init root actors)
  refine ⟨hi.claimedNodup, hi.refundedNodup, hi.disjoint, ?_, hi.nodup, hi.lt⟩
  intro id hid
  cases hid with
  | inl h =>
    refine ⟨hi.claimedLt id h, ?_⟩
    apply alookup_none_of_not_mem
    intro hk; exact hi.liveNotClaimed id hk h
  | inr h =>
    refine ⟨hi.refundedLt id h, ?_⟩
    apply alookup_none_of_not_mem
    intro hk; exact hi.liveNotRefunded id hk h

/-- **A claim happens only by the named provider, for the matching data, inside the allocation's
    expiration and term, and burns exactly the claimed size**: a successful `ClaimAllocations` from
    a state satisfying the invariant appends to the claimed log only ids that were live
    allocations whose provider is the caller, named by a request of the batch with the
    allocation's client, data and size, at an epoch ≤ the allocation's expiration, with the
    sector lifetime within `[term_min, term_max]`; they leave the table; the refunded log is
    untouched; and the supply drops by exactly the total size removed from the table. -/
theorem claim_spec (s : Sys) (epoch : Int) (caller : Nat) (sectors : List SectorReq) (aon : Bool)
    (s' : Sys) (r : Ret) (hi : RInv s) (h : claimAllocations s epoch caller sectors aon = .ok (s', r)) :
    ∃ newIds total,
      s'.vr.claimedIds = s.vr.claimedIds ++ newIds ∧ s'.vr.refundedIds = s.vr.refundedIds ∧
      s'.dc.supply = s.dc.supply - total * Datacap.precision ∧
      isum (allocSizes s'.vr.allocs) + total = isum (allocSizes s.vr.allocs) ∧
      ∀ id ∈ newIds, alookup id s'.vr.allocs = none ∧
        ∃ a, alookup id s.vr.allocs = some a ∧ a.provider = caller ∧ epoch ≤ a.expiration ∧
          ∃ sr ∈ sectors, a.termMin ≤ sr.expiry - epoch ∧ sr.expiry - epoch ≤ a.termMax ∧
            ∃ cr ∈ sr.claims, cr.allocId = id ∧ cr.client = a.client ∧ cr.data = a.data ∧
              cr.size = a.size := by
  obtain ⟨_, newIds, total, h1, h2, h3, h4, h5⟩ := claimAllocations_inv _ _ _ _ _ _ _ hi h
  refine ⟨newIds, total, h1, h2, by simpa [toTokens] using h3, h4, ?_⟩
  intro id hid
  obtain ⟨hn, sr, hsr, c, a, x1, _, x3, x4, x5, x6, cr, hcr, y⟩ := h5 id hid
  exact ⟨hn, a, x1, x3, x4, sr, hsr, x5, x6, cr, hcr, y⟩

/-- **A refund happens only after expiration, to the allocation's client, of exactly its size**:
    a successful `RemoveExpiredAllocations` appends to the refunded log only live allocations of
    the named client whose expiration epoch has been reached; they leave the table; the claimed
    log and the supply are untouched and the client's balance grows by exactly the total size
    removed. -/
theorem refund_spec (s : Sys) (epoch : Int) (client : Nat) (ids : List Nat) (s' : Sys) (r : Ret)
    (hi : RInv s) (h : removeExpiredAllocations s epoch client ids = .ok (s', r)) :
    ∃ removed recovered,
      s'.vr.refundedIds = s.vr.refundedIds ++ removed ∧ s'.vr.claimedIds = s.vr.claimedIds ∧
      s'.dc.supply = s.dc.supply ∧ client ≠ verifregId ∧
      Datacap.bal s'.dc client = Datacap.bal s.dc client + recovered * Datacap.precision ∧
      isum (allocSizes s'.vr.allocs) + recovered = isum (allocSizes s.vr.allocs) ∧
      ∀ id ∈ removed, alookup id s'.vr.allocs = none ∧
        ∃ a, alookup id s.vr.allocs = some a ∧ a.client = client ∧ epoch ≥ a.expiration := by
  unfold removeExpiredAllocations at h
  simp only at h
  split at h
  · simp at h
  · rename_i allocs' recovered hrm
    split at h
    · simp at h
    · rename_i s2 r2 ht
      injection h with h; injection h with hs _; subst hs
      obtain ⟨b1, b2, b3, b4, b5⟩ := removeAllocs_spec _ _ _ _ _ hrm hi.nodup
      unfold dcTransfer at ht
      split at ht
      · simp at ht
      · rename_i dc1 h1
        simp only at h1
        obtain ⟨_, a0, a1, mv⟩ := Datacap.transferL_spec _ _ _ _ _ h1
        unfold hook at ht
        by_cases hcl : client = verifregId
        · simp [hcl, receive] at ht
        · simp only [hcl, if_false] at ht
          split at ht
          · injection ht with ht; injection ht with hs _; subst hs
            refine ⟨_, recovered, rfl, rfl, by have := mv.supply; simp only at this ⊢; omega, hcl, ?_,
              by rw [b5]; omega, ?_⟩
            · have hb := mv.bal client
              simp only [hcl, if_false, if_true] at hb
              simp only; rw [hb]; simp [toTokens]
            · intro id hid
              refine ⟨alookup_none_of_not_mem _ _ (fun hk => ((b3 id).mp hk).2 hid), ?_⟩
              have hexp : ∃ a, getAlloc s.vr.allocs client id = some a ∧ epoch ≥ a.expiration := by
                by_cases he : ids.isEmpty
                · simp only [he, if_true, successes_all_ok] at hid
                  unfold findExpiredAllocs at hid
                  obtain ⟨_, hp⟩ := List.mem_filter.mp hid
                  cases hg : getAlloc s.vr.allocs client id with
                  | none => simp [hg] at hp
                  | some a => simp [hg] at hp; exact ⟨a, rfl, hp⟩
                · simp only [he] at hid
                  exact successes_checkExpiredAllocs _ _ _ _ id hid
              obtain ⟨a, hg, he⟩ := hexp
              exact ⟨a, (getAlloc_some hg).1, (getAlloc_some hg).2, he⟩
          · simp at ht

/-! ### Non-vacuity: a concrete history -/

def exActors : List (Nat × Kind) := [(101, .account), (103, .account), (104, .account), (200, .miner)]
def exHistory : List Op :=
  [ .addVerifier 101 103 8388608,
    .addClient 5 103 104 4194304,
    .transfer 5 104 6 (2097152 * 1000000000000000000)
      (some { allocs := [⟨200, 1, 1048576, 518400, 600000, 100⟩, ⟨200, 2, 1048576, 518400, 600000, 100⟩], exts := [] }),
    .claim 6 200 [⟨7, 550000, [⟨104, 1, 1, 1048576⟩]⟩] true,
    .removeExpiredAllocs 100 104 [2] ]

/-- grant, two allocations, one claimed by the miner, the other expired and refunded -/
example :
    let s := run (init 101 exActors) exHistory
    s.vr.claimedIds = [1] ∧ s.vr.refundedIds = [2] ∧ s.vr.allocs = [] ∧
    s.dc.supply = 3145728 * 1000000000000000000 ∧ s.dc.minted = 4194304 * 1000000000000000000 ∧
    s.dc.burnt = 1048576 * 1000000000000000000 ∧ Datacap.bal s.dc 6 = 0 ∧
    alookup 103 s.vr.verifiers = some 4194304 ∧ (∀ op ∈ exHistory, op.external) := by
  refine ⟨by decide, by decide, by decide, by decide, by decide, by decide, by decide, by decide, ?_⟩
  intro op hop
  simp only [exHistory, List.mem_cons, List.mem_nil_iff, or_false] at hop
  rcases hop with h | h | h | h | h <;> subst h <;> simp [Op.external, verifregId]

end BA.Verifreg
