/-
  C09 — DataCap is conserved and each allocation is spent exactly once.
  Property theorems over the registry + token system model `BA.Verifreg` / `BA.Datacap`
  (actors/verifreg/src/lib.rs, actors/datacap/src/lib.rs over an ideal frc46 ledger).
-/
import BA.Lemmas.Verifreg

namespace BA.Verifreg
open BA

/-! ### The token ledger: supply = Σ balances = minted − burnt, in every reachable state -/

theorem step_dcstep (s : Sys) (op : Op) : ∃ dm, DcStepM s (step s op).1 dm := by
  unfold step
  cases h : exec s op with
  | error e => exact ⟨0, DcStep.refl _⟩
  | ok p => obtain ⟨s', r⟩ := p; obtain ⟨dm, hd, _⟩ := exec_dcstep _ _ _ _ h; exact ⟨dm, hd⟩

theorem run_inv (ops : List Op) : ∀ s, Datacap.Inv s.dc → Datacap.Inv (run s ops).dc := by
  induction ops with
  | nil => intro s h; exact h
  | cons op rest ih =>
    intro s h
    obtain ⟨_, hd⟩ := step_dcstep s op
    exact ih _ (hd.inv h)

/-- **In every reachable state the DataCap supply equals the sum of all holders' balances**
    (any history of grants, transfers with allocation / extension requests, claim batches,
    expirations, removals, burns, allowance changes, by any callers). -/
theorem supply_eq_sum_balances (root : Nat) (actors : List (Nat × Kind)) (ops : List Op) :
    (run (init root actors) ops).dc.supply
      = isum (Datacap.vals (run (init root actors) ops).dc.balances) :=
  (run_inv ops _ (Datacap.inv_init _)).sum

/-- **In every reachable state the supply equals everything ever minted minus everything ever
    burnt** (`minted` / `burnt` are ghost counters bumped by exactly the amount of each successful
    mint / burn of the ledger). -/
theorem supply_eq_minted_minus_burnt (root : Nat) (actors : List (Nat × Kind)) (ops : List Op) :
    (run (init root actors) ops).dc.supply
      = (run (init root actors) ops).dc.minted - (run (init root actors) ops).dc.burnt :=
  (run_inv ops _ (Datacap.inv_init _)).ghost

/-- **Only the governor mints or destroys**: a `Mint` or `Destroy` message is accepted only from
    the governor (the registry), and a message changes the total ever minted only if it is a
    verifier's grant (`AddVerifiedClient`, where the registry itself mints) or a `Mint` sent by
    the governor. -/
theorem only_governor_mints (s : Sys) (op : Op) :
    (∀ e c to a s', dcMint s e c to a [] = .ok s' → c = s.dc.governor) ∧
    (∀ c o a s', dcDestroy s c o a = .ok s' → c = s.dc.governor) ∧
    ((step s op).1.dc.minted ≠ s.dc.minted →
      (∃ e c cl a, op = .addClient e c cl a) ∨ (∃ e to a, op = .mint e s.dc.governor to a)) := by
  refine ⟨fun e c to a s' h => (dcMint_dcstep _ _ _ _ _ _ _ h).1,
          fun c o a s' h => (dcDestroy_dcstep _ _ _ _ _ h).1, ?_⟩
  unfold step
  cases h : exec s op with
  | error e => intro hne; exact absurd rfl hne
  | ok p =>
    obtain ⟨s', r⟩ := p
    obtain ⟨dm, hd, hm⟩ := exec_dcstep _ _ _ _ h
    intro hne
    apply hm
    intro h0
    apply hne
    simp only
    rw [hd.minted, h0]; omega

/-- the governor of the token is the registry, forever -/
theorem governor_is_registry (root : Nat) (actors : List (Nat × Kind)) (ops : List Op) :
    (run (init root actors) ops).dc.governor = verifregId := by
  suffices ∀ s : Sys, s.dc.governor = verifregId → (run s ops).dc.governor = verifregId from
    this _ rfl
  induction ops with
  | nil => intro s h; exact h
  | cons op rest ih =>
    intro s h
    obtain ⟨_, hd⟩ := step_dcstep s op
    exact ih _ (hd.gov.trans h)

/-! ### A verifier's allowance decreases by exactly what it grants -/

/-- **A grant is exact**: `AddVerifiedClient` succeeds only for a caller that is a verifier whose
    remaining allowance covers the grant; afterwards that verifier's allowance is lower by exactly
    the grant, every other verifier's allowance is unchanged, the client's token balance and the
    supply are higher by exactly the grant (in token units), and nothing else of the registry
    changed. -/
theorem verifier_allowance_exact (s : Sys) (epoch : Int) (caller client : Nat) (allowance : Int)
    (s' : Sys) (h : addClient s epoch caller client allowance = .ok s') :
    ∃ cap, alookup caller s.vr.verifiers = some cap ∧ allowance ≤ cap ∧
      BA.Gen.verifregMinAllocSize ≤ allowance ∧
      alookup caller s'.vr.verifiers = some (cap - allowance) ∧
      (∀ v, v ≠ caller → alookup v s'.vr.verifiers = alookup v s.vr.verifiers) ∧
      Datacap.bal s'.dc client = Datacap.bal s.dc client + allowance * Datacap.precision ∧
      (∀ x, x ≠ client → Datacap.bal s'.dc x = Datacap.bal s.dc x) ∧
      s'.dc.supply = s.dc.supply + allowance * Datacap.precision ∧
      s'.vr.allocs = s.vr.allocs ∧ s'.vr.claims = s.vr.claims := by
  unfold addClient at h
  simp only [guard_ok] at h
  obtain ⟨h1, _, _, h⟩ := h
  cases hl : alookup caller s.vr.verifiers with
  | none => simp [hl] at h
  | some cap =>
    simp only [hl, guard_ok] at h
    obtain ⟨_, h2, h⟩ := h
    obtain ⟨_, _, hvr, _, m⟩ := dcMint_spec _ _ _ _ _ _ _ h
    refine ⟨cap, rfl, by omega, by simpa [minAllocSize] using h1, ?_, ?_, ?_, ?_, ?_, ?_, ?_⟩
    · rw [hvr]; simp
    · intro v hv; rw [hvr]; simp only; exact alookup_aset_other _ _ _ _ hv
    · have := m.bal client; simp only [if_true, toTokens] at this; simpa using this
    · intro x hx; have := m.bal x; simp only [hx, if_false] at this; simpa using this
    · have := m.supply; simp only [toTokens] at this; simpa using this
    · rw [hvr]
    · rw [hvr]

/-- verifiers are added and removed by the root key only -/
theorem verifiers_set_by_root_only (s : Sys) (caller addr : Nat) (allowance : Int) (s' : Sys) :
    (addVerifier s caller addr allowance = .ok s' → caller = s.vr.root ∧ s'.dc = s.dc) ∧
    (removeVerifier s caller addr = .ok s' → caller = s.vr.root ∧ s'.dc = s.dc) :=
  ⟨fun h => ⟨(addVerifier_spec _ _ _ _ _ h).1, (addVerifier_spec _ _ _ _ _ h).2.1⟩,
   fun h => ⟨(removeVerifier_spec _ _ _ _ h).1, (removeVerifier_spec _ _ _ _ h).2.1⟩⟩

end BA.Verifreg
