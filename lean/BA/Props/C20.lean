/-
  C20 — Actor identities are unique, stable and derived as specified.
  Property theorems over the models `BA.Init` (init actor, runtime `create_actor`, auto-creating
  sends) and `BA.Eam` (EAM, EVM CREATE/CREATE2/SELFDESTRUCT), for all worlds, inputs and histories.

  Standing assumption (stated, never used as an axiom): Keccak-256 is collision resistant, so
  distinct pre-images (`rlp_create_injective`, `create2_preimage_injective`) give distinct
  addresses in practice.  No theorem below depends on any value of `keccak256`.
-/
import BA.Lemmas.Eam
import BA.Lemmas.Rlp

namespace BA.Eam
open BA BA.Init BA.Evm

/-! ### fresh ids -/

/-- **fresh_id (Exec)**: an id returned by `Exec` is the old `next_id`, `next_id` moves on by
    exactly one, and the robust address — unmapped before — maps to the new id. -/
theorem fresh_id_exec (w : World) (msg caller : Nat) (code : Kind) (robust : Bytes) (ctor : Ctor)
    (w' : World) (id : Nat) (h : exec w msg caller code robust ctor = .ok (w', id)) :
    id = w.nextId ∧ w'.nextId = w.nextId + 1 ∧
    klookup robust w.addrMap = none ∧ klookup robust w'.addrMap = some id := by
  obtain ⟨_, h1, h2, h3, h4, _⟩ := exec_spec _ _ _ _ _ _ _ _ h
  exact ⟨h1, h2, h3, h4⟩

/-- **fresh_id (Exec4)**: for a delegated address that is not mapped yet, `Exec4` returns the old
    `next_id`, moves `next_id` on by one and maps both the robust and the delegated address to
    it.  For a mapped one it returns the mapped id, which must hold a placeholder, and allocates
    nothing. -/
theorem fresh_id_exec4 (w : World) (msg caller : Nat) (sub : Bytes) (code : Kind) (robust : Bytes)
    (ctor : Ctor) (w' : World) (id : Nat)
    (h : exec4 w msg caller sub code robust ctor = .ok (w', id)) :
    (klookup (delegatedKey caller sub) w.addrMap = none → id = w.nextId ∧ w'.nextId = w.nextId + 1) ∧
    (∀ e, klookup (delegatedKey caller sub) w.addrMap = some e →
        id = e ∧ w'.nextId = w.nextId ∧ ∃ a, alookup e w.actors = some a ∧ a.kind = .placeholder) ∧
    klookup robust w.addrMap = none ∧ klookup robust w'.addrMap = some id ∧
    klookup (delegatedKey caller sub) w'.addrMap = some id := by
  obtain ⟨_, _, h1, h2, h3, h4, h5, _⟩ := exec4_spec _ _ _ _ _ _ _ _ _ h
  exact ⟨h1, h2, h3, h4, h5⟩

/-- the first id the init actor hands out is the specified 100 -/
theorem genesis_next_id : genesis.nextId = 100 := by decide

theorem run_wstep_next (ops : List Op) : ∀ w, w.nextId ≤ (run w ops).nextId := by
  induction ops with
  | nil => intro w; exact Nat.le_refl _
  | cons op rest ih => intro w; exact Nat.le_trans (step_wstep w op).next (ih _)

/-- **next_id never decreases** over any history, hence is ≥ 100 in every reachable state. -/
theorem next_id_monotone (w : World) (ops : List Op) : w.nextId ≤ (run w ops).nextId :=
  run_wstep_next ops w

theorem next_id_ge_100 (ops : List Op) : 100 ≤ (run genesis ops).nextId := by
  have := next_id_monotone genesis ops
  rw [genesis_next_id] at this; exact this

/-- the ids allocated along a history, in order (an operation allocates `next_id' − next_id` ids) -/
def allocLog (w : World) : List Op → List Nat
  | [] => []
  | op :: rest =>
    List.range' w.nextId ((step w op).1.nextId - w.nextId) ++ allocLog (step w op).1 rest

/-- **ids are handed out consecutively**: the ids allocated along any history are exactly
    `next_id, next_id+1, …` without gap or repetition. -/
theorem fresh_ids_consecutive (ops : List Op) : ∀ w,
    allocLog w ops = List.range' w.nextId ((run w ops).nextId - w.nextId) := by
  induction ops with
  | nil => intro w; simp [allocLog, run]
  | cons op rest ih =>
    intro w
    simp only [allocLog, run]
    rw [ih]
    have h1 := (step_wstep w op).next
    have h2 := run_wstep_next rest (step w op).1
    have e : (step w op).1.nextId = w.nextId + 1 * ((step w op).1.nextId - w.nextId) := by omega
    rw [show List.range' (step w op).1.nextId ((run (step w op).1 rest).nextId - (step w op).1.nextId)
          = List.range' (w.nextId + 1 * ((step w op).1.nextId - w.nextId))
              ((run (step w op).1 rest).nextId - (step w op).1.nextId) 1 by rw [← e]]
    rw [List.range'_append]
    congr 1
    omega

/-- **fresh_id (histories)**: along any history the allocated ids are strictly increasing — so
    no id is ever handed out twice and each is greater than all earlier ones — and none is below
    the starting `next_id` (100 from genesis). -/
theorem fresh_ids_increasing (w : World) (ops : List Op) :
    (allocLog w ops).Pairwise (· < ·) ∧ ∀ i ∈ allocLog w ops, w.nextId ≤ i := by
  rw [fresh_ids_consecutive]
  refine ⟨List.pairwise_lt_range' 1, ?_⟩
  intro i hi
  rw [List.mem_range'_1] at hi
  exact hi.1

/-- one operation allocates at most one id -/
theorem step_allocates_at_most_one (w : World) (op : Op) :
    w.nextId ≤ (step w op).1.nextId ∧ (step w op).1.nextId ≤ w.nextId + 1 :=
  ⟨(step_wstep w op).next, (step_wstep w op).next1⟩

/-! ### every mapped id has been allocated -/

theorem mapBelow_genesis : MapBelow genesis := by
  intro k v h; simp [genesis] at h

theorem mapBelow_run (ops : List Op) : ∀ w, MapBelow w → MapBelow (run w ops) := by
  induction ops with
  | nil => intro w h; exact h
  | cons op rest ih => intro w h; exact ih _ ((step_wstep w op).below h)

/-- in every reachable state every address maps to an id below `next_id`: a future fresh id is
    different from every id any address resolves to -/
theorem mapped_ids_below_next (ops : List Op) : MapBelow (run genesis ops) :=
  mapBelow_run ops genesis mapBelow_genesis

theorem exec4_id_below (w : World) (hb : MapBelow w) (msg caller : Nat) (sub : Bytes) (code : Kind)
    (robust : Bytes) (ctor : Ctor) (w' : World) (id : Nat)
    (h : exec4 w msg caller sub code robust ctor = .ok (w', id)) : id < w'.nextId := by
  obtain ⟨_, _, h1, h2, _⟩ := exec4_spec _ _ _ _ _ _ _ _ _ h
  cases hd : klookup (delegatedKey caller sub) w.addrMap with
  | none => obtain ⟨a, b⟩ := h1 hd; omega
  | some e => obtain ⟨a, b, _⟩ := h2 e hd; have := hb _ _ hd; omega

theorem eam_id_below (w : World) (hb : MapBelow w) (msg : Nat) (newAddr robust : Bytes) (ctor : Ctor)
    (w' : World) (ret : Ret) (h : createActorEam w msg newAddr robust ctor = .ok (w', ret)) :
    ret.id < w'.nextId := by
  obtain ⟨_, _, hx | ⟨a, hk, _, _, _, _, _, hn, _⟩⟩ := createActorEam_spec _ _ _ _ _ _ _ h
  · exact exec4_id_below _ hb _ _ _ _ _ _ _ _ hx
  · rw [hn]; exact hb _ _ hk

/-- **fresh ids exceed every id ever returned**: whenever an operation reports an id (new or
    existing), that id is below the resulting `next_id` — so every id handed out later, being
    a later `next_id`, is greater than all ids reported before. -/
theorem returned_id_below_next (w : World) (hb : MapBelow w) (op : Op) (id : Nat) (eth : Option Bytes)
    (h : (step w op).2 = .ok (some id) eth) : id < (step w op).1.nextId := by
  have key : ∀ (w0 w' : World) (m : Nat) (ret : Ret) (r : Except Err (World × Ret)), MapBelow w0 →
      r = .ok (w', ret) →
      ((∃ caller nonce robust ctor, r = create w0 m caller nonce robust ctor) ∨
       (∃ caller salt ih robust ctor, r = create2 w0 m caller salt ih robust ctor) ∨
       (∃ caller addr robust ctor, r = assign w0 m caller addr robust ctor) ∨
       (∃ caller n robust ctor, r = createExternal w0 m caller n robust ctor)) →
      ret.id < w'.nextId := by
    intro w0 w' m ret r hb0 hr hc
    obtain ⟨addr, rb, ct, hce⟩ := eam_entry_cases _ _ _ _ _ hr hc
    exact eam_id_below _ hb0 _ _ _ _ _ _ hce
  have hbp : ∀ s, MapBelow (promote w s) := fun s => (promote_wstep 0 w s).below hb
  cases op with
  | exec msg caller code robust ctor =>
    simp only [step] at h ⊢
    cases hx : exec (promote w caller) msg caller code robust ctor with
    | error e => simp [hx, outOfId] at h
    | ok p =>
      obtain ⟨w', i⟩ := p; simp [hx, outOfId] at h ⊢
      obtain ⟨_, h1, h2, _⟩ := exec_spec _ _ _ _ _ _ _ _ hx
      omega
  | exec4 msg caller sub code robust ctor =>
    simp only [step] at h ⊢
    cases hx : exec4 (promote w caller) msg caller sub code robust ctor with
    | error e => simp [hx, outOfId] at h
    | ok p =>
      obtain ⟨w', i⟩ := p; simp [hx, outOfId] at h ⊢
      have := exec4_id_below _ (hbp caller) _ _ _ _ _ _ _ _ hx
      omega
  | eamCreate msg caller nonce robust ctor =>
    simp only [step] at h ⊢
    cases hx : create (promote w caller) msg caller nonce robust ctor with
    | error e => simp [hx, outOfRet] at h
    | ok p =>
      obtain ⟨w', ret⟩ := p; simp [hx, outOfRet] at h ⊢
      have := key _ _ _ _ _ (hbp caller) hx (Or.inl ⟨_, _, _, _, rfl⟩)
      omega
  | eamCreate2 msg caller salt ih robust ctor =>
    simp only [step] at h ⊢
    cases hx : create2 (promote w caller) msg caller salt ih robust ctor with
    | error e => simp [hx, outOfRet] at h
    | ok p =>
      obtain ⟨w', ret⟩ := p; simp [hx, outOfRet] at h ⊢
      have := key _ _ _ _ _ (hbp caller) hx (Or.inr (Or.inl ⟨_, _, _, _, _, rfl⟩))
      omega
  | eamAssign msg caller addr robust ctor =>
    simp only [step] at h ⊢
    cases hx : assign (promote w caller) msg caller addr robust ctor with
    | error e => simp [hx, outOfRet] at h
    | ok p =>
      obtain ⟨w', ret⟩ := p; simp [hx, outOfRet] at h ⊢
      have := key _ _ _ _ _ (hbp caller) hx (Or.inr (Or.inr (Or.inl ⟨_, _, _, _, rfl⟩)))
      omega
  | createExternal msg caller n robust ctor =>
    simp only [step] at h ⊢
    cases hx : createExternal (promote w caller) msg caller n robust ctor with
    | error e => simp [hx, outOfRet] at h
    | ok p =>
      obtain ⟨w', ret⟩ := p; simp [hx, outOfRet] at h ⊢
      have := key _ _ _ _ _ (hbp caller) hx (Or.inr (Or.inr (Or.inr ⟨_, _, _, _, rfl⟩)))
      omega
  | evmCreate msg deployer endowOk cop robust ctor =>
    simp only [step] at h ⊢
    cases hx : evmCreate w msg deployer endowOk cop robust ctor with
    | error e => simp [hx] at h
    | ok p =>
      obtain ⟨w', r⟩ := p
      cases r with
      | none => simp [hx] at h
      | some ret =>
        simp [hx] at h ⊢
        obtain ⟨a, ha, _, h1 | ⟨_, _, h2 | ⟨ret', hr', h3⟩⟩⟩ := evmCreate_spec _ _ _ _ _ _ _ _ _ hx
        · cases h1.2.2
        · cases h2.1
        · cases hr'
          have hbb : MapBelow (bump w deployer a) := (bump_wstep 0 w deployer a ha).below hb
          have : ret.id < w'.nextId := by
            rcases h3 with ⟨_, hc⟩ | ⟨salt, ih, _, hc⟩
            · exact key _ _ _ _ _ hbb hc (Or.inl ⟨_, _, _, _, rfl⟩)
            · exact key _ _ _ _ _ hbb hc (Or.inr (Or.inl ⟨_, _, _, _, _, rfl⟩))
          omega
  | selfdestruct msg c =>
    simp only [step] at h
    cases hx : selfdestruct w msg c with
    | error e => simp [hx] at h
    | ok w' => simp [hx] at h
  | sendKey msg sender addr =>
    simp only [step] at h ⊢
    cases hx : sendKey (promote w sender) addr with
    | error e => simp [hx, outOfId] at h
    | ok p =>
      obtain ⟨w', i⟩ := p; simp [hx, outOfId] at h ⊢
      rcases sendKey_spec _ _ _ _ hx with ⟨hk, he⟩ | ⟨_, h1, h2, _⟩
      · have := hbp sender _ _ hk; rw [he]; omega
      · omega
  | sendDeleg msg sender ns sub =>
    simp only [step] at h ⊢
    cases hx : sendDeleg (promote w sender) ns sub with
    | error e => simp [hx, outOfId] at h
    | ok p =>
      obtain ⟨w', i⟩ := p; simp [hx, outOfId] at h ⊢
      rcases sendDeleg_spec _ _ _ _ _ hx with ⟨hk, he⟩ | ⟨_, _, h1, h2, _⟩
      · have := hbp sender _ _ hk; rw [he]; omega
      · omega

/-! ### stable mapping -/

/-- **stable_mapping**: the address map only grows and an existing key never changes its value:
    once a robust, key or delegated address resolves to an id it resolves to the same id after
    any history. -/
theorem stable_mapping (ops : List Op) : ∀ (w : World) (k : Bytes) (v : Nat),
    klookup k w.addrMap = some v → klookup k (run w ops).addrMap = some v := by
  induction ops with
  | nil => intro w k v h; exact h
  | cons op rest ih => intro w k v h; exact ih _ k v ((step_wstep w op).map k v h)

/-- **robust_unique**: `Exec` succeeds only with a robust address that was not mapped, and in
    the new state the created id has exactly this one address (no other key resolves to it). -/
theorem robust_unique (w : World) (hb : MapBelow w) (msg caller : Nat) (code : Kind) (robust : Bytes)
    (ctor : Ctor) (w' : World) (id : Nat) (h : exec w msg caller code robust ctor = .ok (w', id)) :
    klookup robust w.addrMap = none ∧
    ∀ k, klookup k w'.addrMap = some id ↔ k = robust := by
  obtain ⟨_, hid, _, h0, h1, _, hnew, _⟩ := exec_spec _ _ _ _ _ _ _ _ h
  refine ⟨h0, fun k => ⟨?_, fun e => by rw [e]; exact h1⟩⟩
  intro hk
  rcases hnew k id hk with hold | ⟨_, e⟩
  · have := hb k id hold; omega
  · exact e

/-! ### who may create what -/

/-- `can_exec` spelled out -/
theorem canExec_iff (caller code : Kind) :
    canExec caller code = true ↔ code = .multisig ∨ code = .paych ∨ (code = .miner ∧ caller = .power) := by
  cases code <;> cases caller <;> simp [canExec]

/-- **exec_matrix**: `Exec` succeeds only for a multisig or a payment channel (any built-in,
    non-EVM caller) or for a miner created by the power actor. -/
theorem exec_matrix (w : World) (msg caller : Nat) (code : Kind) (robust : Bytes) (ctor : Ctor)
    (w' : World) (id : Nat) (h : exec w msg caller code robust ctor = .ok (w', id)) :
    ∃ ca, alookup caller w.actors = some ca ∧ ca.kind ≠ .evm ∧
      (code = .multisig ∨ code = .paych ∨ (code = .miner ∧ ca.kind = .power)) := by
  obtain ⟨⟨ca, h1, h2, _, h4⟩, _⟩ := exec_spec _ _ _ _ _ _ _ _ h
  exact ⟨ca, h1, h2, (canExec_iff _ _).mp h4⟩

/-- **exec4_only_eam**: `Exec4` succeeds only for the Ethereum address manager (actor 10). -/
theorem exec4_only_eam (w : World) (msg caller : Nat) (sub : Bytes) (code : Kind) (robust : Bytes)
    (ctor : Ctor) (w' : World) (id : Nat)
    (h : exec4 w msg caller sub code robust ctor = .ok (w', id)) : caller = 10 := by
  obtain ⟨h1, _⟩ := exec4_spec _ _ _ _ _ _ _ _ _ h
  rw [h1]; decide

/-! ### no overwrite -/

/-- **no_overwrite**: whatever one operation does, every existing actor is still there with the
    same delegated address; its code changed only if it was a placeholder; and if it is an EVM
    contract that was re-initialised (its incarnation changed) then it was dead — it had
    self-destructed in an earlier message. -/
theorem no_overwrite (w : World) (op : Op) (id : Nat) (a : Actor)
    (h : alookup id w.actors = some a) :
    ∃ a', alookup id (step w op).1.actors = some a' ∧ a'.deleg = a.deleg ∧
      (a'.kind = a.kind ∨ a.kind = .placeholder) ∧
      (a.kind = .evm → a'.inc ≠ a.inc → isDead a op.msg = true ∧ a'.nonce = 1) := by
  obtain ⟨a', h1, h2, _, h3, h4⟩ := (step_wstep w op).actors id a h
  refine ⟨a', h1, h2, h3, ?_⟩
  intro hk hne
  rcases h4 hk with ⟨e, _⟩ | ⟨hd, _, hn⟩
  · exact absurd e hne
  · exact ⟨hd, hn⟩

/-- creation over an existing id through `Exec4` happens only over a placeholder, and through
    the EAM only over a placeholder or a dead EVM contract (Resurrect) -/
theorem eam_overwrites_only_placeholder_or_dead (w : World) (msg : Nat) (newAddr robust : Bytes)
    (ctor : Ctor) (w' : World) (ret : Ret)
    (h : createActorEam w msg newAddr robust ctor = .ok (w', ret)) (a : Actor)
    (ha : alookup ret.id w.actors = some a) :
    a.kind = .placeholder ∨ (a.kind = .evm ∧ isDead a msg = true) := by
  obtain ⟨_, _, hx | ⟨a0, _, ha0, hk, hd, _⟩⟩ := createActorEam_spec _ _ _ _ _ _ _ h
  · obtain ⟨_, _, _, _, _, _, _, _, _, _, _, hprev, _⟩ := exec4_spec _ _ _ _ _ _ _ _ _ hx
    rcases hprev with hn | ⟨a1, ha1, hp⟩
    · rw [hn] at ha; cases ha
    · rw [ha1] at ha; cases ha; exact Or.inl hp
  · rw [ha0] at ha; cases ha; exact Or.inr ⟨hk, hd⟩

/-- how an actor entry may have changed after a whole history: addresses fixed, code changed only
    away from a placeholder, (incarnation, nonce) of an EVM contract lexicographically
    non-decreasing -/
def ActorEvo (a a' : Actor) : Prop :=
  a'.deleg = a.deleg ∧ (a'.kind = a.kind ∨ a.kind = .placeholder) ∧
  (a.kind = .evm → a.inc < a'.inc ∨ (a.inc = a'.inc ∧ a.nonce ≤ a'.nonce))

theorem ActorEvo.of_step {msg : Nat} {a a' : Actor} (h : ActorStep msg a a') : ActorEvo a a' := by
  refine ⟨h.1, h.2.2.1, fun hk => ?_⟩
  rcases h.2.2.2 hk with ⟨e, hn⟩ | ⟨_, e, _⟩
  · exact Or.inr ⟨e.symm, hn⟩
  · exact Or.inl (by omega)

theorem ActorEvo.trans {a b c : Actor} (h1 : ActorEvo a b) (h2 : ActorEvo b c) : ActorEvo a c := by
  refine ⟨by rw [h2.1, h1.1], ?_, ?_⟩
  · rcases h1.2.1 with e | p
    · rcases h2.2.1 with e2 | p2
      · exact Or.inl (by rw [e2, e])
      · exact Or.inr (by rw [← e]; exact p2)
    · exact Or.inr p
  · intro hk
    have hbk : b.kind = .evm := by
      rcases h1.2.1 with e | p
      · rw [e]; exact hk
      · rw [p] at hk; cases hk
    rcases h1.2.2 hk with l1 | ⟨e1, n1⟩ <;> rcases h2.2.2 hbk with l2 | ⟨e2, n2⟩
    · exact Or.inl (by omega)
    · exact Or.inl (by omega)
    · exact Or.inl (by omega)
    · exact Or.inr ⟨by omega, by omega⟩

theorem run_actor_evo (ops : List Op) : ∀ (w : World) (id : Nat) (a : Actor),
    alookup id w.actors = some a → ∃ a', alookup id (run w ops).actors = some a' ∧ ActorEvo a a' := by
  induction ops with
  | nil => intro w id a h; exact ⟨a, h, rfl, Or.inl rfl, fun _ => Or.inr ⟨rfl, Nat.le_refl _⟩⟩
  | cons op rest ih =>
    intro w id a h
    obtain ⟨a1, h1, s1⟩ := (step_wstep w op).actors id a h
    obtain ⟨a2, h2, s2⟩ := ih _ id a1 h1
    exact ⟨a2, h2, (ActorEvo.of_step s1).trans s2⟩

/-- **no_overwrite (histories)**: an actor that exists and is not a placeholder keeps its id, its
    code and its delegated address over any history. -/
theorem kind_stable (w : World) (ops : List Op) (id : Nat) (a : Actor)
    (h : alookup id w.actors = some a) (hp : a.kind ≠ .placeholder) :
    ∃ a', alookup id (run w ops).actors = some a' ∧ a'.kind = a.kind ∧ a'.deleg = a.deleg := by
  obtain ⟨a', h1, hd, hk, _⟩ := run_actor_evo ops w id a h
  rcases hk with e | p
  · exact ⟨a', h1, e, hd⟩
  · exact absurd p hp

/-! ### reserved ranges -/

/-- `can_assign_address` spelled out on the bytes: not `0xff ‖ 0¹¹ ‖ id`, not `0x00|0xfe ‖ 0¹⁸ ‖ x`,
    not all zero. -/
theorem canAssign_iff (a : Bytes) :
    canAssign a = true ↔ isPrecompile a = false ∧ isIdMasked a = false ∧ isNull a = false := by
  unfold canAssign
  cases isPrecompile a <;> cases isIdMasked a <;> cases isNull a <;> simp

/-- every ID-masked address `0xff ‖ 0¹¹ ‖ id` is reserved -/
theorem idMasked_reserved (id : Nat) : canAssign (idMasked id) = false := by
  have : isIdMasked (idMasked id) = true := by
    simp [isIdMasked, idMasked]
  simp [canAssign, this]

/-- the precompile ranges `0x00 ‖ 0¹⁸ ‖ x` and `0xfe ‖ 0¹⁸ ‖ x` (the first contains the null
    address) are reserved -/
theorem precompile_reserved (x : UInt8) :
    canAssign (0x00 :: List.replicate 18 0 ++ [x]) = false ∧
    canAssign (0xfe :: List.replicate 18 0 ++ [x]) = false := by
  constructor <;> simp [canAssign, isPrecompile]

theorem null_reserved : canAssign (List.replicate 20 0) = false := by decide

/-- **reserved_never_assigned**: the EAM's `create_actor` succeeds only for an address outside
    the reserved ranges. -/
theorem reserved_never_assigned (w : World) (msg : Nat) (newAddr robust : Bytes) (ctor : Ctor)
    (w' : World) (ret : Ret) (h : createActorEam w msg newAddr robust ctor = .ok (w', ret)) :
    ret.eth = newAddr ∧ isPrecompile newAddr = false ∧ isIdMasked newAddr = false ∧
    isNull newAddr = false := by
  obtain ⟨h1, h2, _⟩ := createActorEam_spec _ _ _ _ _ _ _ h
  exact ⟨h2, (canAssign_iff _).mp h1⟩

/-- … hence every eth address reported by any successful operation of any history (EAM
    Create/Create2/CreateExternal, the CREATE/CREATE2 opcodes) is outside the reserved ranges. -/
theorem step_eth_assignable (w : World) (op : Op) (id : Option Nat) (eth : Bytes)
    (h : (step w op).2 = .ok id (some eth)) : canAssign eth = true := by
  have key : ∀ (w0 w' : World) (m : Nat) (ret : Ret) (r : Except Err (World × Ret)),
      r = .ok (w', ret) →
      ((∃ caller nonce robust ctor, r = create w0 m caller nonce robust ctor) ∨
       (∃ caller salt ih robust ctor, r = create2 w0 m caller salt ih robust ctor) ∨
       (∃ caller addr robust ctor, r = assign w0 m caller addr robust ctor) ∨
       (∃ caller n robust ctor, r = createExternal w0 m caller n robust ctor)) →
      canAssign ret.eth = true := by
    intro w0 w' m ret r hr hc
    obtain ⟨addr, rb, ct, hce⟩ := eam_entry_cases _ _ _ _ _ hr hc
    obtain ⟨h1, h2, _⟩ := createActorEam_spec _ _ _ _ _ _ _ hce
    rw [h2]; exact h1
  cases op with
  | exec msg caller code robust ctor =>
    simp only [step] at h
    cases hx : exec (promote w caller) msg caller code robust ctor with
    | error e => simp [hx, outOfId] at h
    | ok p => obtain ⟨w', i⟩ := p; simp [hx, outOfId] at h
  | exec4 msg caller sub code robust ctor =>
    simp only [step] at h
    cases hx : exec4 (promote w caller) msg caller sub code robust ctor with
    | error e => simp [hx, outOfId] at h
    | ok p => obtain ⟨w', i⟩ := p; simp [hx, outOfId] at h
  | eamCreate msg caller nonce robust ctor =>
    simp only [step] at h
    cases hx : create (promote w caller) msg caller nonce robust ctor with
    | error e => simp [hx, outOfRet] at h
    | ok p =>
      obtain ⟨w', ret⟩ := p; simp [hx, outOfRet] at h
      rw [← h.2]; exact key _ _ _ _ _ hx (Or.inl ⟨_, _, _, _, rfl⟩)
  | eamCreate2 msg caller salt ih robust ctor =>
    simp only [step] at h
    cases hx : create2 (promote w caller) msg caller salt ih robust ctor with
    | error e => simp [hx, outOfRet] at h
    | ok p =>
      obtain ⟨w', ret⟩ := p; simp [hx, outOfRet] at h
      rw [← h.2]; exact key _ _ _ _ _ hx (Or.inr (Or.inl ⟨_, _, _, _, _, rfl⟩))
  | eamAssign msg caller addr robust ctor =>
    simp only [step] at h
    cases hx : assign (promote w caller) msg caller addr robust ctor with
    | error e => simp [hx, outOfRet] at h
    | ok p =>
      obtain ⟨w', ret⟩ := p; simp [hx, outOfRet] at h
      rw [← h.2]; exact key _ _ _ _ _ hx (Or.inr (Or.inr (Or.inl ⟨_, _, _, _, rfl⟩)))
  | createExternal msg caller n robust ctor =>
    simp only [step] at h
    cases hx : createExternal (promote w caller) msg caller n robust ctor with
    | error e => simp [hx, outOfRet] at h
    | ok p =>
      obtain ⟨w', ret⟩ := p; simp [hx, outOfRet] at h
      rw [← h.2]; exact key _ _ _ _ _ hx (Or.inr (Or.inr (Or.inr ⟨_, _, _, _, rfl⟩)))
  | evmCreate msg deployer endowOk cop robust ctor =>
    simp only [step] at h
    cases hx : evmCreate w msg deployer endowOk cop robust ctor with
    | error e => simp [hx] at h
    | ok p =>
      obtain ⟨w', r⟩ := p
      cases r with
      | none => simp [hx] at h
      | some ret =>
        simp [hx] at h
        obtain ⟨a, _, _, h1 | ⟨_, _, h2 | ⟨ret', hr', h3⟩⟩⟩ := evmCreate_spec _ _ _ _ _ _ _ _ _ hx
        · cases h1.2.2
        · cases h2.1
        · cases hr'
          rw [← h.2]
          rcases h3 with ⟨_, hc⟩ | ⟨salt, ih, _, hc⟩
          · exact key _ _ _ _ _ hc (Or.inl ⟨_, _, _, _, rfl⟩)
          · exact key _ _ _ _ _ hc (Or.inr (Or.inl ⟨_, _, _, _, _, rfl⟩))
  | selfdestruct msg c =>
    simp only [step] at h
    cases hx : selfdestruct w msg c with
    | error e => simp [hx] at h
    | ok w' => simp [hx] at h
  | sendKey msg sender addr =>
    simp only [step] at h
    cases hx : sendKey (promote w sender) addr with
    | error e => simp [hx, outOfId] at h
    | ok p => obtain ⟨w', i⟩ := p; simp [hx, outOfId] at h
  | sendDeleg msg sender ns sub =>
    simp only [step] at h
    cases hx : sendDeleg (promote w sender) ns sub with
    | error e => simp [hx, outOfId] at h
    | ok p => obtain ⟨w', i⟩ := p; simp [hx, outOfId] at h

/-! ### the address formulas -/

/-- **create_formula** (definitional): `keccak256(rlp([addr20, nonce]))[12:]` -/
theorem create_formula (deployer : Bytes) (nonce : Nat) :
    createAddr deployer nonce = (keccak256 (rlpCreate deployer nonce)).drop 12 := rfl

/-- the RLP pre-image for a 20-byte address: `0xc0+len ‖ 0x94 ‖ addr ‖ rlp(nonce)` -/
theorem rlpCreate_shape (deployer : Bytes) (nonce : Nat) (h : deployer.length = 20) :
    rlpCreate deployer nonce =
      UInt8.ofNat (0xc0 + (21 + (rlpUInt nonce).length)) :: 0x94 :: (deployer ++ rlpUInt nonce) := by
  unfold rlpCreate rlpShortBytes
  simp only [List.length_cons, List.length_append, h, List.cons_append]
  have e : 20 + (rlpUInt nonce).length + 1 = 21 + (rlpUInt nonce).length := by omega
  rw [e]; rfl

/-- **create2_formula** (definitional): `keccak256(0xff ‖ addr ‖ salt ‖ keccak256(initcode))[12:]` -/
theorem create2_formula (deployer salt initHash : Bytes) :
    create2Addr deployer salt initHash =
      (keccak256 ([0xff] ++ deployer ++ salt ++ initHash)).drop 12 := rfl

/-- the EAM's `Create` assigns exactly the CREATE address of (caller's eth address, the nonce
    parameter) -/
theorem eam_create_uses_formula (w : World) (msg caller nonce : Nat) (robust : Bytes) (ctor : Ctor)
    (w' : World) (ret : Ret) (h : create w msg caller nonce robust ctor = .ok (w', ret)) :
    ∃ ca from_, alookup caller w.actors = some ca ∧ ca.kind = .evm ∧ ethOf ca = .ok from_ ∧
      ret.eth = (keccak256 (rlpCreate from_ nonce)).drop 12 := by
  unfold create at h
  cases hc : alookup caller w.actors with
  | none => simp [hc] at h
  | some ca =>
    simp only [hc] at h
    by_cases hk : ca.kind ≠ .evm
    · simp [hk] at h
    · rw [if_neg hk] at h
      cases he : ethOf ca with
      | error e => simp [he] at h
      | ok f =>
        simp only [he] at h
        obtain ⟨_, h2, _⟩ := createActorEam_spec _ _ _ _ _ _ _ h
        exact ⟨ca, f, rfl, Classical.byContradiction hk, he, h2⟩

/-- the EAM's `Create2` assigns exactly the CREATE2 address of (caller's eth address, salt,
    init-code hash) -/
theorem eam_create2_uses_formula (w : World) (msg caller : Nat) (salt ih robust : Bytes) (ctor : Ctor)
    (w' : World) (ret : Ret) (h : create2 w msg caller salt ih robust ctor = .ok (w', ret)) :
    ∃ ca from_, alookup caller w.actors = some ca ∧ ca.kind = .evm ∧ ethOf ca = .ok from_ ∧
      ret.eth = (keccak256 ([0xff] ++ from_ ++ salt ++ ih)).drop 12 := by
  unfold create2 at h
  cases hc : alookup caller w.actors with
  | none => simp [hc] at h
  | some ca =>
    simp only [hc] at h
    by_cases hk : ca.kind ≠ .evm
    · simp [hk] at h
    · rw [if_neg hk] at h
      cases he : ethOf ca with
      | error e => simp [he] at h
      | ok f =>
        simp only [he] at h
        obtain ⟨_, h2, _⟩ := createActorEam_spec _ _ _ _ _ _ _ h
        exact ⟨ca, f, rfl, Classical.byContradiction hk, he, h2⟩

/-- the CREATE opcode uses the deployer's *current* nonce: on success the new address is the
    CREATE address of (deployer's eth address, nonce before the increment) -/
theorem evm_create_uses_current_nonce (w : World) (msg deployer : Nat) (endowOk : Bool)
    (robust : Bytes) (ctor : Ctor) (w' : World) (ret : Ret)
    (h : evmCreate w msg deployer endowOk .create robust ctor = .ok (w', some ret)) :
    ∃ a from_, alookup deployer w.actors = some a ∧ ethOf a = .ok from_ ∧
      ret.eth = createAddr from_ a.nonce := by
  obtain ⟨a, ha, hk, h1 | ⟨_, _, h2 | ⟨ret', hr', h3⟩⟩⟩ := evmCreate_spec _ _ _ _ _ _ _ _ _ h
  · cases h1.2.2
  · cases h2.1
  · cases hr'
    rcases h3 with ⟨_, hc⟩ | ⟨salt, ih, hne, _⟩
    · obtain ⟨ca, f, hca, _, hf, hr⟩ := eam_create_uses_formula _ _ _ _ _ _ _ _ hc
      have : ca = { a with nonce := a.nonce + 1 } := by
        have hb : alookup deployer (bump w deployer a).actors = some { a with nonce := a.nonce + 1 } :=
          alookup_aset_same _ _ _
        rw [hb] at hca; cases hca; rfl
      subst this
      exact ⟨a, f, ha, by simpa [ethOf] using hf, hr⟩
    · cases hne

/-- **rlp_create_injective**: for 20-byte addresses the RLP pre-image of CREATE determines the
    deployer and the nonce, so different (deployer, nonce) pairs are hashed from different
    pre-images. -/
theorem rlp_create_injective (a a' : Bytes) (n n' : Nat) (ha : a.length = 20) (ha' : a'.length = 20)
    (h : rlpCreate a n = rlpCreate a' n') : a = a' ∧ n = n' := by
  rw [rlpCreate_shape a n ha, rlpCreate_shape a' n' ha'] at h
  injection h with _ h
  injection h with _ h
  have := List.append_inj h (by rw [ha, ha'])
  exact ⟨this.1, rlpUInt_injective this.2⟩

/-- **create2_preimage_injective**: for fixed lengths (20-byte deployer, 32-byte salt) the
    CREATE2 pre-image determines deployer, salt and init-code hash. -/
theorem create2_preimage_injective (a a' s s' h h' : Bytes) (ha : a.length = 20) (ha' : a'.length = 20)
    (hs : s.length = 32) (hs' : s'.length = 32)
    (e : create2Preimage a s h = create2Preimage a' s' h') : a = a' ∧ s = s' ∧ h = h' := by
  simp only [create2Preimage, List.append_assoc, List.cons_append, List.nil_append] at e
  injection e with _ e
  have h1 := List.append_inj e (by rw [ha, ha'])
  have h2 := List.append_inj h1.2 (by rw [hs, hs'])
  exact ⟨h1.1, h2.1, h2.2⟩

/-! ### deployer nonces -/

/-- **nonce_monotone** (one operation): the nonce of an EVM contract does not decrease unless the
    contract was dead and is re-initialised, in which case it restarts at 1 in a new incarnation. -/
theorem nonce_monotone (w : World) (op : Op) (id : Nat) (a : Actor)
    (h : alookup id w.actors = some a) (hk : a.kind = .evm) :
    ∃ a', alookup id (step w op).1.actors = some a' ∧
      ((a'.inc = a.inc ∧ a.nonce ≤ a'.nonce) ∨
       (isDead a op.msg = true ∧ a'.inc = a.inc + 1 ∧ a'.nonce = 1)) := by
  obtain ⟨a', h1, _, _, _, h4⟩ := (step_wstep w op).actors id a h
  exact ⟨a', h1, h4 hk⟩

/-- **nonce_monotone** (histories): (incarnation, nonce) of an EVM contract never decreases in
    the lexicographic order, over any history. -/
theorem nonce_monotone_run (w : World) (ops : List Op) (id : Nat) (a : Actor)
    (h : alookup id w.actors = some a) (hk : a.kind = .evm) :
    ∃ a', alookup id (run w ops).actors = some a' ∧
      (a.inc < a'.inc ∨ (a.inc = a'.inc ∧ a.nonce ≤ a'.nonce)) := by
  obtain ⟨a', h1, _, _, h3⟩ := run_actor_evo ops w id a h
  exact ⟨a', h1, h3 hk⟩

/-- **nonce consumed**: a CREATE/CREATE2 executed by a live contract whose endowment check
    passes increments the nonce by exactly one — also when the EAM call fails (address
    conflict, reserved address, failing constructor); with a failing endowment check or a dead
    deployer nothing changes. -/
theorem nonce_consumed (w : World) (msg deployer : Nat) (endowOk : Bool) (op : CreateOp)
    (robust : Bytes) (ctor : Ctor) (w' : World) (r : Option Ret) (a : Actor)
    (ha : alookup deployer w.actors = some a)
    (h : evmCreate w msg deployer endowOk op robust ctor = .ok (w', r)) :
    (isDead a msg = false ∧ endowOk = true →
        alookup deployer w'.actors = some { a with nonce := a.nonce + 1 }) ∧
    (isDead a msg = true ∨ endowOk = false → w' = w ∧ r = none) := by
  constructor
  · intro ⟨hl, he⟩
    subst he
    exact evmCreate_nonce _ _ _ _ _ _ _ _ _ ha hl h
  · intro hc
    obtain ⟨a0, ha0, _, h1 | ⟨hl, he, _⟩⟩ := evmCreate_spec _ _ _ _ _ _ _ _ _ h
    · exact ⟨h1.2.1, h1.2.2⟩
    · rw [ha] at ha0; cases ha0
      rcases hc with hd | hf
      · rw [hd] at hl; cases hl
      · rw [hf] at he; cases he

/-! ### non-vacuity: a concrete history exercising the hypotheses -/

/-- a 20-byte eth address outside the reserved ranges -/
def exAddr : Bytes := 0x11 :: List.replicate 19 0x22
def exAddr2 : Bytes := 0x33 :: List.replicate 19 0x44

/-- genesis; an account is auto-created (100); it creates a multisig (101); a send creates a
    placeholder at `exAddr` (102); the EAM deploys a contract over it (still 102); that contract's
    CREATE2 — with the hash answering `exAddr2` — deploys a second contract (103), which
    self-destructs in message 7 and is resurrected in message 8. -/
def exOps : List Op := [
  .sendKey 1 0 [3, 1, 2, 3],
  .exec 2 100 .multisig [2, 9, 9] .ok,
  .sendDeleg 3 100 10 exAddr,
  .exec4 4 10 exAddr .evm [2, 7, 7] .ok,
  .eamAssign 5 102 exAddr2 [2, 8, 8] .ok,
  .selfdestruct 7 103,
  .eamAssign 8 102 exAddr2 [2, 8, 9] .selfdestruct ]

example : (run genesis exOps).nextId = 104 := by decide
example : klookup [2, 9, 9] (run genesis exOps).addrMap = some 101 := by decide
example : (alookup 102 (run genesis (exOps.take 3)).actors).map (·.kind) = some .placeholder := by decide
example : (alookup 102 (run genesis (exOps.take 4)).actors).map (·.kind) = some .evm := by decide
example : (alookup 103 (run genesis exOps).actors).map (fun a => (a.kind, a.inc, a.nonce, a.tomb))
    = some (.evm, 1, 1, some 8) := by decide
/-- a live contract is not overwritten: the same assignment in the message of the self-destruct
    itself (contract not dead yet) is refused -/
example : (step (run genesis (exOps.take 6)) (.eamAssign 7 102 exAddr2 [2, 8, 9] .ok)).2
    = .err .forbidden := by decide
/-- exec outside the matrix, exec4 by a non-EAM caller, a reserved address: all refused -/
example : (step (run genesis exOps) (.exec 9 100 .miner [2, 5] .ok)).2 = .err .forbidden := by decide
example : (step (run genesis exOps) (.exec 9 4 .miner [2, 5] .ok)).2 = .ok (some 104) none := by decide
example : (step (run genesis exOps) (.exec4 9 100 exAddr2 .evm [2, 5] .ok)).2 = .err .forbidden := by decide
example : (step (run genesis exOps) (.eamAssign 9 102 (idMasked 100) [2, 5] .ok)).2 = .err .forbidden := by
  decide
example : allocLog genesis exOps = [100, 101, 102, 103] := by decide
example : rlpCreate (List.replicate 20 0) 200 =
    [0xd7, 0x94] ++ List.replicate 20 0 ++ [0x81, 0xc8] := by decide
example : rlpUInt 0 = [0x80] ∧ rlpUInt 0x7f = [0x7f] ∧ rlpUInt 0x80 = [0x81, 0x80] ∧
    rlpUInt 0x100 = [0x82, 0x01, 0x00] := by decide

end BA.Eam
