/-
  C13 — Control of a miner changes hands only by two-sided, delayed handover.
  Property theorems over the model `BA.MinerControl` (actors/miner/src/lib.rs:
  change_owner_address, change_worker_address, confirm_change_worker_address, change_beneficiary,
  the quota side of withdraw_balance, process_pending_worker).  All statements hold for every
  state / every history of messages by arbitrary callers at arbitrary epochs.
-/
import BA.Lemmas.MinerControl

namespace BA.MinerControl
open BA

/-! ### Owner: proposal by the owner, confirmation by the proposed address -/

/-- `ProposedByOwner s0 ops p`: somewhere in the history `ops` (started in `s0`) the account that
    was the owner at that moment sent `ChangeOwnerAddress(p)`, and in every state since then (up to
    the end of `ops`) that account has remained the owner and `p` has remained the pending owner. -/
def ProposedByOwner (s0 : State) (ops : List Op) (p : Nat) : Prop :=
  Since s0 ops (fun b x => x = Op.changeOwner b.owner p true)
    (fun b t => t.owner = b.owner ∧ t.pendingOwner = some p)

/-- One step: the owner field changes only when the pending owner itself calls
    `ChangeOwnerAddress` naming its own address. -/
theorem owner_change_step (s : State) (op : Op) (h : (step s op).1.owner ≠ s.owner) :
    ∃ p, op = .changeOwner p p true ∧ s.pendingOwner = some p ∧ p ≠ s.owner ∧
      (step s op).1.owner = p := by
  have he := step_effect s op
  generalize (step s op).1 = s' at he h
  cases he with
  | confirmOwner p hp hne => exact ⟨p, rfl, hp, hne, rfl⟩
  | noChange => exact absurd rfl h
  | proposeOwner => exact absurd rfl h
  | changeWorker => exact absurd rfl h
  | applyWorker => exact absurd rfl h
  | withdraw => exact absurd rfl h
  | proposeBen new q x e hq =>
    exfalso; apply h
    rw [benFinish_spec _ _ _ _ rfl]; split <;> rfl
  | approveBen c p e hp hc hc2 =>
    exfalso; apply h
    rw [benFinish_spec _ _ _ p hp]; split <;> rfl

/-- One step: a pending owner `p` is either the one that was pending before, or was put there by
    the owner's own `ChangeOwnerAddress(p)`; the owner is the same before and after. -/
theorem pendingOwner_step (s : State) (op : Op) (p : Nat)
    (h : (step s op).1.pendingOwner = some p) :
    (s.pendingOwner = some p ∧ (step s op).1.owner = s.owner) ∨
    (op = .changeOwner s.owner p true ∧ (step s op).1.owner = s.owner) := by
  have he := step_effect s op
  generalize (step s op).1 = s' at he h
  cases he with
  | noChange => exact Or.inl ⟨h, rfl⟩
  | proposeOwner newAddr =>
    right
    by_cases hn : newAddr = s.owner
    · simp [hn] at h
    · simp [hn] at h; subst h; exact ⟨rfl, rfl⟩
  | confirmOwner p' hp hne => simp at h
  | changeWorker => exact Or.inl ⟨h, rfl⟩
  | applyWorker => exact Or.inl ⟨h, rfl⟩
  | withdraw => exact Or.inl ⟨h, rfl⟩
  | proposeBen new q x e hq => left; simpa using h
  | approveBen c p' e hp hc hc2 => left; simpa using h

/-- In every history from a state with no pending owner: whoever is pending owner at the end was
    proposed by a `ChangeOwnerAddress` of the then-owner, who has been the owner ever since. -/
theorem pendingOwner_proposed (s0 : State) (h0 : s0.pendingOwner = none) (ops : List Op) (p : Nat)
    (h : (run s0 ops).pendingOwner = some p) : ProposedByOwner s0 ops p := by
  refine since_of_steps (P := fun s => s.pendingOwner = some p) ?_ (by simp [h0]) ops h
  intro s op hp
  rcases pendingOwner_step s op p hp with ⟨h1, h2⟩ | ⟨h1, h2⟩
  · left
    refine ⟨h1, ?_⟩
    intro b hb
    exact ⟨by rw [h2]; exact hb.1, hp⟩
  · right
    exact ⟨h1, h2, hp⟩

/-- **owner_two_step.** In every history (any callers, any epochs) that starts without a pending
    owner: a message changes the owner only if it is `ChangeOwnerAddress(p)` sent by `p` itself
    while `p` is the pending owner, the new owner is exactly `p`, and `p` became pending through an
    earlier `ChangeOwnerAddress(p)` sent by the account that was then — and has been until this
    very message — the owner. -/
theorem owner_two_step (s0 : State) (h0 : s0.pendingOwner = none) (ops : List Op) (op : Op)
    (h : (step (run s0 ops) op).1.owner ≠ (run s0 ops).owner) :
    ∃ p, op = .changeOwner p p true ∧ (run s0 ops).pendingOwner = some p ∧
      p ≠ (run s0 ops).owner ∧ (step (run s0 ops) op).1.owner = p ∧
      ProposedByOwner s0 ops p := by
  obtain ⟨p, h1, h2, h3, h4⟩ := owner_change_step _ _ h
  exact ⟨p, h1, h2, h3, h4, pendingOwner_proposed s0 h0 ops p h2⟩

/-- The proposer found by `ProposedByOwner` is still the owner at the end of the history. -/
theorem ProposedByOwner.still_owner {s0 : State} {ops : List Op} {p : Nat}
    (h : ProposedByOwner s0 ops p) :
    ∃ pre post, ops = pre ++ Op.changeOwner (run s0 ops).owner p true :: post ∧
      (run s0 pre).owner = (run s0 ops).owner := by
  obtain ⟨pre, x, post, hops, hx, hall⟩ := h
  have := (hall post List.prefix_rfl).1
  rw [← hops] at this
  subst hx
  exact ⟨pre, post, by rw [this]; exact hops, this.symm⟩

/-! ### Worker: the key changes no earlier than 900 epochs after the owner's request -/

/-- `RequestedByOwner s0 ops k`: the history contains a `ChangeWorkerAddress` naming
    `k.newWorker`, sent by the account that was the owner at that moment, at an epoch `e` with
    `k.effectiveAt = e + 900`; ever since, `k` has been the pending key change and the worker has
    not changed. -/
def RequestedByOwner (s0 : State) (ops : List Op) (k : PendingWorker) : Prop :=
  Since s0 ops
    (fun b x => ∃ nc e, x = Op.changeWorker b.owner k.newWorker nc e true true ∧
      k.effectiveAt = e + 900)
    (fun b t => t.worker = b.worker ∧ t.pendingWorker = some k)

/-- One step: the worker changes only by `process_pending_worker` (run by the owner's
    `ConfirmChangeWorkerAddress` or by the cron callback) at an epoch not before the pending
    key's effective epoch, and becomes exactly the pending key. -/
theorem worker_change_step (s : State) (op : Op) (h : (step s op).1.worker ≠ s.worker) :
    ∃ k e, (op = .confirmChangeWorker s.owner e ∨ op = .cronTick e) ∧
      s.pendingWorker = some k ∧ k.effectiveAt ≤ e ∧ (step s op).1.worker = k.newWorker ∧
      (step s op).1.pendingWorker = none := by
  have he := step_effect s op
  generalize (step s op).1 = s' at he h
  cases he with
  | applyWorker op e k hop hk he' => exact ⟨k, e, hop, hk, he', rfl, rfl⟩
  | noChange => exact absurd rfl h
  | proposeOwner => exact absurd rfl h
  | confirmOwner => exact absurd rfl h
  | changeWorker => exact absurd rfl h
  | withdraw => exact absurd rfl h
  | proposeBen new q x e hq => exact absurd (by simp) h
  | approveBen c p e hp hc hc2 => exact absurd (by simp) h

/-- One step: a pending key change is either the one pending before, or was just recorded by the
    owner's `ChangeWorkerAddress` with effective epoch = message epoch + 900; the worker itself is
    untouched. -/
theorem pendingWorker_step (s : State) (op : Op) (k : PendingWorker)
    (h : (step s op).1.pendingWorker = some k) :
    (s.pendingWorker = some k ∧ (step s op).1.worker = s.worker) ∨
    ((∃ nc e, op = .changeWorker s.owner k.newWorker nc e true true ∧ k.effectiveAt = e + 900) ∧
      (step s op).1.worker = s.worker) := by
  have he := step_effect s op
  generalize (step s op).1 = s' at he h
  cases he with
  | noChange => exact Or.inl ⟨h, rfl⟩
  | proposeOwner => exact Or.inl ⟨h, rfl⟩
  | confirmOwner => exact Or.inl ⟨h, rfl⟩
  | changeWorker nw nc e hlen =>
    by_cases hc : nw ≠ s.worker ∧ s.pendingWorker = none
    · right
      simp only at h
      rw [if_pos hc] at h
      injection h with h
      subst h
      exact ⟨⟨nc, e, rfl, rfl⟩, rfl⟩
    · left
      simp only at h
      rw [if_neg hc] at h
      exact ⟨h, rfl⟩
  | applyWorker => simp at h
  | withdraw => exact Or.inl ⟨h, rfl⟩
  | proposeBen new q x e hq => left; simpa using h
  | approveBen c p' e hp hc hc2 => left; simpa using h

theorem pendingWorker_requested (s0 : State) (h0 : s0.pendingWorker = none) (ops : List Op)
    (k : PendingWorker) (h : (run s0 ops).pendingWorker = some k) : RequestedByOwner s0 ops k := by
  refine since_of_steps (P := fun s => s.pendingWorker = some k) ?_ (by simp [h0]) ops h
  intro s op hp
  rcases pendingWorker_step s op k hp with ⟨h1, h2⟩ | ⟨h1, h2⟩
  · left
    refine ⟨h1, ?_⟩
    intro b hb
    exact ⟨by rw [h2]; exact hb.1, hp⟩
  · right
    exact ⟨h1, h2, hp⟩

/-- **worker_delay.** In every history that starts without a pending key change: a message changes
    the worker only if it is the owner's `ConfirmChangeWorkerAddress` or the cron callback, at an
    epoch `e`; the new worker is the pending one; that key change was requested by a
    `ChangeWorkerAddress` of the then-owner at some epoch `e0`; and `e0 + 900 ≤ e`
    (900 = `worker_key_change_delay`).  Until this message the previous worker stayed in place. -/
theorem worker_delay (s0 : State) (h0 : s0.pendingWorker = none) (ops : List Op) (op : Op)
    (h : (step (run s0 ops) op).1.worker ≠ (run s0 ops).worker) :
    ∃ k e, (op = .confirmChangeWorker (run s0 ops).owner e ∨ op = .cronTick e) ∧
      (run s0 ops).pendingWorker = some k ∧ (step (run s0 ops) op).1.worker = k.newWorker ∧
      ∃ pre post nc e0,
        ops = pre ++ Op.changeWorker (run s0 pre).owner k.newWorker nc e0 true true :: post ∧
        e0 + 900 ≤ e ∧ (run s0 pre).worker = (run s0 ops).worker := by
  obtain ⟨k, e, hop, hk, hle, hw, _⟩ := worker_change_step _ _ h
  obtain ⟨pre, x, post, hops, ⟨nc, e0, hx, heff⟩, hall⟩ := pendingWorker_requested s0 h0 ops k hk
  have hlast := (hall post List.prefix_rfl).1
  rw [← hops] at hlast
  subst hx
  exact ⟨k, e, hop, hk, hw, pre, post, nc, e0, hops, by omega, hlast.symm⟩

/-! ### Beneficiary: both the nominee and the current beneficiary (while its term is active) -/

/-- the pending proposal of `s` names `(n, q, x)` -/
def PendingIs (s : State) (n : Nat) (q x : Int) (p : PendingBen) : Prop :=
  s.pendingBen = some p ∧ p.newBeneficiary = n ∧ p.newQuota = q ∧ p.newExpiration = x

/-- `NomineeApproved s0 ops n q x`: the history contains a `ChangeBeneficiary(n, q, x)` sent by
    the nominee `n` itself, and ever since the proposal `(n, q, x)` has been pending with the
    nominee's approval recorded. -/
def NomineeApproved (s0 : State) (ops : List Op) (n : Nat) (q x : Int) : Prop :=
  Since s0 ops (fun _ op => ∃ e, op = Op.changeBeneficiary n n q x e true)
    (fun _ t => ∃ p, PendingIs t n q x p ∧ p.approvedByNominee = true)

/-- `BeneficiaryApproved s0 ops n q x`: the history contains a `ChangeBeneficiary(n, q, x)` sent
    either by the account that was the beneficiary at that moment, or by the owner at an epoch at
    which the current beneficiary's term had nothing available (expired, or quota used up); ever
    since, the proposal `(n, q, x)` has been pending with the beneficiary's approval recorded and
    the beneficiary has not changed. -/
def BeneficiaryApproved (s0 : State) (ops : List Op) (n : Nat) (q x : Int) : Prop :=
  Since s0 ops
    (fun b op => ∃ c e, op = Op.changeBeneficiary c n q x e true ∧
      (c = b.beneficiary ∨ (c = b.owner ∧ b.benTerm.available e = 0)))
    (fun b t => (∃ p, PendingIs t n q x p ∧ p.approvedByBeneficiary = true) ∧
      t.beneficiary = b.beneficiary)

/-- One step: how a pending beneficiary proposal with given flags can arise.  Either it was
    pending before with flags at most these, or this message is a `ChangeBeneficiary` naming it;
    the nominee flag is new only if the caller is the nominee; the beneficiary flag is new only if
    the caller is the current beneficiary, or the owner proposing while the term has nothing
    available.  The beneficiary itself is unchanged while a proposal stays pending. -/
theorem pendingBen_step (s : State) (op : Op) (n : Nat) (q x : Int) (p' : PendingBen)
    (h : PendingIs (step s op).1 n q x p') :
    (step s op).1.beneficiary = s.beneficiary ∧
    (PendingIs s n q x p' ∨
     ∃ c e, op = .changeBeneficiary c n q x e true ∧
       (p'.approvedByNominee = true →
          c = n ∨ (c ≠ s.owner ∧ ∃ p, PendingIs s n q x p ∧ p.approvedByNominee = true)) ∧
       (p'.approvedByBeneficiary = true →
          c = s.beneficiary ∨ (c = s.owner ∧ s.benTerm.available e = 0) ∨
          (c ≠ s.owner ∧ ∃ p, PendingIs s n q x p ∧ p.approvedByBeneficiary = true))) := by
  have he := step_effect s op
  unfold PendingIs at h
  generalize (step s op).1 = s' at he h
  obtain ⟨hpb, hn, hq, hx⟩ := h
  cases he with
  | noChange => exact ⟨rfl, Or.inl ⟨hpb, hn, hq, hx⟩⟩
  | proposeOwner => exact ⟨rfl, Or.inl ⟨hpb, hn, hq, hx⟩⟩
  | confirmOwner => simp at hpb
  | changeWorker => exact ⟨rfl, Or.inl ⟨hpb, hn, hq, hx⟩⟩
  | applyWorker => exact ⟨rfl, Or.inl ⟨hpb, hn, hq, hx⟩⟩
  | withdraw => exact ⟨rfl, Or.inl ⟨hpb, hn, hq, hx⟩⟩
  | proposeBen new q' x' e hq' =>
    rw [benFinish_spec _ _ _ _ rfl] at hpb ⊢
    split at hpb
    · simp at hpb
    · rename_i hnot
      rw [if_neg hnot]
      simp only [Option.some.injEq] at hpb
      subst hpb
      simp only [proposal] at hn hq hx ⊢
      subst hn; subst hq; subst hx
      refine ⟨trivial, Or.inr ⟨s.owner, e, rfl, ?_, ?_⟩⟩
      · intro hf; left; simpa using hf
      · intro hf
        simp only [Bool.or_eq_true, decide_eq_true_eq] at hf
        rcases hf with hf | hf
        · exact Or.inr (Or.inl ⟨rfl, hf⟩)
        · exact Or.inl hf
  | approveBen c p e hp hc hc2 =>
    rw [benFinish_spec _ _ _ p hp] at hpb ⊢
    split at hpb
    · simp at hpb
    · rename_i hnot
      rw [if_neg hnot]
      simp only [Option.some.injEq] at hpb
      subst hpb
      simp only at hn hq hx ⊢
      subst hn; subst hq; subst hx
      refine ⟨trivial, Or.inr ⟨c, e, rfl, ?_, ?_⟩⟩
      · intro hf
        simp only [Bool.or_eq_true, decide_eq_true_eq] at hf
        rcases hf with hf | hf
        · exact Or.inr ⟨hc, p, ⟨hp, rfl, rfl, rfl⟩, hf⟩
        · exact Or.inl hf
      · intro hf
        simp only [Bool.or_eq_true, decide_eq_true_eq] at hf
        rcases hf with hf | hf
        · exact Or.inr (Or.inr ⟨hc, p, ⟨hp, rfl, rfl, rfl⟩, hf⟩)
        · exact Or.inl hf

/-- In every history from a state without a pending proposal: a recorded nominee approval was put
    there by a message of the nominee itself. -/
theorem nominee_flag_history (s0 : State) (h0 : s0.pendingBen = none) (ops : List Op) (n : Nat)
    (q x : Int) (p : PendingBen) (h : PendingIs (run s0 ops) n q x p)
    (hf : p.approvedByNominee = true) : NomineeApproved s0 ops n q x := by
  refine since_of_steps (P := fun s => ∃ p, PendingIs s n q x p ∧ p.approvedByNominee = true)
    ?_ (by simp [PendingIs, h0]) ops ⟨p, h, hf⟩
  intro s op ⟨p', hp', hf'⟩
  obtain ⟨_, h1 | ⟨c, e, hop, hnom, _⟩⟩ := pendingBen_step s op n q x p' hp'
  · exact Or.inl ⟨⟨p', h1, hf'⟩, fun _ _ => ⟨p', hp', hf'⟩⟩
  · rcases hnom hf' with hc | ⟨_, pp, hpp, hppf⟩
    · subst hc; exact Or.inr ⟨⟨e, hop⟩, p', hp', hf'⟩
    · exact Or.inl ⟨⟨pp, hpp, hppf⟩, fun _ _ => ⟨p', hp', hf'⟩⟩

/-- In every history from a state without a pending proposal: a recorded beneficiary approval was
    put there by a message of the then-beneficiary, or by the owner's proposal at an epoch when the
    beneficiary's term had nothing available. -/
theorem beneficiary_flag_history (s0 : State) (h0 : s0.pendingBen = none) (ops : List Op)
    (n : Nat) (q x : Int) (p : PendingBen) (h : PendingIs (run s0 ops) n q x p)
    (hf : p.approvedByBeneficiary = true) : BeneficiaryApproved s0 ops n q x := by
  refine since_of_steps
    (P := fun s => ∃ p, PendingIs s n q x p ∧ p.approvedByBeneficiary = true)
    ?_ (by simp [PendingIs, h0]) ops ⟨p, h, hf⟩
  intro s op ⟨p', hp', hf'⟩
  obtain ⟨hben, h1 | ⟨c, e, hop, _, hb⟩⟩ := pendingBen_step s op n q x p' hp'
  · exact Or.inl ⟨⟨p', h1, hf'⟩, fun b hb => ⟨⟨p', hp', hf'⟩, by rw [hben]; exact hb.2⟩⟩
  · rcases hb hf' with hc | ⟨hc, hav⟩ | ⟨_, pp, hpp, hppf⟩
    · exact Or.inr ⟨⟨c, e, hop, Or.inl hc⟩, ⟨p', hp', hf'⟩, hben⟩
    · exact Or.inr ⟨⟨c, e, hop, Or.inr ⟨hc, hav⟩⟩, ⟨p', hp', hf'⟩, hben⟩
    · exact Or.inl ⟨⟨pp, hpp, hppf⟩, fun b hb => ⟨⟨p', hp', hf'⟩, by rw [hben]; exact hb.2⟩⟩

/-- One step: the beneficiary changes only (a) together with the owner, when the beneficiary *is*
    the owner and the pending owner confirms, or (b) by a `ChangeBeneficiary(new, q, x)` after which
    both approvals are present: the nominee's (this caller is `new`, or the flag was already
    recorded on this very proposal) and the current beneficiary's (this caller is the beneficiary,
    or the flag was already recorded, or this is the owner's proposal at an epoch where the current
    term has nothing available).  The new term is `(q, 0, x)`. -/
theorem beneficiary_change_step (s : State) (op : Op)
    (h : (step s op).1.beneficiary ≠ s.beneficiary) :
    (∃ p, op = .changeOwner p p true ∧ s.pendingOwner = some p ∧ s.beneficiary = s.owner ∧
      (step s op).1.beneficiary = p ∧ (step s op).1.owner = p) ∨
    (∃ c new q x e, op = .changeBeneficiary c new q x e true ∧
      (step s op).1.beneficiary = new ∧
      (step s op).1.benTerm = { quota := q, usedQuota := 0, expiration := x } ∧
      (step s op).1.pendingBen = none ∧
      (c = new ∨ (c ≠ s.owner ∧ ∃ p, PendingIs s new q x p ∧ p.approvedByNominee = true)) ∧
      (c = s.beneficiary ∨ (c = s.owner ∧ s.benTerm.available e = 0) ∨
        (c ≠ s.owner ∧ ∃ p, PendingIs s new q x p ∧ p.approvedByBeneficiary = true))) := by
  have he := step_effect s op
  generalize (step s op).1 = s' at he h
  cases he with
  | noChange => exact absurd rfl h
  | proposeOwner => exact absurd rfl h
  | changeWorker => exact absurd rfl h
  | applyWorker => exact absurd rfl h
  | withdraw => exact absurd rfl h
  | confirmOwner p hp hne =>
    left
    by_cases hb : s.beneficiary = s.owner
    · exact ⟨p, rfl, hp, hb, by simp [hb], rfl⟩
    · simp [hb] at h
  | proposeBen new q x e hq =>
    right
    rw [benFinish_spec _ _ _ _ rfl] at h ⊢
    split
    · rename_i hyes
      rw [if_pos hyes] at h
      simp only [proposal, Bool.or_eq_true, decide_eq_true_eq, Bool.false_or] at hyes
      have hne : new ≠ s.beneficiary := fun e => h e
      refine ⟨s.owner, new, q, x, e, rfl, rfl, by simp [proposal, hne], rfl, Or.inl hyes.2, ?_⟩
      rcases hyes.1 with hav | hc
      · exact Or.inr (Or.inl ⟨rfl, hav⟩)
      · exact Or.inl hc
    · rename_i hno
      rw [if_neg hno] at h
      exact absurd rfl h
  | approveBen c p e hp hc hc2 =>
    right
    rw [benFinish_spec _ _ _ p hp] at h ⊢
    split
    · rename_i hyes
      rw [if_pos hyes] at h
      simp only [Bool.or_eq_true, decide_eq_true_eq] at hyes
      have hne : p.newBeneficiary ≠ s.beneficiary := fun e => h e
      refine ⟨c, _, _, _, e, rfl, rfl, by simp [hne], rfl, ?_, ?_⟩
      · rcases hyes.2 with hf | hcn
        · exact Or.inr ⟨hc, p, ⟨hp, rfl, rfl, rfl⟩, hf⟩
        · exact Or.inl hcn
      · rcases hyes.1 with hf | hcb
        · exact Or.inr (Or.inr ⟨hc, p, ⟨hp, rfl, rfl, rfl⟩, hf⟩)
        · exact Or.inl hcb
    · rename_i hno
      rw [if_neg hno] at h
      exact absurd rfl h

/-- **beneficiary_two_sided.** In every history that starts without a pending proposal: a message
    changes the beneficiary only if either (a) the beneficiary is the owner and ownership is handed
    over in this very message (the beneficiary follows the owner), or (b) it is a
    `ChangeBeneficiary(new, q, x)` and both sides have approved exactly this proposal: the nominee
    `new` — by this message or by an earlier message of its own — and the current beneficiary — by
    this message, or by an earlier message of its own, or waived because the owner proposed at an
    epoch at which the current term had nothing available (expired or quota used up). -/
theorem beneficiary_two_sided (s0 : State) (h0 : s0.pendingBen = none) (ops : List Op) (op : Op)
    (h : (step (run s0 ops) op).1.beneficiary ≠ (run s0 ops).beneficiary) :
    (∃ p, op = .changeOwner p p true ∧ (run s0 ops).pendingOwner = some p ∧
      (run s0 ops).beneficiary = (run s0 ops).owner ∧
      (step (run s0 ops) op).1.beneficiary = p ∧ (step (run s0 ops) op).1.owner = p) ∨
    (∃ c new q x e, op = .changeBeneficiary c new q x e true ∧
      (step (run s0 ops) op).1.beneficiary = new ∧
      (step (run s0 ops) op).1.benTerm = { quota := q, usedQuota := 0, expiration := x } ∧
      (c = new ∨ NomineeApproved s0 ops new q x) ∧
      (c = (run s0 ops).beneficiary ∨
        (c = (run s0 ops).owner ∧ (run s0 ops).benTerm.available e = 0) ∨
        BeneficiaryApproved s0 ops new q x)) := by
  rcases beneficiary_change_step _ _ h with h1 | ⟨c, new, q, x, e, hop, hb, ht, _, hn, hbn⟩
  · exact Or.inl h1
  · refine Or.inr ⟨c, new, q, x, e, hop, hb, ht, ?_, ?_⟩
    · rcases hn with hn | ⟨_, p, hp, hf⟩
      · exact Or.inl hn
      · exact Or.inr (nominee_flag_history s0 h0 ops new q x p hp hf)
    · rcases hbn with hbn | hbn | ⟨_, p, hp, hf⟩
      · exact Or.inl hbn
      · exact Or.inr (Or.inl hbn)
      · exact Or.inr (Or.inr (beneficiary_flag_history s0 h0 ops new q x p hp hf))

end BA.MinerControl
