/-
  C13 — Control of a miner changes hands only by two-sided, delayed handover.
  Property theorems over the model `BA.MinerControl` (actors/miner/src/lib.rs:
  change_owner_address, change_worker_address, confirm_change_worker_address, change_beneficiary,
  the quota side of withdraw_balance, process_pending_worker).  All statements hold for every
  state / every history of messages by arbitrary callers at arbitrary epochs.
-/
import BA.Lemmas.MinerControl

namespace BA.MinerControl
open BA

/-! ### Owner: proposal by the owner, confirmation by the proposed address -/

/-- `ProposedByOwner s0 ops p`: somewhere in the history `ops` (started in `s0`) the account that
    was the owner at that moment sent `ChangeOwnerAddress(p)`, and in every state since then (up to
    the end of `ops`) that account has remained the owner and `p` has remained the pending owner. -/
def ProposedByOwner (s0 : State) (ops : List Op) (p : Nat) : Prop :=
  Since s0 ops (fun b x => x = Op.changeOwner b.owner p true)
    (fun b t => t.owner = b.owner ∧ t.pendingOwner = some p)

/-- One step: the owner field changes only when the pending owner itself calls
    `ChangeOwnerAddress` naming its own address. -/
theorem owner_change_step (s : State) (op : Op) (h : (step s op).1.owner ≠ s.owner) :
    ∃ p, op = .changeOwner p p true ∧ s.pendingOwner = some p ∧ p ≠ s.owner ∧
      (step s op).1.owner = p := by
  have he := step_effect s op
  generalize (step s op).1 = s' at he h
  cases he with
  | confirmOwner p hp hne => exact ⟨p, rfl, hp, hne, rfl⟩
  | noChange => exact absurd rfl h
  | proposeOwner => exact absurd rfl h
  | changeWorker => exact absurd rfl h
  | applyWorker => exact absurd rfl h
  | withdraw => exact absurd rfl h
  | proposeBen new q x e hq =>
    exfalso; apply h
    rw [benFinish_spec _ _ _ _ rfl]; split <;> rfl
  | approveBen c p e hp hc hc2 =>
    exfalso; apply h
    rw [benFinish_spec _ _ _ p hp]; split <;> rfl

/-- One step: a pending owner `p` is either the one that was pending before, or was put there by
    the owner's own `ChangeOwnerAddress(p)`; the owner is the same before and after. -/
theorem pendingOwner_step (s : State) (op : Op) (p : Nat)
    (h : (step s op).1.pendingOwner = some p) :
    (s.pendingOwner = some p ∧ (step s op).1.owner = s.owner) ∨
    (op = .changeOwner s.owner p true ∧ (step s op).1.owner = s.owner) := by
  have he := step_effect s op
  generalize (step s op).1 = s' at he h
  cases he with
  | noChange => exact Or.inl ⟨h, rfl⟩
  | proposeOwner newAddr =>
    right
    by_cases hn : newAddr = s.owner
    · simp [hn] at h
    · simp [hn] at h; subst h; exact ⟨rfl, rfl⟩
  | confirmOwner p' hp hne => simp at h
  | changeWorker => exact Or.inl ⟨h, rfl⟩
  | applyWorker => exact Or.inl ⟨h, rfl⟩
  | withdraw => exact Or.inl ⟨h, rfl⟩
  | proposeBen new q x e hq => left; simpa using h
  | approveBen c p' e hp hc hc2 => left; simpa using h

/-- In every history from a state with no pending owner: whoever is pending owner at the end was
    proposed by a `ChangeOwnerAddress` of the then-owner, who has been the owner ever since. -/
theorem pendingOwner_proposed (s0 : State) (h0 : s0.pendingOwner = none) (ops : List Op) (p : Nat)
    (h : (run s0 ops).pendingOwner = some p) : ProposedByOwner s0 ops p := by
  refine since_of_steps (P := fun s => s.pendingOwner = some p) ?_ (by simp [h0]) ops h
  intro s op hp
  rcases pendingOwner_step s op p hp with ⟨h1, h2⟩ | ⟨h1, h2⟩
  · left
    refine ⟨h1, ?_⟩
    intro b hb
    exact ⟨by rw [h2]; exact hb.1, hp⟩
  · right
    exact ⟨h1, h2, hp⟩

/-- **owner_two_step.** In every history (any callers, any epochs) that starts without a pending
    owner: a message changes the owner only if it is `ChangeOwnerAddress(p)` sent by `p` itself
    while `p` is the pending owner, the new owner is exactly `p`, and `p` became pending through an
    earlier `ChangeOwnerAddress(p)` sent by the account that was then — and has been until this
    very message — the owner. -/
theorem owner_two_step (s0 : State) (h0 : s0.pendingOwner = none) (ops : List Op) (op : Op)
    (h : (step (run s0 ops) op).1.owner ≠ (run s0 ops).owner) :
    ∃ p, op = .changeOwner p p true ∧ (run s0 ops).pendingOwner = some p ∧
      p ≠ (run s0 ops).owner ∧ (step (run s0 ops) op).1.owner = p ∧
      ProposedByOwner s0 ops p := by
  obtain ⟨p, h1, h2, h3, h4⟩ := owner_change_step _ _ h
  exact ⟨p, h1, h2, h3, h4, pendingOwner_proposed s0 h0 ops p h2⟩

/-- The proposer found by `ProposedByOwner` is still the owner at the end of the history. -/
theorem ProposedByOwner.still_owner {s0 : State} {ops : List Op} {p : Nat}
    (h : ProposedByOwner s0 ops p) :
    ∃ pre post, ops = pre ++ Op.changeOwner (run s0 ops).owner p true :: post ∧
      (run s0 pre).owner = (run s0 ops).owner := by
  obtain ⟨pre, x, post, hops, hx, hall⟩ := h
  have := (hall post List.prefix_rfl).1
  rw [← hops] at this
  subst hx
  exact ⟨pre, post, by rw [this]; exact hops, this.symm⟩

/-! ### Worker: the key changes no earlier than 900 epochs after the owner's request -/

/-- `RequestedByOwner s0 ops k`: the history contains a `ChangeWorkerAddress` naming
    `k.newWorker`, sent by the account that was the owner at that moment, at an epoch `e` with
    `k.effectiveAt = e + 900`; ever since, `k` has been the pending key change and the worker has
    not changed. -/
def RequestedByOwner (s0 : State) (ops : List Op) (k : PendingWorker) : Prop :=
  Since s0 ops
    (fun b x => ∃ nc e, x = Op.changeWorker b.owner k.newWorker nc e true true ∧
      k.effectiveAt = e + 900)
    (fun b t => t.worker = b.worker ∧ t.pendingWorker = some k)

/-- One step: the worker changes only by `process_pending_worker` (run by the owner's
    `ConfirmChangeWorkerAddress` or by the cron callback) at an epoch not before the pending
    key's effective epoch, and becomes exactly the pending key. -/
theorem worker_change_step (s : State) (op : Op) (h : (step s op).1.worker ≠ s.worker) :
    ∃ k e, (op = .confirmChangeWorker s.owner e ∨ op = .cronTick e) ∧
      s.pendingWorker = some k ∧ k.effectiveAt ≤ e ∧ (step s op).1.worker = k.newWorker ∧
      (step s op).1.pendingWorker = none := by
  have he := step_effect s op
  generalize (step s op).1 = s' at he h
  cases he with
  | applyWorker op e k hop hk he' => exact ⟨k, e, hop, hk, he', rfl, rfl⟩
  | noChange => exact absurd rfl h
  | proposeOwner => exact absurd rfl h
  | confirmOwner => exact absurd rfl h
  | changeWorker => exact absurd rfl h
  | withdraw => exact absurd rfl h
  | proposeBen new q x e hq => exact absurd (by simp) h
  | approveBen c p e hp hc hc2 => exact absurd (by simp) h

/-- One step: a pending key change is either the one pending before, or was just recorded by the
    owner's `ChangeWorkerAddress` with effective epoch = message epoch + 900; the worker itself is
    untouched. -/
theorem pendingWorker_step (s : State) (op : Op) (k : PendingWorker)
    (h : (step s op).1.pendingWorker = some k) :
    (s.pendingWorker = some k ∧ (step s op).1.worker = s.worker) ∨
    ((∃ nc e, op = .changeWorker s.owner k.newWorker nc e true true ∧ k.effectiveAt = e + 900) ∧
      (step s op).1.worker = s.worker) := by
  have he := step_effect s op
  generalize (step s op).1 = s' at he h
  cases he with
  | noChange => exact Or.inl ⟨h, rfl⟩
  | proposeOwner => exact Or.inl ⟨h, rfl⟩
  | confirmOwner => exact Or.inl ⟨h, rfl⟩
  | changeWorker nw nc e hlen =>
    by_cases hc : nw ≠ s.worker ∧ s.pendingWorker = none
    · right
      simp only at h
      rw [if_pos hc] at h
      injection h with h
      subst h
      exact ⟨⟨nc, e, rfl, rfl⟩, rfl⟩
    · left
      simp only at h
      rw [if_neg hc] at h
      exact ⟨h, rfl⟩
  | applyWorker => simp at h
  | withdraw => exact Or.inl ⟨h, rfl⟩
  | proposeBen new q x e hq => left; simpa using h
  | approveBen c p' e hp hc hc2 => left; simpa using h

theorem pendingWorker_requested (s0 : State) (h0 : s0.pendingWorker = none) (ops : List Op)
    (k : PendingWorker) (h : (run s0 ops).pendingWorker = some k) : RequestedByOwner s0 ops k := by
  refine since_of_steps (P := fun s => s.pendingWorker = some k) ?_ (by simp [h0]) ops h
  intro s op hp
  rcases pendingWorker_step s op k hp with ⟨h1, h2⟩ | ⟨h1, h2⟩
  · left
    refine ⟨h1, ?_⟩
    intro b hb
    exact ⟨by rw [h2]; exact hb.1, hp⟩
  · right
    exact ⟨h1, h2, hp⟩

/-- **worker_delay.** In every history that starts without a pending key change: a message changes
    the worker only if it is the owner's `ConfirmChangeWorkerAddress` or the cron callback, at an
    epoch `e`; the new worker is the pending one; that key change was requested by a
    `ChangeWorkerAddress` of the then-owner at some epoch `e0`; and `e0 + 900 ≤ e`
    (900 = `worker_key_change_delay`).  Until this message the previous worker stayed in place. -/
theorem worker_delay (s0 : State) (h0 : s0.pendingWorker = none) (ops : List Op) (op : Op)
    (h : (step (run s0 ops) op).1.worker ≠ (run s0 ops).worker) :
    ∃ k e, (op = .confirmChangeWorker (run s0 ops).owner e ∨ op = .cronTick e) ∧
      (run s0 ops).pendingWorker = some k ∧ (step (run s0 ops) op).1.worker = k.newWorker ∧
      ∃ pre post nc e0,
        ops = pre ++ Op.changeWorker (run s0 pre).owner k.newWorker nc e0 true true :: post ∧
        e0 + 900 ≤ e ∧ (run s0 pre).worker = (run s0 ops).worker := by
  obtain ⟨k, e, hop, hk, hle, hw, _⟩ := worker_change_step _ _ h
  obtain ⟨pre, x, post, hops, ⟨nc, e0, hx, heff⟩, hall⟩ := pendingWorker_requested s0 h0 ops k hk
  have hlast := (hall post List.prefix_rfl).1
  rw [← hops] at hlast
  subst hx
  exact ⟨k, e, hop, hk, hw, pre, post, nc, e0, hops, by omega, hlast.symm⟩

/-! ### Beneficiary: both the nominee and the current beneficiary (while its term is active) -/

/-- the pending proposal of `s` names `(n, q, x)` -/
def PendingIs (s : State) (n : Nat) (q x : Int) (p : PendingBen) : Prop :=
  s.pendingBen = some p ∧ p.newBeneficiary = n ∧ p.newQuota = q ∧ p.newExpiration = x

/-- `NomineeApproved s0 ops n q x`: the history contains a `ChangeBeneficiary(n, q, x)` sent by
    the nominee `n` itself, and ever since the proposal `(n, q, x)` has been pending with the
    nominee's approval recorded. -/
def NomineeApproved (s0 : State) (ops : List Op) (n : Nat) (q x : Int) : Prop :=
  Since s0 ops (fun _ op => ∃ e, op = Op.changeBeneficiary n n q x e true)
    (fun _ t => ∃ p, PendingIs t n q x p ∧ p.approvedByNominee = true)

/-- `BeneficiaryApproved s0 ops n q x`: the history contains a `ChangeBeneficiary(n, q, x)` sent
    either by the account that was the beneficiary at that moment, or by the owner at an epoch at
    which the current beneficiary's term had nothing available (expired, or quota used up); ever
    since, the proposal `(n, q, x)` has been pending with the beneficiary's approval recorded and
    the beneficiary has not changed. -/
def BeneficiaryApproved (s0 : State) (ops : List Op) (n : Nat) (q x : Int) : Prop :=
  Since s0 ops
    (fun b op => ∃ c e, op = Op.changeBeneficiary c n q x e true ∧
      (c = b.beneficiary ∨ (c = b.owner ∧ b.benTerm.available e = 0)))
    (fun b t => (∃ p, PendingIs t n q x p ∧ p.approvedByBeneficiary = true) ∧
      t.beneficiary = b.beneficiary)

/-- One step: how a pending beneficiary proposal with given flags can arise.  Either it was
    pending before with flags at most these, or this message is a `ChangeBeneficiary` naming it;
    the nominee flag is new only if the caller is the nominee; the beneficiary flag is new only if
    the caller is the current beneficiary, or the owner proposing while the term has nothing
    available.  The beneficiary itself is unchanged while a proposal stays pending. -/
theorem pendingBen_step (s : State) (op : Op) (n : Nat) (q x : Int) (p' : PendingBen)
    (h : PendingIs (step s op).1 n q x p') :
    (step s op).1.beneficiary = s.beneficiary ∧
    (PendingIs s n q x p' ∨
     ∃ c e, op = .changeBeneficiary c n q x e true ∧
       (p'.approvedByNominee = true →
          c = n ∨ (c ≠ s.owner ∧ ∃ p, PendingIs s n q x p ∧ p.approvedByNominee = true)) ∧
       (p'.approvedByBeneficiary = true →
          c = s.beneficiary ∨ (c = s.owner ∧ s.benTerm.available e = 0) ∨
          (c ≠ s.owner ∧ ∃ p, PendingIs s n q x p ∧ p.approvedByBeneficiary = true))) := by
  have he := step_effect s op
  unfold PendingIs at h
  generalize (step s op).1 = s' at he h
  obtain ⟨hpb, hn, hq, hx⟩ := h
  cases he with
  | noChange => exact ⟨rfl, Or.inl ⟨hpb, hn, hq, hx⟩⟩
  | proposeOwner => exact ⟨rfl, Or.inl ⟨hpb, hn, hq, hx⟩⟩
  | confirmOwner => simp at hpb
  | changeWorker => exact ⟨rfl, Or.inl ⟨hpb, hn, hq, hx⟩⟩
  | applyWorker => exact ⟨rfl, Or.inl ⟨hpb, hn, hq, hx⟩⟩
  | withdraw => exact ⟨rfl, Or.inl ⟨hpb, hn, hq, hx⟩⟩
  | proposeBen new q' x' e hq' =>
    rw [benFinish_spec _ _ _ _ rfl] at hpb ⊢
    split at hpb
    · simp at hpb
    · rename_i hnot
      rw [if_neg hnot]
      simp only [Option.some.injEq] at hpb
      subst hpb
      simp only [proposal] at hn hq hx ⊢
      subst hn; subst hq; subst hx
      refine ⟨trivial, Or.inr ⟨s.owner, e, rfl, ?_, ?_⟩⟩
      · intro hf; left; simpa using hf
      · intro hf
        simp only [Bool.or_eq_true, decide_eq_true_eq] at hf
        rcases hf with hf | hf
        · exact Or.inr (Or.inl ⟨rfl, hf⟩)
        · exact Or.inl hf
  | approveBen c p e hp hc hc2 =>
    rw [benFinish_spec _ _ _ p hp] at hpb ⊢
    split at hpb
    · simp at hpb
    · rename_i hnot
      rw [if_neg hnot]
      simp only [Option.some.injEq] at hpb
      subst hpb
      simp only at hn hq hx ⊢
      subst hn; subst hq; subst hx
      refine ⟨trivial, Or.inr ⟨c, e, rfl, ?_, ?_⟩⟩
      · intro hf
        simp only [Bool.or_eq_true, decide_eq_true_eq] at hf
        rcases hf with hf | hf
        · exact Or.inr ⟨hc, p, ⟨hp, rfl, rfl, rfl⟩, hf⟩
        · exact Or.inl hf
      · intro hf
        simp only [Bool.or_eq_true, decide_eq_true_eq] at hf
        rcases hf with hf | hf
        · exact Or.inr (Or.inr ⟨hc, p, ⟨hp, rfl, rfl, rfl⟩, hf⟩)
        · exact Or.inl hf

/-- In every history from a state without a pending proposal: a recorded nominee approval was put
    there by a message of the nominee itself. -/
theorem nominee_flag_history (s0 : State) (h0 : s0.pendingBen = none) (ops : List Op) (n : Nat)
    (q x : Int) (p : PendingBen) (h : PendingIs (run s0 ops) n q x p)
    (hf : p.approvedByNominee = true) : NomineeApproved s0 ops n q x := by
  refine since_of_steps (P := fun s => ∃ p, PendingIs s n q x p ∧ p.approvedByNominee = true)
    ?_ (by simp [PendingIs, h0]) ops ⟨p, h, hf⟩
  intro s op ⟨p', hp', hf'⟩
  obtain ⟨_, h1 | ⟨c, e, hop, hnom, _⟩⟩ := pendingBen_step s op n q x p' hp'
  · exact Or.inl ⟨⟨p', h1, hf'⟩, fun _ _ => ⟨p', hp', hf'⟩⟩
  · rcases hnom hf' with hc | ⟨_, pp, hpp, hppf⟩
    · subst hc; exact Or.inr ⟨⟨e, hop⟩, p', hp', hf'⟩
    · exact Or.inl ⟨⟨pp, hpp, hppf⟩, fun _ _ => ⟨p', hp', hf'⟩⟩

/-- In every history from a state without a pending proposal: a recorded beneficiary approval was
    put there by a message of the then-beneficiary, or by the owner's proposal at an epoch when the
    beneficiary's term had nothing available. -/
theorem beneficiary_flag_history (s0 : State) (h0 : s0.pendingBen = none) (ops : List Op)
    (n : Nat) (q x : Int) (p : PendingBen) (h : PendingIs (run s0 ops) n q x p)
    (hf : p.approvedByBeneficiary = true) : BeneficiaryApproved s0 ops n q x := by
  refine since_of_steps
    (P := fun s => ∃ p, PendingIs s n q x p ∧ p.approvedByBeneficiary = true)
    ?_ (by simp [PendingIs, h0]) ops ⟨p, h, hf⟩
  intro s op ⟨p', hp', hf'⟩
  obtain ⟨hben, h1 | ⟨c, e, hop, _, hb⟩⟩ := pendingBen_step s op n q x p' hp'
  · exact Or.inl ⟨⟨p', h1, hf'⟩, fun b hb => ⟨⟨p', hp', hf'⟩, by rw [hben]; exact hb.2⟩⟩
  · rcases hb hf' with hc | ⟨hc, hav⟩ | ⟨_, pp, hpp, hppf⟩
    · exact Or.inr ⟨⟨c, e, hop, Or.inl hc⟩, ⟨p', hp', hf'⟩, hben⟩
    · exact Or.inr ⟨⟨c, e, hop, Or.inr ⟨hc, hav⟩⟩, ⟨p', hp', hf'⟩, hben⟩
    · exact Or.inl ⟨⟨pp, hpp, hppf⟩, fun b hb => ⟨⟨p', hp', hf'⟩, by rw [hben]; exact hb.2⟩⟩

/-- One step: the beneficiary changes only (a) together with the owner, when the beneficiary *is*
    the owner and the pending owner confirms, or (b) by a `ChangeBeneficiary(new, q, x)` after which
    both approvals are present: the nominee's (this caller is `new`, or the flag was already
    recorded on this very proposal) and the current beneficiary's (this caller is the beneficiary,
    or the flag was already recorded, or this is the owner's proposal at an epoch where the current
    term has nothing available).  The new term is `(q, 0, x)`. -/
theorem beneficiary_change_step (s : State) (op : Op)
    (h : (step s op).1.beneficiary ≠ s.beneficiary) :
    (∃ p, op = .changeOwner p p true ∧ s.pendingOwner = some p ∧ s.beneficiary = s.owner ∧
      (step s op).1.beneficiary = p ∧ (step s op).1.owner = p) ∨
    (∃ c new q x e, op = .changeBeneficiary c new q x e true ∧
      (step s op).1.beneficiary = new ∧
      (step s op).1.benTerm = { quota := q, usedQuota := 0, expiration := x } ∧
      (step s op).1.pendingBen = none ∧
      (c = new ∨ (c ≠ s.owner ∧ ∃ p, PendingIs s new q x p ∧ p.approvedByNominee = true)) ∧
      (c = s.beneficiary ∨ (c = s.owner ∧ s.benTerm.available e = 0) ∨
        (c ≠ s.owner ∧ ∃ p, PendingIs s new q x p ∧ p.approvedByBeneficiary = true))) := by
  have he := step_effect s op
  generalize (step s op).1 = s' at he h
  cases he with
  | noChange => exact absurd rfl h
  | proposeOwner => exact absurd rfl h
  | changeWorker => exact absurd rfl h
  | applyWorker => exact absurd rfl h
  | withdraw => exact absurd rfl h
  | confirmOwner p hp hne =>
    left
    by_cases hb : s.beneficiary = s.owner
    · exact ⟨p, rfl, hp, hb, by simp [hb], rfl⟩
    · simp [hb] at h
  | proposeBen new q x e hq =>
    right
    rw [benFinish_spec _ _ _ _ rfl] at h ⊢
    split
    · rename_i hyes
      rw [if_pos hyes] at h
      simp only [proposal, Bool.or_eq_true, decide_eq_true_eq, Bool.false_or] at hyes
      have hne : new ≠ s.beneficiary := fun e => h e
      refine ⟨s.owner, new, q, x, e, rfl, rfl, by simp [proposal, hne], rfl, Or.inl hyes.2, ?_⟩
      rcases hyes.1 with hav | hc
      · exact Or.inr (Or.inl ⟨rfl, hav⟩)
      · exact Or.inl hc
    · rename_i hno
      rw [if_neg hno] at h
      exact absurd rfl h
  | approveBen c p e hp hc hc2 =>
    right
    rw [benFinish_spec _ _ _ p hp] at h ⊢
    split
    · rename_i hyes
      rw [if_pos hyes] at h
      simp only [Bool.or_eq_true, decide_eq_true_eq] at hyes
      have hne : p.newBeneficiary ≠ s.beneficiary := fun e => h e
      refine ⟨c, _, _, _, e, rfl, rfl, by simp [hne], rfl, ?_, ?_⟩
      · rcases hyes.2 with hf | hcn
        · exact Or.inr ⟨hc, p, ⟨hp, rfl, rfl, rfl⟩, hf⟩
        · exact Or.inl hcn
      · rcases hyes.1 with hf | hcb
        · exact Or.inr (Or.inr ⟨hc, p, ⟨hp, rfl, rfl, rfl⟩, hf⟩)
        · exact Or.inl hcb
    · rename_i hno
      rw [if_neg hno] at h
      exact absurd rfl h

/-- **beneficiary_two_sided.** In every history that starts without a pending proposal: a message
    changes the beneficiary only if either (a) the beneficiary is the owner and ownership is handed
    over in this very message (the beneficiary follows the owner), or (b) it is a
    `ChangeBeneficiary(new, q, x)` and both sides have approved exactly this proposal: the nominee
    `new` — by this message or by an earlier message of its own — and the current beneficiary — by
    this message, or by an earlier message of its own, or waived because the owner proposed at an
    epoch at which the current term had nothing available (expired or quota used up). -/
theorem beneficiary_two_sided (s0 : State) (h0 : s0.pendingBen = none) (ops : List Op) (op : Op)
    (h : (step (run s0 ops) op).1.beneficiary ≠ (run s0 ops).beneficiary) :
    (∃ p, op = .changeOwner p p true ∧ (run s0 ops).pendingOwner = some p ∧
      (run s0 ops).beneficiary = (run s0 ops).owner ∧
      (step (run s0 ops) op).1.beneficiary = p ∧ (step (run s0 ops) op).1.owner = p) ∨
    (∃ c new q x e, op = .changeBeneficiary c new q x e true ∧
      (step (run s0 ops) op).1.beneficiary = new ∧
      (step (run s0 ops) op).1.benTerm = { quota := q, usedQuota := 0, expiration := x } ∧
      (c = new ∨ NomineeApproved s0 ops new q x) ∧
      (c = (run s0 ops).beneficiary ∨
        (c = (run s0 ops).owner ∧ (run s0 ops).benTerm.available e = 0) ∨
        BeneficiaryApproved s0 ops new q x)) := by
  rcases beneficiary_change_step _ _ h with h1 | ⟨c, new, q, x, e, hop, hb, ht, _, hn, hbn⟩
  · exact Or.inl h1
  · refine Or.inr ⟨c, new, q, x, e, hop, hb, ht, ?_, ?_⟩
    · rcases hn with hn | ⟨_, p, hp, hf⟩
      · exact Or.inl hn
      · exact Or.inr (nominee_flag_history s0 h0 ops new q x p hp hf)
    · rcases hbn with hbn | hbn | ⟨_, p, hp, hf⟩
      · exact Or.inl hbn
      · exact Or.inr (Or.inl hbn)
      · exact Or.inr (Or.inr (beneficiary_flag_history s0 h0 ops new q x p hp hf))

/-! ### A pending handover is withdrawn only by the owner -/

/-- proposal `p'` continues proposal `p`: same nominee, quota and expiration; approvals only added -/
def Continues (p p' : PendingBen) : Prop :=
  p'.newBeneficiary = p.newBeneficiary ∧ p'.newQuota = p.newQuota ∧
  p'.newExpiration = p.newExpiration ∧
  (p.approvedByBeneficiary = true → p'.approvedByBeneficiary = true) ∧
  (p.approvedByNominee = true → p'.approvedByNominee = true)

/-- **pending_withdrawn_only_by_owner.** For every state and every message:
    * a pending owner proposal disappears (or is replaced) only by a message of the owner, or by
      its completion (the pending owner confirms and becomes the owner);
    * a pending worker-key change disappears only by taking effect (nobody can withdraw it);
    * a pending beneficiary proposal loses its identity or an approval only by a message of the
      owner (re-proposal), by its completion (it takes effect through a message of the current
      beneficiary or the nominee), or because ownership is handed over in this message (the
      confirming new owner drops the old owner's proposal). -/
theorem pending_withdrawn_only_by_owner (s : State) (op : Op) :
    (∀ p, s.pendingOwner = some p → (step s op).1.pendingOwner ≠ some p →
      op.caller? = some s.owner ∨ (op = .changeOwner p p true ∧ (step s op).1.owner = p)) ∧
    (∀ k, s.pendingWorker = some k → (step s op).1.pendingWorker ≠ some k →
      (step s op).1.worker = k.newWorker ∧
      ∃ e, k.effectiveAt ≤ e ∧ (op = .confirmChangeWorker s.owner e ∨ op = .cronTick e)) ∧
    (∀ p, s.pendingBen = some p →
      (¬ ∃ p', (step s op).1.pendingBen = some p' ∧ Continues p p') →
      op.caller? = some s.owner ∨
      ((step s op).1.pendingBen = none ∧ (step s op).1.beneficiary = p.newBeneficiary ∧
        (step s op).1.benTerm.quota = p.newQuota ∧
        (step s op).1.benTerm.expiration = p.newExpiration ∧
        ∃ c e, op = .changeBeneficiary c p.newBeneficiary p.newQuota p.newExpiration e true ∧
          (c = s.beneficiary ∨ c = p.newBeneficiary)) ∨
      (∃ po, op = .changeOwner po po true ∧ s.pendingOwner = some po ∧
        (step s op).1.owner = po)) := by
  have he := step_effect s op
  generalize (step s op).1 = s' at he
  have crefl : ∀ p : PendingBen, Continues p p := fun p => ⟨rfl, rfl, rfl, id, id⟩
  cases he with
  | noChange =>
    exact ⟨fun p h1 h2 => absurd h1 h2, fun k h1 h2 => absurd h1 h2,
      fun p h1 h2 => absurd ⟨p, h1, crefl p⟩ h2⟩
  | proposeOwner newAddr =>
    exact ⟨fun p h1 h2 => Or.inl rfl, fun k h1 h2 => absurd h1 h2,
      fun p h1 h2 => Or.inl rfl⟩
  | confirmOwner po hp hne =>
    refine ⟨fun p h1 h2 => ?_, fun k h1 h2 => absurd h1 h2,
      fun p h1 h2 => Or.inr (Or.inr ⟨po, rfl, hp, rfl⟩)⟩
    rw [hp] at h1; injection h1 with h1; subst h1
    exact Or.inr ⟨rfl, rfl⟩
  | changeWorker nw nc e hlen =>
    exact ⟨fun p h1 h2 => Or.inl rfl, fun k h1 h2 => Or.elim (Classical.em True)
      (fun _ => absurd (by simp [h1]) h2) (fun _ => absurd (by simp [h1]) h2),
      fun p h1 h2 => Or.inl rfl⟩
  | applyWorker op e k hop hk hle =>
    refine ⟨fun p h1 h2 => absurd h1 h2, fun k' h1 h2 => ?_,
      fun p h1 h2 => absurd ⟨p, h1, crefl p⟩ h2⟩
    rw [hk] at h1; injection h1 with h1; subst h1
    exact ⟨rfl, e, hle, hop⟩
  | withdraw c a e w hc hb hav hw =>
    exact ⟨fun p h1 h2 => absurd h1 h2, fun k h1 h2 => absurd h1 h2,
      fun p h1 h2 => absurd ⟨p, h1, crefl p⟩ h2⟩
  | proposeBen new q x e hq =>
    exact ⟨fun p h1 h2 => Or.inl rfl, fun k h1 h2 => absurd (by simpa using h1) h2,
      fun p h1 h2 => Or.inl rfl⟩
  | approveBen c p e hp hc hc2 =>
    refine ⟨fun p h1 h2 => absurd (by simpa using h1) h2,
      fun k h1 h2 => absurd (by simpa using h1) h2, fun p' h1 h2 => ?_⟩
    rw [hp] at h1; injection h1 with h1; subst h1
    right; left
    rw [benFinish_spec _ _ _ p hp] at h2 ⊢
    split
    · exact ⟨rfl, rfl, rfl, rfl, c, e, rfl, hc2⟩
    · rename_i hno
      rw [if_neg hno] at h2
      exfalso; apply h2
      refine ⟨_, rfl, rfl, rfl, rfl, ?_, ?_⟩ <;> intro hf <;> simp [hf]

/-! ### Strangers change nothing -/

/-- **strangers_change_nothing.** A message whose caller is none of: the owner, the pending owner,
    the beneficiary, the nominee of the pending beneficiary proposal — leaves the whole record
    (owner, worker, control addresses, beneficiary, term, and everything pending) unchanged.  In
    particular the worker and the control addresses have no say over any of it. -/
theorem strangers_change_nothing (s : State) (op : Op) (c : Nat) (hc : op.caller? = some c)
    (h1 : c ≠ s.owner) (h2 : s.pendingOwner ≠ some c) (h3 : c ≠ s.beneficiary)
    (h4 : ∀ p, s.pendingBen = some p → c ≠ p.newBeneficiary) : (step s op).1 = s := by
  have he := step_effect s op
  generalize (step s op).1 = s' at he
  cases he with
  | noChange => rfl
  | proposeOwner newAddr => simp [Op.caller?] at hc; exact absurd hc.symm h1
  | confirmOwner po hp hne => simp [Op.caller?] at hc; subst hc; exact absurd hp h2
  | changeWorker nw nc e hlen => simp [Op.caller?] at hc; exact absurd hc.symm h1
  | applyWorker op e k hop hk hle =>
    rcases hop with hop | hop <;> subst hop <;> simp [Op.caller?] at hc
    exact absurd hc.symm h1
  | withdraw c' a e w hc' hb hav hw =>
    simp [Op.caller?] at hc; subst hc
    rcases hc' with hc' | hc'
    · exact absurd hc' h1
    · exact absurd hc' h3
  | proposeBen new q x e hq => simp [Op.caller?] at hc; exact absurd hc.symm h1
  | approveBen c' p e hp hc' hc2 =>
    simp [Op.caller?] at hc; subst hc
    rcases hc2 with hc2 | hc2
    · exact absurd hc2 h3
    · exact absurd hc2 (h4 p hp)

/-- Only the owner alters the control addresses or records a worker-key change; the cron callback
    (no message caller) and the owner are the only ones that alter the worker. -/
theorem worker_controls_only_by_owner (s : State) (op : Op) :
    ((step s op).1.controls ≠ s.controls → op.caller? = some s.owner) ∧
    ((step s op).1.pendingWorker ≠ s.pendingWorker →
      op.caller? = some s.owner ∨ op.caller? = none) ∧
    ((step s op).1.worker ≠ s.worker → op.caller? = some s.owner ∨ op.caller? = none) := by
  have he := step_effect s op
  generalize (step s op).1 = s' at he
  cases he with
  | noChange => exact ⟨fun h => absurd rfl h, fun h => absurd rfl h, fun h => absurd rfl h⟩
  | proposeOwner => exact ⟨fun h => absurd rfl h, fun h => absurd rfl h, fun h => absurd rfl h⟩
  | confirmOwner => exact ⟨fun h => absurd rfl h, fun h => absurd rfl h, fun h => absurd rfl h⟩
  | changeWorker => exact ⟨fun _ => rfl, fun _ => Or.inl rfl, fun h => absurd rfl h⟩
  | applyWorker op e k hop hk hle =>
    rcases hop with hop | hop <;> subst hop
    · exact ⟨fun h => absurd rfl h, fun _ => Or.inl rfl, fun _ => Or.inl rfl⟩
    · exact ⟨fun h => absurd rfl h, fun _ => Or.inr rfl, fun _ => Or.inr rfl⟩
  | withdraw => exact ⟨fun h => absurd rfl h, fun h => absurd rfl h, fun h => absurd rfl h⟩
  | proposeBen =>
    exact ⟨fun h => absurd (by simp) h, fun h => absurd (by simp) h, fun h => absurd (by simp) h⟩
  | approveBen =>
    exact ⟨fun h => absurd (by simp) h, fun h => absurd (by simp) h, fun h => absurd (by simp) h⟩

/-! ### Until the handover completes the previous party keeps its rights -/

/-- **rights_kept.** In every state, whatever is pending (owner proposal, key change, beneficiary
    proposal with any approvals):
    * the owner still passes every owner-only check: `ChangeWorkerAddress`,
      `ConfirmChangeWorkerAddress`, `ChangeOwnerAddress` and a well-formed `ChangeBeneficiary`
      proposal by the owner succeed;
    * nobody else — in particular not the pending owner, the pending worker or the nominee —
      passes the owner-only checks of `ChangeWorkerAddress` / `ConfirmChangeWorkerAddress`;
    * the owner and the current beneficiary pass the caller check of `WithdrawBalance` and the
      withdrawal succeeds whenever the beneficiary is the owner or the term has quota available;
      everybody else is refused;
    * and a step that does not change owner / worker / beneficiary leaves the corresponding caller
      predicates (`isOwner`, worker ∈ `isControlling`, `mayWithdraw`) of that party intact. -/
theorem rights_kept (s : State) :
    (∀ nw nc e, nc.length ≤ 10 → (step s (.changeWorker s.owner nw nc e true true)).2 = .ok) ∧
    (∀ e, (step s (.confirmChangeWorker s.owner e)).2 = .ok) ∧
    (∀ a, (step s (.changeOwner s.owner a true)).2 = .ok) ∧
    (∀ n q x e, n ≠ s.owner → 0 < q →
      (step s (.changeBeneficiary s.owner n q x e true)).2 = .ok) ∧
    (∀ c, c ≠ s.owner → ∀ nw nc e b1 b2, ∃ err,
      (step s (.changeWorker c nw nc e b1 b2)) = (s, .err err)) ∧
    (∀ c, c ≠ s.owner → ∀ e, (step s (.confirmChangeWorker c e)) = (s, .err .forbidden)) ∧
    (∀ c a e, (c = s.owner ∨ c = s.beneficiary) → 0 ≤ a →
      (s.beneficiary = s.owner ∨ 0 < s.benTerm.available e) →
      ∃ w, (step s (.withdrawUse c a e true)).2 = .withdrawn w) ∧
    (∀ c, c ≠ s.owner → c ≠ s.beneficiary → ∀ a e b,
      (step s (.withdrawUse c a e b)) = (s, .err .forbidden)) ∧
    (∀ op, ((step s op).1.owner = s.owner → isOwner (step s op).1 s.owner) ∧
      ((step s op).1.worker = s.worker → isControlling (step s op).1 s.worker) ∧
      ((step s op).1.beneficiary = s.beneficiary → mayWithdraw (step s op).1 s.beneficiary)) := by
  refine ⟨?_, ?_, ?_, ?_, ?_, ?_, ?_, ?_, ?_⟩
  · intro nw nc e hlen
    have : ¬ nc.length > maxControlAddresses := by
      show ¬ nc.length > 10
      omega
    simp only [step, changeWorker, this, if_false]
    by_cases hc : nw ≠ s.worker ∧ s.pendingWorker = none <;> simp [hc]
  · intro e; simp [step, confirmChangeWorker]
  · intro a; simp [step, changeOwner]
  · intro n q x e hn hq
    have : ¬ q ≤ 0 := by omega
    simp [step, changeBeneficiary, hn, this]
  · intro c hc nw nc e b1 b2
    simp only [step, changeWorker]
    by_cases h1 : nc.length > maxControlAddresses
    · exact ⟨.illegalArgument, by simp [h1]⟩
    · cases b1
      · exact ⟨.illegalArgument, by simp [h1]⟩
      · cases b2
        · exact ⟨.illegalArgument, by simp [h1]⟩
        · exact ⟨.forbidden, by simp [h1, hc]⟩
  · intro c hc e; simp [step, confirmChangeWorker, hc]
  · intro c a e hc ha hav
    simp only [step, withdrawUse]
    have h1 : ¬ (c ≠ s.owner ∧ c ≠ s.beneficiary) := by
      rcases hc with hc | hc <;> simp [hc]
    have h2 : ¬ a < 0 := by omega
    rw [if_neg h1, if_neg h2]
    by_cases hb : s.beneficiary ≠ s.owner
    · have hpos : 0 < s.benTerm.available e := by
        rcases hav with hav | hav
        · exact absurd hav hb
        · exact hav
      have hnz : ¬ s.benTerm.available e = 0 := by omega
      rw [if_pos hb]
      simp only [hnz, if_false, Bool.not_true, Bool.false_eq_true]
      by_cases hw : (if a ≤ s.benTerm.available e then a else s.benTerm.available e) > 0
      · rw [if_pos hw]; exact ⟨_, rfl⟩
      · rw [if_neg hw]; exact ⟨_, rfl⟩
    · rw [if_neg hb]
      exact ⟨a, by simp⟩
  · intro c h1 h2 a e b
    simp [step, withdrawUse, h1, h2]
  · intro op
    exact ⟨fun h => h.symm, fun h => Or.inr (Or.inl h.symm), fun h => Or.inr h.symm⟩

/-! ### What is pending is always well-formed -/

/-- well-formedness of what is pending: the pending owner is never the owner itself, a pending key
    is never the current worker, and a pending beneficiary proposal never carries both approvals
    (it would already have taken effect) -/
def PendingWF (s : State) : Prop :=
  s.pendingOwner ≠ some s.owner ∧
  (∀ k, s.pendingWorker = some k → k.newWorker ≠ s.worker) ∧
  (∀ p, s.pendingBen = some p → ¬ (p.approvedByBeneficiary = true ∧ p.approvedByNominee = true))

theorem pendingWF_init (o w : Nat) (cs : List Nat) : PendingWF (init o w cs) := by
  simp [PendingWF, init]

theorem pendingWF_step (s : State) (op : Op) (h : PendingWF s) : PendingWF (step s op).1 := by
  have he := step_effect s op
  generalize (step s op).1 = s' at he
  obtain ⟨h1, h2, h3⟩ := h
  cases he with
  | noChange => exact ⟨h1, h2, h3⟩
  | proposeOwner newAddr =>
    refine ⟨?_, h2, h3⟩
    by_cases hn : newAddr = s.owner <;> simp [hn]
  | confirmOwner p hp hne =>
    exact ⟨by simp, h2, by simp⟩
  | changeWorker nw nc e hlen =>
    refine ⟨h1, ?_, h3⟩
    intro k hk
    by_cases hc : nw ≠ s.worker ∧ s.pendingWorker = none
    · simp only at hk
      rw [if_pos hc] at hk
      injection hk with hk; subst hk; exact hc.1
    · simp only at hk
      rw [if_neg hc] at hk
      exact h2 k hk
  | applyWorker op e k hop hk hle =>
    exact ⟨h1, by simp, h3⟩
  | withdraw => exact ⟨h1, h2, h3⟩
  | proposeBen new q x e hq =>
    refine ⟨by simpa using h1, by simpa using h2, ?_⟩
    intro p hp
    rw [benFinish_spec _ _ _ _ rfl] at hp
    split at hp
    · simp at hp
    · rename_i hno
      simp only [Option.some.injEq] at hp
      subst hp
      simpa using hno
  | approveBen c p e hp hc hc2 =>
    refine ⟨by simpa using h1, by simpa using h2, ?_⟩
    intro p' hp'
    rw [benFinish_spec _ _ _ p hp] at hp'
    split at hp'
    · simp at hp'
    · rename_i hno
      simp only [Option.some.injEq] at hp'
      subst hp'
      simpa using hno

/-- **pending_wellformed.** `PendingWF` holds in every state reachable from a freshly constructed
    miner, whatever the history. -/
theorem pendingWF_run (s : State) (ops : List Op) (h : PendingWF s) : PendingWF (run s ops) := by
  induction ops generalizing s with
  | nil => exact h
  | cons op rest ih => exact ih _ (pendingWF_step s op h)

/-- a successful withdrawal for a non-owner beneficiary happens strictly before the term's
    expiration and keeps the used quota within the quota -/
theorem withdraw_within_term (s : State) (c : Nat) (a e : Int) (r : Bool) (w : Int)
    (h : (step s (.withdrawUse c a e r)).2 = .withdrawn w) (hb : s.beneficiary ≠ s.owner) :
    (c = s.owner ∨ c = s.beneficiary) ∧ e < s.benTerm.expiration ∧ 0 ≤ w ∧
    (step s (.withdrawUse c a e r)).1.benTerm.usedQuota = s.benTerm.usedQuota + w ∧
    s.benTerm.usedQuota + w ≤ s.benTerm.quota := by
  simp only [step] at h ⊢
  cases hw : withdrawUse s c a e r with
  | error err => simp [hw] at h
  | ok sw =>
    obtain ⟨s', w'⟩ := sw
    simp only [hw] at h ⊢
    injection h with h; subst h
    obtain ⟨hc, _, _, h1 | h1⟩ := withdrawUse_ok hw
    · exact absurd h1.1 hb
    · obtain ⟨_, hav, hw0, _, hwv, hs⟩ := h1
      subst hs
      unfold Term.available at hav hwv
      refine ⟨hc, ?_, hw0, rfl, ?_⟩
      · by_cases hx : s.benTerm.expiration > e
        · omega
        · simp [hx] at hav
      · by_cases hx : s.benTerm.expiration > e
        · simp only [hx, if_true] at hav hwv
          split at hwv <;> split at hav <;> omega
        · simp [hx] at hav

/-! ### The handovers do go through (the hypotheses above are not vacuous, in every state) -/

/-- the two-step owner handover goes through in every state -/
theorem owner_handover_completes (s : State) (p : Nat) (hp : p ≠ s.owner) :
    (run s [.changeOwner s.owner p true, .changeOwner p p true]).owner = p ∧
    (run s [.changeOwner s.owner p true]).owner = s.owner ∧
    (run s [.changeOwner s.owner p true]).pendingOwner = some p := by
  simp [run, step, changeOwner, clearNoop, hp]

/-- a requested key change goes through at the delay, not before -/
theorem worker_handover_completes (s : State) (nw : Nat) (nc : List Nat) (e0 e : Int)
    (hlen : nc.length ≤ 10) (hnw : nw ≠ s.worker) (hnone : s.pendingWorker = none) :
    (e0 + 900 ≤ e →
      (run s [.changeWorker s.owner nw nc e0 true true, .confirmChangeWorker s.owner e]).worker = nw ∧
      (run s [.changeWorker s.owner nw nc e0 true true, .cronTick e]).worker = nw) ∧
    (e < e0 + 900 →
      (run s [.changeWorker s.owner nw nc e0 true true, .confirmChangeWorker s.owner e]).worker = s.worker ∧
      (run s [.changeWorker s.owner nw nc e0 true true, .cronTick e]).worker = s.worker) := by
  have h1 : ¬ nc.length > maxControlAddresses := by
    show ¬ nc.length > 10
    omega
  have hd : workerKeyChangeDelay = 900 := rfl
  constructor
  · intro he
    have : ¬ e < e0 + workerKeyChangeDelay := by rw [hd]; omega
    simp [run, step, changeWorker, confirmChangeWorker, processPendingWorker, h1, hnw, hnone, this]
  · intro he
    have : e < e0 + workerKeyChangeDelay := by rw [hd]; omega
    simp [run, step, changeWorker, confirmChangeWorker, processPendingWorker, h1, hnw, hnone, this]

/-- the three-message beneficiary handover (owner proposes, nominee and sitting beneficiary approve,
    in either order) goes through in every state where the three parties are distinct and the
    sitting beneficiary's term is active; with one approval missing nothing changes hands -/
theorem beneficiary_handover_completes (s : State) (n : Nat) (q x e1 e2 e3 : Int)
    (hno : n ≠ s.owner) (hnb : n ≠ s.beneficiary) (hbo : s.beneficiary ≠ s.owner) (hq : 0 < q)
    (hact : s.benTerm.available e1 ≠ 0) :
    let propose := Op.changeBeneficiary s.owner n q x e1 true
    let byNominee := Op.changeBeneficiary n n q x e2 true
    let byBeneficiary := Op.changeBeneficiary s.beneficiary n q x e3 true
    (run s [propose, byNominee]).beneficiary = s.beneficiary ∧
    (run s [propose, byBeneficiary]).beneficiary = s.beneficiary ∧
    (run s [propose, byNominee, byBeneficiary]).beneficiary = n ∧
    (run s [propose, byBeneficiary, byNominee]).beneficiary = n ∧
    (run s [propose, byNominee, byBeneficiary]).benTerm = { quota := q, usedQuota := 0, expiration := x } := by
  have hq' : ¬ q ≤ 0 := by omega
  have hob : ¬ s.owner = s.beneficiary := fun h => hbo h.symm
  have hon : ¬ s.owner = n := fun h => hno h.symm
  have hbn : ¬ s.beneficiary = n := fun h => hnb h.symm
  simp [run, step, changeBeneficiary, benFinish, hno, hnb, hbo, hq', hact, hob, hon, hbn]

/-! ### Non-vacuity: concrete histories meeting the hypotheses (100 owner, 101 worker,
    102 control, 103 new owner, 104 new worker, 105/106 nominees, 107 stranger) -/

def ex0 : State := init 100 101 [102]

/-- owner handover: proposal by 100, confirmation by 103 changes the owner (hypothesis of
    `owner_two_step` is satisfiable), while a confirmation attempt by a stranger or with another
    address does not -/
example : (step (run ex0 [.changeOwner 100 103 true]) (.changeOwner 103 103 true)).1.owner = 103 ∧
    (run ex0 [.changeOwner 100 103 true]).owner = 100 ∧
    (step (run ex0 [.changeOwner 100 103 true]) (.changeOwner 107 103 true)).1.owner = 100 ∧
    (step (run ex0 [.changeOwner 100 103 true]) (.changeOwner 103 107 true)).1.owner = 100 := by
  decide

/-- the owner revokes its proposal by naming itself; the former nominee can no longer confirm -/
example : (run ex0 [.changeOwner 100 103 true, .changeOwner 100 100 true]).pendingOwner = none ∧
    (run ex0 [.changeOwner 100 103 true, .changeOwner 100 100 true,
      .changeOwner 103 103 true]).owner = 100 := by decide

/-- worker key change requested at epoch 5: not applied at 904 (cron or confirm), applied at 905 -/
example :
    (run ex0 [.changeWorker 100 104 [102] 5 true true, .cronTick 904,
      .confirmChangeWorker 100 904]).worker = 101 ∧
    (run ex0 [.changeWorker 100 104 [102] 5 true true, .cronTick 905]).worker = 104 ∧
    (run ex0 [.changeWorker 100 104 [102] 5 true true, .confirmChangeWorker 100 905]).worker = 104 ∧
    (run ex0 [.changeWorker 100 104 [102] 5 true true, .confirmChangeWorker 104 905]).worker = 101 := by
  decide

/-- beneficiary: 100 (owner = beneficiary) proposes 105, 105 accepts → 105 with quota 50 until 1000.
    Then the owner proposes 106 at epoch 10 while 105's term is active: 106's approval alone is not
    enough, 105's approval completes it; whereas after 105's quota is used up the owner's proposal
    is pre-approved and the nominee's approval suffices. -/
def exBen : List Op :=
  [.changeBeneficiary 100 105 50 1000 6 true, .changeBeneficiary 105 105 50 1000 7 true]

example : (run ex0 exBen).beneficiary = 105 ∧
    (run ex0 exBen).benTerm = { quota := 50, usedQuota := 0, expiration := 1000 } ∧
    (run ex0 (exBen ++ [.changeBeneficiary 100 106 70 2000 10 true,
      .changeBeneficiary 106 106 70 2000 11 true])).beneficiary = 105 ∧
    (run ex0 (exBen ++ [.changeBeneficiary 100 106 70 2000 10 true,
      .changeBeneficiary 106 106 70 2000 11 true,
      .changeBeneficiary 105 106 70 2000 12 true])).beneficiary = 106 ∧
    (run ex0 (exBen ++ [.withdrawUse 105 80 8 true, .changeBeneficiary 100 106 70 2000 10 true,
      .changeBeneficiary 106 106 70 2000 11 true])).beneficiary = 106 ∧
    (run ex0 (exBen ++ [.withdrawUse 105 80 8 true])).benTerm.usedQuota = 50 := by
  decide

/-- a stranger (107), the worker (101) and a control address (102) change nothing, in a state with
    all three handovers pending -/
def exBusy : State :=
  run ex0 (exBen ++ [.changeOwner 100 103 true, .changeWorker 100 104 [102] 5 true true,
    .changeBeneficiary 100 106 70 2000 10 true])

example : exBusy.pendingOwner = some 103 ∧ exBusy.pendingWorker.isSome ∧ exBusy.pendingBen.isSome ∧
    (∀ c ∈ [107, 101, 102],
      (step exBusy (.changeOwner c c true)).1 = exBusy ∧
      (step exBusy (.changeWorker c c [c] 2000 true true)).1 = exBusy ∧
      (step exBusy (.confirmChangeWorker c 2000)).1 = exBusy ∧
      (step exBusy (.changeBeneficiary c 106 70 2000 12 true)).1 = exBusy ∧
      (step exBusy (.withdrawUse c 5 12 true)).1 = exBusy) := by
  decide

/-- the pending owner's confirmation drops the old owner's pending beneficiary proposal (the
    third case of `pending_withdrawn_only_by_owner`) but leaves beneficiary 105 in place -/
example : (step exBusy (.changeOwner 103 103 true)).1.pendingBen = none ∧
    (step exBusy (.changeOwner 103 103 true)).1.beneficiary = 105 ∧
    (step exBusy (.changeOwner 103 103 true)).1.owner = 103 := by decide

/-- `exBusy` is reachable from a fresh miner, so `PendingWF` applies to it; and a withdrawal by
    beneficiary 105 at epoch 12 (term: quota 50 until 1000) meets `withdraw_within_term` -/
example : PendingWF exBusy := pendingWF_run _ _ (pendingWF_init 100 101 [102])
example : (step exBusy (.withdrawUse 105 30 12 true)).2 = .withdrawn 30 ∧
    exBusy.beneficiary ≠ exBusy.owner := by decide

end BA.MinerControl
