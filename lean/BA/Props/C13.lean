/-
  C13 — Control of a miner changes hands only by two-sided, delayed handover.
  Property theorems over the model `BA.MinerControl` (actors/miner/src/lib.rs:
  change_owner_address, change_worker_address, confirm_change_worker_address, change_beneficiary,
  the quota side of withdraw_balance, process_pending_worker).  All statements hold for every
  state / every history of messages by arbitrary callers at arbitrary epochs.
-/
import BA.Lemmas.MinerControl

namespace BA.MinerControl
open BA

/-! ### Owner: proposal by the owner, confirmation by the proposed address -/

/-- `ProposedByOwner s0 ops p`: somewhere in the history `ops` (started in `s0`) the account that
    was the owner at that moment sent `ChangeOwnerAddress(p)`, and in every state since then (up to
    the end of `ops`) that account has remained the owner and `p` has remained the pending owner. -/
def ProposedByOwner (s0 : State) (ops : List Op) (p : Nat) : Prop :=
  Since s0 ops (fun b x => x = Op.changeOwner b.owner p true)
    (fun b t => t.owner = b.owner ∧ t.pendingOwner = some p)

/-- One step: the owner field changes only when the pending owner itself calls
    `ChangeOwnerAddress` naming its own address. -/
theorem owner_change_step (s : State) (op : Op) (h : (step s op).1.owner ≠ s.owner) :
    ∃ p, op = .changeOwner p p true ∧ s.pendingOwner = some p ∧ p ≠ s.owner ∧
      (step s op).1.owner = p := by
  have he := step_effect s op
  generalize (step s op).1 = s' at he h
  cases he with
  | confirmOwner p hp hne => exact ⟨p, rfl, hp, hne, rfl⟩
  | noChange => exact absurd rfl h
  | proposeOwner => exact absurd rfl h
  | changeWorker => exact absurd rfl h
  | applyWorker => exact absurd rfl h
  | withdraw => exact absurd rfl h
  | proposeBen new q x e hq =>
    exfalso; apply h
    rw [benFinish_spec _ _ _ _ rfl]; split <;> rfl
  | approveBen c p e hp hc hc2 =>
    exfalso; apply h
    rw [benFinish_spec _ _ _ p hp]; split <;> rfl

/-- One step: a pending owner `p` is either the one that was pending before, or was put there by
    the owner's own `ChangeOwnerAddress(p)`; the owner is the same before and after. -/
theorem pendingOwner_step (s : State) (op : Op) (p : Nat)
    (h : (step s op).1.pendingOwner = some p) :
    (s.pendingOwner = some p ∧ (step s op).1.owner = s.owner) ∨
    (op = .changeOwner s.owner p true ∧ (step s op).1.owner = s.owner) := by
  have he := step_effect s op
  generalize (step s op).1 = s' at he h
  cases he with
  | noChange => exact Or.inl ⟨h, rfl⟩
  | proposeOwner newAddr =>
    right
    by_cases hn : newAddr = s.owner
    · simp [hn] at h
    · simp [hn] at h; subst h; exact ⟨rfl, rfl⟩
  | confirmOwner p' hp hne => simp at h
  | changeWorker => exact Or.inl ⟨h, rfl⟩
  | applyWorker => exact Or.inl ⟨h, rfl⟩
  | withdraw => exact Or.inl ⟨h, rfl⟩
  | proposeBen new q x e hq => left; simpa using h
  | approveBen c p' e hp hc hc2 => left; simpa using h

/-- In every history from a state with no pending owner: whoever is pending owner at the end was
    proposed by a `ChangeOwnerAddress` of the then-owner, who has been the owner ever since. -/
theorem pendingOwner_proposed (s0 : State) (h0 : s0.pendingOwner = none) (ops : List Op) (p : Nat)
    (h : (run s0 ops).pendingOwner = some p) : ProposedByOwner s0 ops p := by
  refine since_of_steps (P := fun s => s.pendingOwner = some p) ?_ (by simp [h0]) ops h
  intro s op hp
  rcases pendingOwner_step s op p hp with ⟨h1, h2⟩ | ⟨h1, h2⟩
  · left
    refine ⟨h1, ?_⟩
    intro b hb
    exact ⟨by rw [h2]; exact hb.1, hp⟩
  · right
    exact ⟨h1, h2, hp⟩

/-- **owner_two_step.** In every history (any callers, any epochs) that starts without a pending
    owner: a message changes the owner only if it is `ChangeOwnerAddress(p)` sent by `p` itself
    while `p` is the pending owner, the new owner is exactly `p`, and `p` became pending through an
    earlier `ChangeOwnerAddress(p)` sent by the account that was then — and has been until this
    very message — the owner. -/
theorem owner_two_step (s0 : State) (h0 : s0.pendingOwner = none) (ops : List Op) (op : Op)
    (h : (step (run s0 ops) op).1.owner ≠ (run s0 ops).owner) :
    ∃ p, op = .changeOwner p p true ∧ (run s0 ops).pendingOwner = some p ∧
      p ≠ (run s0 ops).owner ∧ (step (run s0 ops) op).1.owner = p ∧
      ProposedByOwner s0 ops p := by
  obtain ⟨p, h1, h2, h3, h4⟩ := owner_change_step _ _ h
  exact ⟨p, h1, h2, h3, h4, pendingOwner_proposed s0 h0 ops p h2⟩

/-- The proposer found by `ProposedByOwner` is still the owner at the end of the history. -/
theorem ProposedByOwner.still_owner {s0 : State} {ops : List Op} {p : Nat}
    (h : ProposedByOwner s0 ops p) :
    ∃ pre post, ops = pre ++ Op.changeOwner (run s0 ops).owner p true :: post ∧
      (run s0 pre).owner = (run s0 ops).owner := by
  obtain ⟨pre, x, post, hops, hx, hall⟩ := h
  have := (hall post List.prefix_rfl).1
  rw [← hops] at this
  subst hx
  exact ⟨pre, post, by rw [this]; exact hops, this.symm⟩

/-! ### Worker: the key changes no earlier than 900 epochs after the owner's request -/

/-- `RequestedByOwner s0 ops k`: the history contains a `ChangeWorkerAddress` naming
    `k.newWorker`, sent by the account that was the owner at that moment, at an epoch `e` with
    `k.effectiveAt = e + 900`; ever since, `k` has been the pending key change and the worker has
    not changed. -/
def RequestedByOwner (s0 : State) (ops : List Op) (k : PendingWorker) : Prop :=
  Since s0 ops
    (fun b x => ∃ nc e, x = Op.changeWorker b.owner k.newWorker nc e true true ∧
      k.effectiveAt = e + 900)
    (fun b t => t.worker = b.worker ∧ t.pendingWorker = some k)

/-- One step: the worker changes only by `process_pending_worker` (run by the owner's
    `ConfirmChangeWorkerAddress` or by the cron callback) at an epoch not before the pending
    key's effective epoch, and becomes exactly the pending key. -/
theorem worker_change_step (s : State) (op : Op) (h : (step s op).1.worker ≠ s.worker) :
    ∃ k e, (op = .confirmChangeWorker s.owner e ∨ op = .cronTick e) ∧
      s.pendingWorker = some k ∧ k.effectiveAt ≤ e ∧ (step s op).1.worker = k.newWorker ∧
      (step s op).1.pendingWorker = none := by
  have he := step_effect s op
  generalize (step s op).1 = s' at he h
  cases he with
  | applyWorker op e k hop hk he' => exact ⟨k, e, hop, hk, he', rfl, rfl⟩
  | noChange => exact absurd rfl h
  | proposeOwner => exact absurd rfl h
  | confirmOwner => exact absurd rfl h
  | changeWorker => exact absurd rfl h
  | withdraw => exact absurd rfl h
  | proposeBen new q x e hq => exact absurd (by simp) h
  | approveBen c p e hp hc hc2 => exact absurd (by simp) h

/-- One step: a pending key change is either the one pending before, or was just recorded by the
    owner's `ChangeWorkerAddress` with effective epoch = message epoch + 900; the worker itself is
    untouched. -/
theorem pendingWorker_step (s : State) (op : Op) (k : PendingWorker)
    (h : (step s op).1.pendingWorker = some k) :
    (s.pendingWorker = some k ∧ (step s op).1.worker = s.worker) ∨
    ((∃ nc e, op = .changeWorker s.owner k.newWorker nc e true true ∧ k.effectiveAt = e + 900) ∧
      (step s op).1.worker = s.worker) := by
  have he := step_effect s op
  generalize (step s op).1 = s' at he h
  cases he with
  | noChange => exact Or.inl ⟨h, rfl⟩
  | proposeOwner => exact Or.inl ⟨h, rfl⟩
  | confirmOwner => exact Or.inl ⟨h, rfl⟩
  | changeWorker nw nc e hlen =>
    by_cases hc : nw ≠ s.worker ∧ s.pendingWorker = none
    · right
      simp only at h
      rw [if_pos hc] at h
      injection h with h
      subst h
      exact ⟨⟨nc, e, rfl, rfl⟩, rfl⟩
    · left
      simp only at h
      rw [if_neg hc] at h
      exact ⟨h, rfl⟩
  | applyWorker => simp at h
  | withdraw => exact Or.inl ⟨h, rfl⟩
  | proposeBen new q x e hq => left; simpa using h
  | approveBen c p' e hp hc hc2 => left; simpa using h

theorem pendingWorker_requested (s0 : State) (h0 : s0.pendingWorker = none) (ops : List Op)
    (k : PendingWorker) (h : (run s0 ops).pendingWorker = some k) : RequestedByOwner s0 ops k := by
  refine since_of_steps (P := fun s => s.pendingWorker = some k) ?_ (by simp [h0]) ops h
  intro s op hp
  rcases pendingWorker_step s op k hp with ⟨h1, h2⟩ | ⟨h1, h2⟩
  · left
    refine ⟨h1, ?_⟩
    intro b hb
    exact ⟨by rw [h2]; exact hb.1, hp⟩
  · right
    exact ⟨h1, h2, hp⟩

/-- **worker_delay.** In every history that starts without a pending key change: a message changes
    the worker only if it is the owner's `ConfirmChangeWorkerAddress` or the cron callback, at an
    epoch `e`; the new worker is the pending one; that key change was requested by a
    `ChangeWorkerAddress` of the then-owner at some epoch `e0`; and `e0 + 900 ≤ e`
    (900 = `worker_key_change_delay`).  Until this message the previous worker stayed in place. -/
theorem worker_delay (s0 : State) (h0 : s0.pendingWorker = none) (ops : List Op) (op : Op)
    (h : (step (run s0 ops) op).1.worker ≠ (run s0 ops).worker) :
    ∃ k e, (op = .confirmChangeWorker (run s0 ops).owner e ∨ op = .cronTick e) ∧
      (run s0 ops).pendingWorker = some k ∧ (step (run s0 ops) op).1.worker = k.newWorker ∧
      ∃ pre post nc e0,
        ops = pre ++ Op.changeWorker (run s0 pre).owner k.newWorker nc e0 true true :: post ∧
        e0 + 900 ≤ e ∧ (run s0 pre).worker = (run s0 ops).worker := by
  obtain ⟨k, e, hop, hk, hle, hw, _⟩ := worker_change_step _ _ h
  obtain ⟨pre, x, post, hops, ⟨nc, e0, hx, heff⟩, hall⟩ := pendingWorker_requested s0 h0 ops k hk
  have hlast := (hall post List.prefix_rfl).1
  rw [← hops] at hlast
  subst hx
  exact ⟨k, e, hop, hk, hw, pre, post, nc, e0, hops, by omega, hlast.symm⟩

end BA.MinerControl
