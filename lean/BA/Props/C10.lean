/-
  C10 — Verified claims back quality-adjusted power and obey their terms.
  Property theorems over `BA.Verifreg` (claims ledger) and `BA.SectorExt`
  (validate_extension_declarations / extend_simple_qap_sector of the miner actor).
-/
import BA.Lemmas.Verifreg
import BA.Lemmas.SectorExt

namespace BA.SectorExt
open BA BA.Verifreg

/-! ### Finding F2: a claim id repeated in a declaration -/

def exClaim (id : Nat) (termMax : Int) : Nat × Claim :=
  (id, { provider := 200, client := 105, data := id, size := 16, termMin := 518400,
         termMax := termMax, termStart := 156, sector := 100 })

/-- two equal-sized claims of sector 100: claim 1 lasts five years, claim 2 ends at 648156 -/
def exClaims : List (Nat × Claim) := [exClaim 1 5259485, exClaim 2 648000]

/-- sector 100: verified space 32 = both claims, expiring at 633605 -/
def exSector : Sector :=
  { number := 100, activation := 156, expiration := 633605, powerBase := 156,
    verifiedWeight := 32 * (633605 - 156) }

/-- **Negation witness (finding F2)**: as the code is, `maintain = [1, 1]` passes validation —
    the sizes add up to the sector's verified space — and the sector is extended to 651036, past
    the end 648156 of claim 2's maximum term, although claim 2 is neither dropped nor checked and
    the sector keeps its full verified weight.  The honest declarations are refused. -/
theorem extension_duplicate_claim_witness :
    (∃ secs', extendMessage exClaims 200 768 [(100, exSector)]
        [{ newExpiration := 651036, sectors := [], withClaims := [⟨100, [1, 1], []⟩] }] = .ok secs' ∧
      ∃ sec', alookup 100 secs' = some sec' ∧ sec'.expiration = 651036 ∧
        sec'.verifiedWeight = 32 * (651036 - 768) ∧
        (∃ c, alookup 2 exClaims = some c ∧ c.sector = 100 ∧ c.termStart + c.termMax < sec'.expiration)) ∧
    extendMessage exClaims 200 768 [(100, exSector)]
        [{ newExpiration := 651036, sectors := [], withClaims := [⟨100, [1, 2], []⟩] }] = .error .forbidden ∧
    extendMessage exClaims 200 768 [(100, exSector)]
        [{ newExpiration := 651036, sectors := [], withClaims := [⟨100, [1], [2]⟩] }] = .error .forbidden := by
  refine ⟨⟨_, rfl, _, rfl, rfl, rfl, _, rfl, rfl, by decide⟩, rfl, rfl⟩

end BA.SectorExt
