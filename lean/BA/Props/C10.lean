/-
  C10 — Verified claims back quality-adjusted power and obey their terms.
  Property theorems over `BA.Verifreg` (claims ledger) and `BA.SectorExt`
  (validate_extension_declarations / extend_simple_qap_sector of the miner actor).
-/
import BA.Lemmas.Verifreg
import BA.Lemmas.SectorExt
import BA.Lemmas.VerifregClaims

namespace BA.Verifreg
open BA

/-! ### The claims ledger: term_max never decreases, removal only after expiry -/

/-- a claim that is still present kept all its fields and its `term_max` did not decrease -/
def TermMaxMono (c c' : List (Nat × Claim)) : Prop :=
  ∀ id x y, alookup id c = some x → alookup id c' = some y →
    x.termMax ≤ y.termMax ∧ y = { x with termMax := y.termMax }

theorem step_term_mono (s : Sys) (op : Op) : TermMaxMono s.vr.claims (step s op).1.vr.claims := by
  unfold step
  cases h : exec s op with
  | error e => intro id x y hx hy; rw [hx] at hy; injection hy with hy; subst hy; exact ⟨Int.le_refl _, rfl⟩
  | ok p =>
    obtain ⟨s', r⟩ := p
    obtain ⟨h1, h2⟩ := exec_claims _ _ _ _ h
    intro id x y hx hy
    simp only at hy
    by_cases hop : ∃ e p ids, op = .removeExpiredClaims e p ids
    · obtain ⟨e, p, ids, rfl⟩ := hop
      cases h1 e p ids rfl id x hx with
      | inl a => rw [a] at hy; injection hy with hy; subst hy; exact ⟨Int.le_refl _, rfl⟩
      | inr a => rw [a.1] at hy; cases hy
    · have := h2 (fun e p ids heq => hop ⟨e, p, ids, heq⟩) id x hx
      obtain ⟨y', hy', l, e⟩ := this
      rw [hy'] at hy; injection hy with hy; subst hy; exact ⟨l, e⟩

/-- **A claim's maximum term never decreases**: along every history of messages, a claim that is
    still in the registry has the fields it was created with, and a `term_max` at least as large
    as at any earlier point.  (A removed claim's id is never issued again, see C09
    `alloc_ends_once`, so "the same id" is the same claim.) -/
theorem claim_term_max_monotone (s : Sys) (op : Op) (id : Nat) (x y : Claim)
    (hx : alookup id s.vr.claims = some x) (hy : alookup id (step s op).1.vr.claims = some y) :
    x.termMax ≤ y.termMax ∧ y.provider = x.provider ∧ y.client = x.client ∧ y.data = x.data ∧
    y.size = x.size ∧ y.termMin = x.termMin ∧ y.termStart = x.termStart ∧ y.sector = x.sector := by
  obtain ⟨l, e⟩ := step_term_mono s op id x y hx hy
  rw [e]; exact ⟨l, rfl, rfl, rfl, rfl, rfl, rfl, rfl⟩

/-- **Claims are removed only after they expired**: if a message makes a claim disappear from the
    registry, the message is `RemoveExpiredClaims` for the claim's provider at an epoch at or after
    `term_start + term_max`; every other message keeps every claim. -/
theorem remove_only_expired (s : Sys) (op : Op) (id : Nat) (x : Claim)
    (hx : alookup id s.vr.claims = some x) (hgone : alookup id (step s op).1.vr.claims = none) :
    ∃ epoch ids, op = .removeExpiredClaims epoch x.provider ids ∧ epoch ≥ x.termStart + x.termMax := by
  unfold step at hgone
  cases h : exec s op with
  | error e => simp only [h] at hgone; rw [hx] at hgone; cases hgone
  | ok p =>
    obtain ⟨s', r⟩ := p
    simp only [h] at hgone
    obtain ⟨h1, h2⟩ := exec_claims _ _ _ _ h
    by_cases hop : ∃ e p ids, op = .removeExpiredClaims e p ids
    · obtain ⟨e, p, ids, rfl⟩ := hop
      cases h1 e p ids rfl id x hx with
      | inl a => rw [a] at hgone; cases hgone
      | inr a => obtain ⟨_, hp, he⟩ := a; subst hp; exact ⟨e, ids, rfl, he⟩
    · obtain ⟨y, hy, _⟩ := h2 (fun e p ids heq => hop ⟨e, p, ids, heq⟩) id x hx
      rw [hy] at hgone; cases hgone

/-- a claim's term is extended by new datacap only while it has not expired, and only upwards -/
theorem extension_only_before_expiry (claims : List (Nat × Claim)) (epoch : Int) (reqs : List ExtReq)
    (ups : List (Nat × Claim)) (tot : Int) (h : collectExts claims epoch reqs = .ok (ups, tot)) :
    ∀ p ∈ ups, ∃ c, alookup p.1 claims = some c ∧ c.termMax < p.2.termMax ∧
      epoch ≤ c.termStart + c.termMax := by
  intro p hp
  obtain ⟨c, a, _, b, d⟩ := collectExts_spec _ _ _ _ _ h p hp
  exact ⟨c, a, b, d⟩

end BA.Verifreg

namespace BA.SectorExt
open BA BA.Verifreg

/-! ### Finding F2: a claim id repeated in a declaration -/

def exClaim (id : Nat) (termMax : Int) : Nat × Claim :=
  (id, { provider := 200, client := 105, data := id, size := 16, termMin := 518400,
         termMax := termMax, termStart := 156, sector := 100 })

/-- two equal-sized claims of sector 100: claim 1 lasts five years, claim 2 ends at 648156 -/
def exClaims : List (Nat × Claim) := [exClaim 1 5259485, exClaim 2 648000]

/-- sector 100: verified space 32 = both claims, expiring at 633605 -/
def exSector : Sector :=
  { number := 100, activation := 156, expiration := 633605, powerBase := 156,
    verifiedWeight := 32 * (633605 - 156) }

/-- **Negation witness (finding F2)**: as the code is, `maintain = [1, 1]` passes validation —
    the sizes add up to the sector's verified space — and the sector is extended to 651036, past
    the end 648156 of claim 2's maximum term, although claim 2 is neither dropped nor checked and
    the sector keeps its full verified weight.  The honest declarations are refused. -/
theorem extension_duplicate_claim_witness :
    (∃ secs', extendMessageF false false exClaims 200 768 [(100, exSector)]
        [{ newExpiration := 651036, sectors := [], withClaims := [⟨100, [1, 1], []⟩] }] = .ok secs' ∧
      ∃ sec', alookup 100 secs' = some sec' ∧ sec'.expiration = 651036 ∧
        sec'.verifiedWeight = 32 * (651036 - 768) ∧
        (∃ c, alookup 2 exClaims = some c ∧ c.sector = 100 ∧ c.termStart + c.termMax < sec'.expiration)) ∧
    extendMessageF false false exClaims 200 768 [(100, exSector)]
        [{ newExpiration := 651036, sectors := [], withClaims := [⟨100, [1, 2], []⟩] }] = .error .forbidden ∧
    extendMessageF false false exClaims 200 768 [(100, exSector)]
        [{ newExpiration := 651036, sectors := [], withClaims := [⟨100, [1], [2]⟩] }] = .error .forbidden := by
  refine ⟨⟨_, rfl, _, rfl, rfl, rfl, _, rfl, rfl, by decide⟩, rfl, rfl⟩

/-- **Second negation witness (finding F2b)**: the sector listed in two declarations of one
    message. Its claims are validated against the first declaration's expiration (unchanged,
    633605); the second declaration re-extends it to 697116, past claim 2's end 648156, with no
    term check and the full verified weight. -/
theorem extension_two_declarations_witness :
    ∃ secs', extendMessageF false false exClaims 200 768 [(100, exSector)]
        [{ newExpiration := 633605, sectors := [], withClaims := [⟨100, [1, 2], []⟩] },
         { newExpiration := 697116, sectors := [100], withClaims := [] }] = .ok secs' ∧
      ∃ sec', alookup 100 secs' = some sec' ∧ sec'.expiration = 697116 ∧
        sec'.verifiedWeight = 32 * (697116 - 768) ∧
        (∃ c, alookup 2 exClaims = some c ∧ c.sector = 100 ∧ c.termStart + c.termMax < sec'.expiration) := by
  refine ⟨_, rfl, _, rfl, rfl, rfl, _, rfl, rfl, by decide⟩

/-- with the two checks of the fixes (flags `true`) both witnesses are rejected -/
example :
    extendMessageF true true exClaims 200 768 [(100, exSector)]
        [{ newExpiration := 651036, sectors := [], withClaims := [⟨100, [1, 1], []⟩] }] = .error .illegalArgument ∧
    extendMessageF true true exClaims 200 768 [(100, exSector)]
        [{ newExpiration := 633605, sectors := [], withClaims := [⟨100, [1, 2], []⟩] },
         { newExpiration := 697116, sectors := [100], withClaims := [] }] = .error .illegalArgument := ⟨rfl, rfl⟩

/-! ### What a successful extension of a verified sector implies (the code as it is) -/

/-- **Extension respects the declared claims.** If `validate_extension_declarations` accepted the
    message (with or without the fixes' checks) and a sector with verified weight was extended
    to `newExp`, then, for the claim ids `M` / `D` declared as maintained / dropped for that sector
    over all declarations of the message:
    (a) every declared id is a claim of this provider recorded for this sector;
    (b) the declared sizes (counted per list entry) add up to the sector's verified space;
    (c) every maintained claim's maximum term covers the new expiration *of the declaration that
        lists it*;
    (d) claims are dropped only within the final 30 days (86400 epochs) of the sector's life;
    (e) the sector now expires at `newExp` and its verified weight is the maintained space times
        the new duration.
    Under the two side conditions that the unchanged code does not enforce — the declared ids are
    distinct (F2) and the sector's claims are declared with the expiration the sector is extended
    to (F2b) — (b),(c) say that the claims backing the sector are exactly the declared ones and
    each maintained one allows `newExp`; see `extension_covers_backing_claims`. -/
theorem extension_respects_claims (rc rs : Bool) (claims : List (Nat × Claim)) (provider : Nat)
    (decls : List Decl) (m : SpaceMap)
    (hv : validateDeclsF rc rs claims provider decls [] [] [] = .ok m)
    (epoch newExp : Int) (sec sec' : Sector) (he : extendOne epoch newExp m sec = .ok sec')
    (hw : 0 < sec.verifiedWeight) :
    (∀ id ∈ declMaint sec.number decls ++ declDrop sec.number decls,
        ∃ c, getClaim claims provider id = some c ∧ c.sector = sec.number) ∧
    sumSizes claims provider (declMaint sec.number decls) + sumSizes claims provider (declDrop sec.number decls)
      = Int.tdiv sec.verifiedWeight (sec.expiration - sec.powerBase) ∧
    (∀ d ∈ decls, ∀ sc ∈ d.withClaims, ∀ id ∈ sc.maintain,
        ∃ c, getClaim claims provider id = some c ∧ d.newExpiration ≤ c.termStart + c.termMax) ∧
    (sumSizes claims provider (declDrop sec.number decls) ≠ 0 → sec.expiration - epoch ≤ 86400) ∧
    sec'.expiration = newExp ∧ sec'.powerBase = epoch ∧ sec'.activation = sec.activation ∧
    sec'.number = sec.number ∧
    sec'.verifiedWeight = sumSizes claims provider (declMaint sec.number decls) * (newExp - epoch) := by
  obtain ⟨facts, space⟩ := validateDeclsF_spec rc rs claims provider decls [] [] [] m hv
  obtain ⟨c1, c2⟩ := space sec.number
  have z1 : chk ([] : SpaceMap) sec.number = 0 := rfl
  have z2 : mnt ([] : SpaceMap) sec.number = 0 := rfl
  rw [z1] at c1; rw [z2] at c2
  unfold extendOne at he
  simp only [guard_ok] at he
  obtain ⟨_, _, _, _, _, _, he⟩ := he
  simp only [hw, if_true, guard_ok] at he
  obtain ⟨_, he⟩ := he
  cases hl : alookup sec.number m with
  | none => simp [hl] at he
  | some p =>
    obtain ⟨check, maintain⟩ := p
    simp only [hl, guard_ok] at he
    obtain ⟨h1, h2, he⟩ := he
    injection he with he; subst he
    have e1 : chk m sec.number = check := by simp [chk, hl]
    have e2 : mnt m sec.number = maintain := by simp [mnt, hl]
    refine ⟨?_, ?_, ?_, ?_, rfl, rfl, rfl, rfl, ?_⟩
    · intro id hid
      cases List.mem_append.mp hid with
      | inl h =>
        obtain ⟨d, hd, sc, hsc, hk, hm⟩ := mem_declMaint _ _ _ h
        obtain ⟨c, hc, hs, _⟩ := (facts d hd sc hsc).1 id hm
        exact ⟨c, hc, hs.trans hk⟩
      | inr h =>
        obtain ⟨d, hd, sc, hsc, hk, hm⟩ := mem_declDrop _ _ _ h
        obtain ⟨c, hc, hs⟩ := (facts d hd sc hsc).2 id hm
        exact ⟨c, hc, hs.trans hk⟩
    · have : check = Int.tdiv sec.verifiedWeight (sec.expiration - sec.powerBase) := by simpa using h1
      omega
    · intro d hd sc hsc id hid
      obtain ⟨c, hc, _, ht⟩ := (facts d hd sc hsc).1 id hid
      exact ⟨c, hc, ht⟩
    · intro hne
      have hcm : check ≠ maintain := by omega
      have : ¬ (sec.expiration - epoch > dropPeriod) := fun hgt => h2 ⟨hcm, hgt⟩
      simp only [dropPeriod, BA.Gen.endOfLifeClaimDropPeriod] at this
      omega
    · simp only; rw [← e2, c2]; simp

/-- **Every backing claim is accounted for** — the step from the declared lists to the sector's
    own claims.  Let `backing` be the (distinct, positive-sized) claims backing the sector, their
    sizes adding up to its verified space (`sector_claims_inv`).  If the declared ids are distinct
    (what the fix of F2 enforces) and are backing claims, and their sizes add up to the verified
    space (conclusion (b) of `extension_respects_claims`), then every backing claim is declared:
    maintained — hence term-checked by (c) — or dropped.  Without distinctness this fails:
    `extension_duplicate_claim_witness`. -/
theorem extension_covers_backing_claims (claims : List (Nat × Claim)) (provider : Nat)
    (M D backing : List Nat) (space : Int)
    (hdistinct : (M ++ D).Nodup) (hb : backing.Nodup)
    (hsub : ∀ id ∈ M ++ D, id ∈ backing)
    (hpos : ∀ id ∈ backing, 0 < sizeOf claims provider id)
    (hbacking : sumSizes claims provider backing = space)
    (hdeclared : sumSizes claims provider M + sumSizes claims provider D = space) :
    ∀ id ∈ backing, id ∈ M ∨ id ∈ D := by
  intro id hid
  have hsum : isum ((M ++ D).map (sizeOf claims provider)) = isum (backing.map (sizeOf claims provider)) := by
    have := sumSizes_append claims provider M D
    simp only [sumSizes] at this hbacking hdeclared
    rw [this]; omega
  have := cover_of_sum_eq (sizeOf claims provider) (M ++ D) backing hdistinct hsub hpos hb hsum id hid
  exact List.mem_append.mp this

/-- **The cross-actor invariant is preserved by an extension** (`_partial`: proved for extension
    steps only; onboarding by prove-commit / replica update and termination are exercised on the
    real actors under the oracle, not in the model).  If before the message the sector's verified
    weight is backed by the distinct claims `backing` of this provider and sector (positive sizes
    adding up to its verified space, each started no earlier than the sector's activation), and the
    declaration satisfies the two side conditions (distinct ids that are backing claims; the
    sector's claims declared with the expiration it is extended to), then after a successful
    extension every backing claim was either dropped or is maintained, and the maintained claims
    back the extended sector: same provider and sector, started after activation, the new
    expiration within each claim's maximum term, sizes adding up to the new verified space. -/
theorem sector_claims_inv_partial (rc rs : Bool) (claims : List (Nat × Claim)) (provider : Nat)
    (decls : List Decl) (m : SpaceMap)
    (hv : validateDeclsF rc rs claims provider decls [] [] [] = .ok m)
    (epoch newExp : Int) (sec sec' : Sector) (he : extendOne epoch newExp m sec = .ok sec')
    (hw : 0 < sec.verifiedWeight) (backing : List Nat) (hb : backing.Nodup)
    (hclaims : ∀ id ∈ backing, ∃ c, getClaim claims provider id = some c ∧ c.sector = sec.number ∧
        0 < c.size ∧ sec.activation ≤ c.termStart)
    (hweight : sec.verifiedWeight = sumSizes claims provider backing * (sec.expiration - sec.powerBase))
    (hdur : 0 < sec.expiration - sec.powerBase)
    (hdistinct : (declMaint sec.number decls ++ declDrop sec.number decls).Nodup)
    (hsub : ∀ id ∈ declMaint sec.number decls ++ declDrop sec.number decls, id ∈ backing)
    (hexp : ∀ d ∈ decls, ∀ sc ∈ d.withClaims, sc.sector = sec.number → d.newExpiration = newExp) :
    (∀ id ∈ backing, id ∈ declMaint sec.number decls ∨ id ∈ declDrop sec.number decls) ∧
    (declMaint sec.number decls).Nodup ∧
    (∀ id ∈ declMaint sec.number decls, ∃ c, getClaim claims provider id = some c ∧
        c.sector = sec'.number ∧ sec'.activation ≤ c.termStart ∧
        sec'.expiration ≤ c.termStart + c.termMax) ∧
    sec'.verifiedWeight
      = sumSizes claims provider (declMaint sec.number decls) * (sec'.expiration - sec'.powerBase) := by
  obtain ⟨_, hsum, hterm, _, e1, e2, e3, e4, e5⟩ :=
    extension_respects_claims rc rs claims provider decls m hv epoch newExp sec sec' he hw
  have hspace : Int.tdiv sec.verifiedWeight (sec.expiration - sec.powerBase)
      = sumSizes claims provider backing := by
    rw [hweight]; exact Int.mul_tdiv_cancel _ (by omega)
  have hpos : ∀ id ∈ backing, 0 < sizeOf claims provider id := by
    intro id hid
    obtain ⟨c, hc, _, hp, _⟩ := hclaims id hid
    simp [sizeOf, hc, hp]
  refine ⟨?_, ?_, ?_, ?_⟩
  · exact extension_covers_backing_claims claims provider _ _ backing _ hdistinct hb hsub hpos rfl
      (by rw [hsum, hspace])
  · exact (List.nodup_append.mp hdistinct).1
  · intro id hid
    obtain ⟨c, hc, hs, _, ha⟩ := hclaims id (hsub id (List.mem_append.mpr (Or.inl hid)))
    obtain ⟨d, hd, sc, hsc, hk, hm⟩ := mem_declMaint _ _ _ hid
    obtain ⟨c', hc', ht⟩ := hterm d hd sc hsc id hm
    rw [hc] at hc'; injection hc' with hc'; subst hc'
    refine ⟨c, hc, by rw [e4]; exact hs, by rw [e3]; exact ha, ?_⟩
    rw [e1, ← hexp d hd sc hsc hk]; exact ht
  · rw [e5, e1, e2]

end BA.SectorExt
