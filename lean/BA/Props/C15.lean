/-
  C15 — Faults and early terminations are always paid for.
  Property theorems over the model `BA.MinerPenalty`
  (actors/miner/src/{monies.rs, policy.rs, state.rs, lib.rs}).
-/
import BA.Lemmas.MinerPenalty

namespace BA.MinerPenalty
open BA

/-! ### fee formulas -/

/-- **Termination fee bounds.** For a non-negative pledge and fault fee, and any sector age, the
    termination fee computed by `pledge_penalty_for_termination` (with the code's floor divisions) is
    at least 2 % of the pledge and at most the protocol cap
    `max(8.5 % of the pledge, 105 % of the fault fee)`. The literals are the specified ones; the
    model uses the constants read from monies.rs. -/
theorem termination_fee_bounds (pledge age faultFee : Int) (hp : 0 ≤ pledge) (hf : 0 ≤ faultFee) :
    pledge * 2 / 100 ≤ pledgePenaltyForTermination pledge age faultFee ∧
    pledgePenaltyForTermination pledge age faultFee ≤ max (pledge * 85 / 1000) (faultFee * 105 / 100) :=
  termination_fee_bounds_aux pledge age faultFee hp hf

/-- A batch of early-terminated sectors is charged at least Σ 2 % pledge and at most Σ cap. -/
theorem termination_batch_bounds (l : List TermSector) (h : ∀ s ∈ l, 0 ≤ s.pledge ∧ 0 ≤ s.faultFee) :
    termLower l ≤ termFees l ∧ termFees l ≤ termCap l :=
  ⟨(termFees_bounds l h).1, (termFees_bounds l h).2.1⟩

/-- **Fee formulas are never negative**: continued-fault fee (for a non-negative reward estimate),
    termination fee, invalid-PoSt penalty, consensus-fault penalty, reporter rewards, daily fee. -/
theorem penalty_nonneg :
    (∀ z r c p, 0 ≤ r → 0 ≤ pledgePenaltyForContinuedFault z r c p) ∧
    (∀ pledge age ff, 0 ≤ pledge → 0 ≤ ff → 0 ≤ pledgePenaltyForTermination pledge age ff) ∧
    (∀ br, 0 ≤ br → 0 ≤ pledgePenaltyForInvalidWindowPost br) ∧
    (∀ r, 0 ≤ r → 0 ≤ consensusFaultPenalty r ∧ 0 ≤ rewardForConsensusSlashReport r ∧
       rewardForConsensusSlashReport r ≤ consensusFaultPenalty r) ∧
    0 ≤ rewardForDisputedWindowPost ∧
    (∀ d r, 0 ≤ d → 0 ≤ r → 0 ≤ dailyProofFeePayable d r ∧ dailyProofFeePayable d r ≤ d) := by
  refine ⟨?_, ?_, ?_, ?_, ?_, ?_⟩
  · intro z r c p hr
    unfold pledgePenaltyForContinuedFault expectedRewardForPower
    cases z <;> simp <;> omega
  · intro pledge age ff hp hf
    have := termination_fee_bounds pledge age ff hp hf
    omega
  · intro br h
    unfold pledgePenaltyForInvalidWindowPost
    simp only [Gen.basePenaltyForDisputedWindowPost]; omega
  · intro r h
    unfold consensusFaultPenalty rewardForConsensusSlashReport
    simp only [Gen.consensusFaultFactor, Gen.expectedLeadersPerEpoch, Gen.consensusFaultReporterShare]
    omega
  · simp [rewardForDisputedWindowPost, Gen.baseRewardForDisputedWindowPost]
  · intro d r hd hr
    unfold dailyProofFeePayable
    simp only [Gen.dailyFeeBlockRewardCapDenom]; omega

/-! ### every step: what is charged is burnt, paid to the reporter, or stays as debt -/

/-- the environment's vested amount is consistent with the vesting table -/
def VestedOk (s : MState) (op : Op) : Prop := 0 ≤ op.vested ∧ op.vested ≤ s.funds.lockedFunds

/-- the steps that charge a penalty or fee -/
def Op.penalising : Op → Bool
  | .deadlineEnd _ | .dispute _ | .reportCF _ | .terminate _ | .applyRewards _ => true
  | _ => false

/-- the one situation finding F4 is about: a consensus-fault report whose reward transfer fails
    while the code does not add the unsent reward back to the burn -/
def Op.unsentRewardLost (op : Op) (o : Out) : Prop :=
  (∃ e, op = .reportCF e) ∧ Gen.cfBurnsUnsentReward = false ∧ ⟨Dest.reporter, o.lost, false⟩ ∈ o.effects

/-- the accounting facts of a successful step -/
structure Acct (f f' : Funds) (o : Out) : Prop where
  acct : f'.feeDebt + o.burnt + o.toReporter + o.lost = f.feeDebt + o.charged
  burnt_nonneg : 0 ≤ o.burnt
  rep_nonneg : 0 ≤ o.toReporter
  lost_nonneg : 0 ≤ o.lost
  charged_nonneg : 0 ≤ o.charged
  ben_nonneg : 0 ≤ o.toBeneficiary
  wf : WF f'

theorem StepOk.toAcct {f f' : Funds} {o : Out} (h : StepOk f f' o) : Acct f f' o :=
  ⟨h.acct, h.burnt_nonneg, h.rep_nonneg, h.lost_nonneg, h.charged_nonneg, h.ben_nonneg, h.wf⟩

/-- the messages of the miner itself (everything but the catch-all `other`) -/
def Op.isMessage : Op → Bool
  | .other _ => false
  | _ => true

/-- every message of the model: full step facts incl. the balance equation -/
theorem message_spec (s s' : MState) (op : Op) (o : Out) (hw : WF s.funds) (hv : VestedOk s op)
    (hm : op.isMessage = true) (h : exec s op = .ok (s', o)) : StepOk s.funds s'.funds o := by
  cases op with
  | deadlineEnd e => exact (deadlineEnd_spec s s' e o hw hv h).1
  | dispute e => exact (dispute_spec s s' e o hw h).1
  | reportCF e => exact (cf_spec s s' e o hw h).1
  | terminate e => exact (terminate_spec s s' e o hw h).1
  | applyRewards e => exact (applyRewards_spec s s' e o hw h).1
  | withdraw e => exact (withdraw_spec s s' e o hw h).1
  | preCommit e => exact (preCommit_spec s s' e o hw h).1
  | declareRecovered e => exact (declareRecovered_spec s s' e o hw h).1
  | repayDebt e => exact (repayDebt_spec s s' e o hw h).1
  | other f' => simp [Op.isMessage] at hm

/-- Every successful step of the model, for well-formed funds and any mix of balances:
    `debt' + burnt + toReporter + lost = debt + charged` with all amounts non-negative, and the
    funds stay well-formed. -/
theorem exec_spec (s s' : MState) (op : Op) (o : Out) (hw : WF s.funds) (hv : VestedOk s op)
    (h : exec s op = .ok (s', o)) : Acct s.funds s'.funds o := by
  by_cases hm : op.isMessage = true
  · exact (message_spec s s' op o hw hv hm h).toAcct
  · cases op with
    | other f' =>
      simp only [exec] at h
      by_cases g : f'.feeDebt = s.funds.feeDebt ∧ WF f'
      · simp only [g, and_self, if_true, Except.ok.injEq, Prod.mk.injEq] at h
        obtain ⟨rfl, rfl⟩ := h
        have := g.1
        refine ⟨?_, ?_, ?_, ?_, ?_, ?_, g.2⟩ <;> simp <;> omega
      · simp [g] at h
    | _ => simp [Op.isMessage] at hm

/-- the amount `lost` is zero except in the F4 situation -/
theorem lost_only_f4 (s s' : MState) (op : Op) (o : Out) (hw : WF s.funds) (hv : VestedOk s op)
    (h : exec s op = .ok (s', o)) : o.lost = 0 ∨ op.unsentRewardLost o := by
  cases op with
  | deadlineEnd e => exact Or.inl (deadlineEnd_spec s s' e o hw hv h).2.2.1
  | dispute e => exact Or.inl (dispute_spec s s' e o hw h).2.2.1
  | reportCF e =>
    by_cases hl : o.lost = 0
    · exact Or.inl hl
    · have := (cf_spec s s' e o hw h).2.2.2.2.2.2.1 hl
      exact Or.inr ⟨⟨e, rfl⟩, this.1, this.2⟩
  | terminate e => exact Or.inl (terminate_spec s s' e o hw h).2.2.1
  | applyRewards e => exact Or.inl (applyRewards_spec s s' e o hw h).2.2.1
  | withdraw e => exact Or.inl (withdraw_spec s s' e o hw h).2.1
  | preCommit e => exact Or.inl (preCommit_spec s s' e o hw h).2.2.1
  | declareRecovered e => exact Or.inl (declareRecovered_spec s s' e o hw h).2.2.1
  | repayDebt e => exact Or.inl (repayDebt_spec s s' e o hw h).2.2.1
  | other f' =>
    simp only [exec] at h
    by_cases g : f'.feeDebt = s.funds.feeDebt ∧ WF f'
    · simp only [g, and_self, if_true, Except.ok.injEq, Prod.mk.injEq] at h
      obtain ⟨_, rfl⟩ := h
      exact Or.inl rfl
    · simp [g] at h

/-- **Penalty accounting** (`_partial`: everything except the F4 situation, which is refuted
    below). For every penalising step — continued fault / expired pre-commit deposit at a deadline
    end, disputed PoSt, consensus fault, early termination, block penalty — on well-formed funds:
    `debt' + burnt + reporter reward = debt + charged`, the burnt amount, the reward and the charge
    are non-negative, nothing is sent to the beneficiary (the owner's side), and value leaves the
    miner only towards the burnt-funds actor and the reporter.
    Missing for the full statement: the consensus-fault step with a *failing* reward transfer in the
    unrepaired code (`Gen.cfBurnsUnsentReward = false`), see `consensus_fault_unsent_reward_lost`. -/
theorem penalty_accounting_partial (s s' : MState) (op : Op) (o : Out) (hw : WF s.funds)
    (hv : VestedOk s op) (hp : op.penalising = true) (h : exec s op = .ok (s', o))
    (hf4 : ¬ op.unsentRewardLost o) :
    s'.funds.feeDebt + o.burnt + o.toReporter = s.funds.feeDebt + o.charged ∧
    0 ≤ o.burnt ∧ 0 ≤ o.toReporter ∧ 0 ≤ o.charged ∧
    o.toBeneficiary = 0 ∧ (∀ x ∈ o.effects, PenEff x) ∧
    s'.funds.balance = s.funds.balance - o.burnt - o.toReporter := by
  have hm : op.isMessage = true := by cases op <;> simp [Op.penalising] at hp <;> rfl
  have st := message_spec s s' op o hw hv hm h
  have hl : o.lost = 0 := (lost_only_f4 s s' op o hw hv h).resolve_right hf4
  have acct := st.acct
  have bal := st.bal
  have core : o.toBeneficiary = 0 ∧ (∀ x ∈ o.effects, PenEff x) := by
    cases op with
    | deadlineEnd e => have := deadlineEnd_spec s s' e o hw hv h; exact ⟨this.2.1, this.2.2.2.2.1⟩
    | dispute e => have := dispute_spec s s' e o hw h; exact ⟨this.2.1, this.2.2.2.1⟩
    | reportCF e => have := cf_spec s s' e o hw h; exact ⟨this.2.1, this.2.2.1⟩
    | terminate e => have := terminate_spec s s' e o hw h; exact ⟨this.2.1, this.2.2.2.2.1⟩
    | applyRewards e => have := applyRewards_spec s s' e o hw h; exact ⟨this.2.1, this.2.2.2.2.2.1⟩
    | withdraw e => simp [Op.penalising] at hp
    | preCommit e => simp [Op.penalising] at hp
    | declareRecovered e => simp [Op.penalising] at hp
    | repayDebt e => simp [Op.penalising] at hp
    | other f' => simp [Op.penalising] at hp
  refine ⟨by omega, st.burnt_nonneg, st.rep_nonneg, st.charged_nonneg, core.1, core.2, ?_⟩
  rw [core.1] at bal; omega

/-- The same with the amount the F4 situation loses made explicit; holds for **every** step and
    both versions of the code: `debt' + burnt + reporter reward + lost = debt + charged`,
    where `lost ≠ 0` only for a consensus-fault report with a failed reward transfer in the
    unrepaired code. In the repaired code (`cfBurnsUnsentReward = true`) `lost = 0` always. -/
theorem penalty_accounting_with_loss (s s' : MState) (op : Op) (o : Out) (hw : WF s.funds)
    (hv : VestedOk s op) (h : exec s op = .ok (s', o)) :
    s'.funds.feeDebt + o.burnt + o.toReporter + o.lost = s.funds.feeDebt + o.charged ∧
    0 ≤ o.lost ∧ (o.lost = 0 ∨ op.unsentRewardLost o) ∧
    (Gen.cfBurnsUnsentReward = true → o.lost = 0) := by
  have st := exec_spec s s' op o hw hv h
  have hl := lost_only_f4 s s' op o hw hv h
  refine ⟨st.acct, st.lost_nonneg, hl, ?_⟩
  intro hfix
  rcases hl with hl | ⟨_, hno, _⟩
  · exact hl
  · rw [hfix] at hno; cases hno

/-- funds used by the F4 witness: 100 balance, nothing locked, no debt -/
def f4Funds : Funds := { balance := 100, pcd := 0, lockedFunds := 0, initialPledge := 0, feeDebt := 0 }
/-- environment of the F4 witness: a valid report, epoch reward 40 (penalty 40, reporter reward 2),
    and the transfer of the reward to the reporter fails -/
def f4Env : CfEnv := { vested := 0, faultVerified := true, targetIsSelf := true, currEpoch := 10,
                       faultEpoch := 5, thisEpochReward := 40, rewardSendOk := false, pledgeOk := true }

/-- **Finding F4 (negation witness of full penalty accounting).** In the unrepaired code a
    consensus-fault report whose reward transfer fails charges 40, burns 38, records no debt and
    pays the reporter nothing: 2 units of the charged penalty stay in the miner's balance
    (`debt' + burnt + reward = 38 ≠ 40 = debt + charged`, balance 100 → 62 instead of 60). -/
theorem consensus_fault_unsent_reward_lost (hcode : Gen.cfBurnsUnsentReward = false) :
    ∃ s' o, reportConsensusFault { funds := f4Funds } f4Env = .ok (s', o) ∧
      o.charged = 40 ∧ o.burnt = 38 ∧ o.toReporter = 0 ∧ s'.funds.feeDebt = 0 ∧ o.lost = 2 ∧
      s'.funds.balance = 62 ∧
      s'.funds.feeDebt + o.burnt + o.toReporter ≠ f4Funds.feeDebt + o.charged := by
  refine ⟨{ funds := { f4Funds with balance := 62 }, cfElapsed := 910 },
          { charged := 40, burnt := 38, lost := 2,
            effects := [⟨.reward, 0, true⟩, ⟨.reporter, 2, false⟩, ⟨.burnt, 38, true⟩] }, ?_, ?_⟩
  · simp [reportConsensusFault, f4Funds, f4Env, hcode, applyPenalty, repayPartial,
      unlockVestedAndUnvested, getUnlockedBalance, burn, notifyPledge, checkBalanceInvariants,
      consensusFaultPenalty, rewardForConsensusSlashReport, Gen.consensusFaultFactor,
      Gen.expectedLeadersPerEpoch, Gen.consensusFaultReporterShare,
      Gen.consensusFaultIneligibilityDuration]
    rfl
  · simp [f4Funds]

/-- In the repaired code the same situation burns the unsent reward: nothing is lost. -/
theorem consensus_fault_unsent_reward_burnt (hcode : Gen.cfBurnsUnsentReward = true)
    (s s' : MState) (e : CfEnv) (o : Out) (hw : WF s.funds)
    (h : reportConsensusFault s e = .ok (s', o)) :
    s'.funds.feeDebt + o.burnt + o.toReporter = s.funds.feeDebt + o.charged := by
  have sp := cf_spec s s' e o hw h
  have hl : o.lost = 0 := by
    by_cases hl : o.lost = 0
    · exact hl
    · have := (sp.2.2.2.2.2.2.1 hl).1; rw [hcode] at this; cases this
  have := sp.1.acct
  omega

/-! ### reporter reward -/

/-- **The reporter's reward never exceeds what was taken from the miner** in that step, for
    disputes and consensus-fault reports, whether or not the reward transfer succeeds: the reward
    is non-negative, at most the policy reward (4 FIL / reward÷20), at most the amount of debt
    actually collected in the step (`debt + charged − debt'`), and at most what left the miner's
    balance. -/
theorem reporter_le_taken (s s' : MState) (op : Op) (o : Out) (hw : WF s.funds) (hv : VestedOk s op)
    (hm : op.isMessage = true) (h : exec s op = .ok (s', o)) :
    0 ≤ o.toReporter ∧
    o.toReporter ≤ s.funds.feeDebt + o.charged - s'.funds.feeDebt ∧
    o.toReporter ≤ s.funds.balance - s'.funds.balance ∧
    (∀ e, op = .reportCF e → o.toReporter ≤ rewardForConsensusSlashReport e.thisEpochReward) ∧
    (∀ e, op = .dispute e → o.toReporter ≤ rewardForDisputedWindowPost) := by
  have st := message_spec s s' op o hw hv hm h
  have a := st.acct; have b := st.bal
  have := st.burnt_nonneg; have := st.lost_nonneg; have := st.ben_nonneg
  refine ⟨st.rep_nonneg, by omega, by omega, ?_, ?_⟩
  · intro e he; subst he; exact (cf_spec s s' e o hw h).2.2.2.2.1
  · intro e he; subst he; exact (dispute_spec s s' e o hw h).2.2.2.2.2.1

/-! ### debt blocks withdrawals, pre-commits and recovery declarations -/

/-- **Fee debt blocks.** When the fee debt exceeds the unlocked balance (balance incl. the message
    value, minus vesting funds after this message's vesting, deposits and pledge) then
    `WithdrawBalance`, `PreCommitSectorBatch` and `DeclareFaultsRecovered` fail and change nothing. -/
theorem debt_blocks (s : MState) :
    (∀ e : WdEnv,
      s.funds.balance - (s.funds.lockedFunds - (if s.funds.lockedFunds = 0 then 0 else e.vested))
          - s.funds.pcd - s.funds.initialPledge < s.funds.feeDebt →
      ∃ err, step s (.withdraw e) = (s, .error err)) ∧
    (∀ e : PcEnv,
      s.funds.balance - s.funds.lockedFunds - s.funds.pcd - s.funds.initialPledge < s.funds.feeDebt →
      ∃ err, step s (.preCommit e) = (s, .error err)) ∧
    (∀ e : DrEnv,
      s.funds.balance - s.funds.lockedFunds - s.funds.pcd - s.funds.initialPledge < s.funds.feeDebt →
      ∃ err, step s (.declareRecovered e) = (s, .error err)) := by
  have key : ∀ op, (∀ s' o, exec s op ≠ .ok (s', o)) → ∃ err, step s op = (s, .error err) := by
    intro op hne
    unfold step
    cases hx : exec s op with
    | error err => exact ⟨err, rfl⟩
    | ok p => exact absurd hx (hne p.1 p.2)
  refine ⟨?_, ?_, ?_⟩
  · intro e hlt
    apply key
    intro s' o h
    simp only [exec] at h
    unfold withdrawBalance at h
    simp only [guard_ok] at h
    obtain ⟨_, _, _, h⟩ := h
    split at h
    · cases h
    · rename_i f1 nv hu
      obtain ⟨rfl, u2⟩ := unlockVested_spec _ _ _ _ hu
      split at h
      · cases h
      · split at h
        · cases h
        · rename_i f2 fee hr
          obtain ⟨_, _, d3, _⟩ := repayDebts_spec _ _ _ hr
          simp only at d3
          rcases u2 with ⟨z, rfl⟩ | ⟨nz, rfl, _⟩
          · simp only [z, if_true] at hlt; omega
          · simp only [nz, if_false] at hlt; omega
  · intro e hlt
    apply key
    intro s' o h
    simp only [exec] at h
    unfold preCommit at h
    simp only [guard_ok] at h
    obtain ⟨_, h⟩ := h
    split at h
    · cases h
    · split at h
      · cases h
      · rename_i f1 fee hr
        obtain ⟨_, _, d3, _⟩ := repayDebts_spec _ _ _ hr
        omega
  · intro e hlt
    apply key
    intro s' o h
    simp only [exec] at h
    unfold declareFaultsRecovered at h
    simp only [guard_ok] at h
    obtain ⟨_, h⟩ := h
    split at h
    · cases h
    · rename_i f1 fee hr
      obtain ⟨_, _, d3, _⟩ := repayDebts_spec _ _ _ hr
      omega

/-- Conversely, when one of the gated methods succeeds the whole debt was burnt in that message:
    the debt is either repaid at once or keeps blocking. -/
theorem gate_repays_all (s s' : MState) (op : Op) (o : Out) (hw : WF s.funds)
    (hg : (∃ e, op = .withdraw e) ∨ (∃ e, op = .preCommit e) ∨ (∃ e, op = .declareRecovered e))
    (h : exec s op = .ok (s', o)) :
    s'.funds.feeDebt = 0 ∧ o.burnt = s.funds.feeDebt := by
  rcases hg with ⟨e, rfl⟩ | ⟨e, rfl⟩ | ⟨e, rfl⟩
  · have := withdraw_spec s s' e o hw h; exact ⟨this.2.2.2.2.1, this.2.2.2.2.2.1⟩
  · have := preCommit_spec s s' e o hw h; exact ⟨this.2.2.2.2.2.1, this.2.2.2.2.2.2.1⟩
  · have := declareRecovered_spec s s' e o hw h; exact ⟨this.2.2.2.2.2.1, this.2.2.2.2.2.2.1⟩

/-! ### continued faults -/

/-- **Continued faults are charged** (`_partial`: funds side; the deadline/partition model that
    derives the previously-faulty power `P` of the closing deadline from the sector states is not
    part of this model, so `P` is an input). A deadline end that succeeds with previously faulty
    QA power `P` charges exactly expired deposits + `pledge_penalty_for_continued_fault(P)` + the
    capped daily fee (+ termination fees of sectors terminated by the same callback); that fee is
    non-negative, and the charge is burnt or stays as debt. -/
theorem continued_fault_charged_partial (s s' : MState) (e : DlEnv) (o : Out)
    (z : Bool) (r c P : Int)
    (hw : WF s.funds) (hv : 0 ≤ e.vested ∧ e.vested ≤ s.funds.lockedFunds)
    (hP : e.faultPenalty = pledgePenaltyForContinuedFault z r c P)
    (h : deadlineEnd s e = .ok (s', o)) :
    0 ≤ pledgePenaltyForContinuedFault z r c P ∧
    o.charged = e.expiredDeposit + pledgePenaltyForContinuedFault z r c P +
      (if e.dailyFee > 0 then dailyProofFeePayable e.dailyFee e.dayReward else 0) +
      (if e.terminated = [] then 0 else termFees e.terminated) ∧
    pledgePenaltyForContinuedFault z r c P ≤ o.charged ∧
    s'.funds.feeDebt + o.burnt = s.funds.feeDebt + o.charged := by
  have sp := deadlineEnd_spec s s' e o hw hv h
  obtain ⟨st, _, hl, hr, _, hd, hf, hc, _, _⟩ := sp
  have a := st.acct
  rw [hP] at hf hc
  refine ⟨hf, hc, ?_, by omega⟩
  have h1 : 0 ≤ (if e.dailyFee > 0 then dailyProofFeePayable e.dailyFee e.dayReward else 0) := by
    have := st.charged_nonneg
    by_cases hdf : e.dailyFee > 0
    · simp only [hdf, if_true]
      -- the fee was accepted by apply_penalty, hence non-negative
      unfold deadlineEnd at h
      simp only [guard_ok] at h
      obtain ⟨_, h⟩ := h
      split at h
      · cases h
      · simp only [guard_ok] at h
        obtain ⟨_, h⟩ := h
        split at h
        · cases h
        · split at h
          · cases h
          · rename_i f3 h3
            simp only [hdf, if_true] at h3
            exact (applyPenalty_spec _ _ _ h3).1
    · simp [hdf]
  have h2 : 0 ≤ (if e.terminated = [] then 0 else termFees e.terminated) := by
    by_cases hl' : e.terminated = []
    · simp [hl']
    · simp only [hl', if_false]
      unfold deadlineEnd at h
      simp only [guard_ok] at h
      obtain ⟨_, h⟩ := h
      split at h
      · cases h
      · simp only [guard_ok] at h
        obtain ⟨_, h⟩ := h
        split at h
        · cases h
        · split at h
          · cases h
          · split at h
            · cases h
            · split at h
              · cases h
              · split at h
                · cases h
                · split at h
                  · cases h
                  · split at h
                    · cases h
                    · rename_i f7 out2 hpe
                      unfold processEarlyTerminations at hpe
                      simp only [hl', if_false] at hpe
                      split at hpe
                      · cases hpe
                      · rename_i f1' ha
                        exact (applyPenalty_spec _ _ _ ha).1
  omega

/-! ### whole histories -/

/-- **Whole-history accounting.** Over any sequence of messages (penalising steps, gated methods,
    debt repayment, and arbitrary other changes of the miner's balance and ledgers), from any
    well-formed funds, with vesting inputs consistent with the table:
    `final debt + Σ burnt + Σ reporter rewards + Σ lost = initial debt + Σ charged`,
    the funds stay well-formed, every total is non-negative, and in the repaired code `Σ lost = 0`
    — every charged amount was burnt, paid to a reporter out of what was collected, or is still
    recorded as blocking fee debt. -/
theorem history_accounting (ops : List Op) (s : MState) (l : Ledger) (hw : WF s.funds)
    (hh : HistOk s ops) :
    (run s l ops).1.funds.feeDebt + (run s l ops).2.burnt + (run s l ops).2.toReporter
        + (run s l ops).2.lost
      = s.funds.feeDebt + (run s l ops).2.charged + (l.burnt + l.toReporter + l.lost - l.charged) ∧
    WF (run s l ops).1.funds ∧
    l.burnt ≤ (run s l ops).2.burnt ∧ l.toReporter ≤ (run s l ops).2.toReporter ∧
    l.lost ≤ (run s l ops).2.lost ∧ l.charged ≤ (run s l ops).2.charged ∧
    (Gen.cfBurnsUnsentReward = true → (run s l ops).2.lost = l.lost) := by
  induction ops generalizing s l with
  | nil => simp [run]; exact ⟨by omega, hw⟩
  | cons op rest ih =>
    obtain ⟨hv, hrest⟩ := hh
    simp only [run]
    unfold step at hrest ⊢
    cases hx : exec s op with
    | error err =>
      simp only [hx] at hrest ⊢
      exact ih s l hw hrest
    | ok p =>
      obtain ⟨s1, o⟩ := p
      simp only [hx] at hrest ⊢
      have st := exec_spec s s1 op o hw hv hx
      have pl := penalty_accounting_with_loss s s1 op o hw hv hx
      have := ih s1 (l.add o) st.wf hrest
      obtain ⟨i1, i2, i3, i4, i5, i6, i7⟩ := this
      have a := st.acct
      have := st.burnt_nonneg; have := st.rep_nonneg; have := st.lost_nonneg
      have := st.charged_nonneg
      simp only [show (l.add o).burnt = l.burnt + o.burnt from rfl,
        show (l.add o).toReporter = l.toReporter + o.toReporter from rfl,
        show (l.add o).lost = l.lost + o.lost from rfl,
        show (l.add o).charged = l.charged + o.charged from rfl] at i1 i3 i4 i5 i6 i7
      refine ⟨by omega, i2, by omega, by omega, by omega, by omega, ?_⟩
      intro hfix
      have := i7 hfix
      have := pl.2.2.2 hfix
      omega

/-! ### non-vacuity: concrete runs (evaluated by the kernel) -/

/-- a miner with 1000 balance, 100 deposits, 300 vesting (50 of it vested), 400 pledge, no debt -/
def exFunds : Funds := { balance := 1000, pcd := 100, lockedFunds := 300, initialPledge := 400, feeDebt := 0 }

example : WF exFunds := by decide

/-- termination fee of a 1000-pledge sector aged 10 days with fault fee 7: the 2 % floor (20) binds -/
example : pledgePenaltyForTermination 1000 28800 7 = 20 := by decide
/-- aged 140 days: the 8.5 % cap (85) binds -/
example : pledgePenaltyForTermination 1000 403200 7 = 85 := by decide
/-- a large fault fee lifts the fee to 105 % of it -/
example : pledgePenaltyForTermination 1000 28800 200 = 210 := by decide

/-- the observable part of a step result -/
def view (r : Except Err (MState × Out)) : Option (Funds × Int × Int × Int × Int) :=
  r.toOption.map (fun p => (p.1.funds, p.2.charged, p.2.burnt, p.2.toReporter, p.2.lost))

def exDl1 : DlEnv :=
  { vested := 50, expiredDeposit := 30, onTimePledge := 0, faultPenalty := 250, dailyFee := 0, dayReward := 0, terminated := [], pledgeOk := true }

/-- a deadline end charging 250 + 30 of expired deposit to a miner with 200 available: vesting funds
    are unlocked first (the 50 vested and the 250 unvested ones), then 280 are burnt; no debt is left -/
example : view (exec { funds := exFunds } (.deadlineEnd exDl1))
    = some ({ balance := 720, pcd := 70, lockedFunds := 0, initialPledge := 400, feeDebt := 0 }, 280, 280, 0, 0) := by
  decide

/-- an insolvent miner: the charge exceeds everything unlockable, the rest becomes fee debt … -/
def exPoor : Funds := { balance := 520, pcd := 0, lockedFunds := 100, initialPledge := 400, feeDebt := 0 }
def exDl2 : DlEnv :=
  { vested := 0, expiredDeposit := 0, onTimePledge := 0, faultPenalty := 300, dailyFee := 0, dayReward := 0, terminated := [], pledgeOk := true }
example : view (exec { funds := exPoor } (.deadlineEnd exDl2))
    = some ({ balance := 400, pcd := 0, lockedFunds := 0, initialPledge := 400, feeDebt := 180 }, 300, 120, 0, 0) := by
  decide

/-- … and that debt blocks a withdrawal, a pre-commit and a recovery declaration (hypotheses of
    `debt_blocks` are satisfiable) -/
def exDebtor : MState := { funds := { balance := 400, pcd := 0, lockedFunds := 0, initialPledge := 400, feeDebt := 180 } }
def exWd : WdEnv :=
  { vested := 0, callerOk := true, earlyTerminationsPending := false, amountRequested := 1, quota := none, pledgeOk := true }
example : view (exec exDebtor (.withdraw exWd)) = none := by decide
example : view (exec exDebtor (.preCommit { paramsOk := true, callerOk := true, currEpoch := 5, deposit := 0 })) = none := by
  decide
example : view (exec exDebtor (.declareRecovered { paramsOk := true, callerOk := true, currEpoch := 5, declarationOk := true })) = none := by
  decide
/-- once 180 arrive, the same withdrawal succeeds and burns the whole debt -/
example : view (exec { exDebtor with funds := { exDebtor.funds with balance := 581 } } (.withdraw exWd))
    = some ({ balance := 400, pcd := 0, lockedFunds := 0, initialPledge := 400, feeDebt := 0 }, 0, 180, 0, 0) := by
  decide

/-- a consensus-fault report with a delivered reward: charged 40 = burnt 38 + reporter 2 -/
example : view (exec { funds := f4Funds } (.reportCF { f4Env with rewardSendOk := true }))
    = some ({ f4Funds with balance := 60 }, 40, 38, 2, 0) := by decide

/-- a two-step history satisfying `HistOk` -/
example : HistOk { funds := exFunds } [.deadlineEnd exDl1, .withdraw exWd] :=
  ⟨by decide, ⟨by decide, trivial⟩⟩

end BA.MinerPenalty
