/-
  C08 — Deal lifecycle: unique publication, one timely activation by the provider.
  Property theorems over the model `BA.Market` (actors/market/src/{lib,state,policy}.rs).
-/
import BA.Lemmas.MarketTimeout

namespace BA.Market
open BA

/-! ### Deal ids: fresh, consecutive, strictly increasing, never reused -/

theorem publishOne_id {s s' : State} {d : Proposal} {id : Nat} (h : publishOne s d = .ok (s', id)) :
    id = s.nextId ∧ s'.nextId = s.nextId + 1 ∧ alookup id s'.proposals = some d ∧
    d ∈ s'.pending ∧ (∀ k, k ≠ id → alookup k s'.proposals = alookup k s.proposals) ∧
    s'.states = s.states := by
  unfold publishOne at h
  cases hl : lockBoth s d with
  | error e => simp [hl] at h
  | ok s1 =>
    simp only [hl] at h
    injection h with h; injection h with h1 h2
    subst h1; subst h2
    have c := (lockBoth_ok hl).1
    refine ⟨c.nextId, by show s1.nextId + 1 = _; rw [c.nextId], by simp, ?_, ?_, c.states⟩
    · show d ∈ pendingPut s1.pending d
      unfold pendingPut; split
      · assumption
      · simp
    · intro k hk
      show alookup k (aset s1.nextId d s1.proposals) = _
      rw [alookup_aset_other _ _ _ _ hk, c.proposals]

theorem publishAll_ids (ds : List Proposal) : ∀ (s s' : State) (ids : List Nat),
    publishAll s ds = .ok (s', ids) →
      ids = List.range' s.nextId ds.length ∧ s'.nextId = s.nextId + ds.length := by
  induction ds with
  | nil => intro s s' ids h; simp [publishAll] at h; simp [← h.1, ← h.2]
  | cons d rest ih =>
    intro s s' ids h
    unfold publishAll at h
    cases h1 : publishOne s d with
    | error e => simp [h1] at h
    | ok r =>
      obtain ⟨s1, id⟩ := r
      simp only [h1] at h
      cases h2 : publishAll s1 rest with
      | error e => simp [h2] at h
      | ok r2 =>
        obtain ⟨s2, ids2⟩ := r2
        simp only [h2] at h
        injection h with h; injection h with ha hb
        subst ha; subst hb
        obtain ⟨e1, e2, _⟩ := publishOne_id h1
        obtain ⟨i1, i2⟩ := ih s1 s2 ids2 h2
        rw [i1, i2, e2, e1]
        simp [List.range'_succ]; omega

/-- **Deal ids are fresh and strictly increasing.**  A successful `PublishStorageDeals` returns the
    consecutive ids `next_id, next_id+1, …` — one per accepted deal, in order — and advances
    `next_id` past them. -/
theorem ids_fresh_increasing {s s' : State} {env : PublishEnv} {deals : List DealIn} {r : PublishRet}
    (h : publish s env deals = .ok (s', r)) :
    r.ids = List.range' s.nextId r.ids.length ∧ s'.nextId = s.nextId + r.ids.length ∧
    r.ids.length = r.valid.length ∧ 0 < r.ids.length := by
  unfold publish at h
  cases deals with
  | nil => simp at h
  | cons first rest =>
    simp only at h
    simp only [guard_ok] at h
    obtain ⟨_, _, _, _, hne, h⟩ := h
    cases hpa : publishAll s ((selectDeals s env.provider (first :: rest) 0 {}).accepted.map (·.2)) with
    | error e => simp [hpa] at h
    | ok r2 =>
      obtain ⟨s2, ids⟩ := r2
      simp only [hpa] at h
      simp only [guard_ok] at h
      obtain ⟨_, h⟩ := h
      injection h with h; injection h with ha hb
      subst ha; subst hb
      obtain ⟨i1, i2⟩ := publishAll_ids _ _ _ _ hpa
      have hlen : ids.length = (selectDeals s env.provider (first :: rest) 0 {}).accepted.length := by
        rw [i1]; simp
      refine ⟨?_, ?_, ?_, ?_⟩
      · simp only; rw [hlen]; simpa using i1
      · simp only; rw [hlen]; simpa using i2
      · simp only; rw [hlen]; simp
      · simp only; rw [hlen]
        cases hacc : (selectDeals s env.provider (first :: rest) 0 {}).accepted with
        | nil => simp [hacc] at hne
        | cons _ _ => simp

/-- every published deal has an id below `next_id`, in every reachable state: the ids handed out
    later are larger than every id in use -/
theorem ids_below_next (ops : List Op) (id : Nat) (d : Proposal)
    (h : alookup id (run init ops).proposals = some d) : id < (run init ops).nextId :=
  (inv_reachable ops).wf.fresh id d h

/-- a deal id names at most one proposal (the table has no duplicate keys) -/
theorem ids_unique (ops : List Op) : ND (run init ops).proposals := (inv_reachable ops).wf.nd

/-! ### Publication: what gets an id -/

/-- **A deal gets an id only if** the client authenticated it, it passed the static validity
    checks, its term is in order and has not started, its provider is the batch's provider, both
    parties' escrow covers — on top of what is already locked — the running total of this batch
    including this deal, and the same (normalised) proposal is neither pending nor already accepted
    earlier in the same message. -/
theorem publish_requires {s : State} {p : Nat} {acc : Sel} {di : DealIn} {cl pl : Int}
    (h : selectOne s p acc di = some (cl, pl)) :
    di.sigOk = true ∧ di.boundsOk = true ∧ di.providerMatches = true ∧
    di.d.startE < di.d.endE ∧ s.epoch ≤ di.d.startE ∧
    0 ≤ di.d.price ∧ 0 ≤ di.d.providerColl ∧ 0 ≤ di.d.clientColl ∧
    cl = bal acc.clientLockup di.d.client + di.d.clientReq ∧
    bal s.locked di.d.client + cl ≤ bal s.escrow di.d.client ∧
    pl = acc.providerLockup + di.d.providerColl ∧
    bal s.locked p + pl ≤ bal s.escrow p ∧
    normalise p di.d ∉ s.pending ∧ normalise p di.d ∉ acc.seen ∧
    (di.d.verified = true → di.dcOk = true) := by
  unfold selectOne at h
  by_cases h1 : dealValid s.epoch di = true
  · simp only [h1, Bool.not_true, Bool.false_eq_true, if_false] at h
    by_cases h2 : di.providerMatches = true
    · simp only [h2, Bool.not_true, Bool.false_eq_true, if_false] at h
      by_cases h3 : balanceCovered s di.d.client (bal acc.clientLockup di.d.client + di.d.clientReq) = true
      · simp only [h3, Bool.not_true, Bool.false_eq_true, if_false] at h
        by_cases h4 : balanceCovered s p (acc.providerLockup + di.d.providerColl) = true
        · simp only [h4, Bool.not_true, Bool.false_eq_true, if_false] at h
          by_cases h5 : normalise p di.d ∈ s.pending ∨ normalise p di.d ∈ acc.seen
          · simp [h5] at h
          · simp only [h5, if_false] at h
            by_cases h6 : (di.d.verified && !di.dcOk) = true
            · simp [h6] at h
            · simp only [h6, Bool.false_eq_true, if_false] at h
              injection h with h; injection h with ha hb
              simp [dealValid] at h1
              obtain ⟨⟨⟨⟨⟨⟨v1, v2⟩, v3⟩, v4⟩, v5⟩, v6⟩, v7⟩ := h1
              simp [balanceCovered] at h3 h4
              refine ⟨v1, v2, h2, v3, v4, v5, v6, v7, ha.symm, by rw [← ha]; exact h3, hb.symm,
                by rw [← hb]; exact h4, fun hh => h5 (Or.inl hh), fun hh => h5 (Or.inr hh), ?_⟩
              intro hv
              simp [hv] at h6; exact h6
        · simp [h4] at h
      · simp [h3] at h
    · simp [h2] at h
  · simp [h1] at h

/-- what the selection loop of one message has accepted: pairwise different proposals, none of them
    pending before the message; the running lock-ups are the sums over the accepted deals -/
structure SelOk (s : State) (acc : Sel) : Prop where
  seen : acc.seen = acc.accepted.map (·.2)
  notPending : ∀ x ∈ acc.accepted, x.2 ∉ s.pending
  distinct : (acc.accepted.map (·.2)).Pairwise (· ≠ ·)
  provider : acc.providerLockup = isum (acc.accepted.map (·.2.providerColl))
  client : ∀ c, bal acc.clientLockup c =
    isum ((acc.accepted.filter (fun x => x.2.client == c)).map (·.2.clientReq))

theorem selectDeals_ok (s : State) (p : Nat) (deals : List DealIn) :
    ∀ (i : Nat) (acc : Sel), SelOk s acc → SelOk s (selectDeals s p deals i acc) := by
  induction deals with
  | nil => intro i acc h; simpa [selectDeals] using h
  | cons di rest ih =>
    intro i acc h
    unfold selectDeals
    cases hs : selectOne s p acc di with
    | none => exact ih _ _ h
    | some r =>
      obtain ⟨cl, pl⟩ := r
      obtain ⟨_, _, _, _, _, _, _, _, hcl, _, hpl, _, hnp, hns, _⟩ := publish_requires hs
      apply ih
      refine ⟨?_, ?_, ?_, ?_, ?_⟩
      · simp [h.seen]
      · intro x hx
        simp at hx
        rcases hx with hx | hx
        · exact h.notPending x hx
        · subst hx; exact hnp
      · simp only [List.map_append, List.map_cons, List.map_nil]
        rw [List.pairwise_append]
        refine ⟨h.distinct, by simp, ?_⟩
        intro a ha b hb
        simp at hb; subst hb
        intro e; subst e
        rw [h.seen] at hns; exact hns ha
      · simp only [List.map_append, List.map_cons, List.map_nil, isum_append]
        rw [hpl, h.provider]; simp [normalise]
      · intro c
        simp only [List.filter_append, List.map_append, isum_append]
        by_cases hc : c = di.d.client
        · subst hc
          rw [bal_aset_same, hcl, h.client]
          simp [normalise, Proposal.clientReq, Proposal.fee]
        · rw [bal_aset_other _ _ _ _ hc, h.client]
          have : (di.d.client == c) = false := by
            simp; exact fun e => hc e.symm
          simp [normalise, this]

/-- **Within one message**: the accepted proposals are pairwise different, none was pending, and
    for every client `c` (and for the provider) what was already locked plus the *sum* of the
    requirements of all the deals accepted for it in this message fits in its escrow. -/
theorem publish_batch_sound (s : State) (p : Nat) (deals : List DealIn) :
    let sel := selectDeals s p deals 0 {}
    (sel.accepted.map (·.2)).Pairwise (· ≠ ·) ∧ (∀ x ∈ sel.accepted, x.2 ∉ s.pending) ∧
    (sel.accepted ≠ [] → bal s.locked p + isum (sel.accepted.map (·.2.providerColl)) ≤ bal s.escrow p) ∧
    (∀ c, (∃ x ∈ sel.accepted, x.2.client = c) →
      bal s.locked c + isum ((sel.accepted.filter (fun x => x.2.client == c)).map (·.2.clientReq))
        ≤ bal s.escrow c) := by
  have key : ∀ (deals : List DealIn) (i : Nat) (acc : Sel), SelOk s acc →
      (acc.accepted ≠ [] → bal s.locked p + acc.providerLockup ≤ bal s.escrow p) →
      (∀ c, (∃ x ∈ acc.accepted, x.2.client = c) →
        bal s.locked c + bal acc.clientLockup c ≤ bal s.escrow c) →
      ((selectDeals s p deals i acc).accepted ≠ [] →
        bal s.locked p + (selectDeals s p deals i acc).providerLockup ≤ bal s.escrow p) ∧
      (∀ c, (∃ x ∈ (selectDeals s p deals i acc).accepted, x.2.client = c) →
        bal s.locked c + bal (selectDeals s p deals i acc).clientLockup c ≤ bal s.escrow c) := by
    intro deals
    induction deals with
    | nil => intro i acc _ h1 h2; exact ⟨h1, h2⟩
    | cons di rest ih =>
      intro i acc hok h1 h2
      unfold selectDeals
      cases hs : selectOne s p acc di with
      | none => exact ih _ _ hok h1 h2
      | some r =>
        obtain ⟨cl, pl⟩ := r
        obtain ⟨_, _, _, _, _, _, _, _, hcl, hcb, hpl, hpb, _⟩ := publish_requires hs
        have hok' : SelOk s (Sel.mk (aset di.d.client cl acc.clientLockup) pl
            (acc.seen ++ [normalise p di.d]) (acc.accepted ++ [(i, normalise p di.d)])) := by
          have := selectDeals_ok s p [di] i acc hok
          simpa [selectDeals, hs] using this
        apply ih _ _ hok'
        · intro _; exact hpb
        · intro c hc
          by_cases hcc : c = di.d.client
          · subst hcc; rw [bal_aset_same]; exact hcb
          · rw [bal_aset_other _ _ _ _ hcc]
            apply h2 c
            obtain ⟨x, hx, hxc⟩ := hc
            simp at hx
            rcases hx with hx | hx
            · exact ⟨x, hx, hxc⟩
            · subst hx; simp [normalise] at hxc; exact absurd hxc.symm hcc
  intro sel
  have hok0 : SelOk s {} := ⟨rfl, by simp, by simp, by simp, by intro c; simp [bal_nil]⟩
  have hok := selectDeals_ok s p deals 0 {} hok0
  obtain ⟨k1, k2⟩ := key deals 0 {} hok0 (by simp) (by simp)
  refine ⟨hok.distinct, hok.notPending, ?_, ?_⟩
  · intro hne; rw [← hok.provider]; exact k1 hne
  · intro c hc; rw [← hok.client]; exact k2 c hc

/-! ### Activation -/

/-- **Activation requires**: a published proposal with that id, the caller is its provider, the
    current epoch is not after the deal's start, the sector outlives the deal, the deal has no
    deal state yet (it was not activated before), and the proposal is still pending.  This is the
    single check behind both `BatchActivateDeals` and `SectorContentChanged`. -/
theorem activate_requires {s : State} {caller : Nat} {expiry : Int} {id : Nat}
    (h : canActivate s caller expiry id = true) :
    ∃ d, alookup id s.proposals = some d ∧ d.provider = caller ∧ s.epoch ≤ d.startE ∧
      d.endE ≤ expiry ∧ alookup id s.states = none ∧ d ∈ s.pending :=
  canActivate_facts h

/-- an activated deal cannot be activated again — by anybody, for any sector, through either path -/
theorem activated_not_again {s : State} {id : Nat} {st : DealState} (h : alookup id s.states = some st)
    (caller : Nat) (expiry : Int) : canActivate s caller expiry id = false := by
  unfold canActivate
  cases hp : alookup id s.proposals with
  | none => rfl
  | some d => simp [h]

/-- a sector of `BatchActivateDeals` is accepted only if no deal id repeats inside it and every
    one of its deals passes the activation check; then every one of them gets a deal state -/
theorem batch_sector_requires {s : State} {caller : Nat} {sd : SectorDeals}
    (h : (activateSector s caller sd).2 = true) :
    hasDup sd.ids = false ∧ ∀ id ∈ sd.ids, canActivate s caller sd.expiry id = true := by
  unfold activateSector at h
  by_cases hd : hasDup sd.ids = true
  · simp [hd] at h
  · have hd' : hasDup sd.ids = false := by simpa using hd
    simp only [hd', Bool.false_eq_true, if_false] at h
    by_cases ha : sd.ids.all (canActivate s caller sd.expiry) = true
    · exact ⟨hd', fun id hid => (List.all_eq_true.mp ha) id hid⟩
    · simp [ha] at h

/-- a piece of `SectorContentChanged` is accepted only if its deal passes the activation check -/
theorem scc_piece_requires {s : State} {caller sector : Nat} {mc : Int} {p : Piece} {rest : List Piece}
    (h : (sccPieces caller sector mc s (p :: rest)).2.head? = some true) :
    p.pieceOk = true ∧ canActivate s caller mc p.id = true := by
  unfold sccPieces at h
  by_cases hc : (p.pieceOk && canActivate s caller mc p.id) = true
  · simp at hc; exact hc
  · simp only [hc, Bool.false_eq_true, if_false] at h
    simp at h

/-- right after its activation the deal has a deal state (activated now, never settled) -/
theorem activateOne_state (s : State) (sector id : Nat) :
    alookup id (activateOne s sector id).states =
      some { sector := sector, sectorStart := s.epoch, lastUpdated := -1, mapped := true } := by
  simp [activateOne]

/-- the same deal id named twice in one call is activated at most once: the second occurrence, in
    a later sector of the same message or a later piece, meets the deal state just written -/
theorem repeated_id_rejected (s : State) (sector id caller : Nat) (expiry : Int) :
    canActivate (activateOne s sector id) caller expiry id = false :=
  activated_not_again (activateOne_state s sector id) caller expiry

/-! ### Time-out of proposals that were not activated -/

/-- **A proposal not activated by its start epoch is removed on first touch**: settling a deal that
    has no deal state at an epoch ≥ its start either removes the proposal (and its pending entry),
    reports the entry as failed and slashes the provider's whole collateral, or — only when the
    balance tables are inconsistent — leaves everything as it was. Before the start epoch the
    proposal is left alone. -/
theorem timeout_on_touch (s : State) (id : Nat) (d : Proposal) (hp : alookup id s.proposals = some d)
    (hst : alookup id s.states = none) :
    (s.epoch < d.startE → settleOne s id = (s, .ok 0 false, 0)) ∧
    (d.startE ≤ s.epoch →
      (∃ s', timeoutDeal s id d = .ok s' ∧ settleOne s id = (s', .fail, d.providerColl) ∧
        alookup id s'.proposals = none ∧ d ∉ s'.pending ∧
        s'.burntTotal = s.burntTotal + d.providerColl) ∨
      (∃ e, timeoutDeal s id d = .error e ∧ settleOne s id = (s, .fail, 0))) := by
  constructor
  · intro he
    unfold settleOne; simp [hp, hst, he]
  · intro he
    have hne : ¬ s.epoch < d.startE := by omega
    cases ht : timeoutDeal s id d with
    | error e => right; exact ⟨e, rfl, by unfold settleOne; simp [hp, hst, hne, ht]⟩
    | ok s' =>
      left
      obtain ⟨_, _, _, _, r, hpend, _, _⟩ := timeoutDeal_ok ht
      refine ⟨s', rfl, by unfold settleOne; simp [hp, hst, hne, ht], ?_, ?_, ?_⟩
      · rw [r.proposals]; exact alookup_aerase_same _ _
      · rw [hpend]; simp [pendingRemove]
      · rw [r.burntTotal]; rfl

/-- **Removal on first touch, unconditionally in reachable states.**  In any state reached by any
    history, a proposal that was never activated, is still in the pending set and whose start epoch
    has come is removed by the first `SettleDealPayments` that names it: the proposal and its
    pending entry are gone, the entry is reported as failed, the provider's whole collateral is
    slashed (escrow and locked both lowered by it, the amount handed to the burn), the client's fee
    and collateral are unlocked in full and its escrow is untouched. -/
theorem timeout_removes (ops : List Op) (id : Nat) (d : Proposal)
    (hp : alookup id (run init ops).proposals = some d)
    (hst : alookup id (run init ops).states = none)
    (hstart : d.startE ≤ (run init ops).epoch) (hpend : d ∈ (run init ops).pending) :
    ∃ s', settleOne (run init ops) id = (s', .fail, d.providerColl) ∧
      alookup id s'.proposals = none ∧ d ∉ s'.pending ∧
      s'.burntTotal = (run init ops).burntTotal + d.providerColl ∧
      (∀ j, bal s'.escrow j = bal (run init ops).escrow j - ind j d.provider d.providerColl) ∧
      (∀ j, bal s'.locked j = bal (run init ops).locked j - ind j d.client (d.fee + d.clientColl)
          - ind j d.provider d.providerColl) := by
  have hi := inv_reachable ops
  obtain ⟨s', hs'⟩ := timeout_succeeds hi hp hst hpend
  rcases (timeout_on_touch _ id d hp hst).2 hstart with ⟨s2, h1, h2, h3, h4, h5⟩ | ⟨e, h1, _⟩
  · obtain ⟨_, _, _, _, _, _, _, m⟩ := timeoutDeal_ok h1
    exact ⟨s2, h2, h3, h4, h5, by intro j; rw [m.escrow]; omega, by intro j; rw [m.locked]; omega⟩
  · rw [hs'] at h1; simp at h1

/-! ### Over whole histories: at most one activation, ids never reused, pending set -/

/-- **Activated at most once, ever.**  Once deal `id` has a deal state (it was activated, through
    either entry point), then after *any* further history — more publications, settlements, cron
    ticks, terminations, its own completion or removal — every activation attempt for `id`, by any
    caller, for any sector expiry, through `BatchActivateDeals` or `SectorContentChanged`, is
    refused. -/
theorem activate_once (t : State) (id : Nat) (st : DealState) (hid : id < t.nextId)
    (hst : alookup id t.states = some st) (ops : List Op) (caller : Nat) (expiry : Int) :
    canActivate (run t ops) caller expiry id = false := by
  have hd : Done id t := ⟨hid, Or.inr (by simp [hst])⟩
  obtain ⟨_, h⟩ := run_preserves (done_preserved id) ops t hd
  rcases h with h | h
  · unfold canActivate; simp [h]
  · cases hs : alookup id (run t ops).states with
    | none => simp [hs] at h
    | some st' => exact activated_not_again hs caller expiry

/-- the activation inside a message establishes that state: right after `activateOne`, and through
    the rest of the same message (`Done` is kept by every atomic transition) -/
theorem activation_marks_done {s : State} {caller : Nat} {expiry : Int} {id sector : Nat}
    (hi : Inv s) (h : canActivate s caller expiry id = true) :
    Done id (activateOne s sector id) ∧ Preserved (Done id) := by
  obtain ⟨d, hp, _⟩ := canActivate_facts h
  exact ⟨⟨hi.wf.fresh id d hp, Or.inr (by simp [activateOne])⟩, done_preserved id⟩

/-- **Deal ids are never reused.**  Once the proposal with id `id` has been removed (completed,
    terminated or timed out), no later history brings a proposal with that id back. -/
theorem removed_forever (t : State) (id : Nat) (hid : id < t.nextId)
    (hp : alookup id t.proposals = none) (ops : List Op) :
    alookup id (run t ops).proposals = none :=
  (run_preserves (gone_preserved id) ops t ⟨hid, hp⟩).2

/-- `next_id` never decreases -/
theorem next_id_monotone (t : State) (ops : List Op) : t.nextId ≤ (run t ops).nextId :=
  run_preserves (nextId_preserved t.nextId) ops t (Nat.le_refl _)

/-- **The pending set holds a proposal at most once**, in every reachable state. -/
theorem pending_unique (ops : List Op) : (run init ops).pending.Nodup :=
  run_preserves pendingNodup_preserved ops init (by simp [init])

/-- a proposal that is pending is refused by `PublishStorageDeals`, whatever else is right with it -/
theorem pending_proposal_rejected (s : State) (p : Nat) (acc : Sel) (di : DealIn)
    (h : normalise p di.d ∈ s.pending) : selectOne s p acc di = none := by
  cases hs : selectOne s p acc di with
  | none => rfl
  | some r =>
    obtain ⟨cl, pl⟩ := r
    have := (publish_requires hs).2.2.2.2.2.2.2.2.2.2.2.2.1
    exact absurd h this

/-- a published proposal is pending and has no deal state until it is activated or timed out -/
theorem published_is_pending {s s' : State} {d : Proposal} {id : Nat} (hi : Inv s)
    (h : publishOne s d = .ok (s', id)) :
    alookup id s'.proposals = some d ∧ d ∈ s'.pending ∧ alookup id s'.states = none := by
  obtain ⟨e1, _, e3, e4, e5, _⟩ := publishOne_reg h
  refine ⟨by rw [e3]; simp, ?_, ?_⟩
  · rw [e5]; unfold pendingPut; split
    · assumption
    · simp
  · rw [e4]
    cases hq : alookup id s.states with
    | none => rfl
    | some st =>
      obtain ⟨d', hd', _⟩ := hi.wf.st id st hq
      have := hi.wf.fresh id d' hd'
      omega

/-! ### Non-vacuity and recorded edge cases -/

def mkIn (client : Nat) (start : Int) (tag : Nat) : DealIn :=
  { d := { client := client, provider := 200, startE := start, endE := start + 10, price := 3,
           clientColl := 7, providerColl := 11, verified := false, tag := tag },
    sigOk := true, boundsOk := true, dcOk := true, providerMatches := true }

def pEnv : PublishEnv :=
  { provider := 200, providerResolves := true, providerIsMiner := true, callerControls := true,
    datacapOk := true, notifyOk := true }

def Out.toIds : Out → Option (List Nat × List Nat)
  | .published r => some (r.ids, r.valid)
  | _ => none

def funded : State :=
  run init [.addBalance 101 1000 true, .addBalance 200 5000 true, .advance 5]

/-- a batch with a duplicate, a bad signature and an unfunded client: only the first deal and the
    last one get ids (0 and 1); a second message with the first proposal again is refused -/
example :
    (step funded (.publish pEnv [mkIn 101 10 1, mkIn 101 10 1, { mkIn 101 10 2 with sigOk := false },
      mkIn 102 10 3, mkIn 101 12 4])).2.toIds = some ([0, 1], [0, 4]) ∧
    (step (step funded (.publish pEnv [mkIn 101 10 1])).1 (.publish pEnv [mkIn 101 10 1])).2.toIds
      = none := by
  decide

/-- activation through one path blocks the other; a foreign miner, a late epoch and a short sector
    are refused -/
example :
    let s := (step funded (.publish pEnv [mkIn 101 10 1, mkIn 101 10 2])).1
    let a := (step s (.activate 200 true [{ sector := 1, expiry := 20, ids := [0] }])).1
    canActivate s 200 20 0 = true ∧ canActivate s 201 20 0 = false ∧ canActivate s 200 19 0 = false ∧
    canActivate { s with epoch := 11 } 200 20 0 = false ∧ canActivate a 200 20 0 = false ∧
    (sccSectors 200 a [{ sector := 2, minCommit := 30, pieces := [⟨0, true⟩, ⟨1, true⟩, ⟨1, true⟩] }]).2
      = [[false, true, false]] := by
  decide

/-- edge recorded, not hidden: at `epoch = start` a proposal may still be activated, and at the very
    same epoch anybody's `SettleDealPayments` may time it out (first come, first served) -/
example :
    let s := (step (step funded (.publish pEnv [mkIn 101 10 1])).1 (.advance 10)).1
    canActivate s 200 20 0 = true ∧ (settleOne s 0).1.proposals = [] ∧ (settleOne s 0).2.2 = 11 := by
  decide

/-- edge recorded, not hidden: an early `SettleDealPayments` (before or at the start epoch) on an
    *activated* deal removes its entry from the pending set, after which the very same signed
    proposal is accepted again while the first deal is still live — two live deals, one signature -/
example :
    let s1 := (step funded (.publish pEnv [mkIn 101 10 1])).1
    let s2 := (step s1 (.activate 200 true [{ sector := 1, expiry := 20, ids := [0] }])).1
    let s3 := (step s2 (.settle [0] true)).1
    let s4 := (step s3 (.publish pEnv [mkIn 101 10 1])).1
    s3.pending = [] ∧ s4.proposals.map (·.1) = [0, 1] ∧ s4.pending.length = 1 ∧
    bal s4.locked 101 = 2 * 37 := by
  decide

end BA.Market
