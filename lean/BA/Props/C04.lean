/-
  C04 — Sector bookkeeping stays a consistent partition of the miner's sectors.
  Property theorems over the Level-2 model `BA.Sector.Partition` (+ `ExpQueue`) of
  actors/miner/src/{partition_state,expiration_queue,bitfield_queue}.rs, the Level-1 specification
  `BA.Sector.Spec`, and the model `BA.Sector.Alloc` of `State::allocate_sector_numbers`.
-/
import BA.Lemmas.Sector.Refine2
import BA.Model.Sector.Alloc

namespace BA.Sector
open BA BA.NatSet

/-! ### the five sets nest and exclude each other — every reachable state, all twelve methods -/

/-- **status_partition.** In every partition state reachable from the empty partition by ANY
    sequence of the twelve partition methods (add_sectors, record_faults, declare_faults_recovered,
    recover_faults, activate_unproven, record_missed_post, pop_expired_sectors, terminate_sectors,
    record_skipped_faults, reschedule_expirations, replace_sectors, pop_early_terminations; any
    arguments, valid or not — a failing call changes nothing), the five bitfields nest and exclude
    each other as the protocol defines: `terminated ⊆ sectors`, `faults ⊆ sectors ∖ terminated`,
    `recoveries ⊆ faults`, `unproven ⊆ sectors ∖ terminated ∖ faults`; live = sectors ∖ terminated
    by definition.  (`OpWF`: the set arguments are bitfields, i.e. duplicate-free.)
    Part of the argument uses the `validate_state` call that ends every method for
    `terminated/faults/unproven ⊆ sectors`; `unproven ∩ faults = ∅` and the duplicate-freeness are
    proved from the set algebra of each method. -/
theorem status_partition (env : Env) (ops : List Op) (hw : ∀ op ∈ ops, OpWF op) :
    let p := run env Partition.new ops
    (∀ x ∈ p.terminated, x ∈ p.sectors) ∧
    (∀ x ∈ p.faults, x ∈ p.sectors ∧ x ∉ p.terminated) ∧
    (∀ x ∈ p.recoveries, x ∈ p.faults) ∧
    (∀ x ∈ p.unproven, x ∈ p.sectors ∧ x ∉ p.terminated ∧ x ∉ p.faults) ∧
    p.liveSectors = diff p.sectors p.terminated := by
  intro p
  have h : SetInv p := setInv_run setInv_new hw
  exact ⟨h.termSub, h.faultSub, h.recSub, h.unprovenSub, rfl⟩

/-- Every sector of a reachable partition has exactly one Level-1 status, and the bitfields are
    the pre-images of the statuses: terminated ↔ in `terminated`; faulty-or-recovering ↔ in
    `faults`; recovering ↔ in `recoveries`; unproven ↔ in `unproven`; active ↔ in none of them. -/
theorem status_preimages (env : Env) (ops : List Op) (hw : ∀ op ∈ ops, OpWF op) (n : Nat) :
    let p := run env Partition.new ops
    (n ∈ Spec.withStatus Spec.isLive p.abs ↔ n ∈ p.sectors ∧ n ∉ p.terminated) ∧
    (n ∈ Spec.withStatus Spec.isFaulty p.abs ↔ n ∈ p.faults) ∧
    (n ∈ Spec.withStatus Spec.isRecovering p.abs ↔ n ∈ p.recoveries) ∧
    (n ∈ Spec.withStatus Spec.isUnproven p.abs ↔ n ∈ p.unproven) ∧
    (n ∈ Spec.withStatus Spec.isActive p.abs ↔
      n ∈ p.sectors ∧ n ∉ p.terminated ∧ n ∉ p.recoveries ∧ n ∉ p.faults ∧ n ∉ p.unproven) := by
  intro p
  have h : SetInv p := setInv_run setInv_new hw
  exact ⟨by rw [mem_live_abs, mem_diff], mem_faulty_abs h n, mem_recovering_abs h n,
    mem_unproven_abs h n, mem_active_abs n⟩

/-- **status_refines_level1_partial.** Level 2 refines Level 1 on the statuses: every successful
    call of add_sectors, record_faults, declare_faults_recovered, recover_faults, activate_unproven,
    record_missed_post, record_skipped_faults or pop_early_terminations on a partition satisfying
    the set invariant corresponds to the Level-1 operation of the protocol on the abstracted state
    (which succeeds too), and afterwards every sector number has exactly the status the Level-1
    operation assigns: new sectors unproven/active; declared or skipped faults turn unproven, active
    and recovering sectors faulty and leave faulty and terminated ones alone; a recovery declaration
    turns faulty sectors recovering; a proven recovery turns recovering sectors active; the first
    covering PoSt turns unproven sectors active; a missed PoSt turns every live sector faulty.
    PARTIAL: the queue-driven calls are in `status_refines_level1_queue_partial`; replace_sectors is
    not covered. -/
theorem status_refines_level1_partial (env : Env) (p p' : Partition) (op : Op) (r : Ret)
    (hw : TableWF env.tbl) (hs : SetInv p) (hop : OpWF op) (ha : TierA op)
    (h : stepE env p op = .ok (p', r)) :
    ∃ s', specStep p.abs op = some (.ok s') ∧
      ∀ n, Spec.statusOf p'.abs n = Spec.statusOf s' n :=
  refines_stepE hw hs hop ha h

/-- **status_refines_level1_queue_partial.** The same for the calls whose effect is decided by the
    expiration queue, on a partition satisfying the full invariant: `pop_expired_sectors` terminates
    exactly the sectors scheduled at or before the epoch (Level-1 `popExpiredSectors`, which like the
    code refuses while sectors are unproven or recovering), `terminate_sectors` terminates exactly the
    given live sectors, `reschedule_expirations` changes no status.  With
    `status_refines_level1_partial` this covers eleven of the twelve methods; PARTIAL: replace_sectors
    (it changes the set of sector numbers) is not covered by the status refinement. -/
theorem status_refines_level1_queue_partial (env : Env) (p : Partition) (hw : TableWF env.tbl)
    (h : FullInv env.tbl p) :
    (∀ u p' es, p.popExpiredSectors u = .ok (p', es) →
      ∃ s', specStepQ p p.abs (.popExpiredSectors u) = some (.ok s') ∧
        ∀ n, Spec.statusOf p'.abs n = Spec.statusOf s' n) ∧
    (∀ ep sn p' ret rup, sn.Nodup → p.terminateSectors env.tbl env.qs ep sn = .ok (p', ret, rup) →
      ∃ s', specStepQ p p.abs (.terminateSectors ep sn) = some (.ok s') ∧
        ∀ n, Spec.statusOf p'.abs n = Spec.statusOf s' n) ∧
    (∀ ne sn p' infos, p.rescheduleExpirationsP env.tbl env.qs ne sn = .ok (p', infos) →
      ∃ s', specStepQ p p.abs (.rescheduleExpirations ne sn) = some (.ok s') ∧
        ∀ n, Spec.statusOf p'.abs n = Spec.statusOf s' n) :=
  ⟨fun _ _ _ hp => refines_pop h hp, fun _ _ _ _ _ hsn ht => refines_terminate hw h hsn ht,
   fun _ _ _ _ hr => refines_reschedule hr⟩

/-! ### memo = recomputed value (Level 2 refines Level 1 on the summaries) -/

/-- **memo_eq_recompute.** After every sequence of calls of ALL TWELVE partition methods —
    add_sectors (proven or not), record_faults, declare_faults_recovered, recover_faults,
    activate_unproven, record_missed_post, record_skipped_faults, pop_expired_sectors,
    terminate_sectors, reschedule_expirations, replace_sectors, pop_early_terminations — with
    arbitrary sector sets, epochs and quantisation, valid or not (a failing call changes nothing),
    EVERY memo of the partition equals the value recomputed from the individual sectors of the
    current sector table (`runT`: the table follows replace_sectors, whose caller stores the new
    infos; `RunOK`: bitfield arguments are duplicate-free, add_sectors gets the table's infos of
    distinct sectors, replace_sectors gets the table's infos of distinct old sectors and new infos
    with distinct numbers none of which is another sector of the partition):
    * the four power memos `live_power`, `unproven_power`, `faulty_power`, `recovering_power` and
      `active_power()` equal the Level-1 sums over the sectors' statuses at the abstracted state;
    * the expiration queue's keys are strictly ascending, no sector is scheduled in two entries or
      both on-time and early, every scheduled sector is live, early sectors are faulty, and per
      epoch: `on_time_pledge` = Σ pledge of the on-time sectors, `active_power` = Σ power of the
      on-time sectors that are not faulty, `faulty_power` = Σ power of the faulty on-time sectors
      and of the early sectors, `fee_deduction` = Σ daily fee of all sectors of the entry.
    Not part of this model: the Deadline-level counters (live_sectors, total_sectors, faulty_power,
    daily_fee, expirations_epochs), checked by the actor-level oracle only. -/
theorem memo_eq_recompute (env : Env) (ops : List Op) (hw : TableWF env.tbl)
    (hok : RunOK env Partition.new ops) :
    let tbl := (runT env Partition.new ops).1.tbl
    let p := (runT env Partition.new ops).2
    (p.livePower = Spec.livePower tbl p.abs ∧
     p.unprovenPower = Spec.unprovenPower tbl p.abs ∧
     p.faultyPower = Spec.faultyPower tbl p.abs ∧
     p.recoveringPower = Spec.recoveringPower tbl p.abs ∧
     p.activePower = Spec.activePower tbl p.abs) ∧
    Sorted p.expirations ∧
    (∀ e1 es1 e2 es2, (e1, es1) ∈ p.expirations → (e2, es2) ∈ p.expirations →
      ∀ x, x ∈ es1.onTime ++ es1.early → x ∈ es2.onTime ++ es2.early → e1 = e2) ∧
    (∀ e es, (e, es) ∈ p.expirations →
      (es.onTime ++ es.early).Nodup ∧
      (∀ x ∈ es.onTime ++ es.early, x ∈ p.sectors ∧ x ∉ p.terminated) ∧
      (∀ x ∈ es.early, x ∈ p.faults) ∧
      es.pledge = sumBy (tw tbl (·.pledge)) es.onTime ∧
      es.active = powOf tbl (diff es.onTime p.faults) ∧
      es.faulty = powOf tbl (inter es.onTime p.faults ++ es.early) ∧
      es.fee = sumBy (tw tbl (·.fee)) (es.onTime ++ es.early)) := by
  intro tbl p
  obtain ⟨_, h⟩ := fullInv_runT ops env Partition.new hw (fullInv_new _) hok
  refine ⟨memo_eq_spec h.sets h.memo, h.queue.sorted, h.queue.disj, ?_⟩
  intro e es hm
  have he := h.queue.entry e es hm
  exact ⟨he.nodup, fun x hx => mem_diff.mp (he.live x hx), he.earlyFaulty, he.pledge, he.active,
    he.faulty, he.fee⟩

/-- The expiration-queue algorithms account for every requested sector exactly once or fail:
    `reschedule_as_faults` and `reschedule_recovered` return exactly the power of the sectors they
    were given (distinct sector numbers, any queue whose entries are duplicate-free, any epochs). -/
theorem queue_returns_power_of_sectors (qs : QuantSpec) (q : Queue) (infos : List SectorInfo)
    (hq : QNodup q) (hn : (nums infos).Nodup) :
    (∀ fe q' nf, rescheduleAsFaults qs q fe infos = .ok (q', nf) → nf = sumPow infos) ∧
    (∀ q' pw, rescheduleRecovered qs q infos = .ok (q', pw) → pw = sumPow infos) :=
  ⟨fun _ _ _ h => (rescheduleAsFaults_spec hq hn h).2, fun _ _ h => (rescheduleRecovered_spec hq hn h).2⟩

/-- **pop_expired_memo_given_queue_memos.** `pop_expired_sectors` keeps the partition memos exact
    (live and faulty power lose exactly the power of the expired sectors, recomputed from the table)
    PROVIDED the per-epoch memos of the expiration queue are exact before the call (`QSum`: per
    entry active = Σ power(on-time ∖ faults), faulty = Σ power((on-time ∩ faults) ∪ early), early ⊆
    faults, no sector scheduled twice) and the queue only schedules sectors of the partition.
    That `QSum` is preserved by the queue algorithms is NOT proved yet; it is the invariant the
    recomputation oracle checks on the real code after every call. -/
theorem pop_expired_memo_given_queue_memos (tbl : Table) (p p' : Partition) (u : Int) (es : ExpSet)
    (hs : SetInv p) (hm : MemoInv tbl p) (hq : QSum tbl p.faults p.expirations)
    (hsub : ∀ e es, (e, es) ∈ p.expirations → ∀ x ∈ es.all, x ∈ p.sectors)
    (h : p.popExpiredSectors u = .ok (p', es)) : MemoInv tbl p' :=
  memo_popExpired hs hm hq hsub h

/-! ### `Partition::validate_state` never turns a valid operation into an error -/

/-- Whenever the set relations and the memo equalities hold (powers in the table non-negative),
    `Partition::validate_state` (power part and bitfield part) passes. -/
theorem partition_validate_of_invariants (tbl : Table) (p : Partition) (hn : TableNonneg tbl)
    (hs : SetInv p) (hm : MemoInv tbl p) : p.validate = .ok () :=
  validate_of_inv hn hs hm

/-- pledge and fee in the table are non-negative as well -/
def TableNonneg2 (tbl : Table) : Prop :=
  ∀ n i, alookup n tbl = some i → 0 ≤ i.raw ∧ 0 ≤ i.qa ∧ 0 ≤ i.pledge ∧ 0 ≤ i.fee

theorem tw_nonneg {tbl : Table} (w : SectorInfo → Int)
    (h : ∀ n i, alookup n tbl = some i → 0 ≤ w i) (n : Nat) : 0 ≤ tw tbl w n := by
  unfold tw; cases ha : alookup n tbl with
  | none => simp
  | some i => exact h n i ha

/-- `ExpirationSet::validate_state` is implied by the per-epoch memo invariant -/
theorem expset_validate_of_entryOK {tbl : Table} {F L : NatSet} {es : ExpSet} (hn : TableNonneg2 tbl)
    (h : EntryOK tbl F L es) : es.validate = .ok () := by
  have n1 := tw_nonneg (tbl := tbl) (·.raw) (fun n i ha => (hn n i ha).1)
  have n2 := tw_nonneg (tbl := tbl) (·.qa) (fun n i ha => (hn n i ha).2.1)
  have n3 := tw_nonneg (tbl := tbl) (·.pledge) (fun n i ha => (hn n i ha).2.2.1)
  have n4 := tw_nonneg (tbl := tbl) (·.fee) (fun n i ha => (hn n i ha).2.2.2)
  have p1 : 0 ≤ es.pledge := by rw [h.pledge]; exact sumBy_nonneg _ _ (fun x _ => n3 x)
  have p2 : 0 ≤ es.fee := by rw [h.fee]; exact sumBy_nonneg _ _ (fun x _ => n4 x)
  have p3 : 0 ≤ es.active.raw := by rw [h.active]; exact sumBy_nonneg _ _ (fun x _ => n1 x)
  have p4 : 0 ≤ es.active.qa := by rw [h.active]; exact sumBy_nonneg _ _ (fun x _ => n2 x)
  have p5 : 0 ≤ es.faulty.raw := by rw [h.faulty]; exact sumBy_nonneg _ _ (fun x _ => n1 x)
  have p6 : 0 ≤ es.faulty.qa := by rw [h.faulty]; exact sumBy_nonneg _ _ (fun x _ => n2 x)
  unfold ExpSet.validate
  simp only [guard_ok]
  exact ⟨by omega, by omega, by omega, by omega, by omega, by omega, trivial⟩

/-- **validate_state_never_fires.** In every state reached by any sequence of the twelve
    partition methods (`RunOK` as in `memo_eq_recompute`; non-negative powers, pledges and fees in
    the current table) both `Partition::validate_state` and `ExpirationSet::validate_state` of every
    queue entry pass: the checks can only fire if a method itself broke the bookkeeping. -/
theorem validate_state_never_fires (env : Env) (ops : List Op) (hw : TableWF env.tbl)
    (hok : RunOK env Partition.new ops) (hn : TableNonneg2 (runT env Partition.new ops).1.tbl) :
    (runT env Partition.new ops).2.validate = .ok () ∧
    ∀ e es, (e, es) ∈ (runT env Partition.new ops).2.expirations → es.validate = .ok () := by
  obtain ⟨_, h⟩ := fullInv_runT ops env Partition.new hw (fullInv_new _) hok
  exact ⟨validate_of_inv (fun n i ha => ⟨(hn n i ha).1, (hn n i ha).2.1⟩) h.sets h.memo,
    fun e es hm => expset_validate_of_entryOK hn (h.queue.entry e es hm)⟩

/-! ### every sector number is allocated at most once -/

namespace Alloc

/-- a successful allocation keeps everything allocated before and records the new numbers -/
theorem allocate_grows {a a' ns : NatSet} {pol : CollisionPolicy} (h : allocate a ns pol = .ok a') :
    (∀ x ∈ a, x ∈ a') ∧ (∀ x ∈ ns, x ∈ a') := by
  unfold allocate at h
  split at h
  · simp at h
  · simp only [Except.ok.injEq] at h
    subst h
    exact ⟨fun x hx => mem_union.mpr (Or.inl hx), fun x hx => mem_union.mpr (Or.inr hx)⟩

/-- `DenyCollisions` rejects any intersection with the allocated set -/
theorem deny_rejects_intersection {a ns : NatSet} {x : Nat} (h1 : x ∈ a) (h2 : x ∈ ns) :
    allocate a ns .denyCollisions = .error .illegalArgument := by
  unfold allocate
  have : (inter a ns).isEmpty = false := by
    cases h : inter a ns with
    | nil => have : x ∈ inter a ns := mem_inter.mpr ⟨h1, h2⟩; rw [h] at this; simp at this
    | cons y t => rfl
  simp [this]

/-- the allocated set only grows along any history of calls (failing calls change nothing) -/
theorem run_grows (hist : List (NatSet × CollisionPolicy)) :
    ∀ (a : NatSet) (x : Nat), x ∈ a → x ∈ run a hist := by
  induction hist with
  | nil => intro a x hx; exact hx
  | cons c rest ih =>
    intro a x hx
    obtain ⟨ns, pol⟩ := c
    simp only [run]
    cases h : allocate a ns pol with
    | error e => exact ih a x hx
    | ok a' => exact ih a' x ((allocate_grows h).1 x hx)

/-- **sector_number_once.** Once a sector number has been allocated (by a successful call with any
    policy), every later `DenyCollisions` allocation that contains it is rejected, whatever
    happened in between; so pre-commit (which allocates with DenyCollisions) can use a number at
    most once in a miner's lifetime. -/
theorem sector_number_once {a a1 ns ns2 : NatSet} {pol : CollisionPolicy}
    (hist : List (NatSet × CollisionPolicy)) {x : Nat}
    (h : allocate a ns pol = .ok a1) (hx : x ∈ ns) (hx2 : x ∈ ns2) :
    allocate (run a1 hist) ns2 .denyCollisions = .error .illegalArgument :=
  deny_rejects_intersection (run_grows hist a1 x ((allocate_grows h).2 x hx)) hx2

end Alloc

/-! ### non-vacuity: a concrete history exercising the hypotheses -/

def exTbl : Table :=
  [(1, { num := 1, raw := 32, qa := 40, pledge := 100, fee := 3, exp := 50 }),
   (2, { num := 2, raw := 32, qa := 32, pledge := 200, fee := 4, exp := 55 }),
   (3, { num := 3, raw := 32, qa := 320, pledge := 300, fee := 5, exp := 120 })]
def exEnv : Env := { tbl := exTbl, qs := { unit := 10, offset := 3 } }
def exInfos : List SectorInfo := exTbl.map (·.2)
def exOps : List Op :=
  [.addSectors false exInfos, .recordFaults [1, 3] 40, .activateUnproven, .declareFaultsRecovered [1],
   .recoverFaults, .terminateSectors 45 [2], .recordMissedPost 60, .popExpiredSectors 70]

def exNew : SectorInfo := { num := 2, raw := 32, qa := 64, pledge := 250, fee := 6, exp := 90 }
/-- a history through add, activate, replace (sector 2 gets new power and expiration), faults and a
    termination; its hypotheses `RunOK` hold -/
def exOpsT : List Op :=
  [.addSectors false exInfos, .activateUnproven,
   .replaceSectors [{ num := 2, raw := 32, qa := 32, pledge := 200, fee := 4, exp := 55 }] [exNew],
   .recordFaults [1, 3] 40, .terminateSectors 45 [2]]
example : RunOK exEnv Partition.new exOpsT := by decide
example : RunOK exEnv Partition.new exOps := by decide
example : (runT exEnv Partition.new exOpsT).2.livePower = ⟨64, 360⟩ := by decide
example : (runT exEnv Partition.new exOpsT).2.faults = [1, 3] := by decide
example : TableWF exTbl := by
  intro n i h
  simp only [exTbl, alookup] at h
  split at h
  · cases h; simp_all
  · split at h
    · cases h; simp_all
    · split at h
      · cases h; simp_all
      · simp at h
example : (runT exEnv Partition.new exOps).2.terminated = [2, 1, 3] := by decide
example : (run exEnv Partition.new (exOps.take 5)).faults = [3] := by decide
example : (run exEnv Partition.new (exOps.take 5)).livePower = ⟨96, 392⟩ := by decide
example : (run exEnv Partition.new (exOps.take 5)).activePower = ⟨64, 72⟩ := by decide
example : (run exEnv Partition.new (exOps.take 7)).faultyPower = ⟨64, 360⟩ := by decide
example : (run exEnv Partition.new exOps).terminated = [2, 1, 3] := by decide
example : (run exEnv Partition.new exOps).livePower = ⟨0, 0⟩ := by decide
example : Alloc.allocate [1, 2] [3] .denyCollisions = .ok [1, 2, 3] := by rfl
example : Alloc.allocate [1, 2] [2, 3] .denyCollisions = .error .illegalArgument := by rfl

end BA.Sector
