/-
  C02 — Power is credited exactly for proven, healthy, unexpired sectors.
  Property theorems over the partition model `BA.Sector` (power deltas), the Level-1 specification
  (`Spec.activePower` = Σ power of the sectors whose status is `active`: live, proven, not faulty)
  and the power-actor model `BA.Power` (claims, totals, consensus-minimum rule).
-/
import BA.Lemmas.Sector.Replace
import BA.Lemmas.Power

namespace BA.Sector
open BA BA.NatSet

/-! ### the deltas returned by any operation sequence telescope -/

/-- Σ of the power deltas forwarded for a sequence of calls (a failing call forwards nothing) -/
def sumDeltas (env : Env) : Partition → List Op → PowerPair
  | _, [] => PowerPair.zero
  | p, op :: rest => powerDelta op (step env p op).2 + sumDeltas env (step env p op).1 rest

theorem activePower_step (env : Env) (p : Partition) (op : Op) :
    (step env p op).1.activePower = p.activePower + powerDelta op (step env p op).2 := by
  unfold step
  cases h : stepE env p op with
  | error e =>
    simp only
    have : powerDelta op (.err e) = PowerPair.zero := by
      cases op with
      | addSectors proven infos => cases proven <;> rfl
      | _ => rfl
    rw [this]; ext <;> simp
  | ok r => obtain ⟨p', ret⟩ := r; exact activePower_stepE h

/-- **delta_telescopes (memo level, all twelve methods, any arguments).** Along any sequence of
    partition calls from any partition state, the power deltas handed to the power actor
    (`+power` of sectors added proven, `power_delta` of record_faults / record_skipped_faults,
    `+recovered power`, `+activated power`, `power_delta` of record_missed_post,
    `−active_power` of the popped / terminated expiration set, `power_delta` of replace_sectors)
    sum to `active_power()(final) − active_power()(initial)` where `active_power() = live_power −
    faulty_power − unproven_power`. -/
theorem delta_telescopes (env : Env) (ops : List Op) (p : Partition) :
    (run env p ops).activePower = p.activePower + sumDeltas env p ops := by
  induction ops generalizing p with
  | nil => simp only [run, sumDeltas]; ext <;> simp
  | cons op rest ih =>
    simp only [run, sumDeltas]
    rw [ih, activePower_step]
    ext <;> simp <;> omega

/-- Σ of the forwarded deltas along `runT` (the sector table follows replace_sectors) -/
def sumDeltasT (env : Env) : Partition → List Op → PowerPair
  | _, [] => PowerPair.zero
  | p, op :: rest =>
    powerDelta op (step env p op).2 + sumDeltasT (stepT env p op).1 (stepT env p op).2 rest

theorem delta_telescopesT : ∀ (ops : List Op) (env : Env) (p : Partition),
    (runT env p ops).2.activePower = p.activePower + sumDeltasT env p ops := by
  intro ops
  induction ops with
  | nil => intro env p; simp only [runT, sumDeltasT]; ext <;> simp
  | cons op rest ih =>
    intro env p
    simp only [runT, sumDeltasT]
    rw [ih]
    have : (stepT env p op).2 = (step env p op).1 := rfl
    rw [this, activePower_step]
    ext <;> simp <;> omega

/-- **delta_telescopes_recomputed.** From the empty partition, along any sequence of calls of all
    twelve partition methods (`RunOK` as in C04 `memo_eq_recompute`), the sum of all power deltas
    forwarded to the power actor equals the power RECOMPUTED from the individual sectors of the
    current table: Σ (raw, qa) over the sectors that are live (neither terminated nor expired),
    proven (not in `unproven`), and neither faulty nor recovering. -/
theorem delta_telescopes_recomputed (env : Env) (ops : List Op) (hw : TableWF env.tbl)
    (hok : RunOK env Partition.new ops) :
    sumDeltasT env Partition.new ops =
      Spec.activePower (runT env Partition.new ops).1.tbl (runT env Partition.new ops).2.abs := by
  have h1 := delta_telescopesT ops env Partition.new
  obtain ⟨_, hf⟩ := fullInv_runT ops env Partition.new hw (fullInv_new _) hok
  have h2 := (memo_eq_spec hf.sets hf.memo).2.2.2.2
  rw [← h2, h1]
  ext <;> simp [Partition.activePower, Partition.new]

/-- A sector contributes no power before a Window PoSt covered it, nor while it is faulty,
    recovering (not yet proven recovered) or terminated: the credited set is exactly the sectors in
    none of `unproven`, `faults`, `recoveries`, `terminated`. -/
theorem active_excludes (p : Partition) (n : Nat)
    (h : n ∈ Spec.withStatus Spec.isActive p.abs) :
    n ∈ p.sectors ∧ n ∉ p.unproven ∧ n ∉ p.faults ∧ n ∉ p.recoveries ∧ n ∉ p.terminated := by
  obtain ⟨a, b, c, d, e⟩ := (mem_active_abs n).mp h
  exact ⟨a, e, d, c, b⟩

/-- adding sectors unproven forwards nothing and leaves the credited power unchanged -/
theorem unproven_add_credits_nothing (env : Env) (p : Partition) (infos : List SectorInfo) :
    powerDelta (.addSectors false infos) (step env p (.addSectors false infos)).2 = PowerPair.zero ∧
    (step env p (.addSectors false infos)).1.activePower = p.activePower := by
  have h := activePower_step env p (.addSectors false infos)
  have hz : powerDelta (.addSectors false infos) (step env p (.addSectors false infos)).2
      = PowerPair.zero := by
    generalize (step env p (.addSectors false infos)).2 = r
    cases r <;> rfl
  refine ⟨hz, ?_⟩
  rw [h, hz]; ext <;> simp

/-- **A deadline that closes without a proof removes exactly the partition's active power**:
    the delta of a successful `record_missed_post` is `−active_power()` (the unproven power was
    never credited, so it is not removed), and nothing is credited afterwards. -/
theorem missed_post_removes_exactly_active (p p' : Partition) (qs : QuantSpec) (fe : Int)
    (delta pen nf : PowerPair) (h : p.recordMissedPost qs fe = .ok (p', delta, pen, nf)) :
    delta = -p.activePower ∧ p'.activePower = PowerPair.zero ∧
    pen = p.recoveringPower + (p.livePower - p.faultyPower) := by
  obtain ⟨q', _, e1, e2, e3, _, e⟩ := Partition.recordMissedPost_ok h
  subst e e3 e2 e1
  refine ⟨?_, ?_, rfl⟩
  · ext <;> simp [Partition.activePower] <;> omega
  · ext <;> simp [Partition.activePower]

/-! ### composition with the power actor: the claim is the credited power -/

/-- the partition and the power actor side by side: after every partition call its delta is sent
    as `UpdateClaimedPower` from miner `m`; `none` if a forwarding message fails -/
def jointRun (P : Power.Params) (env : Env) (m : Nat) :
    Partition → Power.State → List Op → Option (Partition × Power.State)
  | p, s, [] => some (p, s)
  | p, s, op :: rest =>
    let d := powerDelta op (step env p op).2
    match Power.updateClaimedPower P s m true d.raw d.qa with
    | .ok s' => jointRun P env m (step env p op).1 s' rest
    | .error _ => none

/-- **claim_eq_sum.** If miner `m`'s claim equals the partition's `active_power()` and every delta
    is forwarded (each `UpdateClaimedPower` accepted), then after any sequence of the twelve
    partition methods the claim again equals `active_power()`; with `delta_telescopes_recomputed`
    / C04 `memo_eq_recompute` this is the power recomputed from the sectors.  That
    every delta IS forwarded is a fact about the lib.rs glue, checked by the actor-level run. -/
theorem claim_eq_sum (P : Power.Params) (env : Env) (m : Nat) (ops : List Op) :
    ∀ (p p' : Partition) (s s' : Power.State),
    alookup m s.claims = some { raw := p.activePower.raw, qa := p.activePower.qa } →
    jointRun P env m p s ops = some (p', s') →
    alookup m s'.claims = some { raw := p'.activePower.raw, qa := p'.activePower.qa } := by
  induction ops with
  | nil =>
    intro p p' s s' h0 h
    simp only [jointRun, Option.some.injEq, Prod.mk.injEq] at h
    obtain ⟨rfl, rfl⟩ := h; exact h0
  | cons op rest ih =>
    intro p p' s s' h0 h
    simp only [jointRun] at h
    cases hu : Power.updateClaimedPower P s m true (powerDelta op (step env p op).2).raw
        (powerDelta op (step env p op).2).qa with
    | error e => simp [hu] at h
    | ok s1 =>
      simp only [hu] at h
      obtain ⟨⟨old, ho, hn, _, _⟩, _⟩ := Power.update_claim_delta P s s1 m true _ _ hu
      rw [h0] at ho
      cases ho
      apply ih _ _ _ _ _ h
      rw [hn, activePower_step]
      simp

/-- the same side-by-side run with the sector table following replace_sectors -/
def jointRunT (P : Power.Params) (m : Nat) :
    Env → Partition → Power.State → List Op → Option (Env × Partition × Power.State)
  | env, p, s, [] => some (env, p, s)
  | env, p, s, op :: rest =>
    let d := powerDelta op (step env p op).2
    match Power.updateClaimedPower P s m true d.raw d.qa with
    | .ok s' => jointRunT P m (stepT env p op).1 (stepT env p op).2 s' rest
    | .error _ => none

/-- **claim_eq_recomputed.** A miner whose (single) partition starts empty with a zero claim: after
    any sequence of the twelve partition methods (`RunOK`), every delta forwarded and accepted, the
    power actor's claim for the miner equals the power RECOMPUTED from the sector table over the
    sectors that are live, proven, and neither faulty nor recovering. -/
theorem claim_eq_recomputed (P : Power.Params) (m : Nat) :
    ∀ (ops : List Op) (env env' : Env) (p p' : Partition) (s s' : Power.State),
    TableWF env.tbl → FullInv env.tbl p → RunOK env p ops →
    alookup m s.claims = some { raw := p.activePower.raw, qa := p.activePower.qa } →
    jointRunT P m env p s ops = some (env', p', s') →
    alookup m s'.claims = some { raw := (Spec.activePower env'.tbl p'.abs).raw,
                                 qa := (Spec.activePower env'.tbl p'.abs).qa } := by
  intro ops
  induction ops with
  | nil =>
    intro env env' p p' s s' _ hf _ h0 h
    simp only [jointRunT, Option.some.injEq, Prod.mk.injEq] at h
    obtain ⟨rfl, rfl, rfl⟩ := h
    rw [← (memo_eq_spec hf.sets hf.memo).2.2.2.2]; exact h0
  | cons op rest ih =>
    intro env env' p p' s s' hw hf hok h0 h
    obtain ⟨o1, o2⟩ := hok
    simp only [jointRunT] at h
    cases hu : Power.updateClaimedPower P s m true (powerDelta op (step env p op).2).raw
        (powerDelta op (step env p op).2).qa with
    | error e => simp [hu] at h
    | ok s1 =>
      simp only [hu] at h
      obtain ⟨⟨old, ho, hn, _, _⟩, _⟩ := Power.update_claim_delta P s s1 m true _ _ hu
      rw [h0] at ho
      cases ho
      obtain ⟨a, b⟩ := fullInv_stepT hw hf o1
      apply ih _ _ _ _ _ _ a b o2 _ h
      have : (stepT env p op).2 = (step env p op).1 := rfl
      rw [hn, this, activePower_step]
      simp

/-- **totals_eq_claims.** In every reachable power-actor state `current_total_power` is
    (Σ raw, Σ qa) over ALL claims while fewer than 4 (= CONSENSUS_MINER_MIN_MINERS) claims have
    `raw ≥ minPower`, and over exactly the claims with `raw ≥ minPower` otherwise. -/
theorem totals_eq_claims (P : Power.Params) (hP : 0 < P.minPower) (ops : List Power.Op) :
    let s := Power.run P Power.init ops
    Power.currentTotalPower s =
      if ((s.claims.filter (fun x => decide (x.2.raw ≥ P.minPower))).length : Int) < 4
      then (Power.sumBy (fun c => c.raw) (fun _ => true) s.claims,
            Power.sumBy (fun c => c.qa) (fun _ => true) s.claims)
      else (Power.sumBy (fun c => c.raw) (fun c => decide (c.raw ≥ P.minPower)) s.claims,
            Power.sumBy (fun c => c.qa) (fun c => decide (c.raw ≥ P.minPower)) s.claims) :=
  Power.totals_eq_claims P hP ops

/-! ### non-vacuity -/

def exTbl2 : Table :=
  [(1, { num := 1, raw := 32, qa := 40, pledge := 100, fee := 3, exp := 50 }),
   (2, { num := 2, raw := 32, qa := 32, pledge := 200, fee := 4, exp := 55 }),
   (3, { num := 3, raw := 32, qa := 320, pledge := 300, fee := 5, exp := 120 })]
def exEnv2 : Env := { tbl := exTbl2, qs := { unit := 10, offset := 3 } }
def exOps2 : List Op :=
  [.addSectors false (exTbl2.map (·.2)), .recordFaults [1] 40, .activateUnproven,
   .declareFaultsRecovered [1], .recoverFaults, .terminateSectors 45 [2], .recordMissedPost 60]

example : sumDeltas exEnv2 Partition.new (exOps2.take 3) = ⟨64, 352⟩ := by decide
example : sumDeltas exEnv2 Partition.new (exOps2.take 5) = ⟨96, 392⟩ := by decide
example : sumDeltas exEnv2 Partition.new (exOps2.take 6) = ⟨64, 360⟩ := by decide
example : sumDeltas exEnv2 Partition.new exOps2 = ⟨0, 0⟩ := by decide

end BA.Sector
