/-
  C05 — "early terminations are all eventually processed": while sectors await early-termination
  processing the miner has a ProcessEarlyTerminations event due at the next tick, every such tick
  takes at least one sector off the queue, hence a queue of `q` sectors is empty after at most `q`
  ticks (when nothing new is added meanwhile).  Over `BA.EarlyTerm`.
-/
import BA.Model.EarlyTerm

namespace BA.EarlyTerm
open BA

/-- an event of the miner is due at the tick of epoch `e` whenever work is pending -/
def Due (s : St) (e : Int) : Prop := s.q > 0 → ∃ ev ∈ s.events, ev ≤ e

theorem due_mono {s : St} {e e' : Int} (h : Due s e) (he : e ≤ e') : Due s e' := by
  intro hq
  obtain ⟨ev, hm, hle⟩ := h hq
  exact ⟨ev, hm, by omega⟩

theorem take_le (q cap : Nat) : take q cap ≤ q := by unfold take; omega
theorem take_pos {q cap : Nat} (hq : q > 0) (hc : cap ≥ 1) : take q cap ≥ 1 := by unfold take; omega

/-- **TerminateSectors keeps an event due for the next tick** (the tick of the same epoch) -/
theorem terminate_due (s : St) (e : Int) (n cap : Nat) (h : Due s (e + 1)) :
    Due (terminate s e n cap) (e + 1) := by
  unfold terminate
  simp only
  by_cases hq2 : s.q + n - take (s.q + n) cap > 0
  · by_cases hhad : decide (s.q > 0) = false
    · rw [if_pos ⟨hq2, hhad⟩]
      intro _
      exact ⟨e + 1, by simp [schedule], by omega⟩
    · rw [if_neg (by intro hc; exact hhad hc.2)]
      intro _
      have : s.q > 0 := by
        have h0 : ¬ s.q = 0 := by simpa using hhad
        omega
      exact h this
  · rw [if_neg (by intro hc; exact hq2 hc.1)]
    intro hq; exact absurd hq hq2

/-- **the proving-deadline callback that detects timed-out faults keeps an event due** -/
theorem detect_due (s : St) (e : Int) (n cap : Nat) (h : Due s (e + 1)) :
    Due (detect s e n cap) (e + 1) := by
  unfold detect
  simp only
  by_cases hhad : decide (s.q > 0) = false
  · by_cases hq1 : s.q + n > 0
    · rw [if_pos ⟨hhad, hq1⟩]
      by_cases hq2 : s.q + n - take (s.q + n) cap > 0
      · rw [if_pos hq2]
        intro _
        exact ⟨e + 1, by simp [schedule], by omega⟩
      · rw [if_neg hq2]
        intro hq; exact absurd hq hq2
    · rw [if_neg (by intro hc; exact hq1 hc.2)]
      intro hq; exact absurd hq hq1
  · rw [if_neg (by intro hc; exact hhad hc.1)]
    intro _
    have : s.q > 0 := by
      have h0 : ¬ s.q = 0 := by simpa using hhad
      omega
    exact h this

theorem event_q (s : St) (ev e : Int) (cap : Nat) : (event s ev e cap).q = s.q - take s.q cap := by
  unfold event; simp only; split <;> rfl

theorem event_resched (s : St) (ev e : Int) (cap : Nat) (h : (event s ev e cap).q > 0) :
    (e + 1) ∈ (event s ev e cap).events := by
  have hq := event_q s ev e cap
  unfold event at h ⊢
  simp only at h ⊢
  by_cases hc : s.q - take s.q cap > 0
  · rw [if_pos hc]; simp [schedule]
  · rw [if_neg hc] at h; exact absurd h hc

/-- dispatch of a list of due events -/
def runEvents (e : Int) (cap : Nat) (l : List Int) (s : St) : St :=
  l.foldl (fun acc ev => event acc ev e cap) s

theorem runEvents_le (e : Int) (cap : Nat) (l : List Int) : ∀ s, (runEvents e cap l s).q ≤ s.q := by
  induction l with
  | nil => intro s; exact Nat.le_refl _
  | cons x t ih =>
    intro s
    have h1 := ih (event s x e cap)
    have h2 := event_q s x e cap
    simp only [runEvents, List.foldl_cons] at h1 ⊢
    omega

theorem runEvents_resched (e : Int) (cap : Nat) (l : List Int) : ∀ s, l ≠ [] →
    (runEvents e cap l s).q > 0 → (e + 1) ∈ (runEvents e cap l s).events := by
  induction l with
  | nil => intro s h; exact absurd rfl h
  | cons x t ih =>
    intro s _ hq
    cases t with
    | nil => exact event_resched s x e cap hq
    | cons y t' => exact ih (event s x e cap) (by simp) hq

theorem runEvents_progress (e : Int) (cap : Nat) (hc : cap ≥ 1) (l : List Int) (s : St)
    (hl : l ≠ []) (hq : s.q > 0) : (runEvents e cap l s).q < s.q := by
  cases l with
  | nil => exact absurd rfl hl
  | cons x t =>
    have h1 := runEvents_le e cap t (event s x e cap)
    have h2 := event_q s x e cap
    have h3 := take_pos hq hc
    have h4 := take_le s.q cap
    simp only [runEvents, List.foldl_cons] at h1 ⊢
    omega

theorem tick_eq (s : St) (e : Int) (cap : Nat) :
    tick s e cap = runEvents e cap (s.events.filter (fun ev => decide (ev ≤ e))) s := rfl

/-- **One tick**: with an event due, the tick takes at least one sector off the queue, and
    whatever remains has an event due at the next tick. -/
theorem tick_step (s : St) (e : Int) (cap : Nat) (hc : cap ≥ 1) (h : Due s e) :
    Due (tick s e cap) (e + 1) ∧ (tick s e cap).q ≤ s.q ∧ (s.q > 0 → (tick s e cap).q < s.q) := by
  rw [tick_eq]
  by_cases hq : s.q > 0
  · obtain ⟨ev, hm, hle⟩ := h hq
    have hl : s.events.filter (fun ev => decide (ev ≤ e)) ≠ [] := by
      intro hnil
      have : ev ∈ s.events.filter (fun ev => decide (ev ≤ e)) := by
        simp [List.mem_filter, hm, hle]
      rw [hnil] at this; simp at this
    refine ⟨?_, runEvents_le e cap _ s, fun _ => runEvents_progress e cap hc _ s hl hq⟩
    intro hq'
    exact ⟨e + 1, runEvents_resched e cap _ s hl hq', by omega⟩
  · have h0 : s.q = 0 := by omega
    have hle := runEvents_le e cap (s.events.filter (fun ev => decide (ev ≤ e))) s
    refine ⟨?_, hle, fun h => absurd h hq⟩
    intro hq'; omega

/-- `k` consecutive ticks starting at epoch `e` (nothing new joins the queue meanwhile) -/
def ticks (cap : Nat) : Nat → St → Int → St
  | 0, s, _ => s
  | k + 1, s, e => ticks cap k (tick s e cap) (e + 1)

theorem ticks_bound (cap : Nat) (hc : cap ≥ 1) (k : Nat) : ∀ (s : St) (e : Int), Due s e →
    (ticks cap k s e).q ≤ s.q - k ∧ Due (ticks cap k s e) (e + k) := by
  induction k with
  | zero => intro s e h; exact ⟨by simp [ticks], by simpa [ticks] using h⟩
  | succ k ih =>
    intro s e h
    obtain ⟨t1, t2, t3⟩ := tick_step s e cap hc h
    obtain ⟨i1, i2⟩ := ih (tick s e cap) (e + 1) t1
    simp only [ticks]
    constructor
    · by_cases hq : s.q > 0
      · have := t3 hq; omega
      · omega
    · have : e + 1 + (k : Int) = e + ((k + 1 : Nat) : Int) := by push_cast; omega
      rw [← this]; exact i2

/-- **Every early termination is eventually processed**: from any state in which an event is due,
    a queue of `q` sectors is empty after at most `q` ticks. -/
theorem drained (cap : Nat) (hc : cap ≥ 1) (s : St) (e : Int) (h : Due s e) :
    (ticks cap s.q s e).q = 0 := by
  have := (ticks_bound cap hc s.q s e h).1
  omega

/-- one step of a miner's history: messages and callbacks at the current epoch, or the tick that
    ends the epoch -/
inductive Step where
  | terminate (n cap : Nat)
  | detect (n cap : Nat)
  | tick (cap : Nat)
  deriving Repr

/-- a history from epoch `e`: the tick dispatches the due events and moves to the next epoch -/
def runSteps : St → Int → List Step → St × Int
  | s, e, [] => (s, e)
  | s, e, .terminate n cap :: rest => runSteps (terminate s e n cap) e rest
  | s, e, .detect n cap :: rest => runSteps (detect s e n cap) e rest
  | s, e, .tick cap :: rest => runSteps (tick s e cap) (e + 1) rest

/-- **In every reachable state pending work has an event due**: over any history of terminations,
    detecting deadline callbacks and ticks (each processing call addressing at least one sector), at
    every point a miner with sectors awaiting early-termination processing has a
    ProcessEarlyTerminations event that the tick of the current epoch or the next one dispatches. -/
theorem due_always (steps : List Step) : ∀ (s : St) (e : Int), Due s (e + 1) →
    (∀ st ∈ steps, match st with | .tick cap => cap ≥ 1 | _ => True) →
    Due (runSteps s e steps).1 ((runSteps s e steps).2 + 1) := by
  induction steps with
  | nil => intro s e h _; exact h
  | cons st rest ih =>
    intro s e h hc
    have hrest : ∀ x ∈ rest, match x with | .tick cap => cap ≥ 1 | _ => True :=
      fun x hx => hc x (by simp [hx])
    cases st with
    | terminate n cap => exact ih _ e (terminate_due s e n cap h) hrest
    | detect n cap => exact ih _ e (detect_due s e n cap h) hrest
    | tick cap =>
      have hcap : cap ≥ 1 := hc (.tick cap) (by simp)
      -- an event due at e+1 may not be due at e: the tick then leaves it in place
      by_cases hq : s.q > 0
      · obtain ⟨ev, hm, hle⟩ := h hq
        by_cases hdue : ev ≤ e
        · exact ih _ (e + 1) (due_mono (tick_step s e cap hcap (fun _ => ⟨ev, hm, hdue⟩)).1 (by omega)) hrest
        · -- no event due now (all of them at e+1 or later would be fine, but some could be due):
          -- in either case the pending event at e+1 survives or a processing call re-schedules
          have key : Due (tick s e cap) (e + 1 + 1) := by
            by_cases hany : ∃ ev' ∈ s.events, ev' ≤ e
            · obtain ⟨ev', hm', hle'⟩ := hany
              exact due_mono (tick_step s e cap hcap (fun _ => ⟨ev', hm', hle'⟩)).1 (by omega)
            · -- nothing is dispatched: the state is unchanged
              have hnil : s.events.filter (fun ev => decide (ev ≤ e)) = [] := by
                apply List.filter_eq_nil_iff.mpr
                intro x hx hdx
                exact hany ⟨x, hx, by simpa using hdx⟩
              have : tick s e cap = s := by rw [tick_eq, hnil]; rfl
              rw [this]
              intro _
              exact ⟨ev, hm, by omega⟩
          exact ih _ (e + 1) key hrest
      · have h0 : Due (tick s e cap) (e + 1 + 1) := by
          have hle := (tick_eq s e cap ▸ runEvents_le e cap (s.events.filter (fun ev => decide (ev ≤ e))) s)
          intro hq'
          omega
        exact ih _ (e + 1) h0 hrest

/-- from the empty state the premise of `due_always` holds -/
theorem due_init (e : Int) : Due {} e := by intro h; simp at h

/-- non-vacuity: three timed-out sectors detected at epoch 10, two processed per call -/
example :
    let s := detect {} 10 5 2
    s.q = 3 ∧ s.events = [11] ∧ (tick s 11 2).q = 1 ∧ (tick s 11 2).events = [12] ∧
    (ticks 2 3 s 11).q = 0 ∧ (ticks 2 3 s 11).events = [] := by decide

end BA.EarlyTerm
