/-
  C12 — Multisig: spending needs a quorum of current signers, once, within the lock.
  Property theorems over the model `BA.Multisig` (actors/multisig/src/{lib,state}.rs).

  Histories are lists of top-level messages (`Op` = epoch + activation tree, the tree scripting the
  outcome of every inner send and the re-entrant calls made during it); `run fuel s ops` returns the
  final state and every inner send (`Event`) issued along the way at any call depth, each with the
  state it was issued in (`ev.pre`).  All theorems hold for every call-depth bound `fuel`.
-/
import BA.Lemmas.Multisig

namespace BA.Multisig
open BA

/-- the shape statement of the property, spelled out -/
def Shape (s : State) : Prop :=
  1 ≤ s.threshold ∧ s.threshold ≤ s.signers.length ∧ s.signers.length ≤ 256 ∧ s.signers.Nodup ∧
  ∀ id tx, (id, tx) ∈ s.pending →
    tx.approved ≠ [] ∧ tx.approved.Nodup ∧ (∀ a ∈ tx.approved, a ∈ s.signers) ∧ id < s.nextId

theorem Inv.shape {s : State} (h : Inv s) : Shape s :=
  ⟨h.thr_pos, h.thr_le, h.max, h.nodup, fun id tx hm =>
    let t := h.txs (id, tx) hm; ⟨t.ne, t.nodup, t.sub, t.idlt⟩⟩

/-- A wallet accepted by the constructor starts in the invariant. -/
theorem init_inv {self : Nat} {signers : List Nat} {threshold : Nat} {d st v : Int} {s : State}
    (h : construct self signers threshold d st v = .ok s) : Inv s := construct_inv h

/-- `1 ≤ threshold ≤ |signers| ≤ 256`, signers distinct, and every pending transaction has a
    non-empty list of distinct approvers who are all current signers and an id below `nextId` —
    in the state after every history, and in the state of every inner send issued along it (that is,
    also inside re-entrant activations and inside activations that are rolled back later). -/
theorem inv_shape (fuel : Nat) {s : State} (hs : Inv s) (ops : List Op) :
    Shape (run fuel s ops).1 ∧ ∀ ev ∈ (run fuel s ops).2, Shape ev.pre :=
  ⟨(run_ok fuel ops hs).1.shape, fun ev hm => ((run_ok fuel ops hs).2 ev hm).inv.shape⟩

/-- The same for a single activation started in any invariant state at any call depth: the state
    it commits and the state of every inner send inside it satisfy the shape. -/
theorem inv_shape_nested (fuel : Nat) (epoch : Int) {s : State} (hs : Inv s) (a : Act) :
    Shape ((exec fuel epoch s a).stateOr s) ∧ ∀ ev ∈ (exec fuel epoch s a).trace, Shape ev.pre :=
  ⟨((exec_ok epoch fuel s a hs).stateOr hs).shape,
   fun ev hm => ((exec_ok epoch fuel s a hs).2 ev hm).inv.shape⟩

/-- Every inner send of every history is the send of a transaction that is pending under that id
    with exactly that (to, value, method, params), and whose recorded approvers are at least
    `threshold` many, pairwise distinct, and all signers of the wallet at that moment. -/
theorem send_needs_quorum (fuel : Nat) {s : State} (hs : Inv s) (ops : List Op) :
    ∀ ev ∈ (run fuel s ops).2, ∃ tx,
      alookup ev.id ev.pre.pending = some tx ∧
      tx.to = ev.to ∧ tx.value = ev.value ∧ tx.method = ev.method ∧ tx.params = ev.params ∧
      ev.pre.threshold ≤ tx.approved.length ∧ tx.approved.Nodup ∧
      ∀ a ∈ tx.approved, a ∈ ev.pre.signers := by
  intro ev hm
  have h := (run_ok fuel ops hs).2 ev hm
  obtain ⟨tx, hl, h1, h2, h3, h4, h5⟩ := h.stored
  have t := h.inv.txs _ (mem_of_alookup hl)
  exact ⟨tx, hl, h1, h2, h3, h4, h5, t.nodup, t.sub⟩

/-- At most once, part 1: the id of every inner send is pending and not yet recorded as executed
    at that moment, and was not executed before the history started (the ghost list `executed`
    collects the ids whose send was issued and not rolled back; it only grows). -/
theorem at_most_once (fuel : Nat) {s : State} (hs : Inv s) (ops : List Op) :
    (∀ ev ∈ (run fuel s ops).2, ev.id ∉ ev.pre.executed ∧ ev.id ∉ s.executed) ∧
    (run fuel s ops).1.executed.Nodup ∧
    (∀ i ∈ s.executed, i ∈ (run fuel s ops).1.executed) ∧
    (∀ p ∈ (run fuel s ops).1.pending, p.1 ∉ (run fuel s ops).1.executed) := by
  have hr := run_ok fuel ops hs
  have hm := run_mono fuel ops s
  refine ⟨?_, hr.1.exNodup, hm.1, fun p hp => (hr.1.txs p hp).notExec⟩
  intro ev he
  have h := hr.2 ev he
  obtain ⟨tx, hl, _⟩ := h.stored
  have hne := (h.inv.txs _ (mem_of_alookup hl)).notExec
  exact ⟨hne, fun hi => hne (hm.2 ev he _ hi)⟩

/-- At most once, part 2: when a (committed) message reports that transaction `ret.txId` was
    applied, that id is recorded as executed — so by part 1 no inner send of any later history,
    at any call depth, is for that id again. -/
theorem applied_never_again (fuel : Nat) {s : State} (hs : Inv s) (op : Op) (rest : List Op)
    {s' : State} {ret : Ret} (h : (exec fuel op.epoch s op.act).out = .ok (s', ret))
    (ha : ret.applied = true) :
    ret.txId ∈ s'.executed ∧ ∀ ev ∈ (run fuel s' rest).2, ev.id ≠ ret.txId := by
  have hrec := exec_rec op.epoch fuel s op.act s' ret h ha
  have hs' : Inv s' := (exec_ok op.epoch fuel s op.act hs).1 s' ret h
  refine ⟨hrec, ?_⟩
  intro ev he heq
  exact ((at_most_once fuel hs' rest).1 ev he).2 (heq ▸ hrec)

/-- An inner send never exceeds the balance, and when it carries value it leaves at least the
    amount still locked at that epoch. -/
theorem lock_respected (fuel : Nat) {s : State} (hs : Inv s) (ops : List Op) :
    ∀ ev ∈ (run fuel s ops).2,
      0 ≤ ev.value ∧ ev.value ≤ ev.pre.balance ∧
      (0 < ev.value → amountLocked ev.pre (ev.epoch - ev.pre.start) ≤ ev.pre.balance - ev.value) :=
  fun ev hm =>
    let h := (run_ok fuel ops hs).2 ev hm
    ⟨h.afford.1, h.afford.2, h.lock⟩

/-- `amount_locked` is the linear vesting schedule rounded up: nothing after the end, the whole
    initial amount up to the start, in between the least integer `a` with
    `a · duration ≥ initial · remaining` (i.e. `⌈initial·remaining/duration⌉`), and it never
    increases with time. -/
theorem amountLocked_spec (s : State) (hi : 0 ≤ s.initial) (e : Int) :
    (s.duration ≤ e → amountLocked s e = 0) ∧
    (e ≤ 0 → e < s.duration → amountLocked s e = s.initial) ∧
    (0 < e → e < s.duration →
      s.initial * (s.duration - e) ≤ amountLocked s e * s.duration ∧
      amountLocked s e * s.duration < s.initial * (s.duration - e) + s.duration) ∧
    (∀ e', e ≤ e' → amountLocked s e' ≤ amountLocked s e) ∧
    0 ≤ amountLocked s e ∧ amountLocked s e ≤ s.initial := by
  refine ⟨amountLocked_after s, amountLocked_before s, ?_, fun e' h => amountLocked_antitone s hi h,
    amountLocked_bounds s hi e⟩
  intro h0 hd
  rw [amountLocked_mid s h0 hd]
  exact divCeil_spec (by omega)

/-- Cancel succeeds only for a signer who is the first (earliest remaining) approver of the pending
    transaction; it removes exactly that entry and nothing else.  (Any nested-activation runner,
    so: at every call depth.) -/
theorem cancel_by_first (sub : Sub) (epoch : Int) (s s' : State) (a : Act) (ret : Ret)
    (id : Nat) (hk : Bool) (hc : a.msg.call = .cancel id hk)
    (h : (execMsg sub epoch s a).out = .ok (s', ret)) :
    a.msg.caller ∈ s.signers ∧
    (∃ tx, alookup id s.pending = some tx ∧ tx.approved.head? = some a.msg.caller) ∧
    s' = { s with balance := s.balance + a.msg.value, pending := aerase id s.pending } := by
  unfold execMsg at h
  by_cases hv : a.msg.value < 0
  · simp [hv] at h
  · simp only [hv, if_false, hc] at h
    unfold pureRes at h
    cases hcan : cancel { s with balance := s.balance + a.msg.value } a.msg.caller id hk with
    | error e => simp [hcan] at h
    | ok s1 =>
      simp only [hcan] at h
      injection h with h; injection h with h1 _; subst h1
      unfold cancel at hcan
      simp only [guard_ok] at hcan
      obtain ⟨hs, hcan⟩ := hcan
      cases hl : alookup id s.pending with
      | none => simp [hl] at hcan
      | some txn =>
        simp only [hl, guard_ok] at hcan
        obtain ⟨hh, _, hcan⟩ := hcan
        injection hcan with hcan
        refine ⟨by simpa using hs, ⟨txn, rfl, by simpa using hh⟩, hcan.symm⟩

/-- Propose, Approve and Cancel by a caller who is not a signer fail (so the VM rolls the message
    back: nothing changes) and issue no send. -/
theorem only_signers (sub : Sub) (epoch : Int) (s : State) (a : Act)
    (hcall : (∃ t v m p, a.msg.call = .propose t v m p) ∨ (∃ i h, a.msg.call = .approve i h) ∨
             (∃ i h, a.msg.call = .cancel i h))
    (hns : a.msg.caller ∉ s.signers) :
    (∃ e, (execMsg sub epoch s a).out = .error e) ∧ (execMsg sub epoch s a).trace = [] ∧
    (execMsg sub epoch s a).stateOr s = s := by
  have key : (∃ e, (execMsg sub epoch s a).out = .error e) ∧ (execMsg sub epoch s a).trace = [] := by
    unfold execMsg
    by_cases hv : a.msg.value < 0
    · simp [hv]
    · simp only [hv, if_false]
      rcases hcall with ⟨t, v, m, p, hc⟩ | ⟨i, h, hc⟩ | ⟨i, h, hc⟩
      · simp only [hc]; unfold propose
        by_cases hv2 : v < 0
        · simp [hv2]
        · simp [hv2, hns]
      · simp only [hc]; unfold approve; simp [hns]
      · simp only [hc]; unfold pureRes cancel; simp [hns]
  obtain ⟨⟨e, he⟩, ht⟩ := key
  exact ⟨⟨e, he⟩, ht, by unfold Res.stateOr; rw [he]⟩

/-- The administrative methods fail for every caller other than the wallet itself. -/
theorem admin_requires_self (sub : Sub) (epoch : Int) (s : State) (a : Act)
    (hcall : (∃ x b, a.msg.call = .addSigner x b) ∨ (∃ x b, a.msg.call = .removeSigner x b) ∨
             (∃ f t, a.msg.call = .swapSigner f t) ∨ (∃ n, a.msg.call = .changeThreshold n) ∨
             (∃ st d amt, a.msg.call = .lockBalance st d amt))
    (hne : a.msg.caller ≠ s.self) :
    (∃ e, (execMsg sub epoch s a).out = .error e) ∧ (execMsg sub epoch s a).trace = [] := by
  unfold execMsg
  by_cases hv : a.msg.value < 0
  · simp [hv]
  · simp only [hv, if_false]
    rcases hcall with ⟨x, b, hc⟩ | ⟨x, b, hc⟩ | ⟨f, t, hc⟩ | ⟨n, hc⟩ | ⟨st, d, amt, hc⟩
    · simp only [hc]; unfold pureRes addSigner; simp [hne]
    · simp only [hc]; unfold pureRes removeSigner; simp [hne]
    · simp only [hc]; unfold pureRes swapSigner; simp [hne]
    · simp only [hc]; unfold pureRes changeThreshold; simp [hne]
    · simp only [hc]; unfold pureRes lockBalance; simp [hne]

/-- Signers, threshold and lock parameters (`Cfg`) after an activation differ from those before
    it only if inside it the wallet sent *itself* one of the administrative methods 5–9 — for
    every activation whose caller is not the wallet (every top-level message and every re-entrant
    call of a foreign actor) and for every self-call of a non-administrative method; the wallet's
    own id never changes.  Any call depth. -/
theorem admin_only_self (fuel : Nat) (epoch : Int) (s : State) (a : Act)
    (hc : a.msg.caller ≠ s.self ∨ a.msg.call.isAdmin = false) (s' : State) (ret : Ret)
    (h : (exec fuel epoch s a).out = .ok (s', ret)) :
    s'.self = s.self ∧
    ((s'.signers, s'.threshold, s'.initial, s'.start, s'.duration) =
       (s.signers, s.threshold, s.initial, s.start, s.duration) ∨
     ∃ ev ∈ (exec fuel epoch s a).trace, ev.to = ev.pre.self ∧ 5 ≤ ev.method ∧ ev.method ≤ 9) :=
  ⟨(exec_cfg epoch fuel s a).1 s' ret h, (exec_cfg epoch fuel s a).2 hc s' ret h⟩

/-- The same over whole histories of messages sent by others than the wallet. -/
theorem admin_only_self_run (fuel : Nat) : ∀ (ops : List Op) (s : State),
    (∀ op ∈ ops, op.act.msg.caller ≠ s.self) →
    (run fuel s ops).1.self = s.self ∧
    (Cfg (run fuel s ops).1 = Cfg s ∨
     ∃ ev ∈ (run fuel s ops).2, ev.to = ev.pre.self ∧ 5 ≤ ev.method ∧ ev.method ≤ 9)
  | [], s, _ => ⟨rfl, Or.inl rfl⟩
  | op :: rest, s, hc => by
    have hop := hc op List.mem_cons_self
    have h1 := exec_cfg op.epoch fuel s op.act
    have hself : (step fuel s op).1.self = s.self := h1.1.stateOr
    have hcfg : Cfg (step fuel s op).1 = Cfg s ∨
        ∃ ev ∈ (step fuel s op).2.trace, SelfAdmin ev := (h1.2 (Or.inl hop)).stateOr
    have ih := admin_only_self_run fuel rest (step fuel s op).1
      (fun o ho => by rw [hself]; exact hc o (List.mem_cons_of_mem _ ho))
    simp only [run]
    refine ⟨ih.1.trans hself, ?_⟩
    rcases hcfg with e1 | ⟨ev, hm, hv⟩
    · rcases ih.2 with e2 | ⟨ev, hm, hv⟩
      · exact Or.inl (e2.trans e1)
      · exact Or.inr ⟨ev, List.mem_append_right _ hm, hv⟩
    · exact Or.inr ⟨ev, List.mem_append_left _ hm, hv⟩

/-- When the inner send to another actor aborts, the Propose/Approve message still succeeds and
    reports `applied` with a failing code; the pending entry stays deleted (and its id recorded),
    while the value transfer and everything the callee did by re-entering the wallet are rolled
    back: the committed state is exactly the state of the send minus the entry. -/
theorem failed_send_keeps_deletion (sub : Sub) (epoch : Int) (s : State) (id : Nat) (txn : Tx)
    (children : List Act) (hq : s.threshold ≤ txn.approved.length)
    (hav : checkAvailable s txn.value epoch = .ok ()) (hto : txn.to ≠ s.self) :
    (execIfApproved sub epoch s id txn false children).out =
      .ok ({ s with pending := aerase id s.pending, executed := id :: s.executed },
           { txId := id, applied := true, codeOk := false }) := by
  unfold execIfApproved
  simp [hq, hav, hto]

/-! ### non-vacuity: a concrete wallet, a history with a self-call and a payment -/

/-- 3 signers (11, 12, 13), threshold 2, wallet id 100, 50 attoFIL, locked linearly over 10 epochs
    from epoch 0. -/
def exWallet : State :=
  { self := 100, signers := [11, 12, 13], threshold := 2, nextId := 0, pending := [],
    initial := 50, start := 0, duration := 10, balance := 50, executed := [] }

example : construct 100 [11, 12, 13] 2 10 0 50 = .ok exWallet := rfl

example : Inv exWallet := init_inv (rfl : construct 100 [11, 12, 13] 2 10 0 50 = .ok exWallet)

/-- 11 proposes paying 20 to account 7; 12 approves at epoch 5 (25 still locked, 50 − 20 ≥ 25):
    sent once; then 11 proposes lowering the threshold to 1 by a self-call and 13 approves it. -/
def exOps : List Op :=
  [ ⟨5, .node ⟨11, 0, .propose 7 20 0 []⟩ true []⟩,
    ⟨5, .node ⟨12, 0, .approve 0 true⟩ true []⟩,
    ⟨6, .node ⟨11, 0, .propose 100 0 8 [1]⟩ true []⟩,
    ⟨6, .node ⟨13, 0, .approve 1 true⟩ true []⟩ ]

example : (run 3 exWallet exOps).1.balance = 30 ∧ (run 3 exWallet exOps).1.threshold = 1 ∧
    (run 3 exWallet exOps).1.executed = [1, 0] ∧ (run 3 exWallet exOps).2.length = 2 := by decide

/-- the lock bites: the same payment at epoch 3 (35 locked) is refused and nothing is sent -/
example : (run 3 exWallet
    [ ⟨3, .node ⟨11, 0, .propose 7 20 0 []⟩ true []⟩,
      ⟨3, .node ⟨12, 0, .approve 0 true⟩ true []⟩ ]).2 = [] := by decide

/-- an outsider (99) cannot approve; a non-first approver (12) cannot cancel, the proposer can -/
example : (exec 1 5 (run 1 exWallet [⟨5, .node ⟨11, 0, .propose 7 20 0 []⟩ true []⟩]).1
    (.node ⟨99, 0, .approve 0 true⟩ true [])).out = .error .forbidden := rfl
example : (exec 1 5 (run 1 exWallet [⟨5, .node ⟨11, 0, .propose 7 20 0 []⟩ true []⟩]).1
    (.node ⟨12, 0, .cancel 0 true⟩ true [])).out = .error .forbidden := rfl
example : ((exec 1 5 (run 1 exWallet [⟨5, .node ⟨11, 0, .propose 7 20 0 []⟩ true []⟩]).1
    (.node ⟨11, 0, .cancel 0 true⟩ true [])).stateOr exWallet).pending = [] := by decide

/-! ### non-vacuity: re-entrancy and rollback -/

/-- 11 and 12 are signers together with wallet-actor 200 (another multisig), threshold 2. -/
def exNested : State :=
  { self := 100, signers := [11, 12, 200], threshold := 2, nextId := 0, pending := [],
    initial := 0, start := 0, duration := 0, balance := 90, executed := [] }

/-- tx 0 pays 40 to account 7 (approved by 11 only); tx 1 calls actor 200 (approved by 11, then 12
    executes it).  While tx 1's send is running, actor 200 re-enters and approves tx 0, which
    reaches its quorum and is sent from inside the re-entrant activation. -/
def exNestedOps (outerOk : Bool) : List Op :=
  [ ⟨1, .node ⟨11, 0, .propose 7 40 0 []⟩ true []⟩,
    ⟨1, .node ⟨11, 0, .propose 200 0 2 [5]⟩ true []⟩,
    ⟨1, .node ⟨12, 0, .approve 1 true⟩ outerOk
        [ .node ⟨200, 0, .approve 0 true⟩ true [] ]⟩ ]

/-- callee returns ok: both transactions are sent, 40 left the wallet, both ids recorded -/
example : (run 2 exNested (exNestedOps true)).1.balance = 50 ∧
    (run 2 exNested (exNestedOps true)).1.pending = [] ∧
    (run 2 exNested (exNestedOps true)).1.executed = [0, 1] ∧
    ((run 2 exNested (exNestedOps true)).2.map (·.id)) = [1, 0] := by decide

/-- callee aborts after re-entering: the re-entrant send of tx 0 was issued (it is in the trace)
    but is rolled back with the callee — tx 0 is pending again with 11's approval only, the 40 are
    back — while tx 1 stays deleted and the Approve message itself succeeded -/
example : (run 2 exNested (exNestedOps false)).1.balance = 90 ∧
    ((run 2 exNested (exNestedOps false)).1.pending.map (fun p => (p.1, p.2.approved))) = [(0, [11])] ∧
    (run 2 exNested (exNestedOps false)).1.executed = [1] ∧
    ((run 2 exNested (exNestedOps false)).2.map (·.id)) = [1, 0] := by decide

/-- at call depth 0 the re-entrant activation cannot run -/
example : ((run 0 exNested (exNestedOps true)).2.map (·.id)) = [1] := by decide

end BA.Multisig
