/-
  C01 — No FIL is created, lost or stranded: conservation (VM level) and solvency.
-/
import BA.Model.VM
import BA.Model.Reward
import BA.Props.C03
import BA.Props.C16

namespace BA.VM

@[simp] theorem upd_same (b : Bal) (k : Nat) (x : Int) : upd b k x k = x := by simp [upd]
theorem upd_other (b : Bal) (k i : Nat) (x : Int) (h : i ≠ k) : upd b k x i = b i := by simp [upd, h]

theorem total_upd_not_mem (ks : List Nat) (b : Bal) (k : Nat) (x : Int) (h : k ∉ ks) :
    total ks (upd b k x) = total ks b := by
  induction ks with
  | nil => rfl
  | cons a t ih =>
    have h1 : a ≠ k := fun e => h (by simp [e])
    have h2 : k ∉ t := fun e => h (List.mem_cons_of_mem _ e)
    simp only [total]
    rw [upd_other b k a x h1, ih h2]

theorem total_upd_mem (ks : List Nat) (b : Bal) (k : Nat) (x : Int) (hn : ks.Nodup) (h : k ∈ ks) :
    total ks (upd b k x) = total ks b - b k + x := by
  induction ks with
  | nil => simp at h
  | cons a t ih =>
    rw [List.nodup_cons] at hn
    by_cases ha : a = k
    · subst ha
      simp only [total]
      rw [upd_same, total_upd_not_mem t b a x hn.1]; omega
    · have hk : k ∈ t := by
        cases h with
        | head => exact absurd rfl ha
        | tail _ h => exact h
      simp only [total]
      rw [upd_other b k a x ha, ih hn.2 hk]; omega

/-- a transfer between two listed actors leaves the total unchanged (also for a self-send) -/
theorem total_transfer (ks : List Nat) (b : Bal) (f t : Nat) (v : Int) (hn : ks.Nodup)
    (hf : f ∈ ks) (ht : t ∈ ks) : total ks (transfer b f t v) = total ks b := by
  unfold transfer
  simp only
  rw [total_upd_mem ks _ t _ hn ht, total_upd_mem ks b f _ hn hf]
  omega

mutual
/-- **Conservation**: whatever the actors do — any call tree, any nesting, any choice of failing
    (rolled-back) invocations, including failures that the caller tolerates — the sum of all
    balances after a message equals the sum before.  Burning is a transfer to the burnt-funds
    actor, which is one of the listed actors. -/
theorem conservation (ks : List Nat) (hn : ks.Nodup) (b : Bal) :
    (c : Call) → (∀ i ∈ ids c, i ∈ ks) → total ks (exec b c) = total ks b
  | .node f t v ok cs, h => by
    unfold exec
    by_cases hg : v < 0 ∨ b f < v
    · simp [hg]
    · simp only [hg, if_false]
      cases ok with
      | false => simp
      | true =>
        simp only [if_true]
        have hf : f ∈ ks := h f (by simp [ids])
        have ht : t ∈ ks := h t (by simp [ids])
        have hcs : ∀ i ∈ idsList cs, i ∈ ks := fun i hi => h i (by simp [ids, hi])
        rw [conservationList ks hn (transfer b f t v) cs hcs, total_transfer ks b f t v hn hf ht]
theorem conservationList (ks : List Nat) (hn : ks.Nodup) (b : Bal) :
    (cs : List Call) → (∀ i ∈ idsList cs, i ∈ ks) → total ks (execList b cs) = total ks b
  | [], _ => by simp [execList]
  | c :: cs, h => by
    unfold execList
    have h1 : ∀ i ∈ ids c, i ∈ ks := fun i hi => h i (by simp [idsList, hi])
    have h2 : ∀ i ∈ idsList cs, i ∈ ks := fun i hi => h i (by simp [idsList, hi])
    rw [conservationList ks hn (exec b c) cs h2, conservation ks hn b c h1]
end

/-- a failed top-level message changes no balance at all -/
theorem failed_message_changes_nothing (b : Bal) (f t : Nat) (v : Int) (cs : List Call) :
    exec b (.node f t v false cs) = b := by
  unfold exec
  by_cases hg : v < 0 ∨ b f < v <;> simp [hg]

mutual
/-- no balance is ever negative after a message if none was before (the VM refuses uncovered
    transfers) -/
theorem nonneg_preserved (b : Bal) (hb : ∀ i, 0 ≤ b i) :
    (c : Call) → ∀ i, 0 ≤ exec b c i
  | .node f t v ok cs => by
    intro i
    unfold exec
    by_cases hg : v < 0 ∨ b f < v
    · simp [hg]; exact hb i
    · simp only [hg, if_false]
      cases ok with
      | false => exact hb i
      | true =>
        simp only [if_true]
        apply nonneg_preservedList
        intro j
        have hv : 0 ≤ v := by omega
        have hfv : v ≤ b f := by omega
        have hj := hb j; have ht' := hb t; have hf' := hb f
        show 0 ≤ upd (upd b f (b f - v)) t ((upd b f (b f - v)) t + v) j
        by_cases h1 : j = t
        · subst h1
          rw [upd_same]
          by_cases h3 : j = f
          · subst h3; rw [upd_same]; omega
          · rw [upd_other b f j _ h3]; omega
        · rw [upd_other _ t j _ h1]
          by_cases h2 : j = f
          · subst h2; rw [upd_same]; omega
          · rw [upd_other b f j _ h2]; exact hj
theorem nonneg_preservedList (b : Bal) (hb : ∀ i, 0 ≤ b i) :
    (cs : List Call) → ∀ i, 0 ≤ execList b cs i
  | [] => by intro i; simp [execList]; exact hb i
  | c :: cs => by
    intro i
    unfold execList
    exact nonneg_preservedList (exec b c) (nonneg_preserved b hb c) cs i
end

/-! Non-vacuity: a tolerated failing nested send inside a successful message. -/
example :
    let b0 : Bal := fun i => if i = 1 then 100 else 0
    let tree := Call.node 1 2 40 true [Call.node 2 3 10 false [Call.node 3 99 5 true []],
                                        Call.node 2 99 15 true []]
    exec b0 tree 1 = 60 ∧ exec b0 tree 2 = 25 ∧ exec b0 tree 3 = 0 ∧ exec b0 tree 99 = 15 ∧
    total [1, 2, 3, 99] (exec b0 tree) = total [1, 2, 3, 99] b0 := by
  decide

end BA.VM


/-! ### Solvency of the actors that hold funds for others -/

namespace BA.Reward

/-- **The reward actor never pays out more than it holds**: a successful award sends a non-negative
    amount that its balance covers (whatever the environment does), and records as block reward
    exactly the part of it that is not the gas reward. -/
theorem reward_pays_le_balance {sys : Bool} {balance pen gas r w : Int} {res mok bok : Bool} {o : Out}
    (hr : 0 ≤ r) (h : award sys balance pen gas r w res mok bok = .ok o) :
    0 ≤ o.total ∧ o.total ≤ balance ∧ 0 ≤ o.paidOut ∧ o.paidOut ≤ balance ∧
    o.total = gas + o.blockReward ∧ 0 ≤ o.blockReward := by
  unfold award at h
  simp only [BA.guard_ok] at h
  obtain ⟨_, _, h1, h2, h3, _, h4, h5, h⟩ := h
  injection h with h
  have hb : 0 ≤ r * w / BA.Gen.expectedLeadersPerEpoch := by
    apply Int.ediv_nonneg
    · apply Int.mul_nonneg hr; omega
    · decide
  subst h
  simp only [Out.paidOut]
  by_cases hc : gas + r * w / BA.Gen.expectedLeadersPerEpoch > balance
  · simp only [hc, if_true] at h4 h5 ⊢
    refine ⟨by omega, by omega, ?_, ?_, by omega, by omega⟩ <;> (cases mok <;> cases bok <;> simp <;> omega)
  · simp only [hc, if_false] at h4 h5 ⊢
    refine ⟨by omega, by omega, ?_, ?_, trivial, by omega⟩ <;> (cases mok <;> cases bok <;> simp <;> omega)

/-- a failed award is one of the listed rejections and pays nothing (the VM rolls it back) -/
theorem reward_rejections (sys : Bool) (balance pen gas r w : Int) (res mok bok : Bool) (hr : 0 ≤ r) :
    (∃ o, award sys balance pen gas r w res mok bok = .ok o) ↔
      (sys = true ∧ 0 ≤ pen ∧ 0 ≤ gas ∧ gas ≤ balance ∧ 0 < w ∧ res = true) := by
  have hb : 0 ≤ w → 0 ≤ r * w / BA.Gen.expectedLeadersPerEpoch := fun hw => by
    apply Int.ediv_nonneg
    · exact Int.mul_nonneg hr hw
    · decide
  constructor
  · rintro ⟨o, h⟩
    unfold award at h
    simp only [BA.guard_ok] at h
    obtain ⟨a, b, c, d, e, f, _⟩ := h
    refine ⟨by simpa using a, by omega, by omega, by omega, by omega, by simpa using f⟩
  · rintro ⟨a, b, c, d, e, f⟩
    subst a; subst f
    have hb := hb (by omega)
    unfold award
    simp only [Bool.not_true, Bool.false_eq_true, if_false]
    rw [if_neg (by omega), if_neg (by omega), if_neg (by omega), if_neg (by omega)]
    by_cases hc : gas + r * w / BA.Gen.expectedLeadersPerEpoch > balance
    · simp only [hc, if_true, true_and]
      rw [if_neg (by omega), if_neg (by omega)]
      exact ⟨_, rfl⟩
    · simp only [hc, if_false, false_and]
      exact ⟨_, rfl⟩

/-- one block award in a history: FIL arriving at the reward actor before it (gas fees), then the
    message -/
structure Award where
  income : Int
  sys : Bool
  pen : Int
  gas : Int
  reward : Int
  wins : Int
  resolves : Bool
  minerOk : Bool
  burnOk : Bool

/-- the reward actor's balance along a history of awards -/
def runAwards : Int → List Award → Int
  | b, [] => b
  | b, a :: rest =>
    let b1 := b + a.income
    match award a.sys b1 a.pen a.gas a.reward a.wins a.resolves a.minerOk a.burnOk with
    | .ok o => runAwards (b1 - o.paidOut) rest
    | .error _ => runAwards b1 rest

/-- **Every history**: whatever is asked of it, the reward actor's balance never goes negative. -/
theorem reward_balance_nonneg (as : List Award) : ∀ b, 0 ≤ b →
    (∀ a ∈ as, 0 ≤ a.income ∧ 0 ≤ a.reward) → 0 ≤ runAwards b as := by
  induction as with
  | nil => intro b hb _; exact hb
  | cons a rest ih =>
    intro b hb hall
    have ha := hall a (by simp)
    have hrest : ∀ x ∈ rest, 0 ≤ x.income ∧ 0 ≤ x.reward := fun x hx => hall x (by simp [hx])
    simp only [runAwards]
    cases h : award a.sys (b + a.income) a.pen a.gas a.reward a.wins a.resolves a.minerOk a.burnOk with
    | error e => exact ih _ (by omega) hrest
    | ok o =>
      have := reward_pays_le_balance ha.2 h
      exact ih _ (by omega) hrest

/-- non-vacuity: the cap is reached (balance 7 < 3 + 10), the miner refuses, the funds are burnt -/
example : award true 7 1 3 50 1 true false true =
    .ok { total := 7, blockReward := 4, penalty := 3, dest := .burnt } := by rfl

end BA.Reward

namespace BA.C01

/-- **Miner solvency** (from the ledger model): balance ≥ pre-commit deposits + vesting funds +
    initial pledge in every reachable state, all ledgers non-negative. -/
theorem miner_solvent (ops : List (Int × BA.MinerLedger.Op)) :
    let s := BA.MinerLedger.run {} ops
    s.pcd + s.lf + s.ip ≤ s.balance ∧ 0 ≤ s.pcd ∧ 0 ≤ s.lf ∧ 0 ≤ s.ip ∧ 0 ≤ s.debt :=
  BA.MinerLedger.miner_solvent ops

/-- **Payment-channel solvency**: the channel's balance covers what it owes the payee in every
    reachable state (C16 `inv_owed`). -/
theorem paych_solvent (from_ to : Nat) (ops : List BA.Paych.Op) :
    BA.Paych.InvOwed (BA.Paych.run (BA.Paych.init from_ to) ops) :=
  BA.Paych.inv_owed from_ to ops

end BA.C01
