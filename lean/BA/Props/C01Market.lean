/-
  C01 — market solvency as a theorem: the storage market actor holds at least the sum of all escrow
  balances.  `esum s.escrow + s.burntTotal` (what the parties own plus what has been slashed and sent
  to the burnt-funds actor) moves only by AddBalance (+ the value received) and WithdrawBalance
  (− the amount paid out); the amount each settle / terminate / cron message sends to the burnt-funds
  actor is exactly the growth of `burntTotal`.  Hence (actor balance − Σ escrow) is constant over
  every history of the market model.
-/
import BA.Lemmas.MarketCore

namespace BA.Market
open BA

/-- sum of all entries of a balance table -/
def esum (m : Table) : Int := isum (m.map (·.2))

theorem esum_aset (m : Table) (k : Nat) (v : Int) : esum (aset k v m) = esum m - bal m k + v := by
  induction m with
  | nil => simp [esum, aset, bal, alookup]
  | cons h t ih =>
    obtain ⟨k', v'⟩ := h
    by_cases hk : k' = k
    · subst hk; simp [esum, aset, bal, alookup]; omega
    · have hb : bal ((k', v') :: t) k = bal t k := by simp [bal, alookup, hk]
      rw [hb]
      simp only [esum, aset, hk, if_false, List.map_cons, isum_cons] at ih ⊢
      omega

theorem esum_badd {m m' : Table} {k : Nat} {v : Int} (h : badd m k v = .ok m') :
    esum m' = esum m + v := by
  unfold badd at h
  simp only [guard_ok] at h
  obtain ⟨_, h⟩ := h
  injection h with h
  subst h
  rw [esum_aset]; omega

theorem esum_bmustSub {m m' : Table} {k : Nat} {v : Int} (h : bmustSub m k v = .ok m') :
    esum m' = esum m - v := by
  unfold bmustSub at h
  simp only [guard_ok] at h
  obtain ⟨_, h⟩ := h
  rw [esum_badd h]; omega

/-- what the parties own plus what was slashed -/
def owned (s : State) : Int := esum s.escrow + s.burntTotal

theorem unlockBalance_frame {s s' : State} {a : Nat} {amt : Int} {r : Reason}
    (h : unlockBalance s a amt r = .ok s') :
    s'.escrow = s.escrow ∧ s'.burntTotal = s.burntTotal ∧ s'.paid = s.paid ∧ s'.epoch = s.epoch := by
  unfold unlockBalance at h
  simp only [guard_ok] at h
  obtain ⟨_, h⟩ := h
  cases hb : bmustSub s.locked a amt with
  | error e => simp [hb] at h
  | ok l =>
    simp only [hb] at h
    cases r <;> (injection h with h; subst h; exact ⟨rfl, rfl, rfl, rfl⟩)

theorem transferBalance_frame {s s' : State} {f t : Nat} {amt : Int}
    (h : transferBalance s f t amt = .ok s') :
    esum s'.escrow = esum s.escrow ∧ s'.burntTotal = s.burntTotal := by
  unfold transferBalance at h
  simp only [guard_ok] at h
  obtain ⟨_, h⟩ := h
  cases h1 : bmustSub s.escrow f amt with
  | error e => simp [h1] at h
  | ok esc =>
    simp only [h1] at h
    cases h2 : unlockBalance s f amt .clientFee with
    | error e => simp [h2] at h
    | ok s1 =>
      simp only [h2] at h
      cases h3 : badd esc t amt with
      | error e => simp [h3] at h
      | ok esc2 =>
        simp only [h3] at h
        injection h with h
        subst h
        have := unlockBalance_frame h2
        refine ⟨?_, this.2.1⟩
        simp only
        rw [esum_badd h3, esum_bmustSub h1]; omega

theorem slashBalance_frame {s s' : State} {a : Nat} {amt : Int} {r : Reason}
    (h : slashBalance s a amt r = .ok s') :
    esum s'.escrow = esum s.escrow - amt ∧ s'.burntTotal = s.burntTotal := by
  unfold slashBalance at h
  simp only [guard_ok] at h
  obtain ⟨_, h⟩ := h
  cases h1 : bmustSub s.escrow a amt with
  | error e => simp [h1] at h
  | ok esc =>
    simp only [h1] at h
    have := unlockBalance_frame h
    rw [this.1, this.2.1]
    exact ⟨esum_bmustSub h1, rfl⟩

theorem maybeLock_frame {s s' : State} {a : Nat} {amt : Int} (h : maybeLock s a amt = .ok s') :
    s'.escrow = s.escrow ∧ s'.burntTotal = s.burntTotal := by
  unfold maybeLock at h
  simp only [guard_ok] at h
  obtain ⟨_, _, h⟩ := h
  cases h1 : badd s.locked a amt with
  | error e => simp [h1] at h
  | ok l =>
    simp only [h1] at h
    injection h with h
    subst h
    exact ⟨rfl, rfl⟩

theorem lockBoth_frame {s s' : State} {d : Proposal} (h : lockBoth s d = .ok s') :
    s'.escrow = s.escrow ∧ s'.burntTotal = s.burntTotal := by
  unfold lockBoth at h
  cases h1 : maybeLock s d.client d.clientReq with
  | error e => simp [h1] at h
  | ok s1 =>
    simp only [h1] at h
    cases h2 : maybeLock s1 d.provider d.providerColl with
    | error e => simp [h2] at h
    | ok s2 =>
      simp only [h2] at h
      injection h with h
      subst h
      have a := maybeLock_frame h1
      have b := maybeLock_frame h2
      exact ⟨by simp only; rw [b.1, a.1], by simp only; rw [b.2, a.2]⟩

theorem owned_publishOne {s s' : State} {d : Proposal} {id : Nat} (h : publishOne s d = .ok (s', id)) :
    owned s' = owned s := by
  unfold publishOne at h
  cases h1 : lockBoth s d with
  | error e => simp [h1] at h
  | ok s1 =>
    simp only [h1] at h
    injection h with h
    injection h with h _
    subst h
    have := lockBoth_frame h1
    simp only [owned]
    rw [this.1, this.2]

/-- a timed-out deal: the provider collateral leaves the escrow table and is recorded as burnt -/
theorem owned_timeoutDeal {s s' : State} {id : Nat} {d : Proposal} (h : timeoutDeal s id d = .ok s') :
    owned s' = owned s ∧ s'.burntTotal = s.burntTotal + d.providerColl := by
  unfold timeoutDeal at h
  cases h1 : unlockBalance s d.client d.fee .clientFee with
  | error e => simp [h1] at h
  | ok s1 =>
    simp only [h1] at h
    cases h2 : unlockBalance s1 d.client d.clientColl .clientColl with
    | error e => simp [h2] at h
    | ok s2 =>
      simp only [h2] at h
      cases h3 : slashBalance s2 d.provider d.providerColl .providerColl with
      | error e => simp [h3] at h
      | ok s3 =>
        simp only [h3] at h
        cases h4 : unlockBalance s3 d.provider (d.providerColl - d.providerColl) .providerColl with
        | error e => rw [h4] at h; simp at h
        | ok s4 =>
          simp only [h4] at h
          simp only [guard_ok] at h
          obtain ⟨_, h⟩ := h
          injection h with h
          subst h
          have f1 := unlockBalance_frame h1
          have f2 := unlockBalance_frame h2
          have f3 := slashBalance_frame h3
          have f4 := unlockBalance_frame h4
          simp only [owned, removeDeal]
          rw [f4.1, f4.2.1, f3.1, f3.2, f2.1, f2.2.1, f1.1, f1.2.1]
          constructor <;> omega

theorem addPaid_frame (s : State) (id : Nat) (a : Int) :
    (addPaid s id a).escrow = s.escrow ∧ (addPaid s id a).burntTotal = s.burntTotal := ⟨rfl, rfl⟩

theorem owned_processDealUpdate {s s' : State} {id : Nat} {d : Proposal} {st : DealState} {pay : Int}
    {done : Bool} (h : processDealUpdate s id d st = .ok (s', pay, done)) :
    esum s'.escrow = esum s.escrow ∧ s'.burntTotal = s.burntTotal := by
  unfold processDealUpdate at h
  simp only [guard_ok] at h
  obtain ⟨_, h⟩ := h
  -- the state after the optional pending-set removal has the same funds
  generalize hs0 : (if st.lastUpdated ≠ -1 then s else { s with pending := pendingRemove s.pending d }) = s0 at h
  have e0 : s0.escrow = s.escrow ∧ s0.burntTotal = s.burntTotal := by
    subst hs0; split <;> exact ⟨rfl, rfl⟩
  by_cases hst : d.startE > s.epoch
  · simp only [hst, if_true] at h
    injection h with h
    injection h with h _
    subst h
    rw [e0.1, e0.2]; exact ⟨rfl, rfl⟩
  · simp only [hst, if_false] at h
    generalize hpay : d.price * (min d.endE s.epoch -
      (if st.lastUpdated ≠ -1 ∧ st.lastUpdated > d.startE then st.lastUpdated else d.startE)) = payment at h
    -- the payment step
    generalize hs1 : (if payment > 0 then
        (match transferBalance s0 d.client d.provider payment with
         | .error e => (.error e : Except Err State)
         | .ok t => .ok (addPaid t id payment))
      else .ok s0) = s1R at h
    cases s1R with
    | error e => simp at h
    | ok s1 =>
      have e1 : esum s1.escrow = esum s.escrow ∧ s1.burntTotal = s.burntTotal := by
        by_cases hp : payment > 0
        · simp only [hp, if_true] at hs1
          cases ht : transferBalance s0 d.client d.provider payment with
          | error e => simp [ht] at hs1
          | ok t =>
            simp only [ht] at hs1
            injection hs1 with hs1
            subst hs1
            have := transferBalance_frame ht
            rw [(addPaid_frame t id payment).1, (addPaid_frame t id payment).2, this.1, this.2, e0.1, e0.2]
            exact ⟨rfl, rfl⟩
        · simp only [hp, if_false] at hs1
          injection hs1 with hs1
          subst hs1
          rw [e0.1, e0.2]; exact ⟨rfl, rfl⟩
      simp only at h
      by_cases hend : s.epoch ≥ d.endE
      · simp only [hend, if_true] at h
        simp only [guard_ok] at h
        obtain ⟨_, h⟩ := h
        cases h2 : unlockBalance s1 d.provider d.providerColl .providerColl with
        | error e => simp [h2] at h
        | ok s2 =>
          simp only [h2] at h
          cases h3 : unlockBalance s2 d.client d.clientColl .clientColl with
          | error e => simp [h3] at h
          | ok s3 =>
            simp only [h3] at h
            injection h with h
            injection h with h _
            subst h
            have f2 := unlockBalance_frame h2
            have f3 := unlockBalance_frame h3
            rw [f3.1, f3.2.1, f2.1, f2.2.1]; exact e1
      · simp only [hend, if_false] at h
        injection h with h
        injection h with h _
        subst h
        exact e1

theorem removeDeal_frame (s : State) (id : Nat) (c : Closed) :
    (removeDeal s id c).escrow = s.escrow ∧ (removeDeal s id c).burntTotal = s.burntTotal + c.burnt :=
  ⟨rfl, rfl⟩

/-- one deal of SettleDealPayments: `owned` is unchanged and the amount reported as slashed is what
    was added to `burntTotal` -/
theorem owned_settleOne (s : State) (id : Nat) :
    owned (settleOne s id).1 = owned s ∧
    (settleOne s id).1.burntTotal = s.burntTotal + (settleOne s id).2.2 := by
  unfold settleOne
  cases hp : alookup id s.proposals with
  | none => simp
  | some d =>
    simp only
    cases hs : alookup id s.states with
    | none =>
      simp only
      by_cases he : s.epoch < d.startE
      · simp [he]
      · simp only [he, if_false]
        cases ht : timeoutDeal s id d with
        | error e => simp
        | ok s' => exact owned_timeoutDeal ht
    | some st =>
      simp only
      cases hu : processDealUpdate s id d st with
      | error e => simp
      | ok r =>
        obtain ⟨s1, payment, completed⟩ := r
        have f := owned_processDealUpdate hu
        cases completed with
        | true =>
          simp only [if_true, owned, removeDeal, completedRecord]
          rw [f.1, f.2]; constructor <;> omega
        | false =>
          simp only [Bool.false_eq_true, if_false, owned]
          rw [f.1, f.2]; constructor <;> omega

theorem owned_settleAll (ids : List Nat) : ∀ s : State,
    owned (settleAll s ids).1 = owned s ∧
    (settleAll s ids).1.burntTotal = s.burntTotal + (settleAll s ids).2.2 := by
  induction ids with
  | nil => intro s; simp [settleAll]
  | cons id rest ih =>
    intro s
    have a := owned_settleOne s id
    have b := ih (settleOne s id).1
    simp only [settleAll]
    constructor
    · rw [b.1, a.1]
    · show (settleAll (settleOne s id).1 rest).1.burntTotal =
        s.burntTotal + ((settleOne s id).2.2 + (settleAll (settleOne s id).1 rest).2.2)
      rw [b.2, a.2]; omega

theorem owned_terminateOne {s s' : State} {c : Nat} {se : Int} {id : Nat} {a : Int}
    (h : terminateOne s c se id = .ok (s', a)) :
    owned s' = owned s ∧ s'.burntTotal = s.burntTotal + a := by
  unfold terminateOne at h
  cases hp : alookup id s.proposals with
  | none => simp [hp] at h; obtain ⟨h1, h2⟩ := h; subst h1; subst h2; simp
  | some d =>
    simp only [hp] at h
    simp only [guard_ok] at h
    obtain ⟨_, h⟩ := h
    by_cases hend : d.endE ≤ se
    · simp only [hend, if_true] at h
      injection h with h; injection h with h1 h2; subst h1; subst h2; simp
    · simp only [hend, if_false] at h
      cases hs : alookup id s.states with
      | none => simp [hs] at h
      | some st =>
        simp only [hs] at h
        generalize hs0 : (if st.lastUpdated = -1 then { s with pending := pendingRemove s.pending d } else s) = s0 at h
        have e0 : s0.escrow = s.escrow ∧ s0.burntTotal = s.burntTotal := by
          subst hs0; split <;> exact ⟨rfl, rfl⟩
        generalize hpay : d.price * max 0 (min d.endE se - max d.startE st.lastUpdated) = payment at h
        generalize hs1 : (if payment > 0 then
            (match transferBalance s0 d.client d.provider payment with
             | .error e => (.error e : Except Err State)
             | .ok t => .ok (addPaid t id payment))
          else .ok s0) = s1R at h
        cases s1R with
        | error e => simp at h
        | ok s1 =>
          have e1 : esum s1.escrow = esum s.escrow ∧ s1.burntTotal = s.burntTotal := by
            by_cases hpp : payment > 0
            · simp only [hpp, if_true] at hs1
              cases ht : transferBalance s0 d.client d.provider payment with
              | error e => simp [ht] at hs1
              | ok t =>
                simp only [ht] at hs1
                injection hs1 with hs1
                subst hs1
                have := transferBalance_frame ht
                rw [(addPaid_frame t id payment).1, (addPaid_frame t id payment).2, this.1, this.2, e0.1, e0.2]
                exact ⟨rfl, rfl⟩
            · simp only [hpp, if_false] at hs1
              injection hs1 with hs1
              subst hs1
              rw [e0.1, e0.2]; exact ⟨rfl, rfl⟩
          simp only at h
          cases hr : paymentRemaining d se with
          | error e => simp [hr] at h
          | ok remaining =>
            simp only [hr] at h
            cases h2 : unlockBalance s1 d.client remaining .clientFee with
            | error e => simp [h2] at h
            | ok s2 =>
              simp only [h2] at h
              cases h3 : unlockBalance s2 d.client d.clientColl .clientColl with
              | error e => simp [h3] at h
              | ok s3 =>
                simp only [h3] at h
                cases h4 : slashBalance s3 d.provider d.providerColl .providerColl with
                | error e => simp [h4] at h
                | ok s4 =>
                  simp only [h4] at h
                  injection h with h
                  injection h with ha hb
                  subst ha; subst hb
                  have f2 := unlockBalance_frame h2
                  have f3 := unlockBalance_frame h3
                  have f4 := slashBalance_frame h4
                  simp only [owned, removeDeal]
                  rw [f4.1, f4.2, f3.1, f3.2.1, f2.1, f2.2.1, e1.1, e1.2]
                  constructor <;> omega

theorem owned_terminateAll (c : Nat) (se : Int) (ids : List Nat) : ∀ (s s' : State) (a : Int),
    terminateAll c se s ids = .ok (s', a) →
    owned s' = owned s ∧ s'.burntTotal = s.burntTotal + a := by
  induction ids with
  | nil => intro s s' a h; simp [terminateAll] at h; obtain ⟨h1, h2⟩ := h; subst h1; subst h2; simp
  | cons id rest ih =>
    intro s s' a h
    simp only [terminateAll] at h
    cases h1 : terminateOne s c se id with
    | error e => simp [h1] at h
    | ok r1 =>
      obtain ⟨s1, a1⟩ := r1
      simp only [h1] at h
      cases h2 : terminateAll c se s1 rest with
      | error e => simp [h2] at h
      | ok r2 =>
        obtain ⟨s2, a2⟩ := r2
        simp only [h2] at h
        injection h with h; injection h with ha hb; subst ha; subst hb
        have x := owned_terminateOne h1
        have y := ih s1 s2 a2 h2
        constructor
        · rw [y.1, x.1]
        · rw [y.2, x.2]; omega

theorem owned_cronOne {s s' : State} {id : Nat} {a : Int} (h : cronOne s id = .ok (s', a)) :
    owned s' = owned s ∧ s'.burntTotal = s.burntTotal + a := by
  unfold cronOne at h
  cases hp : alookup id s.proposals with
  | none => simp [hp] at h; obtain ⟨h1, h2⟩ := h; subst h1; subst h2; simp
  | some d =>
    simp only [hp] at h
    cases hs : alookup id s.states with
    | none =>
      simp only [hs] at h
      simp only [guard_ok] at h
      obtain ⟨_, h⟩ := h
      cases ht : timeoutDeal s id d with
      | error e => simp [ht] at h
      | ok t =>
        simp only [ht] at h
        injection h with h; injection h with ha hb; subst ha; subst hb
        exact owned_timeoutDeal ht
    | some st =>
      simp only [hs] at h
      by_cases hl : st.lastUpdated = -1
      · simp only [hl, if_true] at h
        simp only [guard_ok] at h
        obtain ⟨_, h⟩ := h
        injection h with h; injection h with ha hb; subst ha; subst hb
        simp [owned]
      · simp only [hl, if_false] at h
        cases hu : processDealUpdate s id d st with
        | error e => simp [hu] at h
        | ok r =>
          obtain ⟨s1, payment, completed⟩ := r
          simp only [hu] at h
          have f := owned_processDealUpdate hu
          cases completed with
          | true =>
            simp only [if_true] at h
            injection h with h; injection h with ha hb; subst ha; subst hb
            simp only [owned, removeDeal, completedRecord]
            rw [f.1, f.2]; constructor <;> omega
          | false =>
            simp only [Bool.false_eq_true, if_false] at h
            injection h with h; injection h with ha hb; subst ha; subst hb
            simp only [owned]
            rw [f.1, f.2]; constructor <;> omega

theorem owned_cronAll (ids : List Nat) : ∀ (s s' : State) (a : Int),
    cronAll s ids = .ok (s', a) → owned s' = owned s ∧ s'.burntTotal = s.burntTotal + a := by
  induction ids with
  | nil => intro s s' a h; simp [cronAll] at h; obtain ⟨h1, h2⟩ := h; subst h1; subst h2; simp
  | cons id rest ih =>
    intro s s' a h
    simp only [cronAll] at h
    cases h1 : cronOne s id with
    | error e => simp [h1] at h
    | ok r1 =>
      obtain ⟨s1, a1⟩ := r1
      simp only [h1] at h
      cases h2 : cronAll s1 rest with
      | error e => simp [h2] at h
      | ok r2 =>
        obtain ⟨s2, a2⟩ := r2
        simp only [h2] at h
        injection h with h; injection h with ha hb; subst ha; subst hb
        have x := owned_cronOne h1
        have y := ih s1 s2 a2 h2
        constructor
        · rw [y.1, x.1]
        · rw [y.2, x.2]; omega

/-- `owned` is preserved by every atomic transition except deposits and withdrawals -/
theorem owned_preserved (c : Int) : PreservedCore (fun t => owned t = c) where
  advance := fun s e h _ => h
  publishOne := fun s d s' id h _ hp => by rw [owned_publishOne hp]; exact h
  activateOne := fun s caller exp sector id h _ => h
  settleOne := fun s id h => by rw [(owned_settleOne s id).1]; exact h
  unmap := fun s caller sectors h => h
  terminateOne := fun s c id s' a h ht => by rw [(owned_terminateOne ht).1]; exact h
  dealOpsSub := fun s l h _ => h
  cronOne := fun s id s' a h hc => by rw [(owned_cronOne hc).1]; exact h
  cronDone := fun s e h => h

/-- FIL entering (+) or leaving (−) the parties' holdings by a message: the value sent along with a
    successful AddBalance, the payout of a successful WithdrawBalance, nothing otherwise -/
def inflow (s : State) (op : Op) : Int :=
  match op with
  | .addBalance a v r => (match addBalance s a v r with | .ok _ => v | .error _ => 0)
  | .withdraw c n a env so => (match withdraw s c n a env so with | .ok (_, w) => - w.amount | .error _ => 0)
  | _ => 0

theorem step_owned (s : State) (op : Op) : owned (step s op).1 = owned s + inflow s op := by
  by_cases hm : op.movesNoFunds = true
  · have := step_preserves_core (owned_preserved (owned s)) s op rfl hm
    have hi : inflow s op = 0 := by cases op <;> simp [Op.movesNoFunds] at hm <;> rfl
    have this' : owned (step s op).1 = owned s := this
    omega
  · cases op with
    | addBalance a v r =>
      simp only [step, inflow]
      cases h : addBalance s a v r with
      | error e => simp
      | ok s' =>
        simp only
        unfold addBalance at h
        simp only [guard_ok] at h
        obtain ⟨_, _, h⟩ := h
        cases hb : badd s.escrow a v with
        | error e => simp [hb] at h
        | ok esc =>
          simp only [hb] at h
          injection h with h
          subst h
          simp only [owned]
          rw [esum_badd hb]; omega
    | withdraw c n a env so =>
      simp only [step, inflow]
      cases h : withdraw s c n a env so with
      | error e => simp
      | ok r =>
        obtain ⟨s', w⟩ := r
        simp only
        unfold withdraw at h
        simp only [guard_ok] at h
        obtain ⟨_, _, _, h⟩ := h
        generalize hex : min (max 0 (bal s.escrow n - bal s.locked n)) a = ex at h
        by_cases hp : ex > 0
        · simp only [hp, if_true] at h
          cases hb : badd s.escrow n (-ex) with
          | error e => simp [hb] at h
          | ok esc =>
            simp only [hb] at h
            simp only [guard_ok] at h
            obtain ⟨_, h⟩ := h
            injection h with h; injection h with h1 h2; subst h1; subst h2
            simp only [owned]
            rw [esum_badd hb]; omega
        · simp only [hp, if_false] at h
          simp only [guard_ok] at h
          obtain ⟨_, h⟩ := h
          injection h with h; injection h with h1 h2; subst h1; subst h2
          simp only [owned]
          omega
    | _ => simp [Op.movesNoFunds] at hm

/-- the market actor's own balance along a history: it receives the value of each successful
    AddBalance, pays out each successful withdrawal, and sends to the burnt-funds actor whatever the
    message added to `burntTotal` (see `settle_burns`, `terminate_burns`, `cron_burns`: that is the
    amount the code passes to the burn send) -/
def balStep (b : Int) (s : State) (op : Op) : Int :=
  b + inflow s op - ((step s op).1.burntTotal - s.burntTotal)

def runB : Int → State → List Op → Int × State
  | b, s, [] => (b, s)
  | b, s, op :: rest => runB (balStep b s op) (step s op).1 rest

theorem runB_state (ops : List Op) : ∀ b s, (runB b s ops).2 = run s ops := by
  induction ops with
  | nil => intro b s; rfl
  | cons op rest ih => intro b s; simp only [runB, run]; exact ih _ _

theorem runB_surplus (ops : List Op) : ∀ b s,
    (runB b s ops).1 - esum (runB b s ops).2.escrow = b - esum s.escrow := by
  induction ops with
  | nil => intro b s; rfl
  | cons op rest ih =>
    intro b s
    simp only [runB]
    rw [ih]
    have := step_owned s op
    simp only [owned] at this
    simp only [balStep]
    omega

/-- **Market solvency, every history.**  Starting from the empty market with any non-negative actor
    balance `b0` (FIL sent to the actor outside AddBalance is simply surplus), after every history of
    messages and ticks — failed ones included, which change nothing — the actor's balance is the sum
    of all escrow balances plus that same surplus; in particular it covers the sum of escrow. -/
theorem market_solvent (b0 : Int) (hb : 0 ≤ b0) (ops : List Op) :
    (runB b0 init ops).1 = esum (run init ops).escrow + b0 ∧
    esum (run init ops).escrow ≤ (runB b0 init ops).1 := by
  have h := runB_surplus ops b0 init
  rw [runB_state] at h
  have h0 : esum init.escrow = 0 := rfl
  constructor <;> omega

/-- the amount SettleDealPayments sends to the burnt-funds actor is what it added to `burntTotal` -/
theorem settle_burns {s s' : State} {ids : List Nat} {b : Bool} {r : List SettleRes}
    (h : settle s ids b = .ok (s', r)) : s'.burntTotal = s.burntTotal + (settleAll s ids).2.2 := by
  unfold settle at h
  have a := (owned_settleAll ids s).2
  generalize settleAll s ids = x at h a
  obtain ⟨s1, rs, slashed⟩ := x
  simp only [guard_ok] at h
  obtain ⟨_, h⟩ := h
  injection h with h; injection h with h1 _; subst h1
  exact a

/-- ... and so for OnMinerSectorsTerminate -/
theorem terminate_burns {s s' : State} {c : Nat} {m : Bool} {se : Int} {secs : List Nat} {b : Bool}
    (h : terminate s c m se secs b = .ok s') :
    ∃ burn, terminateAll c se (unmapSectors s c secs) (sectorDealIds s c secs) = .ok (s', burn) ∧
      s'.burntTotal = s.burntTotal + burn := by
  unfold terminate at h
  simp only [guard_ok] at h
  obtain ⟨_, h⟩ := h
  cases ht : terminateAll c se (unmapSectors s c secs) (sectorDealIds s c secs) with
  | error e => simp [ht] at h
  | ok r =>
    obtain ⟨s1, burn⟩ := r
    simp only [ht] at h
    simp only [guard_ok] at h
    obtain ⟨_, h⟩ := h
    injection h with h; subst h
    exact ⟨burn, rfl, (owned_terminateAll c se _ _ _ _ ht).2⟩

/-- ... and for the cron tick -/
theorem cron_burns {s s' : State} {c b : Bool} (h : cronTick s c b = .ok s') :
    ∃ slashed, s'.burntTotal = s.burntTotal + slashed ∧ (slashed ≠ 0 → b = true) := by
  unfold cronTick at h
  simp only [guard_ok] at h
  obtain ⟨_, h⟩ := h
  generalize hs0 : ({ s with dealOps := s.dealOps.filter (fun p => !dueNow s p.1) } : State) = s0 at h
  generalize (s.dealOps.filter (fun p => dueNow s p.1)).map (·.2) = due at h
  cases hc : cronAll s0 due with
  | error e => simp [hc] at h
  | ok r =>
    obtain ⟨s1, slashed⟩ := r
    simp only [hc] at h
    simp only [guard_ok] at h
    obtain ⟨hg, h⟩ := h
    injection h with h; subst h
    refine ⟨slashed, ?_, ?_⟩
    · have := (owned_cronAll due s0 s1 slashed hc).2
      subst hs0
      exact this
    · intro hne
      by_cases hb : b = true
      · exact hb
      · exfalso; apply hg; exact ⟨hne, by simp [hb]⟩

/-- non-vacuity: a deposit, a partial withdrawal and a tick — the actor holds exactly the escrow -/
example :
    (runB 0 init [.addBalance 7 100 true, .advance 5, .cron true true]).1 = 100 ∧
    esum (run init [.addBalance 7 100 true, .advance 5, .cron true true]).escrow = 100 := by
  decide

end BA.Market
