/-
  C06 — Market escrow: locked funds equal outstanding deal obligations.
  Property theorems over the model `BA.Market` (actors/market/src/{lib,state,balance_table}.rs).
-/
import BA.Lemmas.MarketCore

namespace BA.Market
open BA

/-! ### Locked = obligations, totals = sums, locked ≤ escrow — in every reachable state -/

/-- the obligation of party `p` for one published, unfinished deal `d` whose deal state (if it has
    been activated) is `o`: as client its collateral plus the storage fee not yet paid, as provider
    its collateral -/
def obligation (p : Nat) (d : Proposal) (o : Option DealState) : Int := oblH p d o

/-- the unpaid fee of a deal that was never activated, or activated but never settled, is the total
    fee `price × (end − start)` -/
theorem unpaid_fee_unsettled (d : Proposal) (h0 : 0 ≤ d.startE) :
    remFee d none = d.price * (d.endE - d.startE) ∧
    ∀ st : DealState, st.lastUpdated = -1 → remFee d (some st) = d.price * (d.endE - d.startE) :=
  ⟨rfl, fun st h => remFee_never d st h h0⟩

/-- the unpaid fee of a deal last settled at `lu` is `price × (end − max start lu)` -/
theorem unpaid_fee_settled (d : Proposal) (st : DealState) :
    remFee d (some st) = d.price * (d.endE - max d.startE st.lastUpdated) := rfl

/-- **Locked = obligations.**  After *any* history of deposits, withdrawals, publications (valid and
    invalid deals), activations through both entry points, settlements, terminations, cron ticks and
    epoch advances, for *every* address `p` the locked balance is exactly the sum over the
    published, unfinished deals of `p`'s obligation for that deal. -/
theorem locked_eq_obligations (ops : List Op) (p : Nat) :
    bal (run init ops).locked p =
      asum (fun id d => obligation p d (alookup id (run init ops).states)) (run init ops).proposals :=
  (inv_reachable ops).acct.locked p

/-- **Totals = sums.**  The three market-wide totals are the sums of the per-deal amounts. -/
theorem totals_eq (ops : List Op) :
    (run init ops).totalClientColl = asum (fun _ d => d.clientColl) (run init ops).proposals ∧
    (run init ops).totalProviderColl = asum (fun _ d => d.providerColl) (run init ops).proposals ∧
    (run init ops).totalClientFee =
      asum (fun id d => remFee d (alookup id (run init ops).states)) (run init ops).proposals :=
  ⟨(inv_reachable ops).acct.cc, (inv_reachable ops).acct.pc, (inv_reachable ops).acct.fee⟩

/-- **Locked ≤ escrow**, for every address, in every reachable state. -/
theorem locked_le_escrow (ops : List Op) (p : Nat) :
    bal (run init ops).locked p ≤ bal (run init ops).escrow p :=
  (inv_reachable ops).acct.le p

theorem asum_nonneg {α : Type} (f : Nat → α → Int) (l : List (Nat × α))
    (h : ∀ k v, alookup k l = some v → 0 ≤ f k v) (hnd : ND l) : 0 ≤ asum f l := by
  induction l with
  | nil => exact Int.le_refl _
  | cons hd t ih =>
    obtain ⟨k, v⟩ := hd
    simp only [asum]
    have h1 : 0 ≤ f k v := h k v (by simp [alookup])
    have h2 : 0 ≤ asum f t := by
      apply ih _ hnd.2
      intro k' v' hk'
      apply h k' v'
      have : k ≠ k' := by
        intro e; subst e; rw [hnd.1] at hk'; simp at hk'
      simp [alookup, this, hk']
    omega

/-- locked balances are never negative -/
theorem locked_nonneg (ops : List Op) (p : Nat) : 0 ≤ bal (run init ops).locked p := by
  have hi := inv_reachable ops
  rw [hi.acct.locked p]
  apply asum_nonneg _ _ _ hi.wf.nd
  intro k d hk
  have g := hi.wf.good k d hk
  have hrem : 0 ≤ remFee d (alookup k (run init ops).states) := by
    unfold remFee
    apply Int.mul_nonneg g.price
    cases ho : alookup k (run init ops).states with
    | none => simp only [luTo]; have := g.dur; omega
    | some st =>
      obtain ⟨d', hd', hl⟩ := hi.wf.st k st ho
      rw [hk] at hd'; injection hd' with hd'; subst hd'
      simp only [luTo]
      have := g.dur
      rcases hl with h | ⟨_, _, h3⟩
      · rw [h]; have := g.start0; omega
      · omega
  have := g.cc; have := g.pc
  simp only [oblH, ind]
  split <;> split <;> omega

/-! ### Withdrawal -/

/-- **Withdrawal is exact and only for the party.**  `WithdrawBalance` for the balance held under
    `nominal` succeeds only if the caller is approved — the party itself, or the owner or the worker
    when `nominal` is a storage miner; it pays out `min(requested, max(0, escrow − locked))` to the
    party itself (to the miner's *owner* for a miner), lowers `nominal`'s escrow by exactly that
    amount and changes no other escrow or locked balance, nor any deal. -/
theorem withdraw_exact {s s' : State} {caller nominal : Nat} {amount : Int} {env : PartyEnv}
    {sendOk : Bool} {w : Withdrawal} (h : withdraw s caller nominal amount env sendOk = .ok (s', w)) :
    0 ≤ amount ∧ caller ∈ approvedCallers nominal env ∧
    w.amount = min (max 0 (bal s.escrow nominal - bal s.locked nominal)) amount ∧
    w.recipient = recipientOf nominal env ∧
    bal s'.escrow nominal = bal s.escrow nominal - w.amount ∧
    (∀ j, j ≠ nominal → bal s'.escrow j = bal s.escrow j) ∧
    s'.locked = s.locked ∧ s'.proposals = s.proposals ∧ s'.states = s.states ∧
    s'.totalClientColl = s.totalClientColl ∧ s'.totalClientFee = s.totalClientFee ∧
    s'.totalProviderColl = s.totalProviderColl := by
  unfold withdraw at h
  simp only [guard_ok] at h
  obtain ⟨h1, _, h3, h⟩ := h
  split at h
  · simp at h
  · rename_i esc hesc
    simp only [guard_ok] at h
    obtain ⟨_, h⟩ := h
    injection h with h
    injection h with ha hb
    subst ha; subst hb
    refine ⟨by omega, by simpa using h3, rfl, rfl, ?_, ?_, rfl, rfl, rfl, rfl, rfl, rfl⟩
    · show bal esc nominal = bal s.escrow nominal
          - min (max 0 (bal s.escrow nominal - bal s.locked nominal)) amount
      by_cases hex : min (max 0 (bal s.escrow nominal - bal s.locked nominal)) amount > 0
      · simp only [hex, if_true] at hesc
        obtain ⟨_, b2, _⟩ := badd_ok hesc
        rw [b2]; omega
      · simp only [hex, if_false] at hesc
        injection hesc with hesc; subst hesc
        omega
    · intro j hj
      by_cases hex : min (max 0 (bal s.escrow nominal - bal s.locked nominal)) amount > 0
      · simp only [hex, if_true] at hesc
        obtain ⟨_, _, b3⟩ := badd_ok hesc
        exact b3 j hj
      · simp only [hex, if_false] at hesc
        injection hesc with hesc; subst hesc; rfl

/-- the approved callers and the recipient, spelled out -/
theorem approved_spelled_out (nominal : Nat) (env : PartyEnv) :
    (env.miner = none → approvedCallers nominal env = [nominal] ∧ recipientOf nominal env = nominal) ∧
    (∀ o w, env.miner = some (o, w) → approvedCallers nominal env = [o, w] ∧
      recipientOf nominal env = o) := by
  constructor
  · intro h; simp [approvedCallers, recipientOf, h]
  · intro o w h; simp [approvedCallers, recipientOf, h]

/-- nobody else can withdraw it: a caller that is not approved is refused -/
theorem withdraw_rejects_unapproved (s : State) (caller nominal : Nat) (amount : Int) (env : PartyEnv)
    (sendOk : Bool) (h : caller ∉ approvedCallers nominal env) :
    ∃ e, withdraw s caller nominal amount env sendOk = .error e := by
  unfold withdraw
  by_cases h1 : amount < 0
  · exact ⟨.illegalArgument, by simp [h1]⟩
  · by_cases h2 : env.resolves = false
    · exact ⟨.illegalArgument, by simp [h1, h2]⟩
    · exact ⟨.forbidden, by simp [h1, h2, h]⟩

/-- in a reachable state the amount paid out is exactly `min(requested, escrow − locked)`: a party
    can withdraw its escrow minus its locked amount, no more -/
theorem withdraw_exact_reachable (ops : List Op) {s' : State} {caller nominal : Nat} {amount : Int}
    {env : PartyEnv} {sendOk : Bool} {w : Withdrawal}
    (h : withdraw (run init ops) caller nominal amount env sendOk = .ok (s', w)) :
    w.amount = min (bal (run init ops).escrow nominal - bal (run init ops).locked nominal) amount ∧
    0 ≤ w.amount ∧ bal s'.locked nominal ≤ bal s'.escrow nominal := by
  obtain ⟨h0, _, h3, _, h5, _, h7, _⟩ := withdraw_exact h
  have hle := locked_le_escrow ops nominal
  rw [h7, h5, h3]
  refine ⟨by omega, by omega, by omega⟩

/-! ### Nothing else lowers an escrow -/

/-- publishing locks funds but never moves escrow -/
theorem publish_keeps_escrow {s s' : State} {d : Proposal} {id : Nat}
    (h : publishOne s d = .ok (s', id)) : s'.escrow = s.escrow := by
  unfold publishOne at h
  cases hl : lockBoth s d with
  | error e => simp [hl] at h
  | ok s1 =>
    simp only [hl] at h
    injection h with h; injection h with h1 _; subst h1
    exact (lockBoth_ok hl).2.2.2.1

/-- deposits only raise an escrow -/
theorem addBalance_raises {s s' : State} {a : Nat} {v : Int} {r : Bool}
    (h : addBalance s a v r = .ok s') :
    0 < v ∧ bal s'.escrow a = bal s.escrow a + v ∧ (∀ j, j ≠ a → bal s'.escrow j = bal s.escrow j) ∧
    s'.locked = s.locked := by
  unfold addBalance at h
  simp only [guard_ok] at h
  obtain ⟨hv, _, h⟩ := h
  cases hb : badd s.escrow a v with
  | error e => simp [hb] at h
  | ok esc =>
    simp only [hb] at h
    injection h with h; subst h
    obtain ⟨_, b2, b3⟩ := badd_ok hb
    exact ⟨by omega, b2, b3, rfl⟩

/-- a settlement of deal `id` leaves the escrow of everybody but the deal's client and provider
    untouched; the client's goes down by the payment only, the provider's goes down only by its
    own slashed collateral (time-out) -/
theorem settle_touches_only_deal_parties (s : State) (id : Nat) (j : Nat)
    (h : ∀ d, alookup id s.proposals = some d → j ≠ d.client ∧ j ≠ d.provider) :
    bal (settleOne s id).1.escrow j = bal s.escrow j := by
  unfold settleOne
  cases hp : alookup id s.proposals with
  | none => rfl
  | some d =>
    obtain ⟨hc, hpv⟩ := h d hp
    simp only
    cases hst : alookup id s.states with
    | none =>
      simp only
      by_cases he : s.epoch < d.startE
      · simp only [he, if_true]
      · simp only [he, if_false]
        cases ht : timeoutDeal s id d with
        | error e => rfl
        | ok s' =>
          obtain ⟨_, _, _, _, _, _, _, m⟩ := timeoutDeal_ok ht
          simp only; rw [m.escrow]; simp [ind, hpv]
    | some st =>
      simp only
      cases hu : processDealUpdate s id d st with
      | error e => rfl
      | ok r =>
        obtain ⟨s1, pay, completed⟩ := r
        obtain ⟨_, _, _, _, _, _, m, _⟩ := processDealUpdate_ok hu
        cases completed with
        | true => simp only [if_true]; show bal s1.escrow j = _; rw [m.escrow]; simp [ind, hc, hpv]
        | false =>
          simp only [Bool.false_eq_true, if_false]
          show bal s1.escrow j = _; rw [m.escrow]; simp [ind, hc, hpv]

/-- the same for a termination -/
theorem terminate_touches_only_deal_parties {s s' : State} {c : Nat} {se : Int} {id : Nat}
    {a : Int} (h : terminateOne s c se id = .ok (s', a)) (j : Nat)
    (hj : ∀ d, alookup id s.proposals = some d → j ≠ d.client ∧ j ≠ d.provider) :
    bal s'.escrow j = bal s.escrow j := by
  rcases terminateOne_ok h with ⟨_, he, _⟩ | ⟨_, _, _, _, he, _⟩ |
    ⟨d, st, hp, _, _, _, _, _, _, _, _, _, _, m⟩
  · rw [he]
  · rw [he]
  · obtain ⟨hc, hpv⟩ := hj d hp
    rw [m.escrow]; simp [ind, hc, hpv]

/-- **Nothing else lowers an escrow.**  Split every escrow balance into what the party's own deals
    explain — for each live deal `± price × (settled-up-to − start)` (+ as its provider, − as its
    client), for each ended deal `+ paid − burnt` as provider and `− paid` as client — and the rest,
    its *net deposits*.  Every message other than AddBalance and WithdrawBalance — any publication,
    activation, settlement batch, termination, cron tick, with all their loops — leaves the net
    deposits of *every* address exactly as they were: an escrow goes down only by payments for the
    party's own deals as client and by the slashing of its own deals as provider. -/
theorem nothing_else_lowers_escrow (s : State) (op : Op) (hi : Inv s)
    (hop : op.movesNoFunds = true) (p : Nat) :
    bal (step s op).1.escrow p - explained (step s op).1 p = bal s.escrow p - explained s p := by
  have := step_net s op hi p
  have hf : flow s op p = 0 := by
    cases op <;> simp [Op.movesNoFunds] at hop <;> simp [flow]
  simp only [net] at this; omega

/-- AddBalance raises the net deposits of its target by the value sent, WithdrawBalance lowers those
    of the nominal address by the amount paid out; nobody else's move -/
theorem deposits_and_withdrawals_move_net (s : State) (hi : Inv s) (p : Nat) :
    (∀ a v r s', addBalance s a v r = .ok s' →
      bal s'.escrow p - explained s' p = bal s.escrow p - explained s p + ind p a v) ∧
    (∀ c n a env so s' w, withdraw s c n a env so = .ok (s', w) →
      bal s'.escrow p - explained s' p = bal s.escrow p - explained s p - ind p n w.amount) := by
  have _ := hi
  exact ⟨fun a v r s' h => net_addBalance h p, fun c n a env so s' w h => net_withdraw h p⟩

/-- **The escrow equation, over whole histories.**  After any history every escrow balance is the
    sum of the deposits made for that address minus what was withdrawn from it (`flows`) plus what
    its deals explain in closed form (`explained`). -/
theorem escrow_equation (ops : List Op) (p : Nat) :
    bal (run init ops).escrow p = flows p init ops + explained (run init ops) p := by
  have h := run_net ops init inv_init p
  have h0 : net init p = 0 := by
    simp [net, explained, init, bal_nil, dsum, asum]
  simp only [net] at h h0
  omega

/-- a failing message changes nothing -/
theorem failed_message_no_effect (s : State) (op : Op) (e : Err) (h : (step s op).2 = .err e) :
    (step s op).1 = s := by
  cases op <;> simp only [step] at h ⊢
  case advance t => split at h <;> simp_all
  all_goals (split at h <;> first | rfl | simp at h)

/-! ### Non-vacuity -/

def exD (client : Nat) (start : Int) (tag : Nat) : DealIn :=
  { d := { client := client, provider := 200, startE := start, endE := start + 10, price := 3,
           clientColl := 7, providerColl := 11, verified := false, tag := tag },
    sigOk := true, boundsOk := true, dcOk := true, providerMatches := true }

def exE : PublishEnv :=
  { provider := 200, providerResolves := true, providerIsMiner := true, callerControls := true,
    datacapOk := true, notifyOk := true }

/-- two clients, one provider, three deals, one partially settled, one timed out: locked balances
    are 7 + 30 − 3·5 for the settled deal's client, 7 + 30 for the other, 22 for the provider -/
example :
    let s := run init [.addBalance 101 1000 true, .addBalance 102 1000 true, .addBalance 200 5000 true,
      .advance 5, .publish exE [exD 101 10 1, exD 102 10 2, exD 102 12 3],
      .activate 200 true [{ sector := 4, expiry := 100, ids := [0, 2] }],
      .advance 15, .settle [0, 1] true]
    bal s.locked 101 = 22 ∧ bal s.locked 102 = 37 ∧ bal s.locked 200 = 22 ∧
    s.totalClientFee = 45 ∧ s.totalClientColl = 14 ∧ s.totalProviderColl = 22 ∧
    bal s.escrow 200 = 5000 + 15 - 11 ∧ s.proposals.length = 2 := by
  decide

/-- a miner's balance is withdrawn by its worker and paid to its owner, capped by escrow − locked -/
example :
    let s := run init [.addBalance 200 5000 true, .addBalance 101 1000 true, .advance 5,
      .publish exE [exD 101 10 1]]
    (withdraw s 301 200 10000 { resolves := true, miner := some (300, 301) } true).toOption.map
        (fun r => (r.2, bal r.1.escrow 200, bal r.1.locked 200)) =
      some ({ amount := 4989, recipient := 300 }, 11, 11) ∧
    (withdraw s 302 200 1 { resolves := true, miner := some (300, 301) } true).toOption.isNone := by
  decide

end BA.Market
