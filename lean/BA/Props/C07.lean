/-
  C07 — Deal payments are exact and independent of the settlement schedule.
  Property theorems over the model `BA.Market` (actors/market/src/{lib,state}.rs).
-/
import BA.Lemmas.MarketPres

namespace BA.Market
open BA

/-! ### The payment window and its closed form -/

/-- what one settlement (`process_deal_update`, by SettleDealPayments or by the cron) at epoch `e`
    pays for a deal last settled at `lu` (`-1` = never) -/
def payWindow (d : Proposal) (lu e : Int) : Int :=
  if d.startE > e then 0 else d.price * (min d.endE e - payStartOf d lu)

/-- `e` clamped into the deal's term `[start, end]` -/
def clampE (d : Proposal) (e : Int) : Int := max d.startE (min d.endE e)

/-- a stored `last_updated_epoch` is either "never" or a real epoch not after now and before the
    end (a deal settled at or after its end is deleted) -/
def LuOk (d : Proposal) (lu e : Int) : Prop := lu = -1 ∨ (0 ≤ lu ∧ lu ≤ e ∧ lu < d.endE)

/-- one settlement pays exactly `price × (clamp e − clamp lu)`: the epochs of the term between the
    previous settlement and this one -/
theorem payWindow_closed_form (d : Proposal) (lu e : Int) (hd : d.startE < d.endE)
    (h0 : 0 ≤ d.startE) (hlu : LuOk d lu e) :
    payWindow d lu e = d.price * (clampE d e - clampE d lu) := by
  unfold payWindow
  by_cases hs : d.startE > e
  · simp only [hs, if_true]
    have : clampE d e - clampE d lu = 0 := by
      unfold clampE
      rcases hlu with h | ⟨h1, h2, h3⟩
      · subst h; omega
      · omega
    rw [this]; simp
  · simp only [hs, if_false]
    have hps : payStartOf d lu = max d.startE lu := by
      unfold payStartOf
      rcases hlu with h | ⟨h1, h2, h3⟩
      · subst h; simp; omega
      · split <;> omega
    have : min d.endE e - payStartOf d lu = clampE d e - clampE d lu := by
      rw [hps]
      unfold clampE
      rcases hlu with h | ⟨h1, h2, h3⟩
      · subst h; omega
      · omega
    rw [this]

/-- the payment is never negative -/
theorem payWindow_nonneg (d : Proposal) (lu e : Int) (hd : d.startE < d.endE) (h0 : 0 ≤ d.startE)
    (hp : 0 ≤ d.price) (hlu : LuOk d lu e) : 0 ≤ payWindow d lu e := by
  rw [payWindow_closed_form d lu e hd h0 hlu]
  apply Int.mul_nonneg hp
  unfold clampE
  rcases hlu with h | ⟨h1, h2, h3⟩
  · subst h; omega
  · omega

/-- **No epoch is paid twice and none is skipped**: the window paid by a settlement starts exactly
    where the previous one ended — two successive settlements at `e₁ ≤ e₂` pay together what a
    single settlement at `e₂` would have paid. -/
theorem no_double_pay (d : Proposal) (lu e1 e2 : Int) (hd : d.startE < d.endE) (h0 : 0 ≤ d.startE)
    (hlu : LuOk d lu e1) (h01 : 0 ≤ e1) (h12 : e1 ≤ e2) (h1 : e1 < d.endE) :
    payWindow d lu e1 + payWindow d e1 e2 = payWindow d lu e2 := by
  have hlu2 : LuOk d lu e2 := by
    rcases hlu with h | ⟨a, b, c⟩
    · exact Or.inl h
    · exact Or.inr ⟨a, by omega, c⟩
  rw [payWindow_closed_form d lu e1 hd h0 hlu, payWindow_closed_form d lu e2 hd h0 hlu2,
    payWindow_closed_form d e1 e2 hd h0 (Or.inr ⟨h01, h12, h1⟩)]
  rw [← Int.mul_add]
  congr 1
  omega

/-- the settlement epochs of a schedule are in time order, starting not before `a` -/
def Mono : Int → List Int → Prop
  | _, [] => True
  | a, e :: t => a ≤ e ∧ Mono e t

/-- total paid to the provider by settling at the epochs of a schedule, one after the other (the
    deal is deleted by the first settlement at or after its end: later ones pay nothing) -/
def paidBySchedule (d : Proposal) : Int → List Int → Int
  | _, [] => 0
  | lu, e :: rest => payWindow d lu e + (if e ≥ d.endE then 0 else paidBySchedule d e rest)

def lastEpoch : Int → List Int → Int
  | a, [] => a
  | _, e :: t => lastEpoch e t

theorem lastEpoch_ge (es : List Int) : ∀ a, Mono a es → a ≤ lastEpoch a es := by
  induction es with
  | nil => intro a _; exact Int.le_refl _
  | cons e t ih => intro a h; exact Int.le_trans h.1 (ih e h.2)

/-- **Schedule independence**: for an activated deal last settled at `lu` and *any* finite
    time-ordered sequence of settlement / cron epochs `e₁ ≤ … ≤ eₖ`, the provider is credited in
    total `price × (clamp eₖ − clamp lu)` — the number of epochs of the term elapsed at the last
    settlement — whatever `k` and the intermediate points are (one call at the end, many partial
    settlements, calls before the start, exactly at the boundaries or long after the end). -/
theorem payments_telescoping (d : Proposal) (hd : d.startE < d.endE) (h0 : 0 ≤ d.startE)
    (es : List Int) : ∀ (lu : Int), LuOk d lu lu → Mono (max lu 0) es →
      paidBySchedule d lu es = d.price * (clampE d (lastEpoch lu es) - clampE d lu) := by
  induction es with
  | nil => intro lu _ _; simp [paidBySchedule, lastEpoch]
  | cons e rest ih =>
    intro lu hlu hm
    obtain ⟨hle, hm2⟩ := hm
    have hlue : LuOk d lu e := by
      rcases hlu with h | ⟨a, _, c⟩
      · exact Or.inl h
      · exact Or.inr ⟨a, by omega, c⟩
    simp only [paidBySchedule, lastEpoch]
    rw [payWindow_closed_form d lu e hd h0 hlue]
    by_cases hend : e ≥ d.endE
    · simp only [hend, if_true, Int.add_zero]
      have hl := lastEpoch_ge rest e hm2
      congr 1
      unfold clampE
      omega
    · simp only [hend, if_false]
      have he0 : 0 ≤ e := by omega
      have hm3 : Mono (max e 0) rest := by
        have : max e 0 = e := by omega
        rw [this]; exact hm2
      rw [ih e (Or.inr ⟨he0, Int.le_refl _, by omega⟩) hm3, ← Int.mul_add]
      congr 1
      omega

/-- in particular the whole fee has been paid once a settlement happened at or after the end, and
    the total is the same as for the one-call schedule `[eₖ]` -/
theorem payments_path_independent (d : Proposal) (hd : d.startE < d.endE) (h0 : 0 ≤ d.startE)
    (es : List Int) (hne : es ≠ []) (lu : Int) (hlu : LuOk d lu lu) (hm : Mono (max lu 0) es) :
    paidBySchedule d lu es = paidBySchedule d lu [lastEpoch lu es] := by
  rw [payments_telescoping d hd h0 es lu hlu hm]
  have hl := lastEpoch_ge es _ hm
  have hsame : lastEpoch (max lu 0) es = lastEpoch lu es := by
    cases es with
    | nil => exact absurd rfl hne
    | cons e t => rfl
  rw [hsame] at hl
  rw [payments_telescoping d hd h0 [lastEpoch lu es] lu hlu ⟨hl, trivial⟩]
  simp [lastEpoch]

/-! ### What the model's transitions pay (for every state, every deal) -/

/-- **A settlement pays the window, nothing else**: when `process_deal_update` succeeds for a deal
    it reports `payWindow d last_updated now`; the positive part of it moves from the client's
    escrow (and locked funds) to the provider's escrow, nobody else's balance changes, and the
    deal is reported completed exactly when the end epoch has been reached. -/
theorem settle_pays_window {s s' : State} {id : Nat} {d : Proposal} {st : DealState} {pay : Int}
    {completed : Bool} (h : processDealUpdate s id d st = .ok (s', pay, completed)) :
    pay = payWindow d st.lastUpdated s.epoch ∧
    (completed = true ↔ (d.startE ≤ s.epoch ∧ d.endE ≤ s.epoch)) ∧
    (∀ j, bal s'.escrow j = bal s.escrow j - ind j d.client (pos pay) + ind j d.provider (pos pay)) ∧
    (∀ j, bal s'.paid j = bal s.paid j + ind j id (pos pay)) ∧
    s'.totalClientFee = s.totalClientFee - pos pay := by
  obtain ⟨_, _, _, h4, h5, h6, m, _⟩ := processDealUpdate_ok h
  refine ⟨?_, ?_, ?_, h6, by rw [m.fee]; omega⟩
  · unfold payWindow
    by_cases hs : d.startE > s.epoch
    · simp only [hs, if_true]; exact (h4 hs).1
    · simp only [hs, if_false]; exact (h5 (by omega)).1
  · by_cases hs : d.startE > s.epoch
    · have := (h4 hs).2
      subst this
      simp; omega
    · have := (h5 (by omega)).2
      rw [this]
      constructor
      · intro hh; exact ⟨by omega, hh⟩
      · intro hh; exact hh.2
  · intro j; rw [m.escrow]; omega

/-- **Completion is exact**: when a settlement completes a deal (epoch ≥ end) both collaterals are
    unlocked in full — the provider's locked funds go down by its collateral and the client's by the
    last payment plus its collateral — and no escrow changes other than by the last payment:
    nothing is burnt. -/
theorem completion_exact {s s' : State} {id : Nat} {d : Proposal} {st : DealState} {pay : Int}
    (h : processDealUpdate s id d st = .ok (s', pay, true)) :
    d.endE ≤ s.epoch ∧
    (∀ j, bal s'.locked j = bal s.locked j - ind j d.client (pos pay + d.clientColl)
        - ind j d.provider d.providerColl) ∧
    (∀ j, bal s'.escrow j = bal s.escrow j - ind j d.client (pos pay) + ind j d.provider (pos pay)) ∧
    s'.totalClientColl = s.totalClientColl - d.clientColl ∧
    s'.totalProviderColl = s.totalProviderColl - d.providerColl ∧
    s'.burntTotal = s.burntTotal := by
  obtain ⟨_, r, _, h4, h5, _, m, _⟩ := processDealUpdate_ok h
  have he : d.endE ≤ s.epoch := by
    by_cases hs : d.startE > s.epoch
    · have := (h4 hs).2; simp at this
    · exact ((h5 (by omega)).2).mp rfl
  refine ⟨he, ?_, by intro j; rw [m.escrow]; omega, by rw [m.cc]; simp; omega,
    by rw [m.pc]; simp; omega, r.burntTotal⟩
  intro j; rw [m.locked]; simp [ind]; split <;> split <;> omega

/-- what the provider has been credited for a deal whose last settlement was at `lu` -/
def paidUpTo (d : Proposal) (lu : Int) : Int := d.price * (clampE d lu - d.startE)

/-- the closing payment of a termination at `se` brings the total credited to the provider to
    `price × (clamp se − start)`: the epochs of the term before the termination, whatever was
    settled before -/
theorem termination_total (d : Proposal) (lu se : Int) (hd : d.startE < d.endE) (h0 : 0 ≤ d.startE)
    (hp : 0 ≤ d.price) (hlu : LuOk d lu se) (hse : se < d.endE) :
    paidUpTo d lu + pos (termPayment d lu se) = paidUpTo d se ∧
    paidUpTo d se + termRemaining d se = d.fee := by
  have hw : max 0 (min d.endE se - max d.startE lu) = clampE d se - clampE d lu := by
    unfold clampE
    rcases hlu with h | ⟨a, b, c⟩
    · subst h; omega
    · omega
  have hnn : 0 ≤ termPayment d lu se := by
    unfold termPayment
    apply Int.mul_nonneg hp; omega
  constructor
  · rw [pos_of_nonneg hnn]
    unfold termPayment paidUpTo
    rw [hw, ← Int.mul_add]
    congr 1; omega
  · unfold paidUpTo termRemaining Proposal.fee
    rw [← Int.mul_add]
    congr 1
    unfold clampE; omega

/-- **Early termination is exact**: terminating an activated deal at `se` before its end (with any
    settlements before) credits the provider the epochs from the last settlement to `se`, hands the
    client back its collateral plus the fee of the remaining epochs `price × (end − max se start)`,
    and burns the provider's collateral in full: the provider's escrow goes down by exactly it and
    the same amount is returned as the amount to burn. -/
theorem termination_exact {s s' : State} {c : Nat} {se : Int} {id : Nat} {a : Int} {d : Proposal}
    {st : DealState} (h : terminateOne s c se id = .ok (s', a))
    (hp : alookup id s.proposals = some d) (hst : alookup id s.states = some st) (hse : se < d.endE) :
    d.provider = c ∧ a = d.providerColl ∧
    (∀ j, bal s'.escrow j = bal s.escrow j - ind j d.client (pos (termPayment d st.lastUpdated se))
        + ind j d.provider (pos (termPayment d st.lastUpdated se)) - ind j d.provider d.providerColl) ∧
    (∀ j, bal s'.locked j = bal s.locked j
        - ind j d.client (pos (termPayment d st.lastUpdated se) + termRemaining d se + d.clientColl)
        - ind j d.provider d.providerColl) ∧
    alookup id s'.proposals = none ∧ alookup id s'.states = none ∧
    s'.burntTotal = s.burntTotal + d.providerColl ∧
    (id, terminatedRecord s id d st se) ∈ s'.closed := by
  rcases terminateOne_ok h with ⟨hn, _, _⟩ | ⟨d', hd', _, hle, _, _⟩ | ⟨d', st', hd', hc, _, hst', ha, _, _, _, r, _, _, m⟩
  · rw [hp] at hn; simp at hn
  · rw [hp] at hd'; injection hd' with hd'; subst hd'; omega
  · rw [hp] at hd'; injection hd' with hd'; subst hd'
    rw [hst] at hst'; injection hst' with hst'; subst hst'
    refine ⟨hc, ha, by intro j; rw [m.escrow]; omega, by intro j; rw [m.locked]; omega, ?_, ?_, ?_, ?_⟩
    · rw [r.proposals]; exact alookup_aerase_same _ _
    · rw [r.states]; exact alookup_aerase_same _ _
    · rw [r.burntTotal]; rfl
    · rw [r.closed]; simp

/-- **A missed activation is exact**: the time-out of a proposal that was never activated removes it,
    pays the provider nothing, unlocks the client's whole fee and collateral and burns the
    provider's collateral in full. -/
theorem timeout_exact {s s' : State} {id : Nat} {d : Proposal} (h : timeoutDeal s id d = .ok s') :
    (∀ j, bal s'.escrow j = bal s.escrow j - ind j d.provider d.providerColl) ∧
    (∀ j, bal s'.locked j = bal s.locked j - ind j d.client (d.fee + d.clientColl)
        - ind j d.provider d.providerColl) ∧
    alookup id s'.proposals = none ∧ d ∉ s'.pending ∧
    s'.burntTotal = s.burntTotal + d.providerColl ∧
    s'.totalClientFee = s.totalClientFee - d.fee ∧
    s'.totalClientColl = s.totalClientColl - d.clientColl ∧
    s'.totalProviderColl = s.totalProviderColl - d.providerColl := by
  obtain ⟨_, _, _, _, r, hpend, _, m⟩ := timeoutDeal_ok h
  refine ⟨by intro j; rw [m.escrow]; omega, by intro j; rw [m.locked]; omega, ?_, ?_, ?_, by rw [m.fee]; omega,
    by rw [m.cc]; omega, by rw [m.pc]; omega⟩
  · rw [r.proposals]; exact alookup_aerase_same _ _
  · rw [hpend]; simp [pendingRemove]
  · rw [r.burntTotal]; rfl

/-- a proposal is timed out only when it was never activated and its start epoch has come: the
    settlement path (`SettleDealPayments`) -/
theorem timeout_only_after_start_settle {s : State} {id : Nat} {d : Proposal}
    (hp : alookup id s.proposals = some d) (hgone : alookup id (settleOne s id).1.proposals = none) :
    (alookup id s.states = none ∧ d.startE ≤ s.epoch) ∨
    (∃ st, alookup id s.states = some st ∧ d.endE ≤ s.epoch) := by
  unfold settleOne at hgone
  simp only [hp] at hgone
  cases hst : alookup id s.states with
  | none =>
    left
    simp only [hst] at hgone
    by_cases he : s.epoch < d.startE
    · simp [he, hp] at hgone
    · exact ⟨rfl, by omega⟩
  | some st =>
    right
    simp only [hst] at hgone
    refine ⟨st, rfl, ?_⟩
    cases hu : processDealUpdate s id d st with
    | error e => simp [hu, hp] at hgone
    | ok r =>
      obtain ⟨s1, pay, completed⟩ := r
      obtain ⟨_, reg, _, h4, h5, _, _, _⟩ := processDealUpdate_ok hu
      simp only [hu] at hgone
      cases completed with
      | true =>
        by_cases hs : d.startE > s.epoch
        · have := (h4 hs).2; simp at this
        · exact ((h5 (by omega)).2).mp rfl
      | false =>
        simp [reg.proposals, hp] at hgone

/-! ### Over whole histories (any interleaving of all operations on all deals) -/

/-- **Credited so far, whatever the schedule.**  After *any* history — deposits, withdrawals,
    publications, activations, settlement calls at any epochs in any grouping, cron ticks,
    terminations, for any number of deals and parties — the total credited to the provider of a
    live deal (the ghost ledger `paid`, written exactly where `transfer_balance` moves the funds,
    see `settle_pays_window`) is `price × (settled-up-to − start)`, where settled-up-to is the start
    for a deal never settled and `max start last_updated` otherwise: it depends on the last
    settlement epoch only, not on how many settlements there were or where. -/
theorem credited_so_far (ops : List Op) (id : Nat) (d : Proposal)
    (h : alookup id (run init ops).proposals = some d) :
    bal (run init ops).paid id =
      d.price * (luTo d (alookup id (run init ops).states) - d.startE) :=
  (inv_reachable ops).ledg.live id d h

/-- **Every deal that ever ended, ended with exact totals.**  After any history, each closing
    record satisfies: *completed* — the provider was credited the whole fee `price × (end − start)`,
    both collaterals were returned, nothing burnt, and it happened at or after the end epoch;
    *terminated* at `t < end` — credited `price × (clamp t − start)`, the client got back its
    collateral and `price × (end − max t start)`, credited + refunded = the whole fee, the
    provider's collateral was burnt in full and none returned; *timed out* (never activated, at
    `t ≥ start`) — nothing credited, the client got back the whole fee and its collateral, the
    provider's collateral was burnt in full. -/
theorem every_ending_exact (ops : List Op) (id : Nat) (c : Closed)
    (h : (id, c) ∈ (run init ops).closed) : ClosedOk c :=
  (inv_reachable ops).ledg.closed id c h

/-- reading of `every_ending_exact` for completed deals -/
theorem completed_paid_in_full (ops : List Op) (id : Nat) (c : Closed)
    (h : (id, c) ∈ (run init ops).closed) (hk : c.kind = .completed) :
    c.paid = c.deal.price * (c.deal.endE - c.deal.startE) ∧ c.burnt = 0 ∧
    c.clientCollRefund = c.deal.clientColl ∧ c.providerCollRefund = c.deal.providerColl := by
  have := every_ending_exact ops id c h
  simp only [ClosedOk, hk] at this
  exact ⟨this.1, this.2.2.2.2.1, this.2.2.1, this.2.2.2.1⟩

/-- reading of `every_ending_exact` for early terminations and missed activations: the provider's
    collateral is burnt in full and the client gets everything back that was not paid -/
theorem slashed_in_full (ops : List Op) (id : Nat) (c : Closed)
    (h : (id, c) ∈ (run init ops).closed) (hk : c.kind ≠ .completed) :
    c.burnt = c.deal.providerColl ∧ c.providerCollRefund = 0 ∧
    c.clientCollRefund = c.deal.clientColl ∧ c.paid + c.feeRefund = c.deal.fee := by
  have := every_ending_exact ops id c h
  cases hkind : c.kind with
  | completed => exact absurd hkind hk
  | terminated =>
    simp only [ClosedOk, hkind] at this
    exact ⟨this.2.2.2.2.2.1, this.2.2.2.2.1, this.2.2.2.1, this.2.2.1⟩
  | timedOut =>
    simp only [ClosedOk, hkind] at this
    exact ⟨this.2.2.2.2.1, this.2.2.2.1, this.2.2.1, by rw [this.1, this.2.1]; omega⟩

/-! ### Non-vacuity: concrete histories -/

def exDeal : Proposal :=
  { client := 101, provider := 200, startE := 10, endE := 20, price := 3, clientColl := 7,
    providerColl := 11, verified := false, tag := 1 }

def exIn : DealIn := { d := exDeal, sigOk := true, boundsOk := true, dcOk := true, providerMatches := true }
def exEnv : PublishEnv :=
  { provider := 200, providerResolves := true, providerIsMiner := true, callerControls := true,
    datacapOk := true, notifyOk := true }

/-- publish + activate a deal of price 3 over [10, 20) -/
def exActive : State :=
  run init [.addBalance 101 1000 true, .addBalance 200 5000 true, .advance 5,
    .publish exEnv [exIn], .activate 200 true [{ sector := 4, expiry := 100, ids := [0] }]]

/-- three schedules — one call after the end; partial settlements at 9, 10, 15, 19, 20; settlement
    at 15 then the end — all leave the provider with 5000 + 30 and the client with 1000 − 30 -/
example :
    bal (run exActive [.advance 25, .settle [0] true]).escrow 200 = 5030 ∧
    bal (run exActive [.advance 9, .settle [0] true, .advance 10, .settle [0] true, .advance 15,
      .settle [0] true, .advance 19, .settle [0] true, .advance 20, .settle [0] true]).escrow 200 = 5030 ∧
    bal (run exActive [.advance 15, .settle [0] true, .advance 300, .settle [0] true]).escrow 101 = 970 ∧
    (run exActive [.advance 15, .settle [0] true, .advance 300, .settle [0] true]).proposals = [] := by
  decide

/-- termination at 14 after a settlement at 12: provider keeps 3·4 = 12 and loses its collateral 11,
    the client is left with 1000 − 12, nothing stays locked -/
example :
    let s := run exActive [.advance 12, .settle [0] true, .advance 14, .terminate 200 true [4] true]
    bal s.escrow 200 = 5000 + 12 - 11 ∧ bal s.escrow 101 = 1000 - 12 ∧ bal s.locked 101 = 0 ∧
    bal s.locked 200 = 0 ∧ s.burntTotal = 11 := by
  decide

/-- a proposal that is not activated is timed out at its start epoch: collateral burnt, client free -/
example :
    let s := run init [.addBalance 101 1000 true, .addBalance 200 5000 true, .advance 5,
      .publish exEnv [exIn], .advance 10, .settle [0] true]
    s.proposals = [] ∧ bal s.escrow 200 = 5000 - 11 ∧ bal s.locked 101 = 0 ∧ s.burntTotal = 11 := by
  decide

example : paidBySchedule exDeal (-1) [3, 10, 12, 12, 19, 25, 40] = 30 ∧
    paidBySchedule exDeal (-1) [40] = 30 ∧ Mono (max (-1) 0) [3, 10, 12, 12, 19, 25, 40] :=
  ⟨by decide, by decide, by simp [Mono]; omega⟩

end BA.Market
