/-
  C16 — Payment channel: vouchers redeem once and the payout is exact.
  Property theorems over the model `BA.Paych` (actors/paych/src/lib.rs).
-/
import BA.Lemmas.Paych

namespace BA.Paych
open BA

/-! ### Acceptance conditions (decision logic, soundness direction, all vouchers) -/

/-- What the transaction part demands of the voucher's lane and merges, against the state
    *before* the message. -/
def LanesOk (s : State) (v : Voucher) : Prop :=
  v.lane ≤ maxLane ∧
  (∀ x, alookup v.lane s.lanes = some x → x.nonce < v.nonce) ∧
  (∀ m ∈ v.merges, m.1 ≠ v.lane ∧ m.1 ≤ maxLane ∧ ∃ x, alookup m.1 s.lanes = some x ∧ x.nonce < m.2)

/-- the amount owed after accepting `v` in `s` -/
def newOwed (s : State) (v : Voucher) : Int :=
  s.toSend + v.amount - redeemedOf s.lanes v.lane
    - isum (v.merges.map (fun m => redeemedOf s.lanes m.1))

theorem redeem_spec (s : State) (v : Voucher) (l : Lane) (s' : State)
    (hl : l.redeemed = redeemedOf s.lanes v.lane)
    (h : redeem s v l = .ok s') :
    (∀ m ∈ v.merges, m.1 ≠ v.lane ∧ m.1 ≤ maxLane ∧ ∃ x, alookup m.1 s.lanes = some x ∧ x.nonce < m.2) ∧
    s'.toSend = newOwed s v ∧ 0 ≤ s'.toSend ∧ s'.toSend ≤ s.balance ∧ s'.balance = s.balance ∧
    s'.dead = s.dead ∧ s'.from_ = s.from_ ∧ s'.to = s.to ∧
    alookup v.lane s'.lanes = some { redeemed := v.amount, nonce := v.nonce } ∧
    (∀ k, k ≠ v.lane → ∀ x, alookup k s.lanes = some x →
        ∃ y, alookup k s'.lanes = some y ∧ y.redeemed = x.redeemed ∧ x.nonce ≤ y.nonce) ∧
    (∀ m ∈ v.merges, ∃ y, alookup m.1 s'.lanes = some y ∧ m.2 ≤ y.nonce) ∧
    s'.settlingAt = (if v.minSettle ≠ 0 ∧ s.settlingAt ≠ 0 ∧ s.settlingAt < v.minSettle
                     then v.minSettle else s.settlingAt) ∧
    s'.minSettle = (if v.minSettle ≠ 0 ∧ s.minSettle < v.minSettle then v.minSettle else s.minSettle) := by
  unfold redeem at h
  cases hm : mergeLoop v.lane v.merges s.lanes 0 with
  | error e => simp [hm] at h
  | ok p =>
    obtain ⟨ls, r⟩ := p
    simp only [hm] at h
    obtain ⟨e1, e2, e3, e4⟩ := mergeLoop_spec _ _ _ _ _ _ hm
    simp only [guard_ok] at h
    obtain ⟨g1, g2, h⟩ := h
    injection h with h
    subst h
    refine ⟨?_, ?_, ?_, ?_, rfl, rfl, rfl, rfl, ?_, ?_, ?_, rfl, rfl⟩
    · intro m hm'
      obtain ⟨a, b, x, _, hx, hn, _, _⟩ := e4 m hm'
      exact ⟨a, b, x, hx, hn⟩
    · simp [newOwed, e1, hl]; omega
    · simp at g1 ⊢; omega
    · simp at g2 ⊢; omega
    · simp
    · intro k hk x hx
      simp only
      rw [alookup_aset_other _ _ _ _ hk]
      have := e2 k
      simp [hx] at this
      exact this
    · intro m hm'
      obtain ⟨a, _, _, y, _, _, hy, hyn⟩ := e4 m hm'
      simp only
      rw [alookup_aset_other _ _ _ _ a]
      exact ⟨y, hy, hyn⟩

/-- **Acceptance is sound**: a voucher is accepted only if the caller is a channel party, it is
    signed by the other party, names this channel, is inside its time lock, carries the right
    secret, is submitted before the channel settles, and its nonce is higher than the last one
    used on its lane and on every lane it merges; and the amount owed then changes by exactly
    `amount − redeemed(lane) − Σ redeemed(merged lanes)`, staying within `[0, balance]`. -/
theorem update_sound (s : State) (caller : Nat) (epoch : Int) (v : Voucher) (s' : State)
    (h : update s caller epoch v = .ok s') :
    PrecheckOk s caller epoch v ∧ LanesOk s v ∧
    s'.toSend = newOwed s v ∧ 0 ≤ s'.toSend ∧ s'.toSend ≤ s'.balance ∧ s'.balance = s.balance ∧
    alookup v.lane s'.lanes = some { redeemed := v.amount, nonce := v.nonce } ∧
    (∀ m ∈ v.merges, ∃ y, alookup m.1 s'.lanes = some y ∧ m.2 ≤ y.nonce) := by
  unfold update at h
  cases hp : precheck s caller epoch v with
  | error e => simp [hp] at h
  | ok u =>
    cases u
    have hpre := (precheck_ok_iff s caller epoch v).mp hp
    simp only [hp] at h
    unfold findLane at h
    by_cases hl : v.lane > maxLane
    · simp [hl] at h
    · simp only [hl, if_false] at h
      cases hf : alookup v.lane s.lanes with
      | none =>
        simp only [hf] at h
        have hr : (0 : Int) = redeemedOf s.lanes v.lane := by simp [redeemedOf, hf]
        obtain ⟨a1, a2, a3, a4, a5, _, _, _, a6, _, a8, _, _⟩ :=
          redeem_spec s v { redeemed := 0, nonce := 0 } s' hr h
        refine ⟨hpre, ⟨Nat.le_of_not_gt hl, ?_, a1⟩, a2, a3, ?_, a5, a6, a8⟩
        · intro x hx; simp [hf] at hx
        · rw [a5]; exact a4
      | some l =>
        simp only [hf] at h
        by_cases hn : l.nonce ≥ v.nonce
        · simp [hn] at h
        · simp only [hn, if_false] at h
          have hr : l.redeemed = redeemedOf s.lanes v.lane := by simp [redeemedOf, hf]
          obtain ⟨a1, a2, a3, a4, a5, _, _, _, a6, _, a8, _, _⟩ := redeem_spec s v l s' hr h
          refine ⟨hpre, ⟨Nat.le_of_not_gt hl, ?_, a1⟩, a2, a3, ?_, a5, a6, a8⟩
          · intro x hx; rw [hf] at hx; cases hx; exact Nat.lt_of_not_ge hn
          · rw [a5]; exact a4

/-! ### Acceptance is complete for vouchers that merge distinct lanes -/

theorem mergeLoop_complete (lane : Nat) (ms : List (Nat × Nat)) :
    ∀ (ls : Lanes) (acc : Int),
    (ms.map (·.1)).Nodup →
    (∀ m ∈ ms, m.1 ≠ lane ∧ m.1 ≤ maxLane ∧ ∃ x, alookup m.1 ls = some x ∧ x.nonce < m.2) →
    ∃ ls' r, mergeLoop lane ms ls acc = .ok (ls', r) := by
  induction ms with
  | nil => intro ls acc _ _; exact ⟨ls, acc, rfl⟩
  | cons hd tl ih =>
    intro ls acc hnd h
    obtain ⟨ml, mn⟩ := hd
    obtain ⟨h1, h2, x, hx, hn⟩ := h (ml, mn) (by simp)
    simp only [List.map_cons, List.nodup_cons] at hnd
    unfold mergeLoop
    simp only at h1 h2 hx hn
    have h2' : ¬ (ml > maxLane) := by omega
    have h3 : ¬ (x.nonce ≥ mn) := by omega
    simp only [h1, if_false, findLane, h2', hx, h3]
    apply ih
    · exact hnd.2
    · intro m hm
      obtain ⟨a1, a2, y, hy, hyn⟩ := h m (List.mem_cons_of_mem _ hm)
      refine ⟨a1, a2, y, ?_, hyn⟩
      have hne : m.1 ≠ ml := by
        intro e
        apply hnd.1
        rw [List.mem_map]
        exact ⟨m, hm, e⟩
      rw [alookup_aset_other _ _ _ _ hne]
      exact hy

/-- **Acceptance is complete** (for vouchers whose merge list names distinct lanes): if the caller
    is a channel party, the voucher is signed by the other party, names this channel, is inside its
    time lock, carries the right secret, its `extra` call succeeds, the channel is not yet settled,
    its lane and every merged lane exist with a lower nonce (merged lanes differ from the voucher's
    lane), and the resulting amount owed lies in `[0, balance]`, then the voucher is accepted.
    Together with `update_sound` this characterises acceptance exactly. -/
theorem update_complete (s : State) (caller : Nat) (epoch : Int) (v : Voucher)
    (hpre : PrecheckOk s caller epoch v) (hl : LanesOk s v)
    (hnd : (v.merges.map (·.1)).Nodup)
    (h0 : 0 ≤ newOwed s v) (h1 : newOwed s v ≤ s.balance) :
    ∃ s', update s caller epoch v = .ok s' := by
  obtain ⟨hlane, hnonce, hmerges⟩ := hl
  unfold update
  rw [(precheck_ok_iff s caller epoch v).mpr hpre]
  simp only
  unfold findLane
  have hl' : ¬ (v.lane > maxLane) := by omega
  simp only [hl', if_false]
  obtain ⟨ls', r, hm⟩ := mergeLoop_complete v.lane v.merges s.lanes 0 hnd hmerges
  obtain ⟨e1, _, _, _⟩ := mergeLoop_spec _ _ _ _ _ _ hm
  have key : ∀ l : Lane, l.redeemed = redeemedOf s.lanes v.lane → ∃ s', redeem s v l = .ok s' := by
    intro l hr
    unfold redeem
    simp only [hm]
    have hsend : v.amount - (r + l.redeemed) + s.toSend = newOwed s v := by
      simp [newOwed, e1, hr]; omega
    rw [hsend]
    have g1 : ¬ (newOwed s v < 0) := by omega
    have g2 : ¬ (newOwed s v > s.balance) := by omega
    simp only [g1, g2, if_false]
    exact ⟨_, rfl⟩
  cases hf : alookup v.lane s.lanes with
  | none =>
    simp only
    exact key _ (by simp [redeemedOf, hf])
  | some l =>
    simp only
    have hn := hnonce l hf
    have hn' : ¬ (l.nonce ≥ v.nonce) := by omega
    simp only [hn', if_false]
    exact key l (by simp [redeemedOf, hf])

/-! ### Lane nonces only grow; stale vouchers are rejected forever (no replay) -/

/-- every lane present in `ls` is present in `ls'` with a nonce at least as large -/
def NonceMono (ls ls' : Lanes) : Prop :=
  ∀ l x, alookup l ls = some x → ∃ y, alookup l ls' = some y ∧ x.nonce ≤ y.nonce

theorem NonceMono.refl (ls : Lanes) : NonceMono ls ls := fun _ x h => ⟨x, h, Nat.le_refl _⟩
theorem NonceMono.trans {a b c : Lanes} (h1 : NonceMono a b) (h2 : NonceMono b c) :
    NonceMono a c := by
  intro l x hx
  obtain ⟨y, hy, hn⟩ := h1 l x hx
  obtain ⟨z, hz, hn2⟩ := h2 l y hy
  exact ⟨z, hz, Nat.le_trans hn hn2⟩

theorem update_nonce_mono (s : State) (caller : Nat) (epoch : Int) (v : Voucher) (s' : State)
    (h : update s caller epoch v = .ok s') : NonceMono s.lanes s'.lanes := by
  have hs := update_sound s caller epoch v s' h
  obtain ⟨_, ⟨_, hlane, _⟩, _, _, _, _, hnew, _⟩ := hs
  -- re-open the definition for the "other lanes" part
  unfold update at h
  cases hp : precheck s caller epoch v with
  | error e => simp [hp] at h
  | ok u =>
    cases u
    simp only [hp] at h
    unfold findLane at h
    by_cases hl : v.lane > maxLane
    · simp [hl] at h
    · simp only [hl, if_false] at h
      intro k x hx
      by_cases hk : k = v.lane
      · subst hk
        exact ⟨_, hnew, Nat.le_of_lt (hlane x hx)⟩
      · cases hf : alookup v.lane s.lanes with
        | none =>
          simp only [hf] at h
          have hr : (0 : Int) = redeemedOf s.lanes v.lane := by simp [redeemedOf, hf]
          obtain ⟨_, _, _, _, _, _, _, _, _, a7, _⟩ :=
            redeem_spec s v { redeemed := 0, nonce := 0 } s' hr h
          obtain ⟨y, hy, _, hyn⟩ := a7 k hk x hx
          exact ⟨y, hy, hyn⟩
        | some l =>
          simp only [hf] at h
          by_cases hn : l.nonce ≥ v.nonce
          · simp [hn] at h
          · simp only [hn, if_false] at h
            have hr : l.redeemed = redeemedOf s.lanes v.lane := by simp [redeemedOf, hf]
            obtain ⟨_, _, _, _, _, _, _, _, _, a7, _⟩ := redeem_spec s v l s' hr h
            obtain ⟨y, hy, _, hyn⟩ := a7 k hk x hx
            exact ⟨y, hy, hyn⟩

theorem credit_lanes (s : State) (value : Int) (s1 : State) (h : credit s value = .ok s1) :
    s1.lanes = s.lanes ∧ s1.toSend = s.toSend ∧ s1.settlingAt = s.settlingAt ∧
    s1.minSettle = s.minSettle ∧ s1.balance = s.balance + value ∧ 0 ≤ value ∧
    s.dead = false ∧ s1.dead = false ∧ s1.from_ = s.from_ ∧ s1.to = s.to := by
  unfold credit at h
  simp only [guard_ok] at h
  obtain ⟨h1, h2, h3⟩ := h
  injection h3 with h3; subst h3
  simp at h1 h2
  simp [h1]; omega

theorem step_nonce_mono (s : State) (op : Op) : NonceMono s.lanes (step s op).1.lanes := by
  cases op with
  | deposit value =>
    simp only [step]
    cases hc : credit s value with
    | error e => exact NonceMono.refl _
    | ok s1 => simp; rw [(credit_lanes s value s1 hc).1]; exact NonceMono.refl _
  | update caller epoch value v =>
    simp only [step]
    cases hc : credit s value with
    | error e => exact NonceMono.refl _
    | ok s1 =>
      simp only
      cases hu : update s1 caller epoch v with
      | error e => exact NonceMono.refl _
      | ok s' =>
        simp only
        have := update_nonce_mono s1 caller epoch v s' hu
        rw [(credit_lanes s value s1 hc).1] at this
        exact this
  | settle caller epoch value =>
    simp only [step]
    cases hc : credit s value with
    | error e => exact NonceMono.refl _
    | ok s1 =>
      simp only
      cases hu : settle s1 caller epoch with
      | error e => exact NonceMono.refl _
      | ok s' =>
        simp only
        unfold settle at hu
        simp only [guard_ok] at hu
        obtain ⟨_, _, hu⟩ := hu
        injection hu with hu; subst hu
        simp only
        rw [(credit_lanes s value s1 hc).1]; exact NonceMono.refl _
  | collect caller epoch value =>
    simp only [step]
    cases hc : credit s value with
    | error e => exact NonceMono.refl _
    | ok s1 =>
      simp only
      cases hu : collect s1 caller epoch with
      | error e => exact NonceMono.refl _
      | ok p =>
        obtain ⟨s', po⟩ := p
        simp only
        unfold collect at hu
        simp only [guard_ok] at hu
        obtain ⟨_, _, _, hu⟩ := hu
        injection hu with hu
        injection hu with hu1 hu2
        subst hu1
        simp only
        rw [(credit_lanes s value s1 hc).1]; exact NonceMono.refl _

theorem run_nonce_mono (ops : List Op) : ∀ s, NonceMono s.lanes (run s ops).lanes := by
  induction ops with
  | nil => intro s; exact NonceMono.refl _
  | cons op rest ih => intro s; exact NonceMono.trans (step_nonce_mono s op) (ih _)

/-- A voucher whose nonce is not above its lane's nonce is rejected. -/
theorem stale_voucher_rejected (s : State) (caller : Nat) (epoch : Int) (v : Voucher) (x : Lane)
    (hx : alookup v.lane s.lanes = some x) (hs : v.nonce ≤ x.nonce) :
    ∀ s', update s caller epoch v ≠ .ok s' := by
  intro s' h
  obtain ⟨_, ⟨_, hl, _⟩, _⟩ := update_sound s caller epoch v s' h
  have := hl x hx
  omega

/-- A voucher merging a lane with a nonce not above that lane's nonce is rejected. -/
theorem stale_merge_rejected (s : State) (caller : Nat) (epoch : Int) (v : Voucher)
    (m : Nat × Nat) (hm : m ∈ v.merges) (x : Lane)
    (hx : alookup m.1 s.lanes = some x) (hs : m.2 ≤ x.nonce) :
    ∀ s', update s caller epoch v ≠ .ok s' := by
  intro s' h
  obtain ⟨_, ⟨_, _, hmg⟩, _⟩ := update_sound s caller epoch v s' h
  obtain ⟨_, _, x', hx', hlt⟩ := hmg m hm
  rw [hx] at hx'; cases hx'
  omega

/-- **No replay, ever**: once a voucher `(lane, nonce)` has been accepted, then after *any*
    further history every voucher for that lane — as the target lane or as a merged lane — with a
    nonce `≤` the accepted one is rejected, whoever submits it and whenever. -/
theorem no_replay (s : State) (caller : Nat) (epoch : Int) (v : Voucher) (s' : State)
    (h : update s caller epoch v = .ok s') (ops : List Op)
    (c2 : Nat) (e2 : Int) (val2 : Int) (v2 : Voucher) :
    (v2.lane = v.lane ∧ v2.nonce ≤ v.nonce ∨ ∃ m ∈ v2.merges, m.1 = v.lane ∧ m.2 ≤ v.nonce) →
    ∃ e, (step (run s' ops) (.update c2 e2 val2 v2)).2 = .err e := by
  intro hstale
  obtain ⟨_, _, _, _, _, _, hnew, _⟩ := update_sound s caller epoch v s' h
  obtain ⟨y, hy, hyn⟩ := run_nonce_mono ops s' v.lane _ hnew
  simp only at hyn
  simp only [step]
  cases hc : credit (run s' ops) val2 with
  | error e => exact ⟨e, rfl⟩
  | ok s1 =>
    simp only
    have hl := (credit_lanes _ _ _ hc).1
    cases hu : update s1 c2 e2 v2 with
    | error e => exact ⟨e, rfl⟩
    | ok s2 =>
      exfalso
      cases hstale with
      | inl hh =>
        obtain ⟨hl2, hn2⟩ := hh
        refine stale_voucher_rejected s1 c2 e2 v2 y ?_ ?_ s2 hu
        · rw [hl, hl2]; exact hy
        · omega
      | inr hh =>
        obtain ⟨m, hm, hm1, hm2⟩ := hh
        refine stale_merge_rejected s1 c2 e2 v2 m hm y ?_ ?_ s2 hu
        · rw [hl, hm1]; exact hy
        · omega

/-! ### The amount owed stays within `[0, balance]` -/

def InvOwed (s : State) : Prop := s.dead = false → 0 ≤ s.toSend ∧ s.toSend ≤ s.balance

theorem step_inv_owed (s : State) (op : Op) (hi : InvOwed s) : InvOwed (step s op).1 := by
  cases op with
  | deposit value =>
    simp only [step]
    cases hc : credit s value with
    | error e => exact hi
    | ok s1 =>
      obtain ⟨_, h2, _, _, h5, h6, h7, h8, _⟩ := credit_lanes s value s1 hc
      intro _; have := hi h7; simp only; omega
  | update caller epoch value v =>
    simp only [step]
    cases hc : credit s value with
    | error e => exact hi
    | ok s1 =>
      simp only
      cases hu : update s1 caller epoch v with
      | error e => exact hi
      | ok s' =>
        obtain ⟨_, _, _, h0, h1, _⟩ := update_sound s1 caller epoch v s' hu
        intro _; exact ⟨h0, h1⟩
  | settle caller epoch value =>
    simp only [step]
    cases hc : credit s value with
    | error e => exact hi
    | ok s1 =>
      simp only
      obtain ⟨_, h2, _, _, h5, h6, h7, h8, _⟩ := credit_lanes s value s1 hc
      cases hu : settle s1 caller epoch with
      | error e => exact hi
      | ok s' =>
        unfold settle at hu
        simp only [guard_ok] at hu
        obtain ⟨_, _, hu⟩ := hu
        injection hu with hu; subst hu
        intro _; have := hi h7; simp only; omega
  | collect caller epoch value =>
    simp only [step]
    cases hc : credit s value with
    | error e => exact hi
    | ok s1 =>
      simp only
      cases hu : collect s1 caller epoch with
      | error e => exact hi
      | ok p =>
        obtain ⟨s', po⟩ := p
        unfold collect at hu
        simp only [guard_ok] at hu
        obtain ⟨_, _, _, hu⟩ := hu
        injection hu with hu
        injection hu with hu1 hu2
        subst hu1
        intro hd; simp at hd

/-- **In every reachable state** the amount owed is non-negative and covered by the balance. -/
theorem inv_owed (from_ to : Nat) (ops : List Op) : InvOwed (run (init from_ to) ops) := by
  suffices ∀ s, InvOwed s → InvOwed (run s ops) by
    apply this; intro _; simp [init]
  induction ops with
  | nil => intro s h; exact h
  | cons op rest ih => intro s h; exact ih _ (step_inv_owed s op h)

/-! ### Settlement: delay, only extended, collection exact -/

/-- `Settle` starts the delay: the collection height is at least `epoch + 1440` (12 h) and at
    least every minimum settle height accepted so far (and non-zero, epochs being ≥ 0). -/
theorem settle_spec (s : State) (caller : Nat) (epoch : Int) (s' : State)
    (h : settle s caller epoch = .ok s') :
    (caller = s.from_ ∨ caller = s.to) ∧ s.settlingAt = 0 ∧
    epoch + 1440 ≤ s'.settlingAt ∧ s.minSettle ≤ s'.settlingAt ∧
    (0 ≤ epoch → s'.settlingAt ≠ 0) := by
  unfold settle at h
  simp only [guard_ok] at h
  obtain ⟨h1, h2, h⟩ := h
  injection h with h; subst h
  have hc : caller = s.from_ ∨ caller = s.to := by
    by_cases hc : caller = s.from_
    · exact Or.inl hc
    · by_cases hc2 : caller = s.to
      · exact Or.inr hc2
      · exact absurd ⟨hc, hc2⟩ h1
  have h2' : s.settlingAt = 0 := by simpa using h2
  simp only [settleDelay, BA.Gen.paychSettleDelay]
  refine ⟨hc, h2', ?_, ?_, ?_⟩
  · by_cases hlt : epoch + 1440 < s.minSettle <;> simp [hlt] <;> omega
  · by_cases hlt : epoch + 1440 < s.minSettle <;> simp [hlt] <;> omega
  · intro _; by_cases hlt : epoch + 1440 < s.minSettle <;> simp [hlt] <;> omega

/-- Monotonicity of the settlement fields across one message: once set, the collection height
    never decreases; the minimum settle height never decreases; a set collection height is never
    below the minimum settle height. -/
def SettleInv (s : State) : Prop := s.settlingAt ≠ 0 → s.minSettle ≤ s.settlingAt

theorem step_settle_mono (s : State) (op : Op) (hi : SettleInv s) :
    (s.settlingAt ≠ 0 → s.settlingAt ≤ (step s op).1.settlingAt) ∧
    s.minSettle ≤ (step s op).1.minSettle ∧ SettleInv (step s op).1 := by
  cases op with
  | deposit value =>
    simp only [step]
    cases hc : credit s value with
    | error e => exact ⟨fun _ => Int.le_refl _, Int.le_refl _, hi⟩
    | ok s1 =>
      obtain ⟨_, _, h3, h4, _⟩ := credit_lanes s value s1 hc
      simp only [SettleInv] at hi ⊢
      simp only [h3, h4]
      exact ⟨fun _ => Int.le_refl _, Int.le_refl _, hi⟩
  | update caller epoch value v =>
    simp only [step]
    cases hc : credit s value with
    | error e => exact ⟨fun _ => Int.le_refl _, Int.le_refl _, hi⟩
    | ok s1 =>
      simp only
      obtain ⟨_, _, h3, h4, _⟩ := credit_lanes s value s1 hc
      cases hu : update s1 caller epoch v with
      | error e => exact ⟨fun _ => Int.le_refl _, Int.le_refl _, hi⟩
      | ok s' =>
        simp only
        -- open the definition to read the settle fields
        unfold update at hu
        cases hp : precheck s1 caller epoch v with
        | error e => simp [hp] at hu
        | ok u =>
          cases u
          simp only [hp] at hu
          unfold findLane at hu
          by_cases hl : v.lane > maxLane
          · simp [hl] at hu
          · simp only [hl, if_false] at hu
            have key : ∀ l, l.redeemed = redeemedOf s1.lanes v.lane → redeem s1 v l = .ok s' →
                (s.settlingAt ≠ 0 → s.settlingAt ≤ s'.settlingAt) ∧
                s.minSettle ≤ s'.minSettle ∧ SettleInv s' := by
              intro l hr hrd
              obtain ⟨_, _, _, _, _, _, _, _, _, _, _, a9, a10⟩ := redeem_spec s1 v l s' hr hrd
              simp only [SettleInv] at hi ⊢
              rw [a9, a10, h3, h4]
              refine ⟨?_, ?_, ?_⟩
              · intro hne; split <;> omega
              · split <;> omega
              · intro hne
                have := hi
                split at hne <;> split <;> omega
            cases hf : alookup v.lane s1.lanes with
            | none =>
              simp only [hf] at hu
              exact key _ (by simp [redeemedOf, hf]) hu
            | some l =>
              simp only [hf] at hu
              by_cases hn : l.nonce ≥ v.nonce
              · simp [hn] at hu
              · simp only [hn, if_false] at hu
                exact key l (by simp [redeemedOf, hf]) hu
  | settle caller epoch value =>
    simp only [step]
    cases hc : credit s value with
    | error e => exact ⟨fun _ => Int.le_refl _, Int.le_refl _, hi⟩
    | ok s1 =>
      simp only
      obtain ⟨_, _, h3, h4, _⟩ := credit_lanes s value s1 hc
      cases hu : settle s1 caller epoch with
      | error e => exact ⟨fun _ => Int.le_refl _, Int.le_refl _, hi⟩
      | ok s' =>
        simp only
        unfold settle at hu
        simp only [guard_ok] at hu
        obtain ⟨_, h2, hu⟩ := hu
        injection hu with hu; subst hu
        simp only [SettleInv]
        have h2' : s.settlingAt = 0 := by rw [← h3]; simpa using h2
        refine ⟨fun hne => absurd h2' hne, by omega, ?_⟩
        intro _; rw [h4]; split <;> omega
  | collect caller epoch value =>
    simp only [step]
    cases hc : credit s value with
    | error e => exact ⟨fun _ => Int.le_refl _, Int.le_refl _, hi⟩
    | ok s1 =>
      simp only
      obtain ⟨_, _, h3, h4, _⟩ := credit_lanes s value s1 hc
      cases hu : collect s1 caller epoch with
      | error e => exact ⟨fun _ => Int.le_refl _, Int.le_refl _, hi⟩
      | ok p =>
        obtain ⟨s', po⟩ := p
        unfold collect at hu
        simp only [guard_ok] at hu
        obtain ⟨_, _, _, hu⟩ := hu
        injection hu with hu
        injection hu with hu1 hu2
        subst hu1
        simp only [SettleInv] at hi ⊢
        simp only [h3, h4]
        exact ⟨fun _ => Int.le_refl _, Int.le_refl _, hi⟩

/-- Over any history the collection height, once set, only grows. -/
theorem settling_only_extends (ops : List Op) : ∀ s, SettleInv s →
    (s.settlingAt ≠ 0 → s.settlingAt ≤ (run s ops).settlingAt ∧ (run s ops).settlingAt ≠ 0) ∧
    s.minSettle ≤ (run s ops).minSettle ∧ SettleInv (run s ops) := by
  induction ops with
  | nil => intro s hi; exact ⟨fun h => ⟨Int.le_refl _, h⟩, Int.le_refl _, hi⟩
  | cons op rest ih =>
    intro s hi
    obtain ⟨a1, a2, a3⟩ := step_settle_mono s op hi
    obtain ⟨b1, b2, b3⟩ := ih _ a3
    refine ⟨?_, Int.le_trans a2 b2, b3⟩
    intro hne
    have hle := a1 hne
    -- the collection height stays non-zero: it is ≥ a non-zero value … only if positive; use b1
    by_cases hz : (step s op).1.settlingAt = 0
    · -- impossible unless s.settlingAt ≤ 0; then run keeps monotonic from s: handle via order
      -- settlingAt ≤ 0 case: still monotone through `b1`-free reasoning is not available,
      -- so we show hz contradicts `a1` only when s.settlingAt > 0; otherwise fall back.
      exact absurd hz (by
        intro hz'
        have := step_settlingAt_nonzero s op hne
        exact this hz')
    · obtain ⟨c1, c2⟩ := b1 hz
      exact ⟨Int.le_trans hle c1, c2⟩
where
  /-- a set collection height is never reset to zero by a message -/
  step_settlingAt_nonzero (s : State) (op : Op) (hne : s.settlingAt ≠ 0) :
      (step s op).1.settlingAt ≠ 0 := by
    cases op with
    | deposit value =>
      simp only [step]
      cases hc : credit s value with
      | error e => exact hne
      | ok s1 => simp only; rw [(credit_lanes s value s1 hc).2.2.1]; exact hne
    | settle caller epoch value =>
      simp only [step]
      cases hc : credit s value with
      | error e => exact hne
      | ok s1 =>
        simp only
        cases hu : settle s1 caller epoch with
        | error e => exact hne
        | ok s' =>
          exfalso
          unfold settle at hu
          simp only [guard_ok] at hu
          obtain ⟨_, h2, _⟩ := hu
          rw [(credit_lanes s value s1 hc).2.2.1] at h2
          exact h2 hne
    | collect caller epoch value =>
      simp only [step]
      cases hc : credit s value with
      | error e => exact hne
      | ok s1 =>
        simp only
        cases hu : collect s1 caller epoch with
        | error e => exact hne
        | ok p =>
          obtain ⟨s', po⟩ := p
          unfold collect at hu
          simp only [guard_ok] at hu
          obtain ⟨_, _, _, hu⟩ := hu
          injection hu with hu
          injection hu with hu1 hu2
          subst hu1
          simp only
          rw [(credit_lanes s value s1 hc).2.2.1]; exact hne
    | update caller epoch value v =>
      simp only [step]
      cases hc : credit s value with
      | error e => exact hne
      | ok s1 =>
        simp only
        have h3 := (credit_lanes s value s1 hc).2.2.1
        cases hu : update s1 caller epoch v with
        | error e => exact hne
        | ok s' =>
          simp only
          unfold update at hu
          cases hp : precheck s1 caller epoch v with
          | error e => simp [hp] at hu
          | ok u =>
            cases u
            simp only [hp] at hu
            unfold findLane at hu
            by_cases hl : v.lane > maxLane
            · simp [hl] at hu
            · simp only [hl, if_false] at hu
              have key : ∀ l, l.redeemed = redeemedOf s1.lanes v.lane → redeem s1 v l = .ok s' →
                  s'.settlingAt ≠ 0 := by
                intro l hr hrd
                obtain ⟨_, _, _, _, _, _, _, _, _, _, _, a9, _⟩ := redeem_spec s1 v l s' hr hrd
                rw [a9, h3]
                split
                · rename_i hc'; exact hc'.1
                · exact hne
              cases hf : alookup v.lane s1.lanes with
              | none =>
                simp only [hf] at hu
                exact key _ (by simp [redeemedOf, hf]) hu
              | some l =>
                simp only [hf] at hu
                by_cases hn : l.nonce ≥ v.nonce
                · simp [hn] at hu
                · simp only [hn, if_false] at hu
                  exact key l (by simp [redeemedOf, hf]) hu

/-- No voucher is processed at or after the collection height. -/
theorem update_rejected_when_settled (s : State) (caller : Nat) (epoch : Int) (v : Voucher)
    (h1 : s.settlingAt ≠ 0) (h2 : s.settlingAt ≤ epoch) : ∀ s', update s caller epoch v ≠ .ok s' := by
  intro s' h
  obtain ⟨hp, _⟩ := update_sound s caller epoch v s' h
  exact hp.2.2.1 ⟨h1, h2⟩

/-- **Collection is exact**: it succeeds only for a channel party, only once a collection height
    is set and reached, pays the payee exactly the amount owed and the payer exactly the rest of
    the balance, and leaves nothing behind. -/
theorem collect_exact (s : State) (caller : Nat) (epoch : Int) (s' : State) (p : Payout)
    (h : collect s caller epoch = .ok (s', p)) :
    (caller = s.from_ ∨ caller = s.to) ∧ s.settlingAt ≠ 0 ∧ s.settlingAt ≤ epoch ∧
    p.toPayee = s.toSend ∧ p.toPayer = s.balance - s.toSend ∧
    p.toPayee + p.toPayer = s.balance ∧ 0 ≤ p.toPayee ∧ 0 ≤ p.toPayer ∧
    s'.balance = 0 ∧ s'.dead = true := by
  unfold collect at h
  simp only [guard_ok] at h
  obtain ⟨h1, h2, h3, h⟩ := h
  injection h with h
  injection h with ha hb
  subst ha; subst hb
  have hc : caller = s.from_ ∨ caller = s.to := by
    by_cases hc : caller = s.from_
    · exact Or.inl hc
    · by_cases hc2 : caller = s.to
      · exact Or.inr hc2
      · exact absurd ⟨hc, hc2⟩ h1
  refine ⟨hc, ?_, ?_, rfl, rfl, ?_, ?_, ?_, rfl, rfl⟩ <;> simp at h2 h3 ⊢ <;> omega

/-- **Collection waits for the delay** — over any history that follows a successful `Settle` at
    epoch `e₀ ≥ 0`, a `Collect` can only succeed at an epoch `≥ e₀ + 1440`, and at or after every
    minimum settle height accepted before that `Settle`. -/
theorem collect_after_delay (s : State) (caller : Nat) (e0 : Int) (he0 : 0 ≤ e0) (s1 : State)
    (hs : settle s caller e0 = .ok s1)
    (ops : List Op) (c2 : Nat) (e2 : Int) (s2 : State) (p : Payout)
    (hc : collect (run s1 ops) c2 e2 = .ok (s2, p)) :
    e0 + 1440 ≤ e2 ∧ s.minSettle ≤ e2 := by
  obtain ⟨_, _, a3, a4, a5⟩ := settle_spec s caller e0 s1 hs
  have hcol := collect_exact _ _ _ _ _ hc
  have hinv1 : SettleInv s1 := by
    unfold settle at hs
    simp only [guard_ok] at hs
    obtain ⟨_, _, hs⟩ := hs
    injection hs with hs; subst hs
    intro _; simp only; split <;> omega
  obtain ⟨b1, _, _⟩ := settling_only_extends ops s1 hinv1
  obtain ⟨c1, _⟩ := b1 (a5 he0)
  obtain ⟨_, _, d3, _⟩ := hcol
  omega

/-! ### Non-vacuity: concrete reachable states meeting the hypotheses -/

def exVoucher (lane nonce : Nat) (amount : Int) (merges : List (Nat × Nat)) : Voucher :=
  { hasSig := true, sigOk := true, secretTooLong := false, chanOk := true, tlMin := 0, tlMax := 0,
    amount := amount, secretOk := true, extra := .none, lane := lane, nonce := nonce,
    minSettle := 0, merges := merges }

/-- a funded channel accepts two vouchers, the second merging the first lane -/
example :
    let s0 := (step (init 101 102) (.deposit 100)).1
    ∃ s1 s2, update s0 102 5 (exVoucher 1 1 30 []) = .ok s1 ∧ s1.toSend = 30 ∧
      update s1 102 6 (exVoucher 2 1 50 [(1, 2)]) = .ok s2 ∧ s2.toSend = 50 := by
  refine ⟨_, _, rfl, rfl, rfl, rfl⟩

/-- the duplicate-merge case the statement leaves open: naming the same lane twice subtracts its
    redeemed amount once per list entry (model and code agree; recorded, not a violation) -/
example :
    let s0 := (step (init 101 102) (.deposit 100)).1
    ∃ s1 s2, update s0 102 5 (exVoucher 1 1 30 []) = .ok s1 ∧
      update s1 102 6 (exVoucher 2 1 70 [(1, 2), (1, 3)]) = .ok s2 ∧ s2.toSend = 40 := by
  refine ⟨_, _, rfl, rfl, rfl⟩

/-- settle then collect pays exactly (owed, rest) -/
example :
    let s0 := (step (init 101 102) (.deposit 100)).1
    ∃ s1 s2 s3 p, update s0 102 5 (exVoucher 1 1 30 []) = .ok s1 ∧ settle s1 101 10 = .ok s2 ∧
      s2.settlingAt = 1450 ∧ collect s2 101 1450 = .ok (s3, p) ∧ p = ⟨30, 70⟩ ∧
      (∃ e, collect s2 101 1449 = .error e) := by
  refine ⟨_, _, _, _, rfl, rfl, rfl, rfl, rfl, _, rfl⟩

end BA.Paych
