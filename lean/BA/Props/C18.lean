/-
  C18 — EVM execution is total, bounded and respects read-only mode.
  Theorems over `BA.Evm.Machine` (hand-written, follows actors/evm/src/interpreter) instantiated with the
  tables regenerated from the source on every run (`BA.Gen.Evm`, tools/extract_opcodes.py): a changed
  macro discipline, arity, limit, guard or flag changes the generated file and breaks a `decide` below.
-/
import BA.Model.Evm.Machine

namespace BA.Props.C18
open BA.Evm.Machine BA.Gen.Evm

/-! ## the dispatch table -/

/-- The jump table has exactly 256 entries and entry `i` is the one for byte `i`: every byte value of a
    code string dispatches to a table entry (an instruction or `UNDEFINED`). -/
theorem table_covers_all_bytes :
    table.length = 256 ∧ (table.zipIdx.all fun p => p.1.byte == p.2) = true := by
  decide +kernel

/-- The specified stack limit, literally. -/
theorem stack_limit_is_1024 : BA.Gen.evmStackSize = 1024 ∧ stackSize = 1024 := by decide

/-- discipline of one table entry that makes its stack use safe:
    * a result pushed with `push_unchecked` needs a freed slot (≥ 1 value popped through the checked
      `pop_many`) or a preceding `ensure_one()?` whose error is propagated — never an ignored check;
    * `dup(i)` needs `i ≥ 1` (`assert!(i > 0)`), LOGn must not index past its topic slice;
    * the operand count handed to the handler equals the handler's parameter count, and the handler is one
      of the macro kind (jump handlers under `def_jmp!`, exit handlers under `def_exit!`). -/
def entrySafe (e : Entry) : Bool :=
  (match e.guard with
    | .none => e.pushes == 0
    | .checked => e.pushes == 1
    | .ensureOne => e.pushes == 1
    | .unchecked => e.pushes == 1 && decide (e.pops ≥ 1)
    | .ensureOneIgnored => false) &&
  (match e.kind with
    | .undefined => true
    | .dup => decide (e.arg ≥ 1) && e.guard == .checked
    | .swap => e.guard == .none
    | .pop => e.guard == .none
    | .push => e.guard == .checked && decide (e.arg ≤ 32)
    | .special => e.guard == .checked
    | .jmp => (e.target == .control_jump || e.target == .control_jumpi) && e.guard == .none
              && e.pops == expectedArity e
    | .exit => (e.target == .control_ret || e.target == .control_revert || e.target == .control_stop
                || e.target == .lifecycle_selfdestruct) && e.guard == .none && e.pops == expectedArity e
    | .stdlog => e.target == .log_event_log && decide (e.arg ≤ e.idents) && e.pops == expectedArity e
    | _ => e.pops == expectedArity e && e.target != .log_event_log &&
           !(e.target == .none_ || e.target == .stack_dup || e.target == .stack_swap || e.target == .stack_pop
             || e.target == .stack_push || e.target == .special_pc || e.target == .control_jump
             || e.target == .control_jumpi || e.target == .control_ret || e.target == .control_revert
             || e.target == .control_stop || e.target == .lifecycle_selfdestruct))

/-- Every one of the 256 entries of the regenerated table follows a safe discipline.  This is where an
    "unchecked push after zero pops", an ignored `ensure_one()`, `DUP0`, a LOGn with too few topic
    operands or a declared arity that differs from the handler's is caught. -/
theorem table_safe : (table.all entrySafe) = true := by decide +kernel

/-- Stack effect (δ, α) of every defined opcode as the Yellow Paper / EIPs specify it
    (DUPn: n ↦ n+1 and SWAPn: n+1 ↦ n+1 are expressed through `arg`). -/
def specArity : Nat → Option (Nat × Nat)
  | 0x00 => some (0, 0)
  | 0x01 | 0x02 | 0x03 | 0x04 | 0x05 | 0x06 | 0x07 | 0x0a | 0x0b => some (2, 1)
  | 0x08 | 0x09 => some (3, 1)
  | 0x10 | 0x11 | 0x12 | 0x13 | 0x14 | 0x16 | 0x17 | 0x18 | 0x1a | 0x1b | 0x1c | 0x1d => some (2, 1)
  | 0x15 | 0x19 | 0x1e => some (1, 1)
  | 0x20 => some (2, 1)
  | 0x30 | 0x32 | 0x33 | 0x34 | 0x36 | 0x38 | 0x3a | 0x3d => some (0, 1)
  | 0x31 | 0x35 | 0x3b | 0x3f | 0x40 => some (1, 1)
  | 0x37 | 0x39 | 0x3e => some (3, 0)
  | 0x3c => some (4, 0)
  | 0x41 | 0x42 | 0x43 | 0x44 | 0x45 | 0x46 | 0x47 | 0x48 => some (0, 1)
  | 0x50 => some (1, 0)
  | 0x51 | 0x54 | 0x5c => some (1, 1)
  | 0x52 | 0x53 | 0x55 | 0x5d => some (2, 0)
  | 0x56 => some (1, 0)
  | 0x57 => some (2, 0)
  | 0x58 | 0x59 | 0x5a => some (0, 1)
  | 0x5b => some (0, 0)
  | 0x5e => some (3, 0)
  | 0xf0 => some (3, 1)
  | 0xf1 => some (7, 1)
  | 0xf3 | 0xfd => some (2, 0)
  | 0xf4 | 0xfa => some (6, 1)
  | 0xf5 => some (4, 1)
  | 0xfe => some (0, 0)
  | 0xff => some (1, 0)
  | b =>
    if 0x5f ≤ b ∧ b ≤ 0x7f then some (0, 1)          -- PUSH0..PUSH32
    else if 0x80 ≤ b ∧ b ≤ 0x8f then some (0, 1)     -- DUPn (needs n = arg)
    else if 0x90 ≤ b ∧ b ≤ 0x9f then some (0, 0)     -- SWAPn (needs n + 1)
    else if 0xa0 ≤ b ∧ b ≤ 0xa4 then some (b - 0xa0 + 2, 0)
    else none

def entryMatchesSpec (e : Entry) : Bool :=
  match specArity e.byte with
  | none => e.kind == .undefined
  | some (d, a) =>
    e.kind != .undefined && e.pops == d && e.pushes == a &&
    (if 0x60 ≤ e.byte ∧ e.byte ≤ 0x7f then e.kind == .push && e.arg == e.byte - 0x5f
     else if e.byte = 0x5f then e.kind == .push && e.arg == 0
     else if 0x80 ≤ e.byte ∧ e.byte ≤ 0x8f then e.kind == .dup && e.arg == e.byte - 0x7f
     else if 0x90 ≤ e.byte ∧ e.byte ≤ 0x9f then e.kind == .swap && e.arg == e.byte - 0x8f
     else if 0xa0 ≤ e.byte ∧ e.byte ≤ 0xa4 then e.kind == .stdlog && e.arg == e.byte - 0xa0
     else true)

/-- The declared arity (values popped, values pushed, PUSH/DUP/SWAP/LOG index) of each of the 256 entries
    is the specified one, and exactly the specified opcodes are defined. -/
theorem table_arity_matches_spec : (table.all entryMatchesSpec) = true := by decide +kernel

/-! ## totality -/

/-- `run` is total: for every byte string as code, every jumpdest bitmap, every sequence of environment
    answers, every fuel and start state it ends in one of: a halting outcome (stop / return / revert /
    selfdestruct / end of code), an error of one of the defined classes, or out of fuel.  There is no
    stuck state. -/
theorem run_total (code : Code) (jd : List Bool) (ans : Nat → Answer) (fuel : Nat) (s : State) :
    (∃ o s', run code jd ans fuel s = .done o s') ∨ (∃ e s', run code jd ans fuel s = .err e s') ∨
    (∃ s', run code jd ans fuel s = .outOfFuel s') := by
  cases h : run code jd ans fuel s with
  | done o s' => exact .inl ⟨o, s', rfl⟩
  | err e s' => exact .inr (.inl ⟨e, s', rfl⟩)
  | outOfFuel s' => exact .inr (.inr ⟨s', rfl⟩)

/-- Every byte of the code dispatches to the table entry of that byte (no byte falls outside the table). -/
theorem lookup_in_table (b : UInt8) : lookup b ∈ table ∧ (lookup b).byte = b.toNat := by
  have hlen : table.length = 256 := table_covers_all_bytes.1
  have hb : b.toNat < table.length := by rw [hlen]; exact UInt8.toNat_lt b
  have hget : lookup b = table[b.toNat] := by
    unfold lookup; simp [List.getD, List.getElem?_eq_getElem hb]
  refine ⟨by rw [hget]; exact List.getElem_mem hb, ?_⟩
  have hall := table_covers_all_bytes.2
  rw [List.all_eq_true] at hall
  have := hall (table[b.toNat], b.toNat) (by
    rw [List.mem_zipIdx_iff_getElem?]; simp [List.getElem?_eq_getElem hb])
  rw [hget]; simpa using this

/-! ## stack bound -/

theorem push_len {st st' : List Word} {v : Word} (h : push st v = .ok st') :
    st'.length = st.length + 1 ∧ st.length < 1024 := by
  unfold push at h
  have : pushRejectAt = 1024 := rfl
  split at h
  · cases h
  · cases h; simp; omega

theorem popMany_ok {n : Nat} {st args rest : List Word} (h : popMany n st = .ok (args, rest)) :
    n ≤ st.length ∧ args.length = n ∧ rest.length = st.length - n ∧ st = args ++ rest := by
  unfold popMany at h
  have : popManySlack = 0 := rfl
  split at h
  · cases h
  · cases h
    refine ⟨by omega, ?_, by simp, by simp⟩
    simp; omega

theorem dup_ok {i : Nat} {st st' : List Word} (h : dup i st = .ok st') :
    1 ≤ i ∧ i ≤ st.length ∧ st.length < 1024 ∧ st'.length = st.length + 1 := by
  unfold dup at h
  have h1 : dupRejectAt = 1024 := rfl
  have h2 : dupSlack = 0 := rfl
  split at h
  · cases h
  · split at h
    · cases h
    · split at h
      · cases h
      · split at h
        · cases h; simp; omega
        · cases h

theorem swapTop_ok {i : Nat} {st st' : List Word} (h : swapTop i st = .ok st') :
    i < st.length ∧ st'.length = st.length := by
  unfold swapTop at h
  have h2 : swapSlack = 1 := rfl
  split at h
  · cases h
  · split at h
    · cases h; simp; omega
    · cases h

theorem dropTop_ok {st st' : List Word} (h : dropTop st = .ok st') :
    1 ≤ st.length ∧ st'.length = st.length - 1 := by
  cases st with
  | nil => cases h
  | cons x t => cases h; simp

theorem pre_ok {e : Entry} {st args rest : List Word} (h : pre e st = .ok (args, rest)) :
    e.pops ≤ st.length ∧ args.length = e.pops ∧ rest.length = st.length - e.pops ∧
    (e.guard = .ensureOne → rest.length < 1024) := by
  unfold pre at h
  cases hp : popMany e.pops st with
  | error er => rw [hp] at h; cases h
  | ok pr =>
    obtain ⟨a, r⟩ := pr
    rw [hp] at h
    have hk := popMany_ok hp
    have h1 : ensureOneRejectAt = 1024 := rfl
    cases hg : e.guard <;> simp only [hg] at h
    case ensureOne =>
      unfold ensureOne at h
      by_cases hc : r.length ≥ ensureOneRejectAt
      · simp [hc] at h
      · simp only [hc, if_false] at h
        cases h
        rw [h1] at hc
        exact ⟨hk.1, hk.2.1, hk.2.2.1, fun _ => by omega⟩
    all_goals (cases h; exact ⟨hk.1, hk.2.1, hk.2.2.1, fun hh => by cases hh⟩)

/-- Generic lemma per macro arm: on a stack within the limit, the push of the result keeps the limit when
    the arm is safe — `push_unchecked` after ≥ 1 checked pops, after `ensure_one()?`, or the checked push. -/
theorem post_bound {e : Entry} {st rest st' : List Word} {v : Word} (hsafe : entrySafe e = true)
    (hst : st.length ≤ 1024) (hrest : rest.length = st.length - e.pops) (hpops : e.pops ≤ st.length)
    (hens : e.guard = .ensureOne → rest.length < 1024)
    (h : post e rest v = .ok st') : st'.length ≤ 1024 := by
  unfold post at h
  unfold entrySafe at hsafe
  cases hg : e.guard <;> simp only [hg] at h hsafe
  case none => cases h; omega
  case unchecked =>
    cases h
    simp only [Bool.and_eq_true, decide_eq_true_eq] at hsafe
    simp [pushUnchecked]; omega
  case ensureOne =>
    cases h
    have := hens hg
    simp [pushUnchecked]; omega
  case ensureOneIgnored => simp at hsafe
  case checked =>
    have := push_len h
    omega

/-- **stack_bound.** `stack.length ≤ 1024` is an invariant of one step of any entry whose discipline is
    safe, whatever the handler computes and whatever the environment answers. -/
theorem stack_bound_entry (e : Entry) (hsafe : entrySafe e = true) (code : Code) (jd : List Bool)
    (a : Answer) (s s' : State) (hs : s.stack.length ≤ 1024)
    (h : stepEntry e code jd a s = .next s') : s'.stack.length ≤ 1024 := by
  unfold stepEntry at h
  cases hk : e.kind <;> simp only [hk] at h
  case undefined => cases h
  case dup =>
    cases hd : dup e.arg s.stack with
    | error er => rw [hd] at h; cases h
    | ok st => rw [hd] at h; cases h; have := dup_ok hd; simp; omega
  case swap =>
    cases hd : swapTop e.arg s.stack with
    | error er => rw [hd] at h; cases h
    | ok st => rw [hd] at h; cases h; have := swapTop_ok hd; simp; omega
  case pop =>
    cases hd : dropTop s.stack with
    | error er => rw [hd] at h; cases h
    | ok st => rw [hd] at h; cases h; have := dropTop_ok hd; simp; omega
  case push =>
    cases hd : push s.stack (pushValue code (s.pc + 1) e.arg 0) with
    | error er => rw [hd] at h; cases h
    | ok st => rw [hd] at h; cases h; have := push_len hd; simp; omega
  case special =>
    cases hd : push s.stack s.pc with
    | error er => rw [hd] at h; cases h
    | ok st => rw [hd] at h; cases h; have := push_len hd; simp; omega
  case jmp =>
    cases hp : pre e s.stack with
    | error er => rw [hp] at h; cases h
    | ok pr =>
      obtain ⟨args, rest⟩ := pr
      rw [hp] at h
      have hk' := pre_ok hp
      simp only at h
      split at h
      · cases h
      · cases hj : handleJmp e jd args { s with stack := rest } with
        | error er => rw [hj] at h; obtain ⟨x, y⟩ := er; cases h
        | ok r => rw [hj] at h; obtain ⟨x, y⟩ := r; cases h; simp; omega
  case exit =>
    cases hp : pre e s.stack with
    | error er => rw [hp] at h; cases h
    | ok pr =>
      obtain ⟨args, rest⟩ := pr
      rw [hp] at h
      simp only at h
      split at h
      · cases h
      · cases hj : handleExit e a args { s with stack := rest } with
        | error er => rw [hj] at h; obtain ⟨x, y⟩ := er; cases h
        | ok r => rw [hj] at h; obtain ⟨x, y⟩ := r; cases h
  all_goals
    cases hp : pre e s.stack with
    | error er => rw [hp] at h; cases h
    | ok pr =>
      obtain ⟨args, rest⟩ := pr
      rw [hp] at h
      have hk' := pre_ok hp
      simp only at h
      split at h
      · cases h
      · cases hj : handleValue e a args { s with stack := rest } with
        | error er => rw [hj] at h; obtain ⟨x, y⟩ := er; cases h
        | ok r =>
          rw [hj] at h; obtain ⟨v, y⟩ := r
          simp only at h
          cases hq : post e rest v with
          | error er => rw [hq] at h; cases h
          | ok st =>
            rw [hq] at h; cases h
            exact post_bound hsafe hs hk'.2.2.1 hk'.1 hk'.2.2.2 hq

theorem undefinedEntry_safe : entrySafe undefinedEntry = true := by decide

theorem lookup_safe (b : UInt8) : entrySafe (lookup b) = true := by
  have h := table_safe
  rw [List.all_eq_true] at h
  exact h _ (lookup_in_table b).1

/-- **stack_bound** for the real dispatch: one `step` on any code keeps `stack.length ≤ 1024`. -/
theorem stack_bound (code : Code) (jd : List Bool) (a : Answer) (s s' : State)
    (hs : s.stack.length ≤ 1024) (h : step code jd a s = .next s') : s'.stack.length ≤ 1024 := by
  unfold step at h
  cases hc : code[s.pc]? with
  | none => rw [hc] at h; cases h
  | some b =>
    rw [hc] at h
    exact stack_bound_entry (lookup b) (lookup_safe b) code jd a s s' hs h

/-- the states `run` passes through -/
inductive Reaches (code : Code) (jd : List Bool) : State → State → Prop
  | refl (s) : Reaches code jd s s
  | step {s s' s''} (a : Answer) : Reaches code jd s s' → step code jd a s' = .next s'' → Reaches code jd s s''

/-- The stack never exceeds 1024 items in any state reachable from a state within the limit (in
    particular from the empty stack of a fresh activation), for any code and any environment. -/
theorem stack_bound_reachable (code : Code) (jd : List Bool) (s s' : State)
    (hs : s.stack.length ≤ 1024) (h : Reaches code jd s s') : s'.stack.length ≤ 1024 := by
  induction h with
  | refl => exact hs
  | step a _ hstep ih => exact stack_bound code jd a _ _ ih hstep

/-! ## pops -/

/-- **pop_never_underflows_unsafely.** `pop_many::<n>` returns its `n` values only when the stack holds
    at least `n` (so `set_len(len - n)` and the `*const [U256; n]` read stay inside the vector); with
    fewer it fails with `stack underflow` and, at step level, nothing else happens. -/
theorem pop_never_underflows_unsafely (n : Nat) (st : List Word) :
    (∀ args rest, popMany n st = .ok (args, rest) →
        n ≤ st.length ∧ args.length = n ∧ rest.length = st.length - n ∧ st = args ++ rest) ∧
    (st.length < n → popMany n st = .error .stackUnderflow) := by
  refine ⟨fun _ _ h => popMany_ok h, fun h => ?_⟩
  unfold popMany
  have : popManySlack = 0 := rfl
  simp [this, h]

/-- `dup(i)` reads index `len - i` only for `1 ≤ i ≤ len < 1024`; `swap_top(i)` computes `len - i - 1`
    only for `i < len`: the preconditions the `unsafe` blocks of stack.rs state. -/
theorem dup_swap_indices_in_range (i : Nat) (st st' : List Word) :
    (dup i st = .ok st' → 1 ≤ i ∧ i ≤ st.length ∧ st.length < 1024) ∧
    (swapTop i st = .ok st' → i < st.length) :=
  ⟨fun h => ⟨(dup_ok h).1, (dup_ok h).2.1, (dup_ok h).2.2.1⟩, fun h => (swapTop_ok h).1⟩

/-- An instruction of a `pop_many` macro kind executed on too short a stack fails with
    `stack underflow` before its handler runs, leaving the state as it was. -/
theorem underflow_before_handler (e : Entry) (code : Code) (jd : List Bool) (a : Answer) (s : State)
    (hk : e.kind ≠ .undefined ∧ e.kind ≠ .dup ∧ e.kind ≠ .swap ∧ e.kind ≠ .pop ∧ e.kind ≠ .push ∧
          e.kind ≠ .special)
    (hshort : s.stack.length < e.pops) :
    stepEntry e code jd a s = .fail .stackUnderflow s := by
  have hp : pre e s.stack = .error .stackUnderflow := by
    unfold pre
    rw [(pop_never_underflows_unsafely e.pops s.stack).2 hshort]
  unfold stepEntry
  cases hkk : e.kind <;> simp_all

/-! ## memory -/

/-- **memory_guard.** `get_memory_region off size`: no region (and memory untouched, the offset is not
    even inspected) for `size = 0`; an error iff `size > u32::MAX`, or `size ≠ 0` and (`off > u32::MAX`
    or `off + size > u32::MAX`); otherwise the region `(off, size)` and memory grown to the 32-aligned end
    (never shrunk). -/
theorem memory_guard (mem : Nat) (off size : Nat) :
    (size = 0 → getMemoryRegion mem off size = .ok (none, mem)) ∧
    ((∃ e, getMemoryRegion mem off size = .error e) ↔
        (size > 4294967295 ∨ (size ≠ 0 ∧ (off > 4294967295 ∨ off + size > 4294967295)))) ∧
    (∀ e, getMemoryRegion mem off size = .error e → e = .illegalMemoryAccess) ∧
    (∀ r m, getMemoryRegion mem off size = .ok (some r, m) →
        r = (off, size) ∧ size ≠ 0 ∧ off + size ≤ 4294967295 ∧ mem ≤ m ∧ off + size ≤ m ∧
        (m = mem ∨ (m % 32 = 0 ∧ m < off + size + 32))) := by
  have h1 : memSizeBits = 32 := rfl
  have h2 : memOffsetBits = 32 := rfl
  have h3 : memSumBits = 32 := rfl
  have h4 : memSumChecked = true := rfl
  have hw : wordSize = 32 := rfl
  have hp : (2 : Nat) ^ 32 = 4294967296 := by decide
  unfold getMemoryRegion
  simp only [h1, h2, h3, h4, hp, if_true]
  refine ⟨?_, ?_, ?_, ?_⟩
  · intro hz; simp [hz]
  · constructor
    · rintro ⟨e, he⟩
      by_cases c1 : size ≥ 4294967296
      · left; omega
      · by_cases c2 : size = 0
        · simp [c2] at he
        · by_cases c3 : off ≥ 4294967296
          · right; exact ⟨c2, Or.inl (by omega)⟩
          · by_cases c4 : off + size ≥ 4294967296
            · right; exact ⟨c2, Or.inr (by omega)⟩
            · simp [c1, c2, c3, c4] at he
    · intro h
      rcases h with h | ⟨hz, h | h⟩
      · exact ⟨.illegalMemoryAccess, by simp [show size ≥ 4294967296 by omega]⟩
      · by_cases c1 : size ≥ 4294967296
        · exact ⟨.illegalMemoryAccess, by simp [c1]⟩
        · exact ⟨.illegalMemoryAccess, by simp [c1, hz, show off ≥ 4294967296 by omega]⟩
      · by_cases c1 : size ≥ 4294967296
        · exact ⟨.illegalMemoryAccess, by simp [c1]⟩
        · by_cases c3 : off ≥ 4294967296
          · exact ⟨.illegalMemoryAccess, by simp [c1, hz, c3]⟩
          · exact ⟨.illegalMemoryAccess, by simp [c1, hz, c3, show off + size ≥ 4294967296 by omega]⟩
  · intro e he
    by_cases c1 : size ≥ 4294967296 <;> simp [c1] at he
    · exact he.symm
    · by_cases c2 : size = 0 <;> simp [c2] at he
      by_cases c3 : off ≥ 4294967296 <;> simp [c3] at he
      · exact he.symm
      · by_cases c4 : off + size ≥ 4294967296 <;> simp [c4] at he
        exact he.symm
  · intro r m he
    by_cases c1 : size ≥ 4294967296 <;> simp [c1] at he
    by_cases c2 : size = 0 <;> simp [c2] at he
    by_cases c3 : off ≥ 4294967296 <;> simp [c3] at he
    by_cases c4 : off + size ≥ 4294967296 <;> simp [c4] at he
    obtain ⟨hr, hm⟩ := he
    refine ⟨hr.symm, c2, by omega, ?_⟩
    subst hm
    unfold grow align
    simp only [hw]
    by_cases g1 : off + size ≤ mem
    · simp [g1]
    · simp only [g1, if_false]
      by_cases g2 : (off + size) % 32 = 0
      · rw [if_pos g2]
        exact ⟨by omega, by omega, Or.inr ⟨g2, by omega⟩⟩
      · rw [if_neg g2]
        exact ⟨by omega, by omega, Or.inr ⟨by omega, by omega⟩⟩

/-! ## jumps -/

/-- **jump_only_to_jumpdest.** `JUMP`, and `JUMPI` when its condition is non-zero, continue at
    `dest + 1` only if `dest` is marked in the jumpdest bitmap; otherwise they fail with `bad jumpdest`.
    An untaken `JUMPI` continues at `pc + 1`. -/
theorem jump_only_to_jumpdest (e : Entry) (jd : List Bool) (args : List Word) (s : State) :
    (∀ pc' s', handleJmp e jd args s = .ok (pc', s') →
        s' = s ∧ ((validJumpDest jd (args.getD 0 0) = true ∧ pc' = args.getD 0 0 + 1) ∨
                  (e.target = .control_jumpi ∧ args.getD 1 0 = 0 ∧ pc' = s.pc + 1))) ∧
    (∀ er s', handleJmp e jd args s = .error (er, s') → er = .badJumpdest ∨ er = .arityMismatch) := by
  have h1 : jumpValidates = true := rfl
  have h2 : jumpiValidates = true := rfl
  unfold handleJmp
  constructor
  · intro pc' s' h
    cases ht : e.target <;> simp only [ht, h1, h2, if_true] at h <;> try (cases h; done)
    · split at h
      next hv => cases h; exact ⟨rfl, .inl ⟨hv, rfl⟩⟩
      next => cases h
    · split at h
      next hc =>
        split at h
        next hv => cases h; exact ⟨rfl, .inl ⟨hv, rfl⟩⟩
        next => cases h
      next hc => cases h; exact ⟨rfl, .inr ⟨rfl, Decidable.not_not.mp hc, rfl⟩⟩
  · intro er s' h
    cases ht : e.target <;> simp only [ht, h1, h2, if_true] at h <;>
      first
        | (cases h; right; rfl)
        | (split at h <;> first | (cases h; left; rfl) | (cases h) | (split at h <;> first | (cases h; left; rfl) | cases h))

/-- length in bytes of the instruction whose opcode is `b`: PUSHn carries n data bytes -/
def instrLen (b : Nat) : Nat := if 0x60 ≤ b ∧ b ≤ 0x7f then b - 0x60 + 2 else 1

/-- instruction boundaries of the decoding of `code`: offset 0, and the offset right after an instruction
    (opcode + push data) that starts at a boundary inside the code -/
inductive Boundary (code : Code) : Nat → Prop
  | zero : Boundary code 0
  | next {i b : Nat} : Boundary code i → byteAt code i = some b → Boundary code (i + instrLen b)

theorem instrLen_pos (b : Nat) : 1 ≤ instrLen b := by unfold instrLen; split <;> omega

/-- no boundary lies strictly inside an instruction (push data is never a boundary) -/
theorem boundary_gap (code : Code) : ∀ n j, j ≤ n → ∀ i b, Boundary code i → Boundary code j → i < j →
    byteAt code i = some b → i + instrLen b ≤ j := by
  intro n
  induction n with
  | zero => intro j hj i b _ _ hij _; omega
  | succ n ih =>
    intro j hj i b hi hbj hij hb
    cases hbj with
    | zero => omega
    | @next k bk hk hbk =>
      have hlen := instrLen_pos bk
      by_cases h1 : i < k
      · have := ih k (by omega) i b hi hk h1 hb; omega
      · by_cases h2 : i = k
        · subst h2; rw [hb] at hbk; cases hbk; omega
        · -- k < i < k + len: contradicts the gap property for the pair (k, i)
          have := ih i (by omega) k bk hk hi (by omega) hbk
          omega

theorem byteAt_lt {code : Code} {i b : Nat} (h : byteAt code i = some b) : i < code.length := by
  unfold byteAt at h
  cases hc : code[i]? with
  | none => rw [hc] at h; cases h
  | some x => exact (List.getElem?_eq_some_iff.mp hc).1

def marked (jd : List Bool) (j : Nat) : Bool := jd[j]?.getD false

theorem marked_replicate (n j : Nat) : marked (List.replicate n false) j = false := by
  unfold marked; rw [List.getElem?_replicate]; split <;> rfl

theorem marked_set_self {jd : List Bool} {i : Nat} (h : i < jd.length) : marked (jd.set i true) i = true := by
  simp [marked, h]

theorem marked_set_ne {jd : List Bool} {i j : Nat} (h : i ≠ j) : marked (jd.set i true) j = marked jd j := by
  simp [marked, List.getElem?_set_ne h]

/-- invariant of the analysis loop -/
theorem analyzeLoop_spec (code : Code) : ∀ fuel i jd, Boundary code i → jd.length = code.length →
    code.length ≤ fuel + i →
    (∀ j, marked jd j = true → j < i ∧ byteAt code j = some 0x5b ∧ Boundary code j) →
    (∀ j, j < i → byteAt code j = some 0x5b → Boundary code j → marked jd j = true) →
    ∀ j, marked (analyzeLoop code fuel i jd) j = true ↔ (byteAt code j = some 0x5b ∧ Boundary code j) := by
  have c1 : anaJumpdestByte = 0x5b := rfl
  have c2 : anaJumpdestStep = 1 := rfl
  have c3 : anaPushLo = 0x60 := rfl
  have c4 : anaPushHi = 0x7f := rfl
  have c5 : anaPushBase = 0x60 := rfl
  have c6 : anaPushAdd = 2 := rfl
  have c7 : anaOtherStep = 1 := rfl
  have done : ∀ i jd, code.length ≤ i →
      (∀ j, marked jd j = true → j < i ∧ byteAt code j = some 0x5b ∧ Boundary code j) →
      (∀ j, j < i → byteAt code j = some 0x5b → Boundary code j → marked jd j = true) →
      ∀ j, marked jd j = true ↔ (byteAt code j = some 0x5b ∧ Boundary code j) := by
    intro i jd hi hs hc j
    exact ⟨fun h => (hs j h).2, fun h => hc j (by have := byteAt_lt h.1; omega) h.1 h.2⟩
  intro fuel
  induction fuel with
  | zero =>
    intro i jd _ _ hf hs hc
    simp only [analyzeLoop]
    exact done i jd (by omega) hs hc
  | succ fuel ih =>
    intro i jd hbi hlen hf hs hc
    simp only [analyzeLoop]
    cases hb : byteAt code i with
    | none =>
      simp only
      have : code.length ≤ i := by
        unfold byteAt at hb
        cases hc' : code[i]? with
        | none => exact List.getElem?_eq_none_iff.mp hc'
        | some x => rw [hc'] at hb; cases hb
      exact done i jd this hs hc
    | some b =>
      simp only [c1, c2, c3, c4, c5, c6, c7]
      have hil := byteAt_lt hb
      by_cases hjd : b = 0x5b
      · subst hjd
        simp only [if_true]
        have hnext : Boundary code (i + 1) := by
          have := Boundary.next hbi hb; simpa [instrLen] using this
        apply ih (i + 1) (jd.set i true) hnext (by simp [hlen]) (by omega)
        · intro j hm
          by_cases hji : i = j
          · subst hji; exact ⟨by omega, hb, hbi⟩
          · rw [marked_set_ne hji] at hm
            have := hs j hm; exact ⟨by omega, this.2⟩
        · intro j hj hbj hBj
          by_cases hji : i = j
          · subst hji; exact marked_set_self (by omega)
          · rw [marked_set_ne hji]; exact hc j (by omega) hbj hBj
      · simp only [hjd, if_false]
        by_cases hp : 0x60 ≤ b ∧ b ≤ 0x7f
        · simp only [hp, and_self, if_true]
          have hnext : Boundary code (i + (b - 0x60) + 2) := by
            have := Boundary.next hbi hb
            simpa [instrLen, hp, Nat.add_assoc] using this
          apply ih _ jd hnext hlen (by omega)
          · intro j hm; have := hs j hm; exact ⟨by omega, this.2⟩
          · intro j hj hbj hBj
            by_cases hlt : j < i
            · exact hc j hlt hbj hBj
            · by_cases hji : j = i
              · subst hji; rw [hb] at hbj; cases hbj; omega
              · have := boundary_gap code j j (Nat.le_refl j) i b hbi hBj (by omega) hb
                simp [instrLen, hp] at this; omega
        · simp only [hp, if_false]
          have hnext : Boundary code (i + 1) := by
            have := Boundary.next hbi hb; simpa [instrLen, hp] using this
          apply ih _ jd hnext hlen (by omega)
          · intro j hm; have := hs j hm; exact ⟨by omega, this.2⟩
          · intro j hj hbj hBj
            by_cases hlt : j < i
            · exact hc j hlt hbj hBj
            · have hji : j = i := by omega
              subst hji; rw [hb] at hbj; cases hbj; omega

/-- **jumpdest_analysis.** The bitmap computed by the analysis loop of `Bytecode::new` marks offset `j`
    iff `code[j] = 0x5b` (JUMPDEST) and `j` is an instruction boundary of the decoding — so never a byte
    inside push data, including the data of a truncated trailing push. -/
theorem jumpdest_analysis (code : Code) (j : Nat) :
    validJumpDest (analyze code) j = true ↔ (byteAt code j = some 0x5b ∧ Boundary code j) := by
  have h := analyzeLoop_spec code code.length 0 (List.replicate code.length false) .zero (by simp)
    (by omega) (by intro j hm; rw [marked_replicate] at hm; cases hm) (by intro j hj; omega) j
  simpa [validJumpDest, marked, analyze] using h

/-- A taken jump of the machine running `code` with its own analysis lands right after a genuine
    JUMPDEST at an instruction boundary. -/
theorem jump_lands_after_jumpdest (code : Code) (e : Entry) (args : List Word) (s s' : State) (pc' : Nat)
    (h : handleJmp e (analyze code) args s = .ok (pc', s'))
    (htaken : e.target = .control_jump ∨ args.getD 1 0 ≠ 0) :
    ∃ d, pc' = d + 1 ∧ byteAt code d = some 0x5b ∧ Boundary code d := by
  have := (jump_only_to_jumpdest e (analyze code) args s).1 pc' s' h
  rcases this.2 with ⟨hv, hpc⟩ | ⟨ht, hz, _⟩
  · exact ⟨_, hpc, (jumpdest_analysis code _).mp hv⟩
  · rcases htaken with h' | h'
    · rw [h'] at ht; cases ht
    · exact absurd hz h'

/-! ## read-only mode -/

theorem guards_present : roGuardSstore = true ∧ roGuardTstore = true ∧ roGuardLog = true ∧
    roGuardCreate = true ∧ roGuardCreate2 = true ∧ roGuardSelfdestruct = true ∧
    roGuardCallValue = true ∧ flushRefusesReadonly = true ∧ staticCallPassesReadOnly = true ∧
    systemReadonlyFromRuntime = true := by decide

/-- **readonly_no_effects** (handlers).  With `readonly = true`, SSTORE, TSTORE, LOG0–4, CREATE, CREATE2,
    SELFDESTRUCT and CALL with a non-zero value fail with `read only` at their first statement: the state at
    the failure is the state before (storage / transient / log / nonce / tombstone / sends untouched, memory
    not even grown), whatever the operands and the environment. -/
theorem readonly_no_effects (e : Entry) (a : Answer) (args : List Word) (s : State)
    (hro : s.readonly = true) :
    ((e.target = .storage_sstore ∨ e.target = .storage_tstore ∨ e.target = .log_event_log ∨
      e.target = .lifecycle_create ∨ e.target = .lifecycle_create2) →
        handleValue e a args s = .error (.readOnly, s)) ∧
    (e.target = .lifecycle_selfdestruct → handleExit e a args s = .error (.readOnly, s)) ∧
    (e.target = .call_call_call → args.getD 2 0 > 0 → handleValue e a args s = .error (.readOnly, s)) := by
  obtain ⟨g1, g2, g3, g4, g5, g6, g7, -⟩ := guards_present
  refine ⟨?_, ?_, ?_⟩
  · rintro (h | h | h | h | h) <;> simp [handleValue, h, hro, g1, g2, g3, g4, g5]
  · intro h; simp [handleExit, h, hro, g6]
  · intro h hv
    have hv' : 0 < args[2]?.getD 0 := by simpa using hv
    simp [handleValue, h, callGeneric, hro, g7, hv']

/-- the opcodes whose handlers are the guarded ones -/
def effectBytes : List Nat := [0x55, 0x5d, 0xa0, 0xa1, 0xa2, 0xa3, 0xa4, 0xf0, 0xf5]

/-- In the regenerated table, SSTORE, TSTORE, LOG0–4, CREATE, CREATE2 dispatch to the guarded handlers under
    a value-kind macro, SELFDESTRUCT to `selfdestruct` under `def_exit!`, CALL to `call_call`. -/
theorem effect_bytes_dispatch :
    (effectBytes.all fun b => match table[b]? with
      | some e => (e.kind == .stdproc || e.kind == .stdfun || e.kind == .stdlog) &&
                  (e.target == .storage_sstore || e.target == .storage_tstore || e.target == .log_event_log ||
                   e.target == .lifecycle_create || e.target == .lifecycle_create2)
      | none => false) = true ∧
    (match table[0xff]? with | some e => e.kind == .exit && e.target == .lifecycle_selfdestruct | none => false) = true ∧
    (match table[0xf1]? with | some e => e.kind == .stdfun && e.target == .call_call_call | none => false) = true := by
  decide +kernel

/-- **readonly_no_effects** (step).  One step of an entry that dispatches to a guarded handler, in a
    read-only activation, never continues or halts: it fails (`stack underflow` when operands are missing,
    otherwise `read only`) and the effects performed and the dirty flag are those of the state before. -/
theorem readonly_step_fails (e : Entry) (code : Code) (jd : List Bool) (a : Answer) (s : State)
    (hro : s.readonly = true)
    (hk : e.kind = .stdproc ∨ e.kind = .stdfun ∨ e.kind = .stdlog)
    (ht : e.target = .storage_sstore ∨ e.target = .storage_tstore ∨ e.target = .log_event_log ∨
          e.target = .lifecycle_create ∨ e.target = .lifecycle_create2) :
    ∃ er s', stepEntry e code jd a s = .fail er s' ∧ s'.effects = s.effects ∧ s'.dirty = s.dirty ∧
      s'.memSize = s.memSize := by
  have hh := fun rest => (readonly_no_effects e a (s.stack.take e.pops) { s with stack := rest } hro).1 ht
  unfold stepEntry
  rcases hk with hk | hk | hk <;> simp only [hk]
  all_goals
    cases hp : pre e s.stack with
    | error er => exact ⟨er, s, rfl, rfl, rfl, rfl⟩
    | ok pr =>
      obtain ⟨args, rest⟩ := pr
      simp only
      split
      · exact ⟨_, s, rfl, rfl, rfl, rfl⟩
      · have := (readonly_no_effects e a args { s with stack := rest } hro).1 ht
        rw [this]
        exact ⟨_, _, rfl, rfl, rfl, rfl⟩

/-- **flush_refuses_readonly.** `flush` on a dirty read-only activation fails with `forbidden` before
    anything is written; a flush that succeeds in read-only mode wrote nothing; `forbidden` is its only
    error. -/
theorem flush_refuses_readonly (s : State) :
    (s.readonly = true → s.dirty = true → flush s = .error .forbidden) ∧
    (∀ s', s.readonly = true → flush s = .ok s' → s' = s) ∧
    (∀ e, flush s = .error e → e = .forbidden ∧ s.readonly = true ∧ s.dirty = true) := by
  have g : flushRefusesReadonly = true := rfl
  unfold flush
  refine ⟨?_, ?_, ?_⟩
  · intro h1 h2; simp [h1, h2, g]
  · intro s' h1 h
    cases hd : s.dirty <;> simp [hd, h1, g] at h
    exact h.symm
  · intro e h
    cases hd : s.dirty <;> cases hr : s.readonly <;> simp [hd, hr, g] at h
    exact ⟨h.symm, rfl, rfl⟩

theorem flush_effects {s s2 : State} (h : flush s = .ok s2) :
    s2.effects = s.effects ∨ s2.effects = s.effects ++ [.stateRootWritten] := by
  unfold flush at h
  repeat' split at h
  all_goals first | (cases h; done) | (cases h; simp)

/-- the flag handed to a nested activation: `parent.readonly ∨ kind = StaticCall` (CALL and the
    DELEGATECALL self-call pass no flag of their own; the runtime keeps a read-only caller's calls read-only) -/
theorem child_readonly_eq (p : Bool) (k : CallKind) :
    childReadonly p k = (p || decide (k = .staticCall)) := by
  have g1 : staticCallPassesReadOnly = true := rfl
  have g2 : systemReadonlyFromRuntime = true := rfl
  cases p <;> cases k <;> simp [childReadonly, systemReadonly, vmChildReadOnly, sendFlagReadOnly, g1, g2]

theorem readonly_stays (ks : List CallKind) : readonlyAlong true ks = true := by
  induction ks with
  | nil => rfl
  | cons k ks ih => simp [readonlyAlong, child_readonly_eq, ih]

/-- **readonly_sticky.** By induction on the call depth: whatever the top-level flag and whatever the kinds of
    the calls above and below, every activation beneath a STATICCALL (at any depth, through CALL,
    DELEGATECALL or STATICCALL) has `readonly = true`. -/
theorem readonly_sticky (top : Bool) (above below : List CallKind) :
    readonlyAlong top (above ++ .staticCall :: below) = true := by
  induction above generalizing top with
  | nil => simp [readonlyAlong, child_readonly_eq, readonly_stays]
  | cons k ks ih => simp only [List.cons_append, readonlyAlong]; exact ih _

/-- The nested activation a CALL-family instruction spawns is recorded with the READ_ONLY flag
    `kind = StaticCall`, after a successful flush; in a read-only parent a value-carrying CALL spawns nothing. -/
theorem call_send_flag (kind : CallKind) (a : Answer) (s : State) (dst value i1 i2 o1 o2 : Word)
    (v : Word) (s' : State) (h : callGeneric kind a s dst value i1 i2 o1 o2 = .ok (v, s')) :
    (s.readonly = true → value = 0) ∧
    (∀ k d w f, Effect.send k d w f ∈ s'.effects → Effect.send k d w f ∉ s.effects →
        k = kind ∧ w = value ∧ f = decide (kind = .staticCall)) := by
  have g7 : roGuardCallValue = true := rfl
  have g1 : staticCallPassesReadOnly = true := rfl
  have hflag : sendFlagReadOnly kind = decide (kind = .staticCall) := by
    cases kind <;> simp [sendFlagReadOnly, g1]
  unfold callGeneric at h
  by_cases hg : (roGuardCallValue && s.readonly && decide (value > 0)) = true
  · simp [hg] at h
  · simp only [hg] at h
    constructor
    · intro hro
      simp [g7, hro] at hg; omega
    · intro k d w f hin hnot
      simp only [withRegion] at h
      -- every path: s'.effects is s.effects, optionally followed by [stateRootWritten] and the send
      have key : s'.effects = s.effects ∨
          s'.effects = s.effects ++ [.send kind dst value (sendFlagReadOnly kind)] ∨
          s'.effects = (s.effects ++ [.stateRootWritten]) ++ [.send kind dst value (sendFlagReadOnly kind)] := by
        simp only [envOr] at h
        repeat' split at h
        all_goals first
          | (cases h; done)
          | (cases h; simp; done)
          | (cases h
             have hf := flush_effects ‹flush _ = Except.ok _›
             rcases hf with hf | hf <;> simp [hf])
      rcases key with hk | hk | hk <;> rw [hk] at hin
      · exact absurd hin hnot
      · simp only [List.mem_append, List.mem_singleton] at hin
        rcases hin with hin | hin
        · exact absurd hin hnot
        · cases hin; exact ⟨rfl, rfl, hflag⟩
      · simp only [List.mem_append, List.mem_singleton] at hin
        rcases hin with (hin | hin) | hin
        · exact absurd hin hnot
        · cases hin
        · cases hin; exact ⟨rfl, rfl, hflag⟩

/-! ## non-vacuity -/

/-- SSTORE (0x55) on a two-element stack: performed when writable, refused when read-only. -/
example : (match step [0x55] (analyze [0x55]) {} { stack := [1, 7] } with
    | .next s' => s'.effects == [.sstore 1 7] && s'.stack.length == 0 | _ => false) = true := by decide +kernel
example : (match step [0x55] (analyze [0x55]) {} { stack := [1, 7], readonly := true } with
    | .fail .readOnly s' => s'.effects == [] | _ => false) = true := by decide +kernel
/-- PUSH0 at height 1023 succeeds, at 1024 overflows; ADD at 1024 leaves 1023. -/
example : (match step [0x5f] [false] {} { stack := List.replicate 1023 0 } with
    | .next s' => s'.stack.length == 1024 | _ => false) = true := by decide +kernel
example : (match step [0x5f] [false] {} { stack := List.replicate 1024 0 } with
    | .fail .stackOverflow _ => true | _ => false) = true := by decide +kernel
example : (match step [0x01] [false] {} { stack := List.replicate 1024 0 } with
    | .next s' => s'.stack.length == 1023 | _ => false) = true := by decide +kernel
/-- the analysis skips push data, including a truncated trailing push -/
example : analyze [0x5b, 0x60, 0x5b, 0x5b, 0x7f, 0x5b] = [true, false, false, true, false, false] := by
  decide +kernel
/-- a jump into push data fails, a jump to the JUMPDEST behind it succeeds -/
example : (match run [0x60, 0x04, 0x56, 0x60, 0x5b, 0x5b, 0x00] (analyze [0x60, 0x04, 0x56, 0x60, 0x5b, 0x5b, 0x00])
    (fun _ => {}) 10 {} with | .err .badJumpdest _ => true | _ => false) = true := by decide +kernel
example : (match run [0x60, 0x05, 0x56, 0x60, 0x5b, 0x5b, 0x00] (analyze [0x60, 0x05, 0x56, 0x60, 0x5b, 0x5b, 0x00])
    (fun _ => {}) 10 {} with | .done .stop _ => true | _ => false) = true := by decide +kernel
/-- memory guard at the edge: the last byte below 2^32 is accepted, one more is rejected -/
example : (match getMemoryRegion 0 4294967294 1 with
    | .ok (some r, m) => r == (4294967294, 1) && m == 4294967296 | _ => false) = true := by decide +kernel
example : (match getMemoryRegion 0 4294967295 1 with
    | .error .illegalMemoryAccess => true | _ => false) = true := by decide +kernel
example : (match getMemoryRegion 64 (2 ^ 200) 0 with
    | .ok (none, m) => m == 64 | _ => false) = true := by decide +kernel
/-- STATICCALL at depth 2 of a chain call → static → delegate → call: the last three activations are read-only -/
example : readonlyAlong false [.call] = false ∧ readonlyAlong false [.call, .staticCall, .delegateCall, .call] = true := by
  decide

end BA.Props.C18
