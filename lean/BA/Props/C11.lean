/-
  C11 — Privileged methods are callable only by their designated callers.

  `spec` is the SPECIFIED designated-caller table: one row per (actor, method of the public method
  enum) with the method number, the validation the method must perform, whether that validation
  must be the first runtime interaction of the handler, and — where the validation is `any` and the
  authorisation happens in the body — the body guard in words (those guards are proved in the
  actors' own models, C06/C09/C12/C13; here they are only exercised by the dynamic matrix).
  It was written from the property statement and the actors' documentation, independently of the
  extractor's output `BA.Gen.methods`; `extracted_matches_spec` compares the two on every run.
  (tools/spec_c11_to_rust.py copies this table into the harness oracle; keep one row per line.)
-/
import BA.Model.Dispatch

namespace BA.C11
open BA BA.Dispatch

structure SpecRow where
  actor : Actor
  name : String
  num : Nat
  term : VTerm
  /-- the validation must be the first runtime interaction of the handler -/
  first : Bool
  guard : String
  deriving DecidableEq, Repr

def spec : List SpecRow := [
  -- account
  ⟨.account, "Constructor", 1, (.is [.system]), true, ""⟩,
  ⟨.account, "PubkeyAddress", 2, .any, true, ""⟩,
  ⟨.account, "AuthenticateMessageExported", 2643134072, .any, true, ""⟩,
  -- cron
  ⟨.cron, "Constructor", 1, (.is [.system]), true, ""⟩,
  ⟨.cron, "EpochTick", 2, (.is [.system]), true, ""⟩,
  -- datacap
  ⟨.datacap, "Constructor", 1, (.is [.system]), true, ""⟩,
  ⟨.datacap, "MintExported", 116935346, (.is [.governor]), true, ""⟩,
  ⟨.datacap, "DestroyExported", 2624896501, (.is [.governor]), true, ""⟩,
  ⟨.datacap, "NameExported", 48890204, .any, true, ""⟩,
  ⟨.datacap, "SymbolExported", 2061153854, .any, true, ""⟩,
  ⟨.datacap, "GranularityExported", 3936767397, .any, true, ""⟩,
  ⟨.datacap, "TotalSupplyExported", 114981429, .any, true, ""⟩,
  ⟨.datacap, "BalanceExported", 3261979605, .any, true, ""⟩,
  ⟨.datacap, "TransferExported", 80475954, .any, true, "body: the caller (token holder) or the recipient must be the governor (verified registry)"⟩,
  ⟨.datacap, "TransferFromExported", 3621052141, .any, true, "body: the recipient must be the governor; the caller (operator) needs an allowance from the holder"⟩,
  ⟨.datacap, "IncreaseAllowanceExported", 1777121560, .any, true, ""⟩,
  ⟨.datacap, "DecreaseAllowanceExported", 1529376545, .any, true, ""⟩,
  ⟨.datacap, "RevokeAllowanceExported", 2765635761, .any, true, ""⟩,
  ⟨.datacap, "BurnExported", 1434719642, .any, true, ""⟩,
  ⟨.datacap, "BurnFromExported", 2979674018, .any, true, "body: the caller (operator) needs an allowance from the holder"⟩,
  ⟨.datacap, "AllowanceExported", 4205072950, .any, true, ""⟩,
  -- eam
  ⟨.eam, "Constructor", 1, (.is [.system]), true, ""⟩,
  ⟨.eam, "Create", 2, (.type [.evm]), true, ""⟩,
  ⟨.eam, "Create2", 3, (.type [.evm]), true, ""⟩,
  ⟨.eam, "CreateExternal", 4, (.is [.origin]), true, "body: the caller must be an account, eth-account or placeholder actor (EOA-like)"⟩,
  -- ethaccount
  ⟨.ethaccount, "Constructor", 1, (.is [.system]), true, ""⟩,
  -- evm
  ⟨.evm, "Constructor", 1, (.is [.init]), true, ""⟩,
  ⟨.evm, "InvokeContract", 3844450837, .any, true, ""⟩,
  ⟨.evm, "GetBytecode", 3, .any, true, ""⟩,
  ⟨.evm, "GetBytecodeHash", 4, .any, true, ""⟩,
  ⟨.evm, "GetStorageAt", 5, (.is [.id0]), true, ""⟩,
  ⟨.evm, "InvokeContractDelegate", 6, (.is [.self]), true, ""⟩,
  ⟨.evm, "Resurrect", 2, (.is [.eam]), true, ""⟩,
  -- init
  ⟨.init, "Constructor", 1, (.is [.system]), true, ""⟩,
  ⟨.init, "Exec", 2, .any, true, "body: can_exec(caller code, requested code): multisig/paych by any built-in caller, miner only by the power actor"⟩,
  ⟨.init, "Exec4", 3, (.is [.eam]), true, ""⟩,
  -- market
  ⟨.market, "Constructor", 1, (.is [.system]), true, ""⟩,
  ⟨.market, "AddBalance", 2, .any, true, ""⟩,
  ⟨.market, "AddBalanceExported", 822473126, .any, true, ""⟩,
  ⟨.market, "WithdrawBalance", 3, (.is [.escrowApproved]), false, "escrowApproved = the party itself, or the owner/worker when the party is a miner (asked from the miner before the validation)"⟩,
  ⟨.market, "WithdrawBalanceExported", 2280458852, (.is [.escrowApproved]), false, "escrowApproved = the party itself, or the owner/worker when the party is a miner (asked from the miner before the validation)"⟩,
  ⟨.market, "PublishStorageDeals", 4, .any, true, "body: the caller must be the worker or a control address of the deals' provider (IsControllingAddress)"⟩,
  ⟨.market, "PublishStorageDealsExported", 2236929350, .any, true, "body: the caller must be the worker or a control address of the deals' provider (IsControllingAddress)"⟩,
  ⟨.market, "VerifyDealsForActivation", 5, (.type [.miner]), true, ""⟩,
  ⟨.market, "BatchActivateDeals", 6, (.type [.miner]), true, ""⟩,
  ⟨.market, "OnMinerSectorsTerminate", 7, (.type [.miner]), true, ""⟩,
  ⟨.market, "CronTick", 9, (.is [.cron]), true, ""⟩,
  ⟨.market, "GetBalanceExported", 726108461, .any, true, ""⟩,
  ⟨.market, "GetDealDataCommitmentExported", 1157985802, .any, true, ""⟩,
  ⟨.market, "GetDealClientExported", 128053329, .any, true, ""⟩,
  ⟨.market, "GetDealProviderExported", 935081690, .any, true, ""⟩,
  ⟨.market, "GetDealLabelExported", 46363526, .any, true, ""⟩,
  ⟨.market, "GetDealTermExported", 163777312, .any, true, ""⟩,
  ⟨.market, "GetDealTotalPriceExported", 4287162428, .any, true, ""⟩,
  ⟨.market, "GetDealClientCollateralExported", 200567895, .any, true, ""⟩,
  ⟨.market, "GetDealProviderCollateralExported", 2986712137, .any, true, ""⟩,
  ⟨.market, "GetDealVerifiedExported", 2627389465, .any, true, ""⟩,
  ⟨.market, "GetDealActivationExported", 2567238399, .any, true, ""⟩,
  ⟨.market, "GetDealSectorExported", 2611213344, .any, true, ""⟩,
  ⟨.market, "SettleDealPaymentsExported", 1900091594, .any, true, ""⟩,
  ⟨.market, "SectorContentChangedExported", 2034386435, (.type [.miner]), true, ""⟩,
  -- miner
  ⟨.miner, "Constructor", 1, (.is [.init]), true, ""⟩,
  ⟨.miner, "ControlAddresses", 2, .any, true, ""⟩,
  ⟨.miner, "ChangeWorkerAddress", 3, (.is [.owner]), false, "parameters are checked and the new worker's key is fetched (send) before the owner check"⟩,
  ⟨.miner, "ChangeWorkerAddressExported", 3302309124, (.is [.owner]), false, "parameters are checked and the new worker's key is fetched (send) before the owner check"⟩,
  ⟨.miner, "ChangePeerID", 4, (.is [.control, .worker, .owner]), true, ""⟩,
  ⟨.miner, "ChangePeerIDExported", 1236548004, (.is [.control, .worker, .owner]), true, ""⟩,
  ⟨.miner, "SubmitWindowedPoSt", 5, (.is [.control, .worker, .owner]), true, ""⟩,
  ⟨.miner, "TerminateSectors", 9, (.is [.control, .worker, .owner]), true, ""⟩,
  ⟨.miner, "DeclareFaults", 10, (.is [.control, .worker, .owner]), true, ""⟩,
  ⟨.miner, "DeclareFaultsRecovered", 11, (.is [.control, .worker, .owner]), true, ""⟩,
  ⟨.miner, "OnDeferredCronEvent", 12, (.is [.power]), true, ""⟩,
  ⟨.miner, "CheckSectorProven", 13, .any, true, ""⟩,
  ⟨.miner, "ApplyRewards", 14, (.is [.reward]), true, ""⟩,
  ⟨.miner, "ReportConsensusFault", 15, .any, true, ""⟩,
  ⟨.miner, "WithdrawBalance", 16, (.is [.owner, .beneficiary]), true, ""⟩,
  ⟨.miner, "WithdrawBalanceExported", 2280458852, (.is [.owner, .beneficiary]), true, ""⟩,
  ⟨.miner, "InternalSectorSetupForPreseal", 17, (.is [.system]), true, ""⟩,
  ⟨.miner, "ChangeMultiaddrs", 18, (.is [.control, .worker, .owner]), true, ""⟩,
  ⟨.miner, "ChangeMultiaddrsExported", 1063480576, (.is [.control, .worker, .owner]), true, ""⟩,
  ⟨.miner, "CompactPartitions", 19, (.is [.control, .worker, .owner]), true, ""⟩,
  ⟨.miner, "CompactSectorNumbers", 20, (.is [.control, .worker, .owner]), true, ""⟩,
  ⟨.miner, "ConfirmChangeWorkerAddress", 21, (.is [.owner]), true, ""⟩,
  ⟨.miner, "ConfirmChangeWorkerAddressExported", 2354970453, (.is [.owner]), true, ""⟩,
  ⟨.miner, "RepayDebt", 22, (.is [.control, .worker, .owner]), true, ""⟩,
  ⟨.miner, "RepayDebtExported", 3665352697, (.is [.control, .worker, .owner]), true, ""⟩,
  ⟨.miner, "ChangeOwnerAddress", 23, (.alt (.is [.owner]) (.is [.pendingOwner])), true, "owner proposes (or no proposal pending); otherwise only the pending owner may confirm"⟩,
  ⟨.miner, "ChangeOwnerAddressExported", 1010589339, (.alt (.is [.owner]) (.is [.pendingOwner])), true, "owner proposes (or no proposal pending); otherwise only the pending owner may confirm"⟩,
  ⟨.miner, "DisputeWindowedPoSt", 24, .any, true, ""⟩,
  ⟨.miner, "PreCommitSectorBatch2", 28, (.is [.control, .worker, .owner]), false, "reward and power are queried (sends) before the control-address check"⟩,
  ⟨.miner, "ChangeBeneficiary", 30, .any, true, "body: a new proposal only by the owner; a confirmation only by the nominee, the current beneficiary or the owner"⟩,
  ⟨.miner, "ChangeBeneficiaryExported", 1570634796, .any, true, "body: a new proposal only by the owner; a confirmation only by the nominee, the current beneficiary or the owner"⟩,
  ⟨.miner, "GetBeneficiary", 31, .any, true, ""⟩,
  ⟨.miner, "GetBeneficiaryExported", 4158972569, .any, true, ""⟩,
  ⟨.miner, "ExtendSectorExpiration2", 32, (.is [.control, .worker, .owner]), false, "claims are fetched from the verified registry (send) before the control-address check"⟩,
  ⟨.miner, "GetOwnerExported", 3275365574, .any, true, ""⟩,
  ⟨.miner, "IsControllingAddressExported", 348244887, .any, true, ""⟩,
  ⟨.miner, "GetSectorSizeExported", 3858292296, .any, true, ""⟩,
  ⟨.miner, "GetAvailableBalanceExported", 4026106874, .any, true, ""⟩,
  ⟨.miner, "GetVestingFundsExported", 1726876304, .any, true, ""⟩,
  ⟨.miner, "GetPeerIDExported", 2812875329, .any, true, ""⟩,
  ⟨.miner, "GetMultiaddrsExported", 1332909407, .any, true, ""⟩,
  ⟨.miner, "ProveCommitSectors3", 34, (.is [.control, .worker, .owner]), true, ""⟩,
  ⟨.miner, "ProveReplicaUpdates3", 35, (.is [.control, .worker, .owner]), true, ""⟩,
  ⟨.miner, "ProveCommitSectorsNI", 36, (.is [.control, .worker, .owner]), true, ""⟩,
  ⟨.miner, "MaxTerminationFeeExported", 4127382196, .any, true, ""⟩,
  ⟨.miner, "InitialPledgeExported", 3180523767, .any, true, ""⟩,
  ⟨.miner, "GenerateSectorLocationExported", 1321604665, .any, true, ""⟩,
  ⟨.miner, "ValidateSectorStatusExported", 3092458564, .any, true, ""⟩,
  ⟨.miner, "GetNominalSectorExpirationExported", 3010055991, .any, true, ""⟩,
  -- multisig
  ⟨.multisig, "Constructor", 1, (.is [.init]), true, ""⟩,
  ⟨.multisig, "Propose", 2, .any, true, "body: the caller must be a signer"⟩,
  ⟨.multisig, "Approve", 3, .any, true, "body: the caller must be a signer"⟩,
  ⟨.multisig, "Cancel", 4, .any, true, "body: the caller must be a signer and the proposer of the transaction"⟩,
  ⟨.multisig, "AddSigner", 5, (.is [.self]), true, ""⟩,
  ⟨.multisig, "RemoveSigner", 6, (.is [.self]), true, ""⟩,
  ⟨.multisig, "SwapSigner", 7, (.is [.self]), true, ""⟩,
  ⟨.multisig, "ChangeNumApprovalsThreshold", 8, (.is [.self]), true, ""⟩,
  ⟨.multisig, "LockBalance", 9, (.is [.self]), true, ""⟩,
  ⟨.multisig, "UniversalReceiverHook", 3726118371, .any, true, ""⟩,
  -- paych
  ⟨.paych, "Constructor", 1, (.type [.init]), true, ""⟩,
  ⟨.paych, "UpdateChannelState", 2, (.is [.chFrom, .chTo]), true, ""⟩,
  ⟨.paych, "Settle", 3, (.is [.chFrom, .chTo]), true, ""⟩,
  ⟨.paych, "Collect", 4, (.is [.chFrom, .chTo]), true, ""⟩,
  -- power
  ⟨.power, "Constructor", 1, (.is [.system]), true, ""⟩,
  ⟨.power, "CreateMiner", 2, .any, true, ""⟩,
  ⟨.power, "CreateMinerExported", 1173380165, .any, true, ""⟩,
  ⟨.power, "UpdateClaimedPower", 3, (.type [.miner]), true, ""⟩,
  ⟨.power, "EnrollCronEvent", 4, (.type [.miner]), true, ""⟩,
  ⟨.power, "OnEpochTickEnd", 5, (.is [.cron]), true, ""⟩,
  ⟨.power, "UpdatePledgeTotal", 6, (.type [.miner]), true, ""⟩,
  ⟨.power, "CurrentTotalPower", 9, .any, true, ""⟩,
  ⟨.power, "NetworkRawPowerExported", 931722534, .any, true, ""⟩,
  ⟨.power, "MinerRawPowerExported", 3753401894, .any, true, ""⟩,
  ⟨.power, "MinerCountExported", 1987646258, .any, true, ""⟩,
  ⟨.power, "MinerConsensusCountExported", 196739875, .any, true, ""⟩,
  ⟨.power, "MinerPowerExported", 36284446, .any, true, ""⟩,
  -- reward
  ⟨.reward, "Constructor", 1, (.is [.system]), true, ""⟩,
  ⟨.reward, "AwardBlockReward", 2, (.is [.system]), true, ""⟩,
  ⟨.reward, "ThisEpochReward", 3, .any, true, ""⟩,
  ⟨.reward, "UpdateNetworkKPI", 4, (.is [.power]), true, ""⟩,
  -- system
  ⟨.system, "Constructor", 1, (.is [.system]), true, ""⟩,
  -- verifreg
  ⟨.verifreg, "Constructor", 1, (.is [.system]), true, ""⟩,
  ⟨.verifreg, "AddVerifier", 2, (.is [.rootKey]), true, ""⟩,
  ⟨.verifreg, "RemoveVerifier", 3, (.is [.rootKey]), true, ""⟩,
  ⟨.verifreg, "AddVerifiedClient", 4, .any, true, "body: the caller must be a verifier with sufficient allowance"⟩,
  ⟨.verifreg, "AddVerifiedClientExported", 3916220144, .any, true, "body: the caller must be a verifier with sufficient allowance"⟩,
  ⟨.verifreg, "RemoveVerifiedClientDataCap", 7, (.is [.rootKey]), true, ""⟩,
  ⟨.verifreg, "RemoveExpiredAllocations", 8, .any, true, ""⟩,
  ⟨.verifreg, "RemoveExpiredAllocationsExported", 2421068268, .any, true, ""⟩,
  ⟨.verifreg, "ClaimAllocations", 9, (.type [.miner]), true, ""⟩,
  ⟨.verifreg, "GetClaims", 10, .any, true, ""⟩,
  ⟨.verifreg, "GetClaimsExported", 2199871187, .any, true, ""⟩,
  ⟨.verifreg, "ExtendClaimTerms", 11, .any, true, "body: the caller must be the client of every claim it extends"⟩,
  ⟨.verifreg, "ExtendClaimTermsExported", 1752273514, .any, true, "body: the caller must be the client of every claim it extends"⟩,
  ⟨.verifreg, "RemoveExpiredClaims", 12, .any, true, ""⟩,
  ⟨.verifreg, "RemoveExpiredClaimsExported", 2873373899, .any, true, ""⟩,
  ⟨.verifreg, "UniversalReceiverHook", 3726118371, (.is [.datacap]), true, ""⟩
]

/-- Actors exempt from `restrict_internal_api`: the EAM and EVM actors dispatch with
    `actor_dispatch_unrestricted!` (their low method numbers must be callable by contracts);
    the placeholder actor has no methods at all. Every other actor is restricted. -/
def specUnrestricted : List Actor := [.eam, .evm, .placeholder]

def specRestricted (a : Actor) : Bool := !specUnrestricted.contains a

/-- `_ =>` rows: accounts, eth-accounts and multisigs accept (and ignore) any exported method
    number from anyone; an EVM contract hands every other number above 1023 to the contract. -/
def specFallbacks : List Fallback :=
  [⟨.account, .any, true⟩, ⟨.ethaccount, .any, true⟩, ⟨.evm, .any, true⟩, ⟨.multisig, .any, true⟩]

def allActors : List Actor :=
  [.account, .cron, .datacap, .eam, .ethaccount, .evm, .init, .market, .miner, .multisig,
   .paych, .placeholder, .power, .reward, .system, .verifreg]

def specTables : Tables where
  methods := spec.map fun s => ⟨s.actor, s.name, s.num, specRestricted s.actor, s.term, s.first⟩
  fallbacks := specFallbacks
  tables := allActors.map fun a =>
    ⟨a, specRestricted a, specFallbacks.any (fun f => f.actor = a), (spec.filter (fun s => s.actor = a)).length⟩

/-- The methods whose handler may interact with the runtime (read-only queries to other actors,
    parameter checks) before it validates the caller — specified explicitly, all others validate first. -/
def specNotFirst : List (Actor × String) :=
  [(.market, "WithdrawBalance"), (.market, "WithdrawBalanceExported"),
   (.miner, "ChangeWorkerAddress"), (.miner, "ChangeWorkerAddressExported"),
   (.miner, "PreCommitSectorBatch2"), (.miner, "ExtendSectorExpiration2")]

/-! ### The extracted table is the specified one -/

/-- Every row of every actor's dispatch table, as extracted from the Rust sources on this run
    (method name and number incl. FRC-42 hashes, `actor_dispatch!` vs `_unrestricted!`, normalised
    validation term, validation-first flag), the fallback rows and the per-actor table shapes are
    exactly the specified ones. -/
theorem extracted_matches_spec : genTables = specTables := by decide +kernel

/-- the validation is the first runtime interaction of every handler except the listed ones -/
theorem validation_first_except_listed :
    (Gen.methods.filter (fun e => !e.first)).map (fun e => (e.actor, e.name)) = specNotFirst ∧
    (Gen.fallbacks.filter (fun f => !f.first)) = [] := by decide +kernel

/-- method numbers are unique per actor (the table lookup is a function) -/
theorem method_numbers_unique :
    (Gen.methods.map (fun e => (e.actor, e.num))).Nodup := by decide +kernel

/-- the structural facts read from `runtime/src/runtime/fvm.rs`, `dispatch.rs` and `shared.rs` are
    the ones the model is built on: every `validate_immediate_caller_*` begins with
    `assert_not_validated`, sets `caller_validated` only on its accepting branch and returns
    `forbidden` otherwise; the flag is written nowhere else; `trampoline` starts with the flag unset,
    exits on error and aborts when the flag is still unset after `Ok`; `actor_dispatch!` calls
    `restrict_internal_api` before the lookup, `_unrestricted!` does not; an unknown number is
    `unhandled_message`; `restrict_internal_api` has the modelled shape with the export boundary at 2^24. -/
theorem runtime_structure_as_modelled :
    Gen.Fvm.assertNotValidatedRejectsSecond = true ∧
    Gen.Fvm.validateAcceptAnyBeginsWithAssert = true ∧ Gen.Fvm.validateAcceptAnySetsFlagOnlyOnAccept = true ∧
    Gen.Fvm.validateIsBeginsWithAssert = true ∧ Gen.Fvm.validateIsSetsFlagOnlyOnAccept = true ∧
    Gen.Fvm.validateNamespaceBeginsWithAssert = true ∧ Gen.Fvm.validateNamespaceSetsFlagOnlyOnAccept = true ∧
    Gen.Fvm.validateTypeBeginsWithAssert = true ∧ Gen.Fvm.validateTypeSetsFlagOnlyOnAccept = true ∧
    Gen.Fvm.validateMismatchIsForbidden = true ∧ Gen.Fvm.flagWrittenOnlyByValidators = true ∧
    Gen.Fvm.trampolineFreshRuntime = true ∧ Gen.Fvm.trampolineErrorExits = true ∧
    Gen.Fvm.trampolineAbortsWhenUnvalidated = true ∧
    Gen.dispatchRestrictsFirst = true ∧ Gen.dispatchUnknownUnhandled = true ∧
    Gen.unrestrictedSkipsRestriction = true ∧ Gen.unrestrictedUnknownUnhandled = true ∧
    Gen.riaExportedPass = true ∧ Gen.riaNoCodeForbidden = true ∧
    Gen.riaNonBuiltinOrEvmForbidden = true ∧ Gen.riaOtherBuiltinPass = true ∧
    Gen.riaRejectedTypes = [.evm] ∧ Gen.firstExportedMethodNumber = 2 ^ 24 := by decide

/-! ### The dispatch model (any tables, any world, any actor logic) -/

theorem restrict_error_forbidden {m : Nat} {c : Caller} {e : Err}
    (h : restrictInternalApi m c = .error e) : e = .forbidden := by
  unfold restrictInternalApi at h
  split at h
  · cases h
  · split at h
    · cases h; rfl
    · split at h
      · cases h; rfl
      · cases h

/-- A caller outside the set denoted by the method's validation term gets an error and the world
    is unchanged; when the validation is the handler's first interaction the error is `forbidden`. -/
theorem rejected_unchanged {σ : Type} (T : Tables) (B : Bodies σ) (a : Actor) (m : Nat) (c : Caller)
    (w : σ) (t : VTerm) (fst : Bool)
    (hm : m ≠ 0) (hl : lookup T a m = some (t, fst)) (hd : denote t c = false) :
    ∃ e, invoke T B a m c w = .error e ∧ apply T B a m c w = (w, some e) ∧
      (fst = true → e = .forbidden) := by
  have key : ∃ e, invoke T B a m c w = .error e ∧ (fst = true → e = .forbidden) := by
    unfold invoke
    simp only [hm, if_false]
    cases hr : (if isRestricted T a then restrictInternalApi m c else Except.ok ()) with
    | error e =>
      refine ⟨e, rfl, fun _ => ?_⟩
      by_cases hR : isRestricted T a = true
      · simp [hR] at hr; exact restrict_error_forbidden hr
      · simp [hR] at hr
    | ok u =>
      cases u
      simp only [hl]
      cases fst with
      | true =>
        refine ⟨.forbidden, ?_, fun _ => rfl⟩
        simp [trampoline, handlerProg, Prog.run, validateCall, hd]
      | false =>
        cases hp : B.pre a m c w with
        | error e =>
          refine ⟨e, ?_, fun h => by cases h⟩
          simp [trampoline, handlerProg, Prog.run, hp]
        | ok w1 =>
          refine ⟨.forbidden, ?_, fun h => by cases h⟩
          simp [trampoline, handlerProg, Prog.run, hp, validateCall, hd]
  obtain ⟨e, he, hf⟩ := key
  exact ⟨e, he, by simp [apply, he], hf⟩

/-- A failing message never changes the world, whatever the reason (VM rollback). -/
theorem failure_unchanged {σ : Type} (T : Tables) (B : Bodies σ) (a : Actor) (m : Nat) (c : Caller)
    (w : σ) (e : Err) (h : (apply T B a m c w).2 = some e) : (apply T B a m c w).1 = w := by
  unfold apply at *
  cases hi : invoke T B a m c w with
  | ok w' => simp [hi] at h
  | error e' => rfl

/-- A caller inside the denoted set that is not stopped by `restrict_internal_api` gets past the
    validation: the outcome of the message is exactly the outcome of the actor logic
    (`body`, preceded by `pre` for the listed handlers), which runs with the flag set. -/
theorem designated_passes_validation {σ : Type} (T : Tables) (B : Bodies σ) (a : Actor) (m : Nat)
    (c : Caller) (w : σ) (t : VTerm) (fst : Bool)
    (hm : m ≠ 0)
    (hr : (if isRestricted T a then restrictInternalApi m c else Except.ok ()) = .ok ())
    (hl : lookup T a m = some (t, fst)) (hd : denote t c = true) :
    invoke T B a m c w =
      (if fst then B.body a m c w else
        match B.pre a m c w with
        | .error e => .error e
        | .ok w1 => B.body a m c w1) := by
  unfold invoke
  simp only [hm, if_false, hr, hl]
  cases fst with
  | true =>
    cases hb : B.body a m c w <;>
      simp [trampoline, handlerProg, Prog.run, validateCall, hd, hb]
  | false =>
    cases hp : B.pre a m c w with
    | error e => simp [trampoline, handlerProg, Prog.run, hp]
    | ok w1 =>
      cases hb : B.body a m c w1 <;>
        simp [trampoline, handlerProg, Prog.run, validateCall, hd, hp, hb]

theorem isRestricted_gen (a : Actor) : isRestricted genTables a = specRestricted a := by
  cases a <;> decide +kernel

/-- Method numbers below 2^24 (other than 0, the plain send) of every actor the spec lists as
    restricted cannot be invoked by an EVM contract or by code that is not a built-in actor:
    the call is `forbidden` whatever the method, the parameters and the actor logic. -/
theorem internal_api_closed {σ : Type} (B : Bodies σ) (a : Actor) (m : Nat) (c : Caller) (w : σ)
    (ha : specRestricted a = true) (h0 : m ≠ 0) (hm : m < 2 ^ 24)
    (hc : c.code = none ∨ c.code = some .evm) :
    invoke genTables B a m c w = .error .forbidden ∧ apply genTables B a m c w = (w, some .forbidden) := by
  have hres : restrictInternalApi m c = .error .forbidden := by
    unfold restrictInternalApi
    have h1 : ¬ m ≥ Gen.firstExportedMethodNumber := by
      show ¬ m ≥ 16777216
      omega
    simp only [h1, if_false]
    rcases hc with hc | hc <;> rw [hc]
    · rfl
  have hi : invoke genTables B a m c w = .error .forbidden := by
    unfold invoke
    simp [h0, isRestricted_gen, ha, hres]
  exact ⟨hi, by simp [apply, hi]⟩

/-- the actors exempt from the restriction are exactly those the spec lists; exported numbers and
    built-in non-EVM callers are never stopped by `restrict_internal_api` -/
theorem internal_api_exemptions :
    (Gen.tables.filter (fun t => !t.restricted)).map (fun t => t.actor) = specUnrestricted ∧
    (∀ m c, m ≥ 2 ^ 24 → restrictInternalApi m c = .ok ()) ∧
    (∀ m c t, c.code = some t → t ≠ .evm → restrictInternalApi m c = .ok ()) := by
  refine ⟨by decide +kernel, ?_, ?_⟩
  · intro m c h
    unfold restrictInternalApi
    have : m ≥ Gen.firstExportedMethodNumber := by
      show m ≥ 16777216
      omega
    simp [this]
  · intro m c t hc ht
    unfold restrictInternalApi
    split
    · rfl
    · rw [hc]
      have : Gen.riaRejectedTypes.contains t = false := by
        show [Actor.evm].contains t = false
        cases t <;> first | rfl | exact absurd rfl ht
      simp only [this, Bool.false_eq_true, if_false]

theorem run_inv {σ : Type} (c : Caller) (p : Prog σ) :
    ∀ (r r' : Rt σ), p.run c r = .ok r' →
      (r.validated = true → r'.validated = true ∧ r'.log = r.log) ∧
      (r.validated = false →
        (r'.validated = false ∧ r'.log = r.log) ∨
        (r'.validated = true ∧ ∃ t, r'.log = r.log ++ [t] ∧ denote t c = true)) := by
  induction p with
  | done =>
    intro r r' h
    simp [Prog.run] at h
    subst h
    exact ⟨fun h => ⟨h, rfl⟩, fun h => Or.inl ⟨h, rfl⟩⟩
  | validate t k ih =>
    intro r r' h
    simp only [Prog.run, validateCall] at h
    by_cases hv : r.validated = true
    · simp [hv] at h
    · have hv' : r.validated = false := by simpa using hv
      by_cases hd : denote t c = true
      · simp [hv', hd] at h
        have := (ih _ _ h).1 rfl
        exact ⟨fun h' => by simp [hv'] at h', fun _ => Or.inr ⟨this.1, t, this.2, hd⟩⟩
      · simp [hv', hd] at h
  | step f k ih =>
    intro r r' h
    simp only [Prog.run] at h
    cases hf : f r.world with
    | error e => simp [hf] at h
    | ok w1 =>
      simp only [hf] at h
      have := ih _ _ h
      exact this
  | branch q k₁ k₂ ih₁ ih₂ =>
    intro r r' h
    simp only [Prog.run] at h
    by_cases hq : q r.world = true
    · simp [hq] at h; exact ih₁ _ _ h
    · simp [hq] at h; exact ih₂ _ _ h

/-- Whatever the handler program is (any number of validations, opaque steps, state-dependent
    branches — including handlers that never validate): if the invocation completes, exactly one
    caller validation ran, and it accepted the caller. -/
theorem completed_implies_validated {σ : Type} (p : Prog σ) (c : Caller) (w w' : σ)
    (h : trampoline p c w = .ok w') :
    ∃ r t, p.run c ⟨w, false, []⟩ = .ok r ∧ r.world = w' ∧ r.validated = true ∧
      r.log = [t] ∧ denote t c = true := by
  unfold trampoline at h
  cases hr : p.run c ⟨w, false, []⟩ with
  | error e => simp [hr] at h
  | ok r =>
    simp only [hr] at h
    by_cases hv : r.validated = true
    · simp [hv] at h
      rcases (run_inv c p _ _ hr).2 rfl with ⟨h1, _⟩ | ⟨_, t, ht, hd⟩
      · rw [hv] at h1; cases h1
      · exact ⟨r, t, rfl, h, hv, by simpa using ht, hd⟩
    · simp [hv] at h

/-- For table handlers: a message (other than a plain send) that completes was sent by a caller
    in the set denoted by the method's validation term. -/
theorem completed_call_was_designated {σ : Type} (T : Tables) (B : Bodies σ) (a : Actor) (m : Nat)
    (c : Caller) (w w' : σ) (hm : m ≠ 0) (h : invoke T B a m c w = .ok w') :
    ∃ t fst, lookup T a m = some (t, fst) ∧ denote t c = true := by
  cases hl : lookup T a m with
  | none =>
    unfold invoke at h
    simp only [hm, if_false, hl] at h
    split at h <;> cases h
  | some tf =>
    obtain ⟨t, fst⟩ := tf
    refine ⟨t, fst, rfl, ?_⟩
    cases hd : denote t c with
    | true => rfl
    | false =>
      obtain ⟨e, he, _⟩ := rejected_unchanged T B a m c w t fst hm hl hd
      rw [he] at h; cases h

/-- The matrix verdict the driver prints for a cell is what `invoke` does. -/
theorem verdict_sound {σ : Type} (T : Tables) (B : Bodies σ) (a : Actor) (m : Nat) (c : Caller) (w : σ) :
    (verdict T a m c = .send → invoke T B a m c w = .ok w) ∧
    (verdict T a m c = .restricted → invoke T B a m c w = .error .forbidden) ∧
    (verdict T a m c = .unhandled → invoke T B a m c w = .error .unhandled) ∧
    (∀ fst, verdict T a m c = .rejected fst →
      ∃ e, invoke T B a m c w = .error e ∧ (fst = true → e = .forbidden)) := by
  unfold verdict
  by_cases hm : m = 0
  · simp [hm, invoke]
  · simp only [hm, if_false]
    cases hr : (if isRestricted T a then restrictInternalApi m c else Except.ok ()) with
    | error e =>
      have he : e = .forbidden := by
        by_cases hR : isRestricted T a = true
        · simp [hR] at hr; exact restrict_error_forbidden hr
        · simp [hR] at hr
      subst he
      simp [invoke, hm, hr]
    | ok u =>
      cases u
      cases hl : lookup T a m with
      | none => simp [invoke, hm, hr, hl]
      | some tf =>
        obtain ⟨t, fst⟩ := tf
        by_cases hd : denote t c = true
        · simp [hd]
        · have hd' : denote t c = false := by simpa using hd
          simp only [hd', Bool.false_eq_true, if_false]
          refine ⟨(by intro h; cases h), (by intro h; cases h), (by intro h; cases h), ?_⟩
          intro f hf
          cases hf
          obtain ⟨e, he, _, hf⟩ := rejected_unchanged T B a m c w t fst hm hl hd'
          exact ⟨e, he, hf⟩

/-! ### Non-vacuity: concrete cells of the matrix evaluated on the generated table -/

/-- a plain account that is the origin of the message and holds no role -/
def stranger : Caller := ⟨some .account, [.origin], none⟩
/-- the owner of a miner whose beneficiary is still the owner -/
def minerOwner : Caller := ⟨some .account, [.origin, .owner, .beneficiary], none⟩
def pendingOwnerCaller : Caller := ⟨some .account, [.origin, .pendingOwner], none⟩
def systemCaller : Caller := ⟨some .system, [.system, .id0, .origin], none⟩
def evmContract : Caller := ⟨some .evm, [.origin], some .eam⟩
def foreignCode : Caller := ⟨none, [.origin], none⟩

example : verdict genTables .miner 3 stranger = .rejected false := by decide +kernel
example : verdict genTables .miner 3 minerOwner = .passes false := by decide +kernel
example : verdict genTables .miner 23 pendingOwnerCaller = .passes true := by decide +kernel
example : verdict genTables .miner 16 stranger = .rejected true := by decide +kernel
example : verdict genTables .reward 2 systemCaller = .passes true := by decide +kernel
example : verdict genTables .reward 2 evmContract = .restricted := by decide +kernel
example : verdict genTables .reward 2 foreignCode = .restricted := by decide +kernel
example : verdict genTables .eam 2 evmContract = .passes true := by decide +kernel
example : verdict genTables .eam 2 stranger = .rejected true := by decide +kernel
example : verdict genTables .cron 7 systemCaller = .unhandled := by decide +kernel
example : verdict genTables .account 16777216 evmContract = .passes true := by decide +kernel
example : verdict genTables .placeholder 2 systemCaller = .unhandled := by decide +kernel
/-- hypotheses of `rejected_unchanged` / `designated_passes_validation` are satisfiable -/
example : lookup genTables .miner 16 = some (.is [.owner, .beneficiary], true) ∧
    denote (.is [.owner, .beneficiary]) stranger = false ∧
    denote (.is [.owner, .beneficiary]) minerOwner = true := by decide +kernel
/-- a handler that never validates cannot complete; one that validates twice cannot either -/
example : trampoline (.step (fun w : Nat => .ok (w + 1)) .done) stranger 0 = .error .assertion :=
  rfl
example : trampoline (σ := Nat) (.validate .any (.validate .any .done)) stranger 0 = .error .assertion :=
  rfl
example : trampoline (.validate .any (.step (fun w : Nat => .ok (w + 1)) .done)) stranger 0 = .ok 1 :=
  rfl

end BA.C11
