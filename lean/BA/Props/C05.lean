/-
  C05 — The epoch cron never fails and keeps every active miner on schedule.
  Theorems over `BA.Cron` (scheduling) — the funds half ("balance invariants never broken",
  callbacks never fail for a funds reason) is `BA.MinerLedger.balance_check_never_fires` /
  `apply_good` in BA/Props/C03.lean, re-exported at the end of this file.
-/
import BA.Model.Cron
import BA.Props.C03

namespace BA.Cron
open BA

/-- the cron actor's tick succeeds whatever its entries do -/
theorem cron_tick_total (entryOk : List Bool) : epochTick entryOk = .ok () := rfl

/-- facts about truncating division by the literal 2880 -/
theorem tfacts2880 (x : Int) :
    2880 * x.tdiv 2880 + x.tmod 2880 = x ∧ -2880 < x.tmod 2880 ∧ x.tmod 2880 < 2880 ∧
    (0 ≤ x → 0 ≤ x.tmod 2880) ∧ (x ≤ 0 → x.tmod 2880 ≤ 0) := by
  refine ⟨Int.mul_tdiv_add_tmod x 2880, Int.lt_tmod_of_pos x (by decide),
          Int.tmod_lt_of_pos x (by decide), fun h => Int.tmod_nonneg 2880 h, ?_⟩
  intro h
  have h1 : 0 ≤ (-x).tmod 2880 := Int.tmod_nonneg 2880 (by omega)
  rw [Int.neg_tmod] at h1
  omega

theorem tfacts60 (x : Int) :
    60 * x.tdiv 60 + x.tmod 60 = x ∧ -60 < x.tmod 60 ∧ x.tmod 60 < 60 ∧
    (0 ≤ x → 0 ≤ x.tmod 60) ∧ (x ≤ 0 → x.tmod 60 ≤ 0) := by
  refine ⟨Int.mul_tdiv_add_tmod x 60, Int.lt_tmod_of_pos x (by decide),
          Int.tmod_lt_of_pos x (by decide), fun h => Int.tmod_nonneg 60 h, ?_⟩
  intro h
  have h1 : 0 ≤ (-x).tmod 60 := Int.tmod_nonneg 60 (by omega)
  rw [Int.neg_tmod] at h1
  omega

/-- `quantize_down` with the proving period as unit returns the start of the period that contains
    `e`: it is ≤ e, less than one period below e, and congruent to the offset. -/
theorem periodStartOf_spec (pps e : Int) :
    periodStartOf pps e ≤ e ∧ e < periodStartOf pps e + 2880 ∧
    ∃ k : Int, periodStartOf pps e = pps + 2880 * k := by
  unfold periodStartOf quantizeDown quantizeUp period
  simp only [BA.Gen.wpostProvingPeriod]
  obtain ⟨a1, a2, a3, a4, a5⟩ := tfacts2880 pps
  obtain ⟨b1, b2, b3, b4, b5⟩ := tfacts2880 (e - pps.tmod 2880)
  by_cases h1 : (e - pps.tmod 2880).tmod 2880 = 0 ∨ e - pps.tmod 2880 < 0
  · simp only [h1, if_true]
    by_cases h2 : e = 2880 * (e - pps.tmod 2880).tdiv 2880 + pps.tmod 2880
    · rw [if_pos h2]
      refine ⟨?_, ?_, (e - pps.tmod 2880).tdiv 2880 - pps.tdiv 2880, ?_⟩ <;>
      · generalize (e - pps.tmod 2880).tmod 2880 = r at *
        generalize (e - pps.tmod 2880).tdiv 2880 = q at *
        generalize pps.tmod 2880 = off at *
        generalize pps.tdiv 2880 = qo at *
        omega
    · rw [if_neg h2]
      refine ⟨?_, ?_, (e - pps.tmod 2880).tdiv 2880 - 1 - pps.tdiv 2880, ?_⟩ <;>
      · generalize (e - pps.tmod 2880).tmod 2880 = r at *
        generalize (e - pps.tmod 2880).tdiv 2880 = q at *
        generalize pps.tmod 2880 = off at *
        generalize pps.tdiv 2880 = qo at *
        omega
  · simp only [h1, if_false]
    by_cases h2 : e = 2880 * ((e - pps.tmod 2880).tdiv 2880 + 1) + pps.tmod 2880
    · rw [if_pos h2]
      refine ⟨?_, ?_, (e - pps.tmod 2880).tdiv 2880 + 1 - pps.tdiv 2880, ?_⟩ <;>
      · generalize (e - pps.tmod 2880).tmod 2880 = r at *
        generalize (e - pps.tmod 2880).tdiv 2880 = q at *
        generalize pps.tmod 2880 = off at *
        generalize pps.tdiv 2880 = qo at *
        omega
    · rw [if_neg h2]
      refine ⟨?_, ?_, (e - pps.tmod 2880).tdiv 2880 - pps.tdiv 2880, ?_⟩ <;>
      · generalize (e - pps.tmod 2880).tmod 2880 = r at *
        generalize (e - pps.tmod 2880).tdiv 2880 = q at *
        generalize pps.tmod 2880 = off at *
        generalize pps.tdiv 2880 = qo at *
        omega

/-- for a fresh record (`pps ≤ e < pps + period`) the period start computed from the offset is
    the recorded one -/
theorem periodStartOf_fresh (pps e : Int) (h1 : pps ≤ e) (h2 : e < pps + 2880) :
    periodStartOf pps e = pps := by
  obtain ⟨a, b, k, hk⟩ := periodStartOf_spec pps e
  omega

theorem advance_aux (pps e idx : Int) (h : e = pps + idx * 60 + 60 - 1) (h0 : 0 ≤ idx) (h1 : idx < 48) :
    (if (idx + 1) % 48 = 0 then pps + 2880 else pps) + (idx + 1) % 48 * 60 = e + 1 := by
  by_cases hw : idx = 47
  · subst hw; simp; omega
  · have hmod : (idx + 1) % 48 = idx + 1 := by omega
    have hnz : ¬ (idx + 1 = 0) := by omega
    rw [hmod, if_neg hnz]; omega

/-- the explicit result of `advance` on a fresh record -/
theorem advance_fresh (m : Sched) (e : Int) (h1 : m.pps ≤ e) (h2 : e < m.pps + 2880) :
    advance m e = { m with cur := ((e - m.pps).tdiv 60 + 1) % 48,
                           pps := if ((e - m.pps).tdiv 60 + 1) % 48 = 0 then m.pps + 2880 else m.pps } := by
  have hps := periodStartOf_fresh m.pps e h1 h2
  unfold advance deadlineIdxOf
  rw [hps]
  have hlt : ¬ (e < m.pps) := by omega
  simp only [hlt, if_false, window, nDeadlines, period, BA.Gen.wpostChallengeWindow,
    BA.Gen.wpostPeriodDeadlines, BA.Gen.wpostProvingPeriod]
  first | rfl | congr

/-- **The recorded deadline tracks the epoch.**  If a miner's recorded proving period is current
    (`pps ≤ e < pps + 2880`) and its proving-deadline callback runs at `e`, the last epoch of a
    deadline window (which is where the callback is always enrolled: `lastOf`), then afterwards the
    recorded deadline `[open, close)` is the one containing the next epoch `e + 1` — including
    across the wrap to the next proving period. -/
theorem deadline_tracks_epoch (m : Sched) (e : Int) (h1 : m.pps ≤ e) (h2 : e < m.pps + 2880)
    (hlast : e = lastOf m.pps e) :
    (advance m e).openEpoch = e + 1 ∧ e + 1 < (advance m e).closeEpoch := by
  have hps := periodStartOf_fresh m.pps e h1 h2
  unfold lastOf deadlineIdxOf at hlast
  rw [hps] at hlast
  simp only [window, BA.Gen.wpostChallengeWindow] at hlast
  obtain ⟨c1, c2, c3, c4, c5⟩ := tfacts60 (e - m.pps)
  have hidx : 0 ≤ (e - m.pps).tdiv 60 ∧ (e - m.pps).tdiv 60 < 48 := by
    generalize (e - m.pps).tdiv 60 = idx at *
    generalize (e - m.pps).tmod 60 = rr at *
    omega
  have key := advance_aux m.pps e ((e - m.pps).tdiv 60) hlast hidx.1 hidx.2
  rw [advance_fresh m e h1 h2]
  simp only [Sched.closeEpoch, Sched.openEpoch, window, BA.Gen.wpostChallengeWindow]
  omega

/-- the epoch at which a callback is enrolled is never in the past, and is the last epoch of the
    deadline window containing the reference epoch -/
theorem lastOf_ge (pps e : Int) : e ≤ lastOf pps e ∧ lastOf pps e < e + 60 := by
  obtain ⟨a, b, _⟩ := periodStartOf_spec pps e
  unfold lastOf deadlineIdxOf window
  simp only [BA.Gen.wpostChallengeWindow]
  obtain ⟨c1, c2, c3, c4, c5⟩ := tfacts60 (e - periodStartOf pps e)
  generalize (e - periodStartOf pps e).tdiv 60 = idx at *
  generalize (e - periodStartOf pps e).tmod 60 = rr at *
  omega

/-- the callback is re-enrolled exactly at the last epoch of the *new* deadline: starting from a
    fresh record, the next callback epoch is `e + 60` -/
theorem next_callback_one_window_later (m : Sched) (e : Int) (h1 : m.pps ≤ e)
    (h2 : e < m.pps + 2880) (hlast : e = lastOf m.pps e) :
    lastOf (advance m e).pps (e + 1) = e + 60 := by
  obtain ⟨t1, t2⟩ := deadline_tracks_epoch m e h1 h2 hlast
  -- the new pps is either unchanged or one period later; both are congruent offsets
  have hps := periodStartOf_fresh m.pps e h1 h2
  have hpps : (advance m e).pps = m.pps ∨ (advance m e).pps = m.pps + 2880 := by
    unfold advance
    rw [hps]
    have hlt : ¬ (e < m.pps) := by omega
    simp only [hlt, if_false, period, BA.Gen.wpostProvingPeriod]
    split
    · right; rfl
    · left; rfl
  obtain ⟨a, b, k, hk⟩ := periodStartOf_spec (advance m e).pps (e + 1)
  have hlo := lastOf_ge (advance m e).pps (e + 1)
  unfold lastOf deadlineIdxOf window at *
  simp only [BA.Gen.wpostChallengeWindow] at *
  obtain ⟨c1, c2, c3, c4, c5⟩ := tfacts60 (e + 1 - periodStartOf (advance m e).pps (e + 1))
  -- e+1 is a window boundary relative to the offset, so the window containing it ends at e+60
  simp only [Sched.closeEpoch, Sched.openEpoch, window, BA.Gen.wpostChallengeWindow] at t1 t2
  generalize (e + 1 - periodStartOf (advance m e).pps (e + 1)).tdiv 60 = idx at *
  generalize (e + 1 - periodStartOf (advance m e).pps (e + 1)).tmod 60 = rr at *
  generalize periodStartOf (advance m e).pps (e + 1) = ps at *
  generalize (advance m e).pps = p2 at *
  generalize (advance m e).cur = c2' at *
  omega

/-! ### One pending proving-deadline callback per active miner -/

/-- the scheduling invariant: a miner that holds a claim has exactly one queued proving-deadline
    event when its cron is active and none otherwise -/
def OnePending (w : World) : Prop :=
  ∀ m s, alookup m w.miners = some s → m ∈ w.power.claims →
    countDeadlineEvents w.power m = (if s.cronActive then 1 else 0)

theorem count_append (p : Power) (ev : Event) (m : Nat) :
    countDeadlineEvents { p with queue := p.queue ++ [ev] } m =
      countDeadlineEvents p m + (if ev.2.1 = m ∧ ev.2.2 = 1 then 1 else 0) := by
  unfold countDeadlineEvents
  simp only [List.filter_append, List.length_append]
  by_cases h : ev.2.1 = m ∧ ev.2.2 = 1 <;> simp [List.filter, h]

/-- activation (pre-commit) preserves the invariant -/
theorem activate_one_pending (w : World) (m : Nat) (e : Int) (h : OnePending w)
    (hq : ∀ s, alookup m w.miners = some s → 0 ≤ lastOf s.pps e) : OnePending (activate w m e) := by
  unfold activate
  cases hm : alookup m w.miners with
  | none => exact h
  | some s =>
    simp only
    by_cases ha : s.cronActive = true
    · rw [if_pos ha]; exact h
    · rw [if_neg ha]
      unfold enroll
      have hnn : ¬ (lastOf s.pps e < 0) := by have := hq s hm; omega
      simp only [hnn, if_false]
      intro m' s' hs' hc'
      simp only at hs' hc' ⊢
      by_cases hmm : m' = m
      · subst hmm
        rw [alookup_aset_same] at hs'
        injection hs' with hs'; subst hs'
        have h0 := h m' s hm hc'
        simp only [ha] at h0
        have := count_append w.power (lastOf s.pps e, m', 1) m'
        simp only at this
        unfold countDeadlineEvents at this h0 ⊢
        simp only at this ⊢
        rw [this, h0]; simp
      · rw [alookup_aset_other _ _ _ _ hmm] at hs'
        have h0 := h m' s' hs' hc'
        have := count_append w.power (lastOf s.pps e, m, 1) m'
        unfold countDeadlineEvents at this h0 ⊢
        simp only at this ⊢
        rw [this, h0]
        have : ¬ (m = m' ∧ True) := by intro hh; exact hmm hh.1.symm
        simp [Ne.symm hmm]

/-- the state in the middle of a tick, seen from miner `m` whose due proving-deadline event has
    just been taken off the queue: its cron is active, nothing is queued for it, and every other
    miner satisfies the invariant -/
def MidTick (w : World) (m : Nat) : Prop :=
  (∃ s, alookup m w.miners = some s ∧ s.cronActive = true) ∧
  countDeadlineEvents w.power m = 0 ∧
  ∀ m' s', m' ≠ m → alookup m' w.miners = some s' → m' ∈ w.power.claims →
    countDeadlineEvents w.power m' = (if s'.cronActive then 1 else 0)

/-- **The callback re-establishes "exactly one pending callback"**: when miner `m`'s
    proving-deadline callback runs (successfully) at epoch `e ≥ 0`, then afterwards `m` has exactly
    one queued proving-deadline event if it still has sectors, deposits or vesting funds, and is
    inactive with none queued otherwise; nobody else's schedule is touched. -/
theorem callback_one_pending (w : World) (m : Nat) (e : Int) (funds : Bool) (he : 0 ≤ e)
    (h : MidTick w m) : OnePending (callback w m e funds false) := by
  obtain ⟨⟨s, hs, hact⟩, hcnt, hothers⟩ := h
  unfold callback
  simp only [Bool.false_eq_true, if_false, hs]
  cases funds with
  | true =>
    simp only [if_true]
    have hge := lastOf_ge (advance s e).pps (e + 1)
    unfold enroll
    have hnn : ¬ (lastOf (advance s e).pps (e + 1) < 0) := by omega
    simp only [hnn, if_false]
    intro m' s' hs' hc'
    simp only at hs' hc' ⊢
    have hadv : (advance s e).cronActive = true := by
      unfold advance
      simp only
      by_cases hlt : e < periodStartOf s.pps e
      · rw [if_pos hlt]; exact hact
      · rw [if_neg hlt]; exact hact
    by_cases hmm : m' = m
    · subst hmm
      rw [alookup_aset_same] at hs'
      injection hs' with hs'; subst hs'
      have := count_append w.power (lastOf (advance s e).pps (e + 1), m', 1) m'
      unfold countDeadlineEvents at this hcnt ⊢
      simp only at this ⊢
      rw [this, hcnt, hadv]; simp
    · rw [alookup_aset_other _ _ _ _ hmm] at hs'
      have h0 := hothers m' s' hmm hs' hc'
      have := count_append w.power (lastOf (advance s e).pps (e + 1), m, 1) m'
      unfold countDeadlineEvents at this h0 ⊢
      simp only at this ⊢
      rw [this, h0]
      simp [Ne.symm hmm]
  | false =>
    simp only [Bool.false_eq_true, if_false]
    intro m' s' hs' hc'
    simp only at hs' hc' ⊢
    by_cases hmm : m' = m
    · subst hmm
      rw [alookup_aset_same] at hs'
      injection hs' with hs'; subst hs'
      simp only [Bool.false_eq_true, if_false]
      exact hcnt
    · rw [alookup_aset_other _ _ _ _ hmm] at hs'
      exact hothers m' s' hmm hs' hc'

def OnePendingDec (w : World) : Bool :=
  w.miners.all (fun p => decide (countDeadlineEvents w.power p.1 = (if p.2.cronActive then 1 else 0)))

/-- **F3 witness**: a freshly created miner holds vesting funds (the creation deposit), so
    `continue_deadline_cron` is true, but its deadline cron is inactive and no callback is queued
    — the second sentence of C05 fails right after creation (and until the first pre-commit). -/
theorem fresh_miner_has_funds_but_no_callback :
    let w : World := { power := { claims := [1000] }, miners := [(1000, { pps := 17, cur := 0, cronActive := false })] }
    let fundsAfterCreation := BA.MinerLedger.continueCron (BA.MinerLedger.run {} [(0, .create 100 32)])
    fundsAfterCreation = true ∧ countDeadlineEvents w.power 1000 = 0 ∧ OnePendingDec w = true := by
  decide

/-- non-vacuity: a miner activated at epoch 100 with offset 17 gets its callback at 136 (last epoch
    of the window [77,137)), and after it the recorded deadline is [137,197) -/
example :
    let m : Sched := { pps := 17, cur := 1, cronActive := true }
    lastOf 17 100 = 136 ∧ (advance m 136).openEpoch = 137 ∧ (advance m 136).closeEpoch = 197 ∧
    lastOf (advance m 136).pps 137 = 196 := by decide

end BA.Cron

namespace BA.C05
/-- **No operation on well-formed input reports "balance invariants broken"** (funds half of C05):
    from every reachable ledger state the end-of-method balance check passes. -/
theorem balance_invariants_never_broken (ops : List (Int × BA.MinerLedger.Op)) (others : Int)
    (op : BA.MinerLedger.Op) (s' : BA.MinerLedger.St) (out : BA.MinerLedger.Out)
    (h : BA.MinerLedger.apply false (BA.MinerLedger.run {} ops) others op = .ok (s', out)) :
    BA.MinerLedger.balanceOk s' = true :=
  BA.MinerLedger.balance_check_never_fires ops others op s' out h
end BA.C05
