/-
  C05 — The epoch cron never fails and keeps every active miner on schedule.
  Theorems over `BA.Cron` (scheduling) — the funds half ("balance invariants never broken",
  callbacks never fail for a funds reason) is `BA.MinerLedger.balance_check_never_fires` /
  `apply_good` in BA/Props/C03.lean, re-exported at the end of this file.
-/
import BA.Model.Cron
import BA.Props.C03

namespace BA.Cron
open BA

/-- the cron actor's tick succeeds whatever its entries do -/
theorem cron_tick_total (entryOk : List Bool) : epochTick entryOk = .ok () := rfl

/-- facts about truncating division by the literal 2880 -/
theorem tfacts2880 (x : Int) :
    2880 * x.tdiv 2880 + x.tmod 2880 = x ∧ -2880 < x.tmod 2880 ∧ x.tmod 2880 < 2880 ∧
    (0 ≤ x → 0 ≤ x.tmod 2880) ∧ (x ≤ 0 → x.tmod 2880 ≤ 0) := by
  refine ⟨Int.mul_tdiv_add_tmod x 2880, Int.lt_tmod_of_pos x (by decide),
          Int.tmod_lt_of_pos x (by decide), fun h => Int.tmod_nonneg 2880 h, ?_⟩
  intro h
  have h1 : 0 ≤ (-x).tmod 2880 := Int.tmod_nonneg 2880 (by omega)
  rw [Int.neg_tmod] at h1
  omega

theorem tfacts60 (x : Int) :
    60 * x.tdiv 60 + x.tmod 60 = x ∧ -60 < x.tmod 60 ∧ x.tmod 60 < 60 ∧
    (0 ≤ x → 0 ≤ x.tmod 60) ∧ (x ≤ 0 → x.tmod 60 ≤ 0) := by
  refine ⟨Int.mul_tdiv_add_tmod x 60, Int.lt_tmod_of_pos x (by decide),
          Int.tmod_lt_of_pos x (by decide), fun h => Int.tmod_nonneg 60 h, ?_⟩
  intro h
  have h1 : 0 ≤ (-x).tmod 60 := Int.tmod_nonneg 60 (by omega)
  rw [Int.neg_tmod] at h1
  omega

/-- `quantize_down` with the proving period as unit returns the start of the period that contains
    `e`: it is ≤ e, less than one period below e, and congruent to the offset. -/
theorem periodStartOf_spec (pps e : Int) :
    periodStartOf pps e ≤ e ∧ e < periodStartOf pps e + 2880 ∧
    ∃ k : Int, periodStartOf pps e = pps + 2880 * k := by
  unfold periodStartOf quantizeDown quantizeUp period
  simp only [BA.Gen.wpostProvingPeriod]
  obtain ⟨a1, a2, a3, a4, a5⟩ := tfacts2880 pps
  obtain ⟨b1, b2, b3, b4, b5⟩ := tfacts2880 (e - pps.tmod 2880)
  by_cases h1 : (e - pps.tmod 2880).tmod 2880 = 0 ∨ e - pps.tmod 2880 < 0
  · simp only [h1, if_true]
    by_cases h2 : e = 2880 * (e - pps.tmod 2880).tdiv 2880 + pps.tmod 2880
    · rw [if_pos h2]
      refine ⟨?_, ?_, (e - pps.tmod 2880).tdiv 2880 - pps.tdiv 2880, ?_⟩ <;>
      · generalize (e - pps.tmod 2880).tmod 2880 = r at *
        generalize (e - pps.tmod 2880).tdiv 2880 = q at *
        generalize pps.tmod 2880 = off at *
        generalize pps.tdiv 2880 = qo at *
        omega
    · rw [if_neg h2]
      refine ⟨?_, ?_, (e - pps.tmod 2880).tdiv 2880 - 1 - pps.tdiv 2880, ?_⟩ <;>
      · generalize (e - pps.tmod 2880).tmod 2880 = r at *
        generalize (e - pps.tmod 2880).tdiv 2880 = q at *
        generalize pps.tmod 2880 = off at *
        generalize pps.tdiv 2880 = qo at *
        omega
  · simp only [h1, if_false]
    by_cases h2 : e = 2880 * ((e - pps.tmod 2880).tdiv 2880 + 1) + pps.tmod 2880
    · rw [if_pos h2]
      refine ⟨?_, ?_, (e - pps.tmod 2880).tdiv 2880 + 1 - pps.tdiv 2880, ?_⟩ <;>
      · generalize (e - pps.tmod 2880).tmod 2880 = r at *
        generalize (e - pps.tmod 2880).tdiv 2880 = q at *
        generalize pps.tmod 2880 = off at *
        generalize pps.tdiv 2880 = qo at *
        omega
    · rw [if_neg h2]
      refine ⟨?_, ?_, (e - pps.tmod 2880).tdiv 2880 - pps.tdiv 2880, ?_⟩ <;>
      · generalize (e - pps.tmod 2880).tmod 2880 = r at *
        generalize (e - pps.tmod 2880).tdiv 2880 = q at *
        generalize pps.tmod 2880 = off at *
        generalize pps.tdiv 2880 = qo at *
        omega

/-- for a fresh record (`pps ≤ e < pps + period`) the period start computed from the offset is
    the recorded one -/
theorem periodStartOf_fresh (pps e : Int) (h1 : pps ≤ e) (h2 : e < pps + 2880) :
    periodStartOf pps e = pps := by
  obtain ⟨a, b, k, hk⟩ := periodStartOf_spec pps e
  omega

theorem advance_aux (pps e idx : Int) (h : e = pps + idx * 60 + 60 - 1) (h0 : 0 ≤ idx) (h1 : idx < 48) :
    (if (idx + 1) % 48 = 0 then pps + 2880 else pps) + (idx + 1) % 48 * 60 = e + 1 := by
  by_cases hw : idx = 47
  · subst hw; simp; omega
  · have hmod : (idx + 1) % 48 = idx + 1 := by omega
    have hnz : ¬ (idx + 1 = 0) := by omega
    rw [hmod, if_neg hnz]; omega

/-- the explicit result of `advance` on a fresh record -/
theorem advance_fresh (m : Sched) (e : Int) (h1 : m.pps ≤ e) (h2 : e < m.pps + 2880) :
    advance m e = { m with cur := ((e - m.pps).tdiv 60 + 1) % 48,
                           pps := if ((e - m.pps).tdiv 60 + 1) % 48 = 0 then m.pps + 2880 else m.pps } := by
  have hps := periodStartOf_fresh m.pps e h1 h2
  unfold advance deadlineIdxOf
  rw [hps]
  have hlt : ¬ (e < m.pps) := by omega
  simp only [hlt, if_false, window, nDeadlines, period, BA.Gen.wpostChallengeWindow,
    BA.Gen.wpostPeriodDeadlines, BA.Gen.wpostProvingPeriod]
  first | rfl | congr

/-- **The recorded deadline tracks the epoch.**  If a miner's recorded proving period is current
    (`pps ≤ e < pps + 2880`) and its proving-deadline callback runs at `e`, the last epoch of a
    deadline window (which is where the callback is always enrolled: `lastOf`), then afterwards the
    recorded deadline `[open, close)` is the one containing the next epoch `e + 1` — including
    across the wrap to the next proving period. -/
theorem deadline_tracks_epoch (m : Sched) (e : Int) (h1 : m.pps ≤ e) (h2 : e < m.pps + 2880)
    (hlast : e = lastOf m.pps e) :
    (advance m e).openEpoch = e + 1 ∧ e + 1 < (advance m e).closeEpoch := by
  have hps := periodStartOf_fresh m.pps e h1 h2
  unfold lastOf deadlineIdxOf at hlast
  rw [hps] at hlast
  simp only [window, BA.Gen.wpostChallengeWindow] at hlast
  obtain ⟨c1, c2, c3, c4, c5⟩ := tfacts60 (e - m.pps)
  have hidx : 0 ≤ (e - m.pps).tdiv 60 ∧ (e - m.pps).tdiv 60 < 48 := by
    generalize (e - m.pps).tdiv 60 = idx at *
    generalize (e - m.pps).tmod 60 = rr at *
    omega
  have key := advance_aux m.pps e ((e - m.pps).tdiv 60) hlast hidx.1 hidx.2
  rw [advance_fresh m e h1 h2]
  simp only [Sched.closeEpoch, Sched.openEpoch, window, BA.Gen.wpostChallengeWindow]
  omega

/-- the epoch at which a callback is enrolled is never in the past, and is the last epoch of the
    deadline window containing the reference epoch -/
theorem lastOf_ge (pps e : Int) : e ≤ lastOf pps e ∧ lastOf pps e < e + 60 := by
  obtain ⟨a, b, _⟩ := periodStartOf_spec pps e
  unfold lastOf deadlineIdxOf window
  simp only [BA.Gen.wpostChallengeWindow]
  obtain ⟨c1, c2, c3, c4, c5⟩ := tfacts60 (e - periodStartOf pps e)
  generalize (e - periodStartOf pps e).tdiv 60 = idx at *
  generalize (e - periodStartOf pps e).tmod 60 = rr at *
  omega

/-- the callback is re-enrolled exactly at the last epoch of the *new* deadline: starting from a
    fresh record, the next callback epoch is `e + 60` -/
theorem next_callback_one_window_later (m : Sched) (e : Int) (h1 : m.pps ≤ e)
    (h2 : e < m.pps + 2880) (hlast : e = lastOf m.pps e) :
    lastOf (advance m e).pps (e + 1) = e + 60 := by
  obtain ⟨t1, t2⟩ := deadline_tracks_epoch m e h1 h2 hlast
  -- the new pps is either unchanged or one period later; both are congruent offsets
  have hps := periodStartOf_fresh m.pps e h1 h2
  have hpps : (advance m e).pps = m.pps ∨ (advance m e).pps = m.pps + 2880 := by
    unfold advance
    rw [hps]
    have hlt : ¬ (e < m.pps) := by omega
    simp only [hlt, if_false, period, BA.Gen.wpostProvingPeriod]
    split
    · right; rfl
    · left; rfl
  obtain ⟨a, b, k, hk⟩ := periodStartOf_spec (advance m e).pps (e + 1)
  have hlo := lastOf_ge (advance m e).pps (e + 1)
  unfold lastOf deadlineIdxOf window at *
  simp only [BA.Gen.wpostChallengeWindow] at *
  obtain ⟨c1, c2, c3, c4, c5⟩ := tfacts60 (e + 1 - periodStartOf (advance m e).pps (e + 1))
  -- e+1 is a window boundary relative to the offset, so the window containing it ends at e+60
  simp only [Sched.closeEpoch, Sched.openEpoch, window, BA.Gen.wpostChallengeWindow] at t1 t2
  generalize (e + 1 - periodStartOf (advance m e).pps (e + 1)).tdiv 60 = idx at *
  generalize (e + 1 - periodStartOf (advance m e).pps (e + 1)).tmod 60 = rr at *
  generalize periodStartOf (advance m e).pps (e + 1) = ps at *
  generalize (advance m e).pps = p2 at *
  generalize (advance m e).cur = c2' at *
  omega

/-! ### One pending proving-deadline callback per active miner -/

/-- the scheduling invariant: a miner that holds a claim has exactly one queued proving-deadline
    event when its cron is active and none otherwise -/
def OnePending (w : World) : Prop :=
  ∀ m s, alookup m w.miners = some s → m ∈ w.power.claims →
    countDeadlineEvents w.power m = (if s.cronActive then 1 else 0)

theorem count_append (p : Power) (ev : Event) (m : Nat) :
    countDeadlineEvents { p with queue := p.queue ++ [ev] } m =
      countDeadlineEvents p m + (if ev.2.1 = m ∧ ev.2.2 = 1 then 1 else 0) := by
  unfold countDeadlineEvents
  simp only [List.filter_append, List.length_append]
  by_cases h : ev.2.1 = m ∧ ev.2.2 = 1 <;> simp [List.filter, h]

/-- activation (pre-commit) preserves the invariant -/
theorem activate_one_pending (w : World) (m : Nat) (e : Int) (h : OnePending w)
    (hq : ∀ s, alookup m w.miners = some s → 0 ≤ lastOf s.pps e) : OnePending (activate w m e) := by
  unfold activate
  cases hm : alookup m w.miners with
  | none => exact h
  | some s =>
    simp only
    by_cases ha : s.cronActive = true
    · rw [if_pos ha]; exact h
    · rw [if_neg ha]
      unfold enroll
      have hnn : ¬ (lastOf s.pps e < 0) := by have := hq s hm; omega
      simp only [hnn, if_false]
      intro m' s' hs' hc'
      simp only at hs' hc' ⊢
      by_cases hmm : m' = m
      · subst hmm
        rw [alookup_aset_same] at hs'
        injection hs' with hs'; subst hs'
        have h0 := h m' s hm hc'
        simp only [ha] at h0
        have := count_append w.power (lastOf s.pps e, m', 1) m'
        simp only at this
        unfold countDeadlineEvents at this h0 ⊢
        simp only at this ⊢
        rw [this, h0]; simp
      · rw [alookup_aset_other _ _ _ _ hmm] at hs'
        have h0 := h m' s' hs' hc'
        have := count_append w.power (lastOf s.pps e, m, 1) m'
        unfold countDeadlineEvents at this h0 ⊢
        simp only at this ⊢
        rw [this, h0]
        have : ¬ (m = m' ∧ True) := by intro hh; exact hmm hh.1.symm
        simp [Ne.symm hmm]

/-- the state in the middle of a tick, seen from miner `m` whose due proving-deadline event has
    just been taken off the queue: its cron is active, nothing is queued for it, and every other
    miner satisfies the invariant -/
def MidTick (w : World) (m : Nat) : Prop :=
  (∃ s, alookup m w.miners = some s ∧ s.cronActive = true) ∧
  countDeadlineEvents w.power m = 0 ∧
  ∀ m' s', m' ≠ m → alookup m' w.miners = some s' → m' ∈ w.power.claims →
    countDeadlineEvents w.power m' = (if s'.cronActive then 1 else 0)

/-- **The callback re-establishes "exactly one pending callback"**: when miner `m`'s
    proving-deadline callback runs (successfully) at epoch `e ≥ 0`, then afterwards `m` has exactly
    one queued proving-deadline event if it still has sectors, deposits or vesting funds, and is
    inactive with none queued otherwise; nobody else's schedule is touched. -/
theorem callback_one_pending (w : World) (m : Nat) (e : Int) (funds : Bool) (he : 0 ≤ e)
    (h : MidTick w m) : OnePending (callback w m e funds false) := by
  obtain ⟨⟨s, hs, hact⟩, hcnt, hothers⟩ := h
  unfold callback
  simp only [Bool.false_eq_true, if_false, hs]
  cases funds with
  | true =>
    simp only [if_true]
    have hge := lastOf_ge (advance s e).pps (e + 1)
    unfold enroll
    have hnn : ¬ (lastOf (advance s e).pps (e + 1) < 0) := by omega
    simp only [hnn, if_false]
    intro m' s' hs' hc'
    simp only at hs' hc' ⊢
    have hadv : (advance s e).cronActive = true := by
      unfold advance
      simp only
      by_cases hlt : e < periodStartOf s.pps e
      · rw [if_pos hlt]; exact hact
      · rw [if_neg hlt]; exact hact
    by_cases hmm : m' = m
    · subst hmm
      rw [alookup_aset_same] at hs'
      injection hs' with hs'; subst hs'
      have := count_append w.power (lastOf (advance s e).pps (e + 1), m', 1) m'
      unfold countDeadlineEvents at this hcnt ⊢
      simp only at this ⊢
      rw [this, hcnt, hadv]; simp
    · rw [alookup_aset_other _ _ _ _ hmm] at hs'
      have h0 := hothers m' s' hmm hs' hc'
      have := count_append w.power (lastOf (advance s e).pps (e + 1), m, 1) m'
      unfold countDeadlineEvents at this h0 ⊢
      simp only at this ⊢
      rw [this, h0]
      simp [Ne.symm hmm]
  | false =>
    simp only [Bool.false_eq_true, if_false]
    intro m' s' hs' hc'
    simp only at hs' hc' ⊢
    by_cases hmm : m' = m
    · subst hmm
      rw [alookup_aset_same] at hs'
      injection hs' with hs'; subst hs'
      simp only [Bool.false_eq_true, if_false]
      exact hcnt
    · rw [alookup_aset_other _ _ _ _ hmm] at hs'
      exact hothers m' s' hmm hs' hc'

/-- one successful callback, seen from every miner: only `m` is touched, the claims are unchanged,
    and `m` ends with exactly one queued proving-deadline event iff its cron stays active -/
theorem callback_step (w : World) (m : Nat) (e : Int) (funds : Bool) (he : 0 ≤ e) (s : Sched)
    (hs : alookup m w.miners = some s) (hact : s.cronActive = true)
    (hcnt : countDeadlineEvents w.power m = 0) :
    (callback w m e funds false).power.claims = w.power.claims ∧
    (∀ m', m' ≠ m → alookup m' (callback w m e funds false).miners = alookup m' w.miners ∧
        countDeadlineEvents (callback w m e funds false).power m' = countDeadlineEvents w.power m') ∧
    (∃ s', alookup m (callback w m e funds false).miners = some s' ∧
        countDeadlineEvents (callback w m e funds false).power m = (if s'.cronActive then 1 else 0)) := by
  unfold callback
  simp only [Bool.false_eq_true, if_false, hs]
  cases funds with
  | true =>
    simp only [if_true]
    have hge := lastOf_ge (advance s e).pps (e + 1)
    unfold enroll
    have hnn : ¬ (lastOf (advance s e).pps (e + 1) < 0) := by omega
    simp only [hnn, if_false]
    have hadv : (advance s e).cronActive = true := by
      unfold advance
      simp only
      by_cases hlt : e < periodStartOf s.pps e
      · rw [if_pos hlt]; exact hact
      · rw [if_neg hlt]; exact hact
    refine ⟨trivial, ?_, ?_⟩
    · intro m' hmm
      refine ⟨alookup_aset_other _ _ _ _ hmm, ?_⟩
      have := count_append w.power (lastOf (advance s e).pps (e + 1), m, 1) m'
      unfold countDeadlineEvents at this ⊢
      simp only at this ⊢
      rw [this]
      simp [Ne.symm hmm]
    · refine ⟨advance s e, alookup_aset_same _ _ _, ?_⟩
      have := count_append w.power (lastOf (advance s e).pps (e + 1), m, 1) m
      unfold countDeadlineEvents at this hcnt ⊢
      simp only at this ⊢
      rw [this, hcnt, hadv]; simp
  | false =>
    simp only [Bool.false_eq_true, if_false]
    refine ⟨trivial, ?_, ?_⟩
    · intro m' hmm
      exact ⟨alookup_aset_other _ _ _ _ hmm, trivial⟩
    · refine ⟨{ advance s e with cronActive := false }, alookup_aset_same _ _ _, ?_⟩
      simp only [Bool.false_eq_true, if_false]
      exact hcnt

/-- the invariant of the power actor's dispatch loop: the miners whose due event has been taken off
    the queue and whose callback has not run yet (`pending`) are active with nothing queued; every
    other claim-holding miner has exactly one queued event iff its cron is active -/
def TickInv (w : World) (pending : List Nat) : Prop :=
  pending.Nodup ∧
  (∀ m ∈ pending, (∃ s, alookup m w.miners = some s ∧ s.cronActive = true) ∧
      countDeadlineEvents w.power m = 0) ∧
  (∀ m s, m ∉ pending → alookup m w.miners = some s → m ∈ w.power.claims →
      countDeadlineEvents w.power m = (if s.cronActive then 1 else 0))

/-- the dispatch loop of `process_deferred_cron_events` over the miners with a due event
    (successful callbacks; `env m` = whether `m` still has sectors, deposits or vesting funds) -/
def dispatch (w : World) (e : Int) (env : Nat → Bool) : List Nat → World
  | [] => w
  | m :: ms => dispatch (callback w m e (env m) false) e env ms

/-- **The tick re-establishes "exactly one pending callback" for everybody**: after the power
    actor has dequeued the due proving-deadline events (state `TickInv w ms`) and run the callbacks
    of those miners in any order, every claim-holding miner has exactly one queued proving-deadline
    event if its cron is active and none otherwise. -/
theorem dispatch_one_pending (e : Int) (he : 0 ≤ e) (env : Nat → Bool) :
    ∀ (ms : List Nat) (w : World), TickInv w ms → OnePending (dispatch w e env ms) := by
  intro ms
  induction ms with
  | nil =>
    intro w h m s hs hc
    exact h.2.2 m s (by simp) hs hc
  | cons m ms ih =>
    intro w h
    obtain ⟨hnd, hpend, hrest⟩ := h
    rw [List.nodup_cons] at hnd
    obtain ⟨⟨s, hs, hact⟩, hcnt⟩ := hpend m (by simp)
    obtain ⟨hcl, hframe, s', hs', hcnt'⟩ := callback_step w m e (env m) he s hs hact hcnt
    apply ih
    refine ⟨hnd.2, ?_, ?_⟩
    · intro m' hm'
      have hne : m' ≠ m := fun h => hnd.1 (h ▸ hm')
      obtain ⟨f1, f2⟩ := hframe m' hne
      obtain ⟨⟨t, ht, hta⟩, hc0⟩ := hpend m' (List.mem_cons_of_mem _ hm')
      exact ⟨⟨t, by rw [f1]; exact ht, hta⟩, by rw [f2]; exact hc0⟩
    · intro m' t hnot ht hc
      by_cases hne : m' = m
      · subst hne
        rw [hs'] at ht; cases ht
        exact hcnt'
      · obtain ⟨f1, f2⟩ := hframe m' hne
        rw [f1] at ht
        rw [f2]
        apply hrest m' t _ ht (by rw [← hcl]; exact hc)
        intro hmem
        cases hmem with
        | head => exact hne rfl
        | tail _ h' => exact hnot h'

/-- "due": the event's epoch lies in the window `[firstCronEpoch, e]` -/
def dueP (w : World) (e : Int) : Event → Bool :=
  fun ev => decide (w.power.firstCronEpoch ≤ ev.1 ∧ ev.1 ≤ e)
/-- the complement, in the form `powerTick` uses -/
def notDueP (w : World) (e : Int) : Event → Bool :=
  fun ev => decide (¬ (decide (w.power.firstCronEpoch ≤ ev.1 ∧ ev.1 ≤ e) = true))
/-- the event is a proving-deadline event of a claim holder -/
def liveP (w : World) : Event → Bool := fun ev => decide (ev.2.1 ∈ w.power.claims ∧ ev.2.2 = 1)
/-- the event is a proving-deadline event of miner `m` -/
def ofP (m : Nat) : Event → Bool := fun ev => decide (ev.2.1 = m ∧ ev.2.2 = 1)

theorem count_eq (p : Power) (m : Nat) : countDeadlineEvents p m = (p.queue.filter (ofP m)).length := rfl

/-- the miners whose proving-deadline event is due in the window `[firstCronEpoch, e]` and who hold a claim -/
def dueMiners (w : World) (e : Int) : List Nat :=
  (((w.power.queue.filter (dueP w e)).filter (liveP w)).map (·.2.1))

/-- the world right after the due events were taken off the queue -/
def afterDequeue (w : World) (e : Int) : World :=
  { w with power := { w.power with queue := w.power.queue.filter (notDueP w e), firstCronEpoch := e + 1 } }

theorem foldl_dispatch (claims : List Nat) (e : Int) (env : Nat → Bool × Bool)
    (hok : ∀ m, (env m).2 = false) :
    ∀ (due : List Event) (acc : World),
    due.foldl (fun acc ev =>
      if ev.2.1 ∈ claims ∧ ev.2.2 = 1 then callback acc ev.2.1 e (env ev.2.1).1 (env ev.2.1).2 else acc) acc
    = dispatch acc e (fun m => (env m).1)
        ((due.filter (fun ev => decide (ev.2.1 ∈ claims ∧ ev.2.2 = 1))).map (·.2.1)) := by
  intro due
  induction due with
  | nil => intro acc; rfl
  | cons ev rest ih =>
    intro acc
    simp only [List.foldl_cons]
    by_cases hc : ev.2.1 ∈ claims ∧ ev.2.2 = 1
    · simp only [hc, and_self, if_true, List.filter_cons, decide_true, List.map_cons, dispatch]
      rw [hok ev.2.1]
      exact ih _
    · simp only [hc, if_false, List.filter_cons, decide_false]
      exact ih _

/-- **`process_deferred_cron_events` is the dequeue followed by the dispatch loop** (when no
    callback fails). -/
theorem powerTick_eq_dispatch (w : World) (e : Int) (env : Nat → Bool × Bool)
    (hok : ∀ m, (env m).2 = false) :
    powerTick w e env = dispatch (afterDequeue w e) e (fun m => (env m).1) (dueMiners w e) := by
  unfold powerTick dueMiners afterDequeue
  exact foldl_dispatch w.power.claims e env hok _ _

theorem filter_partition_len {α : Type} (l : List α) (p q t : α → Bool) (hq : ∀ x, q x = !p x) :
    (l.filter t).length = ((l.filter p).filter t).length + ((l.filter q).filter t).length := by
  induction l with
  | nil => rfl
  | cons a r ih =>
    simp only [List.filter_cons]
    by_cases hp : p a = true
    · have hqa : q a = false := by rw [hq, hp]; rfl
      by_cases ht : t a = true <;> simp [hp, hqa, ht, ih] <;> omega
    · have hp' : p a = false := by simpa using hp
      have hqa : q a = true := by rw [hq, hp']; rfl
      by_cases ht : t a = true <;> simp [hp', hqa, ht, ih] <;> omega

theorem filter_len_mono {α : Type} (l : List α) (p q : α → Bool) (h : ∀ a, p a = true → q a = true) :
    (l.filter p).length ≤ (l.filter q).length := by
  induction l with
  | nil => simp
  | cons a r ih =>
    simp only [List.filter_cons]
    by_cases hp : p a = true
    · simp [hp, h a hp]; exact ih
    · have hp' : p a = false := by simpa using hp
      by_cases hq : q a = true
      · simp [hp', hq]; omega
      · have hq' : q a = false := by simpa using hq
        simp [hp', hq']; exact ih

theorem nodup_map_of_count_le_one {α : Type} (f : α → Nat) :
    ∀ (l : List α), (∀ x, (l.filter (fun a => decide (f a = x))).length ≤ 1) → (l.map f).Nodup := by
  intro l
  induction l with
  | nil => intro _; simp
  | cons a r ih =>
    intro h
    rw [List.map_cons, List.nodup_cons]
    constructor
    · intro hmem
      rw [List.mem_map] at hmem
      obtain ⟨b, hb, hfb⟩ := hmem
      have h0 := h (f a)
      have h1 : (List.filter (fun x => decide (f x = f a)) (a :: r)).length =
          (List.filter (fun x => decide (f x = f a)) r).length + 1 := by
        simp [List.filter_cons]
      have hpos : 0 < (r.filter (fun x => decide (f x = f a))).length := by
        apply List.length_pos_of_mem (a := b)
        rw [List.mem_filter]; exact ⟨hb, by simp [hfb]⟩
      omega
    · apply ih
      intro x
      have h0 := h x
      by_cases hx : f a = x
      · have h1 : (List.filter (fun y => decide (f y = x)) (a :: r)).length =
            (List.filter (fun y => decide (f y = x)) r).length + 1 := by
          simp [List.filter_cons, hx]
        omega
      · have h1 : (List.filter (fun y => decide (f y = x)) (a :: r)).length =
            (List.filter (fun y => decide (f y = x)) r).length := by
          simp [List.filter_cons, hx]
        omega

/-- well-formedness of the schedule world the tick theorem needs: every queued proving-deadline
    event belongs to a miner that has a schedule record -/
def EventsHaveMiners (w : World) : Prop :=
  ∀ ev ∈ w.power.queue, ev.2.2 = 1 → ∃ s, alookup ev.2.1 w.miners = some s

/-- after the due events were dequeued the loop invariant holds -/
theorem tickInv_after_dequeue (w : World) (e : Int) (h : OnePending w) (hm : EventsHaveMiners w) :
    TickInv (afterDequeue w e) (dueMiners w e) := by
  have hQ : ∀ x, notDueP w e x = !dueP w e x := by
    intro x
    unfold notDueP dueP
    by_cases hx : (w.power.firstCronEpoch ≤ x.1 ∧ x.1 ≤ e) <;> simp [hx]
  have part : ∀ m, countDeadlineEvents w.power m =
      ((w.power.queue.filter (dueP w e)).filter (ofP m)).length +
      countDeadlineEvents (afterDequeue w e).power m := by
    intro m
    rw [count_eq, count_eq]
    exact filter_partition_len w.power.queue (dueP w e) (notDueP w e) (ofP m) hQ
  have mem_due : ∀ m, m ∈ dueMiners w e ↔
      m ∈ w.power.claims ∧ 0 < ((w.power.queue.filter (dueP w e)).filter (ofP m)).length := by
    intro m
    unfold dueMiners
    simp only [List.mem_map, List.mem_filter]
    constructor
    · rintro ⟨ev, ⟨⟨hq, hp⟩, hl⟩, rfl⟩
      have hl' : ev.2.1 ∈ w.power.claims ∧ ev.2.2 = 1 := by simpa [liveP] using hl
      refine ⟨hl'.1, ?_⟩
      apply List.length_pos_of_mem (a := ev)
      simp only [List.mem_filter]
      exact ⟨⟨hq, hp⟩, by simp [ofP, hl'.2]⟩
    · rintro ⟨hc, hpos⟩
      obtain ⟨ev, hev⟩ := List.exists_mem_of_length_pos hpos
      simp only [List.mem_filter] at hev
      obtain ⟨⟨hq, hp⟩, ho⟩ := hev
      have ho' : ev.2.1 = m ∧ ev.2.2 = 1 := by simpa [ofP] using ho
      exact ⟨ev, ⟨⟨hq, hp⟩, by simp [liveP, ho'.1, ho'.2, hc]⟩, ho'.1⟩
  have one : ∀ m, m ∈ w.power.claims → 0 < countDeadlineEvents w.power m →
      (∃ s, alookup m w.miners = some s ∧ s.cronActive = true) ∧ countDeadlineEvents w.power m = 1 := by
    intro m hc hpos
    have hpos' := hpos
    rw [count_eq] at hpos'
    obtain ⟨ev, hev⟩ := List.exists_mem_of_length_pos hpos'
    simp only [List.mem_filter] at hev
    obtain ⟨hq, ho⟩ := hev
    have ho' : ev.2.1 = m ∧ ev.2.2 = 1 := by simpa [ofP] using ho
    obtain ⟨s, hs⟩ := hm ev hq ho'.2
    rw [ho'.1] at hs
    have hh := h m s hs hc
    by_cases ha : s.cronActive = true
    · simp only [ha, if_true] at hh
      exact ⟨⟨s, hs, ha⟩, hh⟩
    · have hf : s.cronActive = false := by simpa using ha
      rw [hf] at hh
      simp only [Bool.false_eq_true, if_false] at hh
      omega
  have le1 : ∀ x, (((w.power.queue.filter (dueP w e)).filter (liveP w)).filter
      (fun a => decide (a.2.1 = x))).length ≤ 1 := by
    intro x
    by_cases hx : x ∈ w.power.claims
    · have hp := part x
      have hle : (((w.power.queue.filter (dueP w e)).filter (liveP w)).filter
          (fun a => decide (a.2.1 = x))).length ≤
          ((w.power.queue.filter (dueP w e)).filter (ofP x)).length := by
        rw [List.filter_filter]
        apply filter_len_mono
        intro a ha
        simp only [Bool.and_eq_true, decide_eq_true_eq, liveP] at ha
        simp [ofP, ha.1, ha.2.2]
      by_cases hpos : 0 < countDeadlineEvents w.power x
      · obtain ⟨_, h1⟩ := one x hx hpos
        omega
      · omega
    · have hnil : (((w.power.queue.filter (dueP w e)).filter (liveP w)).filter
          (fun a => decide (a.2.1 = x))) = [] := by
        rw [List.filter_eq_nil_iff]
        intro a ha
        simp only [List.mem_filter] at ha
        have hl : a.2.1 ∈ w.power.claims ∧ a.2.2 = 1 := by simpa [liveP] using ha.2
        simp only [decide_eq_true_eq]
        intro hax
        exact hx (hax ▸ hl.1)
      rw [hnil]; simp
  refine ⟨?_, ?_, ?_⟩
  · unfold dueMiners
    exact nodup_map_of_count_le_one (fun ev : Event => ev.2.1) _ le1
  · intro m hmd
    obtain ⟨hc, hpos⟩ := (mem_due m).mp hmd
    have hp := part m
    have hpos' : 0 < countDeadlineEvents w.power m := by omega
    obtain ⟨⟨s, hs, ha⟩, h1⟩ := one m hc hpos'
    exact ⟨⟨s, hs, ha⟩, by omega⟩
  · intro m s hnot hs hc
    have hp := part m
    have hz : ((w.power.queue.filter (dueP w e)).filter (ofP m)).length = 0 := by
      by_cases hpos : 0 < ((w.power.queue.filter (dueP w e)).filter (ofP m)).length
      · exact absurd ((mem_due m).mpr ⟨hc, hpos⟩) hnot
      · omega
    have hh := h m s hs hc
    show countDeadlineEvents (afterDequeue w e).power m = _
    omega

/-- **Every tick keeps "exactly one pending proving-deadline callback"** — if before the tick every
    claim-holding miner has exactly one queued proving-deadline event when its cron is active and none
    otherwise, then so it is after `process_deferred_cron_events` at any epoch `e ≥ 0`, whichever
    miners' events were due, in whatever order, and whether or not each of them still has sectors,
    deposits or vesting funds (no callback failing). -/
theorem tick_one_pending (w : World) (e : Int) (he : 0 ≤ e) (env : Nat → Bool × Bool)
    (hok : ∀ m, (env m).2 = false) (h : OnePending w) (hm : EventsHaveMiners w) :
    OnePending (powerTick w e env) := by
  rw [powerTick_eq_dispatch w e env hok]
  exact dispatch_one_pending e he _ _ _ (tickInv_after_dequeue w e h hm)

def OnePendingDec (w : World) : Bool :=
  w.miners.all (fun p => decide (countDeadlineEvents w.power p.1 = (if p.2.cronActive then 1 else 0)))

/-- **F3 witness**: a freshly created miner holds vesting funds (the creation deposit), so
    `continue_deadline_cron` is true, but its deadline cron is inactive and no callback is queued
    — the second sentence of C05 fails right after creation (and until the first pre-commit). -/
theorem fresh_miner_has_funds_but_no_callback :
    let w : World := { power := { claims := [1000] }, miners := [(1000, { pps := 17, cur := 0, cronActive := false })] }
    let fundsAfterCreation := BA.MinerLedger.continueCron (BA.MinerLedger.run {} [(0, .create 100 32)])
    fundsAfterCreation = true ∧ countDeadlineEvents w.power 1000 = 0 ∧ OnePendingDec w = true := by
  decide

/-- non-vacuity: a miner activated at epoch 100 with offset 17 gets its callback at 136 (last epoch
    of the window [77,137)), and after it the recorded deadline is [137,197) -/
example :
    let m : Sched := { pps := 17, cur := 1, cronActive := true }
    lastOf 17 100 = 136 ∧ (advance m 136).openEpoch = 137 ∧ (advance m 136).closeEpoch = 197 ∧
    lastOf (advance m 136).pps 137 = 196 := by decide

end BA.Cron

namespace BA.C05
/-- **No operation on well-formed input reports "balance invariants broken"** (funds half of C05):
    from every reachable ledger state the end-of-method balance check passes. -/
theorem balance_invariants_never_broken (ops : List (Int × BA.MinerLedger.Op)) (others : Int)
    (op : BA.MinerLedger.Op) (s' : BA.MinerLedger.St) (out : BA.MinerLedger.Out)
    (h : BA.MinerLedger.apply false (BA.MinerLedger.run {} ops) others op = .ok (s', out)) :
    BA.MinerLedger.balanceOk s' = true :=
  BA.MinerLedger.balance_check_never_fires ops others op s' out h
end BA.C05
