/-
  C19 — EVM contract state stays coherent across nested, re-entrant and reverted calls.

  `impl_refines_spec_partial`: the flush / reload / dirty-flag / lifespan / tombstone machinery of
  `System` (interpreter/system.rs, model `implRun`) is observationally equal to Ethereum's
  journaled state (`specRun`) for every call-tree script: any number of contracts, any nesting and
  re-entrancy shape, CALL / STATICCALL / DELEGATECALL, reverts and failures at any depth, storage,
  transient storage, value transfers, logs, SELFDESTRUCT, over any sequence of top-level messages
  with pairwise distinct (origin, nonce).  The named corollaries instantiate it for the script
  shapes the property statement talks about, from an arbitrary quiescent implementation state.

  Not covered (no model): CREATE / CREATE2 inside the tree and `Resurrect` of a dead contract,
  precompiles, gas and the call-depth limit.
-/
import BA.Lemmas.EvmStorage

namespace BA.Evm.Storage
open BA

/-- `(origin, nonce)` has not been used by any message that left a tombstone or transient data in
    the state tree (on chain: nonces of an origin only grow) -/
def VM.Fresh (vm : VM) (l : Life) : Prop :=
  ∀ a, (vm.actors a).tomb ≠ some l ∧ ∀ m, (vm.actors a).tdata ≠ some (m, l)

/-- **Refinement** (`_partial`: the script language has no CREATE / CREATE2 / Resurrect, which the
    property's quantifier includes; everything else — CALL, STATICCALL, DELEGATECALL, reverts,
    storage, transient storage, value, logs, SELFDESTRUCT — is covered in full generality).
    From any quiescent implementation state `vm` (standing for the spec world
    `vm.abs`), for every sequence of top-level messages with fresh, pairwise distinct
    (origin, nonce) and arbitrary call-tree scripts: the success flag and the observation log
    (every value read by SLOAD / TLOAD / ADDRESS / CALLER / CALLVALUE / SELFBALANCE at every depth,
    every sub-call's success flag) of every message are the same in the implementation model and
    in the journaled-state spec, and so are the final observable storage (`GetStorageAt`) of every
    contract, which contracts are destroyed (`GetBytecode = None`), all balances and the committed
    event list. -/
theorem impl_refines_spec_partial (vm : VM) (msgs : List Msg) (hfresh : ∀ m ∈ msgs, vm.Fresh m.life)
    (hnd : (msgs.map (·.life)).Nodup) :
    (implRun vm msgs).1 = (specRun vm.abs msgs).1 ∧
    (∀ a k, (implRun vm msgs).2.storageAt a k = (specRun vm.abs msgs).2.stor a k) ∧
    (∀ a, (implRun vm msgs).2.isDestroyed a = (specRun vm.abs msgs).2.dead a) ∧
    (implRun vm msgs).2.bal = (specRun vm.abs msgs).2.bal ∧
    (implRun vm msgs).2.events = (specRun vm.abs msgs).2.logs := by
  have hinv : Inv (fun l => ∀ m ∈ msgs, l ≠ m.life) vm.abs vm :=
    inv_abs (fun a => ⟨fun t ht m hm he => (hfresh m hm a).1 (he ▸ ht),
      fun mp l hl m hm he => (hfresh m hm a).2 mp (he ▸ hl)⟩)
  obtain ⟨h1, Q, h2⟩ := run_refine msgs _ _ _ hinv (fun m hm hx => hx m hm rfl) hnd
  exact ⟨h1.symm, h2.observables⟩

/-- the same from the freshly deployed system (all contracts empty, no balances) -/
theorem impl_refines_spec_init_partial (msgs : List Msg) (hnd : (msgs.map (·.life)).Nodup) :
    (implRun VM.init msgs).1 = (specRun SWorld.init msgs).1 ∧
    (∀ a k, (implRun VM.init msgs).2.storageAt a k = (specRun SWorld.init msgs).2.stor a k) ∧
    (∀ a, (implRun VM.init msgs).2.isDestroyed a = (specRun SWorld.init msgs).2.dead a) := by
  obtain ⟨h1, Q, h2⟩ := run_refine msgs _ _ _ inv_init (fun _ _ hx => hx) hnd
  exact ⟨h1.symm, h2.observables.1, h2.observables.2.1⟩

/-- one message (the form the corollaries use) -/
theorem msg_refines_spec (vm : VM) (m : Msg) (hfresh : vm.Fresh m.life) :
    (implMsg vm m).1 = (specMsg vm.abs m).1 ∧
    (∀ a k, (implMsg vm m).2.storageAt a k = (specMsg vm.abs m).2.stor a k) ∧
    (∀ a, (implMsg vm m).2.isDestroyed a = (specMsg vm.abs m).2.dead a) ∧
    (implMsg vm m).2.bal = (specMsg vm.abs m).2.bal ∧
    (implMsg vm m).2.events = (specMsg vm.abs m).2.logs := by
  have hinv : Inv (fun l => l ≠ m.life) vm.abs vm :=
    inv_abs (fun a => ⟨fun t ht he => (hfresh a).1 (he ▸ ht), fun mp l hl he => (hfresh a).2 mp (he ▸ hl)⟩)
  obtain ⟨h1, h2⟩ := msg_refine hinv m (fun hx => hx rfl)
  exact ⟨h1.symm, h2.observables⟩

/-- **Inner writes are visible after return** (re-entrancy): `A` calls `B`, `B` calls back into
    `A`, the inner activation of `A` writes slot `k`; after the calls returned the outer activation
    of `A` reads the inner value (`B = A` allowed: direct self-call). Any prior state. -/
theorem inner_writes_visible_after_return (vm : VM) (life : Life) (A B k v value : Nat)
    (hfresh : vm.Fresh life) (hA : vm.isDestroyed A = false) (hB : vm.isDestroyed B = false) :
    (implMsg vm (Msg.mk life A value
        [.call .call B 0 [.call .call A 0 [.sstore k v]], .sload k])).1
      = (1, [1, 1, v]) := by
  rw [(msg_refines_spec vm _ hfresh).1]
  simp [specMsg, specOps, specOp, specResume, SRes.finish, callValue, calleeCtx, topCtx,
    SWorld.setStor, VM.abs, hA, hB]

/-- **Outer writes are visible to the inner activation**: `A` writes `k`, calls `B`, `B` calls
    back into `A`; the inner activation of `A` reads the outer activation's (unflushed-until-then)
    value. -/
theorem outer_writes_visible_to_inner (vm : VM) (life : Life) (A B k v value : Nat)
    (hfresh : vm.Fresh life) (hA : vm.isDestroyed A = false) (hB : vm.isDestroyed B = false) :
    (implMsg vm (Msg.mk life A value
        [.sstore k v, .call .call B 0 [.call .call A 0 [.sload k]]])).1
      = (1, [1, 1, v]) := by
  rw [(msg_refines_spec vm _ hfresh).1]
  simp [specMsg, specOps, specOp, specResume, SRes.finish, callValue, calleeCtx, topCtx,
    SWorld.setStor, VM.abs, hA, hB]

/-- **A reverted call leaves no trace while its caller continues**: `A` writes `k := v`, calls `B`
    with value `x`; `B` calls back into `A` which overwrites `k`, writes transient storage and emits
    a log; then `B` reverts.  Afterwards `A` still reads `v` from `k`, empty transient storage, its
    full balance; the message succeeds; no event was committed; `A`'s slot `k` ends as `v`; all
    balances are as if only the message's value had arrived. -/
theorem reverted_call_leaves_no_trace (vm : VM) (life : Life) (A B k v v' t x : Nat)
    (hfresh : vm.Fresh life) (hA : vm.isDestroyed A = false) (hB : vm.isDestroyed B = false) :
    let r := implMsg vm (Msg.mk life A x
        [.sstore k v,
                 .call .call B x [.call .call A 0 [.sstore k v', .tstore k v', .log t], .revert],
                 .sload k, .tload k, .env 3])
    r.1 = (1, [0, 1, v, 0, vm.bal A + x]) ∧ r.2.events = vm.events ∧ r.2.storageAt A k = v ∧
    r.2.bal = credit vm.bal A x := by
  intro r
  obtain ⟨h1, h2, _, h4, h5⟩ := msg_refines_spec vm
    (Msg.mk life A x
      [.sstore k v,
               .call .call B x [.call .call A 0 [.sstore k v', .tstore k v', .log t], .revert],
               .sload k, .tload k, .env 3]) hfresh
  have hlt : ¬ (vm.bal A + x < x) := by omega
  refine ⟨?_, ?_, ?_, ?_⟩
  · rw [h1]
    simp [specMsg, specOps, specOp, specResume, SRes.finish, callValue, calleeCtx, topCtx,
      SWorld.setStor, SWorld.setTrans, VM.abs, hA, hB, credit, envVal, hlt]
  · rw [h5]
    simp [specMsg, specOps, specOp, specResume, SRes.finish, callValue, calleeCtx, topCtx,
      SWorld.setStor, SWorld.setTrans, VM.abs, hA, hB, credit, envVal, hlt, SWorld.finalize]
  · rw [h2]
    simp [specMsg, specOps, specOp, specResume, SRes.finish, callValue, calleeCtx, topCtx,
      SWorld.setStor, SWorld.setTrans, VM.abs, hA, hB, credit, envVal, hlt, SWorld.finalize]
  · rw [h4]
    simp [specMsg, specOps, specOp, specResume, SRes.finish, callValue, calleeCtx, topCtx,
      SWorld.setStor, SWorld.setTrans, VM.abs, hA, hB, credit, envVal, hlt, SWorld.finalize]

/-- **A failed call leaves no trace — general form.**  For every sub-script `body`, call kind,
    target and value, and every continuation `rest`: if the call on its own reports flag 0 (it
    reverted, failed, or could not be paid for) with return data `l`, then running it in front of
    `rest` gives exactly the final storage, destroyed set, balances and events of running `rest`
    alone; the caller continues, and the only difference is the prefix `0 :: l` in the observation
    log (where a log is returned at all). From any quiescent state, in the implementation model. -/
theorem failed_call_leaves_no_trace (vm : VM) (life : Life) (A value : Nat) (kind : Kind)
    (t val : Nat) (body rest : List Op) (l : List Nat) (hfresh : vm.Fresh life)
    (hfail : (implMsg vm (Msg.mk life A value [.call kind t val body])).1 = (1, 0 :: l)) :
    let r1 := implMsg vm (Msg.mk life A value (.call kind t val body :: rest))
    let r2 := implMsg vm (Msg.mk life A value rest)
    (r1.1 = r2.1 ∨ r1.1 = (r2.1.1, 0 :: l ++ r2.1.2)) ∧
    (∀ a k, r1.2.storageAt a k = r2.2.storageAt a k) ∧
    (∀ a, r1.2.isDestroyed a = r2.2.isDestroyed a) ∧ r1.2.bal = r2.2.bal ∧
    r1.2.events = r2.2.events := by
  intro r1 r2
  obtain ⟨a0, _⟩ := msg_refines_spec vm (Msg.mk life A value [.call kind t val body]) hfresh
  obtain ⟨a1, b1, c1, d1, e1⟩ := msg_refines_spec vm (Msg.mk life A value (.call kind t val body :: rest)) hfresh
  obtain ⟨a2, b2, c2, d2, e2⟩ := msg_refines_spec vm (Msg.mk life A value rest) hfresh
  rw [a0] at hfail
  obtain ⟨hlog, hst⟩ := spec_msg_failed_call vm.abs life A value kind t val body rest l hfail
  refine ⟨?_, fun a k => ?_, fun a => ?_, ?_, ?_⟩
  · show (implMsg vm _).1 = (implMsg vm _).1 ∨ (implMsg vm _).1 = ((implMsg vm _).1.1, 0 :: l ++ (implMsg vm _).1.2)
    rw [a1, a2]; exact hlog
  · show (implMsg vm _).2.storageAt a k = (implMsg vm _).2.storageAt a k
    rw [b1, b2, hst]
  · show (implMsg vm _).2.isDestroyed a = (implMsg vm _).2.isDestroyed a
    rw [c1, c2, hst]
  · show (implMsg vm _).2.bal = (implMsg vm _).2.bal
    rw [d1, d2, hst]
  · show (implMsg vm _).2.events = (implMsg vm _).2.events
    rw [e1, e2, hst]

/-- **Transient storage is shared within one top-level message**: the re-entered inner activation
    of `A` reads the outer activation's TSTORE and the outer one reads the inner one's. -/
theorem transient_shared_within_message (vm : VM) (life : Life) (A B k v v' value : Nat)
    (hfresh : vm.Fresh life) (hA : vm.isDestroyed A = false) (hB : vm.isDestroyed B = false) :
    (implMsg vm (Msg.mk life A value
        [.tstore k v, .call .call B 0 [.call .call A 0 [.tload k, .tstore k v']], .tload k])).1
      = (1, [1, 1, v, v']) := by
  rw [(msg_refines_spec vm _ hfresh).1]
  simp [specMsg, specOps, specOp, specResume, SRes.finish, callValue, calleeCtx, topCtx,
    SWorld.setTrans, VM.abs, hA, hB]

/-- **Transient storage is empty in the next top-level message**, whatever the previous message
    did (any entry point, any script): a TLOAD of any key at any contract then reads 0 (or the
    contract has been destroyed and returns nothing). -/
theorem transient_empty_next_message (vm : VM) (m1 : Msg) (life2 : Life) (A k value : Nat)
    (hf1 : vm.Fresh m1.life) (hf2 : vm.Fresh life2) (hne : m1.life ≠ life2) :
    let r := (implRun vm [m1, (Msg.mk life2 A value [.tload k])]).1
    r[1]? = some (1, [0]) ∨ r[1]? = some (1, []) := by
  intro r
  have h := (impl_refines_spec_partial vm [m1, (Msg.mk life2 A value [.tload k])]
    (by intro m hm; simp at hm; rcases hm with rfl | rfl <;> assumption)
    (by simp [hne])).1
  have key : ∀ w1 : SWorld, (specMsg w1 (Msg.mk life2 A value [.tload k])).1 = (1, [0]) ∨
      (specMsg w1 (Msg.mk life2 A value [.tload k])).1 = (1, []) := by
    intro w1
    by_cases hd : w1.dead A = true
    · right; simp [specMsg, hd]
    · left; simp [specMsg, specOps, specOp, SRes.finish, hd]
  show (implRun vm _).1[1]? = _ ∨ (implRun vm _).1[1]? = _
  rw [h]
  simp only [specRun, List.getElem?_cons_succ, List.getElem?_cons_zero]
  rcases key (specMsg vm.abs m1).2 with h' | h'
  · left; rw [h']
  · right; rw [h']

/-- **SELFDESTRUCT is deferred to the end of the top-level message**: `B` self-destructs in favour
    of `C`; later in the same message `B` still runs code and uses its storage; when the message
    has ended `B` is destroyed, its storage reads 0, its balance went to `C` at SELFDESTRUCT time;
    in the next message a call to `B` succeeds and executes nothing. -/
theorem selfdestruct_deferred (vm : VM) (life1 life2 : Life) (A B C k v : Nat)
    (hf1 : vm.Fresh life1) (hf2 : vm.Fresh life2) (hne : life1 ≠ life2)
    (hA : vm.isDestroyed A = false) (hB : vm.isDestroyed B = false) (hAB : A ≠ B) (hCB : C ≠ B) :
    let m1 : Msg := (Msg.mk life1 A 0
      [.call .call B 0 [.selfdestruct C], .call .call B 0 [.sstore k v, .sload k]])
    let m2 : Msg := (Msg.mk life2 A 0 [.call .call B 0 [.sload k]])
    let r := implRun vm [m1, m2]
    r.1 = [(1, [1, 1, v]), (1, [1])] ∧ r.2.isDestroyed B = true ∧ r.2.storageAt B k = 0 ∧
    r.2.bal B = 0 ∧ r.2.bal C = vm.bal C + vm.bal B := by
  intro m1 m2 r
  obtain ⟨h1, h2, h3, h4, _⟩ := impl_refines_spec_partial vm [m1, m2]
    (by intro m hm; simp at hm; rcases hm with rfl | rfl <;> assumption) (by simp [m1, m2, hne])
  have hBA : B ≠ A := fun h => hAB h.symm
  have hBC : B ≠ C := fun h => hCB h.symm
  refine ⟨?_, ?_, ?_, ?_, ?_⟩
  · show (implRun vm [m1, m2]).1 = _
    rw [h1]
    simp [m1, m2, specRun, specMsg, specOps, specOp, specResume, SRes.finish, callValue, calleeCtx,
      topCtx, SWorld.setStor, VM.abs, hA, hB, hAB, hBA, SWorld.finalize, credit, transfer_zero]
  · show (implRun vm [m1, m2]).2.isDestroyed B = true
    rw [h3]
    simp [m1, m2, specRun, specMsg, specOps, specOp, specResume, SRes.finish, callValue, calleeCtx,
      topCtx, SWorld.setStor, VM.abs, hA, hB, hAB, hBA, SWorld.finalize, credit, transfer_zero]
  · show (implRun vm [m1, m2]).2.storageAt B k = 0
    rw [h2]
    simp [m1, m2, specRun, specMsg, specOps, specOp, specResume, SRes.finish, callValue, calleeCtx,
      topCtx, SWorld.setStor, VM.abs, hA, hB, hAB, hBA, SWorld.finalize, credit, transfer_zero]
  · show (implRun vm [m1, m2]).2.bal B = 0
    rw [h4]
    simp [m1, m2, specRun, specMsg, specOps, specOp, specResume, SRes.finish, callValue, calleeCtx,
      topCtx, SWorld.setStor, VM.abs, hA, hB, hAB, hBA, hBC, SWorld.finalize, credit, transfer_zero, transfer]
  · show (implRun vm [m1, m2]).2.bal C = _
    rw [h4]
    simp [m1, m2, specRun, specMsg, specOps, specOp, specResume, SRes.finish, callValue, calleeCtx,
      topCtx, SWorld.setStor, VM.abs, hA, hB, hAB, hBA, hCB, SWorld.finalize, credit, transfer_zero, transfer]

/-- **DELEGATECALL runs against the caller's storage, value and sender**: `A` calls `B` with value
    `x`; `B` delegate-calls `C`; the delegated code sees ADDRESS = `B`, CALLER = `A`,
    CALLVALUE = `x`, and its SSTORE lands in `B`'s storage (read back by `B`, persisted under `B`),
    not in `C`'s. -/
theorem delegatecall_uses_caller_context (vm : VM) (life : Life) (A B C k v x : Nat)
    (hfresh : vm.Fresh life) (hA : vm.isDestroyed A = false) (hB : vm.isDestroyed B = false)
    (hC : vm.isDestroyed C = false) (hCB : C ≠ B) :
    let r := implMsg vm (Msg.mk life A x
        [.call .call B x [.call .delegate C 0 [.env 0, .env 1, .env 2, .sstore k v], .sload k]])
    r.1 = (1, [1, 1, B, A, x, v]) ∧ r.2.storageAt B k = v ∧ r.2.storageAt C k = vm.storageAt C k := by
  intro r
  obtain ⟨h1, h2, _, _, _⟩ := msg_refines_spec vm
    (Msg.mk life A x
      [.call .call B x [.call .delegate C 0 [.env 0, .env 1, .env 2, .sstore k v], .sload k]]) hfresh
  have hlt : ¬ (vm.bal A + x < x) := by omega
  refine ⟨?_, ?_, ?_⟩
  · rw [h1]
    simp [specMsg, specOps, specOp, specResume, SRes.finish, callValue, calleeCtx, topCtx,
      SWorld.setStor, VM.abs, hA, hB, hC, credit, envVal, hlt]
  · rw [h2]
    simp [specMsg, specOps, specOp, specResume, SRes.finish, callValue, calleeCtx, topCtx,
      SWorld.setStor, VM.abs, hA, hB, hC, credit, envVal, hlt, SWorld.finalize]
  · rw [h2]
    simp [specMsg, specOps, specOp, specResume, SRes.finish, callValue, calleeCtx, topCtx,
      SWorld.setStor, VM.abs, hA, hB, hC, credit, envVal, hlt, SWorld.finalize, hCB]

/-- **DELEGATECALL'd code behaves as the caller's own code — general form.**  For every script
    `body` and every live target `t`: if `body`, run directly by contract `A` as a top-level
    message, succeeds with observation log `l`, then `A` running the same `body` through a
    DELEGATECALL to `t` observes exactly the same values (`1 :: l`: success flag + returned log) and
    leaves exactly the same final storage of every contract, destroyed set, balances and events —
    the delegated code read and wrote `A`'s storage and transient storage, saw `A`'s caller and
    value, spent `A`'s balance, and even its SELFDESTRUCT hit `A`. -/
theorem delegatecall_is_inline (vm : VM) (life : Life) (A value t dv : Nat) (body : List Op)
    (l : List Nat) (hfresh : vm.Fresh life) (hA : vm.isDestroyed A = false)
    (ht : vm.isDestroyed t = false)
    (hok : (implMsg vm (Msg.mk life A value body)).1 = (1, l)) :
    let r1 := implMsg vm (Msg.mk life A value [.call .delegate t dv body])
    let r2 := implMsg vm (Msg.mk life A value body)
    r1.1 = (1, 1 :: l) ∧ (∀ a k, r1.2.storageAt a k = r2.2.storageAt a k) ∧
    (∀ a, r1.2.isDestroyed a = r2.2.isDestroyed a) ∧ r1.2.bal = r2.2.bal ∧
    r1.2.events = r2.2.events := by
  intro r1 r2
  obtain ⟨a1, b1, c1, d1, e1⟩ := msg_refines_spec vm (Msg.mk life A value [.call .delegate t dv body]) hfresh
  obtain ⟨a2, b2, c2, d2, e2⟩ := msg_refines_spec vm (Msg.mk life A value body) hfresh
  rw [a2] at hok
  obtain ⟨hlog, hst⟩ := spec_delegate_inline vm.abs life A value t dv body l hA ht hok
  refine ⟨?_, fun a k => ?_, fun a => ?_, ?_, ?_⟩
  · show (implMsg vm _).1 = _
    rw [a1]; exact hlog
  · show (implMsg vm _).2.storageAt a k = (implMsg vm _).2.storageAt a k
    rw [b1, b2, hst]
  · show (implMsg vm _).2.isDestroyed a = (implMsg vm _).2.isDestroyed a
    rw [c1, c2, hst]
  · show (implMsg vm _).2.bal = (implMsg vm _).2.bal
    rw [d1, d2, hst]
  · show (implMsg vm _).2.events = (implMsg vm _).2.events
    rw [e1, e2, hst]

/-! ### non-vacuity: the hypotheses are satisfiable and the scripts do what is claimed, by
    evaluation of the implementation model from the freshly deployed system -/

theorem fresh_init (l : Life) : VM.init.Fresh l := by
  intro a; simp [VM.init, PState.empty]

/-- re-entrant write / read across three activations, evaluated -/
example : (implMsg VM.init (Msg.mk ⟨100, 0⟩ 0 0
    [.call .call 1 0 [.call .call 0 0 [.sstore 7 5]], .sload 7])).1 = (1, [1, 1, 5]) := by
  decide +kernel

/-- a reverted nested write is invisible afterwards, the caller continues -/
example : (implMsg VM.init (Msg.mk ⟨100, 0⟩ 0 3
    [.sstore 1 7, .call .call 1 2 [.sstore 1 9, .sload 1, .call .call 0 0 [.sload 1, .sstore 1 8], .env 3, .revert],
             .sload 1, .env 3])).1 = (1, [0, 9, 1, 7, 2, 7, 3]) := by
  decide +kernel

/-- two messages: transient data survives inside the first, is gone in the second;
    the self-destructed contract 1 works until the first message ends and is empty afterwards -/
example : (implRun VM.init
    [(Msg.mk ⟨100, 0⟩ 0 0
       [.tstore 2 4, .call .call 1 0 [.sstore 3 3, .selfdestruct 0], .call .call 1 0 [.sload 3], .call .call 0 0 [.tload 2]]),
     (Msg.mk ⟨100, 1⟩ 0 0 [.tload 2, .call .call 1 0 [.sload 3]])]).1
    = [(1, [1, 1, 3, 1, 4]), (1, [0, 1])] := by
  decide +kernel

/-- delegated code runs in the caller's context (ADDRESS 1, CALLER 0, CALLVALUE 3, writes slot of 1) -/
example : (implMsg VM.init (Msg.mk ⟨100, 0⟩ 0 3
    [.call .call 1 3 [.call .delegate 2 0 [.env 0, .env 1, .env 2, .sstore 5 6], .sload 5]])).1
    = (1, [1, 1, 1, 0, 3, 6]) := by
  decide +kernel

/-- a static call cannot write: the callee fails, the caller sees flag 0 -/
example : (implMsg VM.init (Msg.mk ⟨100, 0⟩ 0 0
    [.call .static 1 0 [.sload 1, .sstore 1 1], .call .static 1 0 [.sload 1]])).1 = (1, [0, 1, 0]) := by
  decide +kernel

end BA.Evm.Storage
