/-
  C17 — EVM instructions compute what the Ethereum specification says.
  For each arithmetic / comparison / bitwise instruction: the transliterated Rust algorithm (`xImpl`,
  `BA/Model/Evm/Word.lean`) equals the Yellow Paper / EIP definition (`xSpec`) on all 2^256-sized operands.
-/
import BA.Lemmas.Evm

namespace BA.Evm

/-! ### modular arithmetic -/

/-- ADD computes (a + b) mod 2^256 for all operands. -/
theorem add_impl_eq_spec (a b : W) : addImpl a b = addSpec a b := by
  apply BitVec.eq_of_toNat_eq
  simp [addImpl, addSpec, ofN, BitVec.toNat_add]

/-- MUL computes (a × b) mod 2^256 for all operands. -/
theorem mul_impl_eq_spec (a b : W) : mulImpl a b = mulSpec a b := by
  apply BitVec.eq_of_toNat_eq
  simp [mulImpl, mulSpec, ofN, BitVec.toNat_mul]

/-- SUB computes (a − b) mod 2^256 for all operands. -/
theorem sub_impl_eq_spec (a b : W) : subImpl a b = subSpec a b := by
  apply BitVec.eq_of_toNat_eq
  have ha := a.isLt
  have hb := b.isLt
  simp only [subImpl, subSpec, ofI, BitVec.toNat_sub, BitVec.toNat_ofNat]
  omega

/-- DIV: 0 for a zero divisor, else the floor of the quotient. -/
theorem div_impl_eq_spec (a b : W) : divImpl a b = divSpec a b := by
  apply BitVec.eq_of_toNat_eq
  have ha := a.isLt
  unfold divImpl divSpec
  by_cases hb : b = 0#256
  · subst hb; simp [toNat_ofN]
  · have hb' : b.toNat ≠ 0 := fun h => hb (BitVec.eq_of_toNat_eq (by simpa using h))
    have : a.toNat / b.toNat ≤ a.toNat := Nat.div_le_self _ _
    simp only [ne_eq, hb, not_false_eq_true, if_true, hb', if_false, BitVec.toNat_udiv]
    rw [toNat_ofN_of_lt (by omega)]

/-- MOD: 0 for a zero divisor, else the remainder. -/
theorem mod_impl_eq_spec (a b : W) : modImpl a b = modSpec a b := by
  apply BitVec.eq_of_toNat_eq
  have ha := a.isLt
  unfold modImpl modSpec
  by_cases hb : b = 0#256
  · subst hb; simp [toNat_ofN]
  · have hb' : b.toNat ≠ 0 := fun h => hb (BitVec.eq_of_toNat_eq (by simpa using h))
    have : a.toNat % b.toNat ≤ a.toNat := Nat.mod_le _ _
    simp only [ne_eq, hb, not_false_eq_true, if_true, hb', if_false, BitVec.toNat_umod]
    rw [toNat_ofN_of_lt (by omega)]

/-- ADDMOD: (a + b) mod c on unbounded naturals (no wrap at 2^256), 0 for c = 0. -/
theorem addmod_impl_eq_spec (a b c : W) : addmodImpl a b c = addmodSpec a b c := by
  apply BitVec.eq_of_toNat_eq
  unfold addmodImpl addmodSpec ofN
  by_cases hc : c = 0#256
  · subst hc; simp
  · have hc' : c.toNat ≠ 0 := fun h => hc (BitVec.eq_of_toNat_eq (by simpa using h))
    simp [hc, hc']

/-- MULMOD: (a × b) mod c on unbounded naturals, 0 for c = 0. -/
theorem mulmod_impl_eq_spec (a b c : W) : mulmodImpl a b c = mulmodSpec a b c := by
  apply BitVec.eq_of_toNat_eq
  unfold mulmodImpl mulmodSpec ofN
  by_cases hc : c = 0#256
  · subst hc; simp
  · have hc' : c.toNat ≠ 0 := fun h => hc (BitVec.eq_of_toNat_eq (by simpa using h))
    simp [hc, hc']

/-! ### signed division and remainder -/

/-- SDIV: truncating signed division, 0 for a zero divisor, and −2^255 ÷ −1 = −2^255. -/
theorem sdiv_impl_eq_spec (a b : W) : sdivImpl a b = sdivSpec a b := by
  unfold sdivImpl sdivSpec
  by_cases hb : b = 0#256
  · subst hb; simp [i256Div, sInt, ofN]
  have hsb : sInt b ≠ 0 := fun h => hb ((sInt_eq_zero_iff b).mp h)
  by_cases ha : a = 0#256
  · subst ha
    have : sInt (0#256) = 0 := by simp [sInt]
    simp [i256Div, this, hsb, ofI]
  rw [i256Div_eq ha hb]
  simp only [hsb, if_false]
  have hA := absW_le a
  have hB := absW_le b
  have hA0 := absW_ne_zero ha
  have hB0 := absW_ne_zero hb
  have hq : (absW a / absW b).toNat = (absW a).toNat / (absW b).toNat := BitVec.toNat_udiv
  have hqle : (absW a).toNat / (absW b).toNat ≤ (absW a).toNat := Nat.div_le_self _ _
  generalize hqd : (absW a).toNat / (absW b).toNat = q at hq hqle
  have hd0 : (absW a / absW b = 0#256) ↔ q = 0 := by rw [eq_zero_iff_toNat, hq]
  apply BitVec.eq_of_toNat_eq
  cases hna : isNeg a <;> cases hnb : isNeg b
  · -- both non-negative
    rw [sInt_of_nonneg hna, sInt_of_nonneg hnb]
    have hne : ¬ (((absW a).toNat : Int) = -(2 ^ 255) ∧ ((absW b).toNat : Int) = -1) := by omega
    simp only [hne, if_false, or_true, if_true, ← Int.ofNat_tdiv, hqd, hq]
    rw [toNat_ofI_of_nonneg (by omega) (by omega)]
    omega
  · -- a ≥ 0, b < 0
    rw [sInt_of_nonneg hna, sInt_of_neg hnb]
    have hne : ¬ (((absW a).toNat : Int) = -(2 ^ 255) ∧ -((absW b).toNat : Int) = -1) := by omega
    simp only [hne, if_false, Int.tdiv_neg, ← Int.ofNat_tdiv, hqd, hd0, Bool.false_eq_true, or_false]
    by_cases hq0 : q = 0
    · subst hq0; simp [hq, ofI]
    · simp only [hq0, if_false, i256Neg_toNat, hq]
      rw [toNat_ofI_of_neg (by omega) (by omega)]
      omega
  · -- a < 0, b ≥ 0
    rw [sInt_of_neg hna, sInt_of_nonneg hnb]
    have hne : ¬ (-((absW a).toNat : Int) = -(2 ^ 255) ∧ ((absW b).toNat : Int) = -1) := by omega
    simp only [hne, if_false, Int.neg_tdiv, ← Int.ofNat_tdiv, hqd, hd0, Bool.true_eq_false, or_false]
    by_cases hq0 : q = 0
    · subst hq0; simp [hq, ofI]
    · simp only [hq0, if_false, i256Neg_toNat, hq]
      rw [toNat_ofI_of_neg (by omega) (by omega)]
      omega
  · -- both negative (includes −2^255 ÷ −1)
    rw [sInt_of_neg hna, sInt_of_neg hnb]
    simp only [or_true, if_true, Int.neg_tdiv, Int.tdiv_neg, Int.neg_neg, ← Int.ofNat_tdiv, hqd, hq]
    by_cases hsp : (absW a).toNat = 2 ^ 255 ∧ (absW b).toNat = 1
    · have hq1 : q = 2 ^ 255 := by rw [← hqd, hsp.1, hsp.2, Nat.div_one]
      have : (-((absW a).toNat : Int) = -(2 ^ 255) ∧ -((absW b).toNat : Int) = -1) := by omega
      simp only [this, and_self, if_true]
      rw [toNat_ofI_of_neg (by omega) (by omega)]
      omega
    · have : ¬ (-((absW a).toNat : Int) = -(2 ^ 255) ∧ -((absW b).toNat : Int) = -1) := by omega
      simp only [this, if_false]
      have hq2 : q < 2 ^ 255 ∨ q = 2 ^ 255 := by omega
      rw [toNat_ofI_of_nonneg (by omega) (by omega)]
      omega

/-- SMOD: remainder with the sign of the dividend, 0 for a zero divisor. -/
theorem smod_impl_eq_spec (a b : W) : smodImpl a b = smodSpec a b := by
  unfold smodImpl smodSpec
  by_cases hb : b = 0#256
  · subst hb; simp [i256Mod, sInt, ofN]
  have hsb : sInt b ≠ 0 := fun h => hb ((sInt_eq_zero_iff b).mp h)
  by_cases ha : a = 0#256
  · subst ha
    have : sInt (0#256) = 0 := by simp [sInt]
    simp [i256Mod, this, hsb, ofI]
  rw [i256Mod_eq ha hb]
  simp only [hsb, if_false, ← absW_toNat]
  have hA := absW_le a
  have hB := absW_le b
  have hA0 := absW_ne_zero ha
  have hB0 := absW_ne_zero hb
  have hr : (absW a % absW b).toNat = (absW a).toNat % (absW b).toNat := BitVec.toNat_umod
  have hrlt : (absW a).toNat % (absW b).toNat < (absW b).toNat := Nat.mod_lt _ (by omega)
  generalize hrd : (absW a).toNat % (absW b).toNat = r at hr hrlt
  have hr0 : (absW a % absW b = 0#256) ↔ r = 0 := by rw [eq_zero_iff_toNat, hr]
  apply BitVec.eq_of_toNat_eq
  cases hna : isNeg a
  · rw [sInt_of_nonneg hna]
    have hs : Int.sign ((absW a).toNat : Int) = 1 := Int.sign_eq_one_of_pos (by omega)
    simp only [Bool.false_eq_true, false_and, if_false, hs, Int.one_mul, hr]
    rw [toNat_ofI_of_nonneg (by omega) (by omega)]
    omega
  · rw [sInt_of_neg hna]
    have hs : Int.sign (-((absW a).toNat : Int)) = -1 := Int.sign_eq_neg_one_of_neg (by omega)
    simp only [true_and, hs, ne_eq, hr0]
    by_cases hz : r = 0
    · subst hz; simp [hr, ofI]
    · simp only [hz, not_false_eq_true, if_true]
      rw [i256Neg_toNat, hr, toNat_ofI_of_neg (by omega) (by omega)]
      simp only [hz, if_false]
      omega

/-! ### comparisons -/

theorem toNat_boolW (c : Bool) : (boolW c).toNat = if c then 1 else 0 := by
  cases c <;> rfl

/-- LT: unsigned less-than. -/
theorem lt_impl_eq_spec (a b : W) : ltImpl a b = ltSpec a b := by
  unfold ltImpl ltSpec boolW ofN
  by_cases h : a.toNat < b.toNat <;> simp [BitVec.lt_def, h]

/-- GT: unsigned greater-than. -/
theorem gt_impl_eq_spec (a b : W) : gtImpl a b = gtSpec a b := by
  unfold gtImpl gtSpec boolW ofN
  by_cases h : a.toNat > b.toNat <;> simp [BitVec.lt_def, h]

/-- EQ -/
theorem eq_impl_eq_spec (a b : W) : eqImpl a b = eqSpec a b := by
  unfold eqImpl eqSpec boolW ofN
  by_cases h : a = b
  · subst h; simp
  · have : a.toNat ≠ b.toNat := fun e => h (BitVec.eq_of_toNat_eq e)
    simp [h, this]

/-- ISZERO -/
theorem iszero_impl_eq_spec (a : W) : iszeroImpl a = iszeroSpec a := by
  unfold iszeroImpl iszeroSpec boolW ofN
  by_cases h : a = 0#256
  · subst h; simp
  · have := toNat_ne_zero_of_ne h
    simp [h, this]

theorem cmp_beq_lt (m n : Nat) : (compare m n == Ordering.lt) = decide (m < n) := by
  rcases Nat.lt_trichotomy m n with h | h | h
  · rw [Nat.compare_eq_lt.mpr h, decide_eq_true h]; rfl
  · subst h; simp
  · rw [Nat.compare_eq_gt.mpr h, decide_eq_false (by omega)]; rfl

theorem cmp_beq_gt (m n : Nat) : (compare m n == Ordering.gt) = decide (m > n) := by
  rcases Nat.lt_trichotomy m n with h | h | h
  · rw [Nat.compare_eq_lt.mpr h, decide_eq_false (by omega)]; rfl
  · subst h; simp
  · rw [Nat.compare_eq_gt.mpr h, decide_eq_true h]; rfl

theorem i256Cmp_lt_iff (a b : W) : (i256Cmp a b == .lt) = decide (sInt a < sInt b) := by
  have ha := a.isLt
  have hb := b.isLt
  unfold i256Cmp
  cases hna : isNeg a <;> cases hnb : isNeg b <;> simp only
  all_goals
    rw [isNeg_iff] at hna hnb
    simp only [decide_eq_true_eq, decide_eq_false_iff_not] at hna hnb
    unfold sInt
  · have h1 : a.toNat < 2 ^ 255 := by omega
    have h2 : b.toNat < 2 ^ 255 := by omega
    simp only [h1, h2, if_true, cmp_beq_lt]
    by_cases h : a.toNat < b.toNat
    · rw [decide_eq_true h, decide_eq_true (by omega)]
    · rw [decide_eq_false h, decide_eq_false (by omega)]
  · have h1 : a.toNat < 2 ^ 255 := by omega
    have h2 : ¬ b.toNat < 2 ^ 255 := by omega
    simp only [h1, h2, if_true, if_false]
    rw [decide_eq_false (by omega)]; rfl
  · have h1 : ¬ a.toNat < 2 ^ 255 := by omega
    have h2 : b.toNat < 2 ^ 255 := by omega
    simp only [h1, h2, if_true, if_false]
    rw [decide_eq_true (by omega)]; rfl
  · have h1 : ¬ a.toNat < 2 ^ 255 := by omega
    have h2 : ¬ b.toNat < 2 ^ 255 := by omega
    simp only [h1, h2, if_false, cmp_beq_lt]
    by_cases h : a.toNat < b.toNat
    · rw [decide_eq_true h, decide_eq_true (by omega)]
    · rw [decide_eq_false h, decide_eq_false (by omega)]

theorem i256Cmp_gt_iff (a b : W) : (i256Cmp a b == .gt) = decide (sInt a > sInt b) := by
  have ha := a.isLt
  have hb := b.isLt
  unfold i256Cmp
  cases hna : isNeg a <;> cases hnb : isNeg b <;> simp only
  all_goals
    rw [isNeg_iff] at hna hnb
    simp only [decide_eq_true_eq, decide_eq_false_iff_not] at hna hnb
    unfold sInt
  · have h1 : a.toNat < 2 ^ 255 := by omega
    have h2 : b.toNat < 2 ^ 255 := by omega
    simp only [h1, h2, if_true, cmp_beq_gt]
    by_cases h : a.toNat > b.toNat
    · rw [decide_eq_true h, decide_eq_true (by omega)]
    · rw [decide_eq_false h, decide_eq_false (by omega)]
  · have h1 : a.toNat < 2 ^ 255 := by omega
    have h2 : ¬ b.toNat < 2 ^ 255 := by omega
    simp only [h1, h2, if_true, if_false]
    rw [decide_eq_true (by omega)]; rfl
  · have h1 : ¬ a.toNat < 2 ^ 255 := by omega
    have h2 : b.toNat < 2 ^ 255 := by omega
    simp only [h1, h2, if_true, if_false]
    rw [decide_eq_false (by omega)]; rfl
  · have h1 : ¬ a.toNat < 2 ^ 255 := by omega
    have h2 : ¬ b.toNat < 2 ^ 255 := by omega
    simp only [h1, h2, if_false, cmp_beq_gt]
    by_cases h : a.toNat > b.toNat
    · rw [decide_eq_true h, decide_eq_true (by omega)]
    · rw [decide_eq_false h, decide_eq_false (by omega)]

/-- SLT: less-than on the two's complement readings. -/
theorem slt_impl_eq_spec (a b : W) : sltImpl a b = sltSpec a b := by
  unfold sltImpl sltSpec
  rw [i256Cmp_lt_iff]
  by_cases h : sInt a < sInt b <;> simp [h, boolW, ofN]

/-- SGT: greater-than on the two's complement readings. -/
theorem sgt_impl_eq_spec (a b : W) : sgtImpl a b = sgtSpec a b := by
  unfold sgtImpl sgtSpec
  rw [i256Cmp_gt_iff]
  by_cases h : sInt a > sInt b <;> simp [h, boolW, ofN]

end BA.Evm
