/-
  C17 — EVM instructions compute what the Ethereum specification says.
  For each arithmetic / comparison / bitwise instruction: the transliterated Rust algorithm (`xImpl`,
  `BA/Model/Evm/Word.lean`) equals the Yellow Paper / EIP definition (`xSpec`) on all 2^256-sized operands.
-/
import BA.Lemmas.Evm
import BA.Lemmas.EvmInterp

namespace BA.Evm

/-! ### modular arithmetic -/

/-- ADD computes (a + b) mod 2^256 for all operands. -/
theorem add_impl_eq_spec (a b : W) : addImpl a b = addSpec a b := by
  apply BitVec.eq_of_toNat_eq
  simp [addImpl, addSpec, ofN, BitVec.toNat_add]

/-- MUL computes (a × b) mod 2^256 for all operands. -/
theorem mul_impl_eq_spec (a b : W) : mulImpl a b = mulSpec a b := by
  apply BitVec.eq_of_toNat_eq
  simp [mulImpl, mulSpec, ofN, BitVec.toNat_mul]

/-- SUB computes (a − b) mod 2^256 for all operands. -/
theorem sub_impl_eq_spec (a b : W) : subImpl a b = subSpec a b := by
  apply BitVec.eq_of_toNat_eq
  have ha := a.isLt
  have hb := b.isLt
  simp only [subImpl, subSpec, ofI, BitVec.toNat_sub, BitVec.toNat_ofNat]
  omega

/-- DIV: 0 for a zero divisor, else the floor of the quotient. -/
theorem div_impl_eq_spec (a b : W) : divImpl a b = divSpec a b := by
  apply BitVec.eq_of_toNat_eq
  have ha := a.isLt
  unfold divImpl divSpec
  by_cases hb : b = 0#256
  · subst hb; simp [toNat_ofN]
  · have hb' : b.toNat ≠ 0 := fun h => hb (BitVec.eq_of_toNat_eq (by simpa using h))
    have : a.toNat / b.toNat ≤ a.toNat := Nat.div_le_self _ _
    simp only [ne_eq, hb, not_false_eq_true, if_true, hb', if_false, BitVec.toNat_udiv]
    rw [toNat_ofN_of_lt (by omega)]

/-- MOD: 0 for a zero divisor, else the remainder. -/
theorem mod_impl_eq_spec (a b : W) : modImpl a b = modSpec a b := by
  apply BitVec.eq_of_toNat_eq
  have ha := a.isLt
  unfold modImpl modSpec
  by_cases hb : b = 0#256
  · subst hb; simp [toNat_ofN]
  · have hb' : b.toNat ≠ 0 := fun h => hb (BitVec.eq_of_toNat_eq (by simpa using h))
    have : a.toNat % b.toNat ≤ a.toNat := Nat.mod_le _ _
    simp only [ne_eq, hb, not_false_eq_true, if_true, hb', if_false, BitVec.toNat_umod]
    rw [toNat_ofN_of_lt (by omega)]

/-- ADDMOD: (a + b) mod c on unbounded naturals (no wrap at 2^256), 0 for c = 0. -/
theorem addmod_impl_eq_spec (a b c : W) : addmodImpl a b c = addmodSpec a b c := by
  apply BitVec.eq_of_toNat_eq
  unfold addmodImpl addmodSpec ofN
  by_cases hc : c = 0#256
  · subst hc; simp
  · have hc' : c.toNat ≠ 0 := fun h => hc (BitVec.eq_of_toNat_eq (by simpa using h))
    simp [hc, hc']

/-- MULMOD: (a × b) mod c on unbounded naturals, 0 for c = 0. -/
theorem mulmod_impl_eq_spec (a b c : W) : mulmodImpl a b c = mulmodSpec a b c := by
  apply BitVec.eq_of_toNat_eq
  unfold mulmodImpl mulmodSpec ofN
  by_cases hc : c = 0#256
  · subst hc; simp
  · have hc' : c.toNat ≠ 0 := fun h => hc (BitVec.eq_of_toNat_eq (by simpa using h))
    simp [hc, hc']

/-! ### signed division and remainder -/

/-- SDIV: truncating signed division, 0 for a zero divisor, and −2^255 ÷ −1 = −2^255. -/
theorem sdiv_impl_eq_spec (a b : W) : sdivImpl a b = sdivSpec a b := by
  unfold sdivImpl sdivSpec
  by_cases hb : b = 0#256
  · subst hb; simp [i256Div, sInt, ofN]
  have hsb : sInt b ≠ 0 := fun h => hb ((sInt_eq_zero_iff b).mp h)
  by_cases ha : a = 0#256
  · subst ha
    have : sInt (0#256) = 0 := by simp [sInt]
    simp [i256Div, this, hsb, ofI]
  rw [i256Div_eq ha hb]
  simp only [hsb, if_false]
  have hA := absW_le a
  have hB := absW_le b
  have hA0 := absW_ne_zero ha
  have hB0 := absW_ne_zero hb
  have hq : (absW a / absW b).toNat = (absW a).toNat / (absW b).toNat := BitVec.toNat_udiv
  have hqle : (absW a).toNat / (absW b).toNat ≤ (absW a).toNat := Nat.div_le_self _ _
  generalize hqd : (absW a).toNat / (absW b).toNat = q at hq hqle
  have hd0 : (absW a / absW b = 0#256) ↔ q = 0 := by rw [eq_zero_iff_toNat, hq]
  apply BitVec.eq_of_toNat_eq
  cases hna : isNeg a <;> cases hnb : isNeg b
  · -- both non-negative
    rw [sInt_of_nonneg hna, sInt_of_nonneg hnb]
    have hne : ¬ (((absW a).toNat : Int) = -(2 ^ 255) ∧ ((absW b).toNat : Int) = -1) := by omega
    simp only [hne, if_false, or_true, if_true, ← Int.ofNat_tdiv, hqd, hq]
    rw [toNat_ofI_of_nonneg (by omega) (by omega)]
    omega
  · -- a ≥ 0, b < 0
    rw [sInt_of_nonneg hna, sInt_of_neg hnb]
    have hne : ¬ (((absW a).toNat : Int) = -(2 ^ 255) ∧ -((absW b).toNat : Int) = -1) := by omega
    simp only [hne, if_false, Int.tdiv_neg, ← Int.ofNat_tdiv, hqd, hd0, Bool.false_eq_true, or_false]
    by_cases hq0 : q = 0
    · subst hq0; simp [hq, ofI]
    · simp only [hq0, if_false, i256Neg_toNat, hq]
      rw [toNat_ofI_of_neg (by omega) (by omega)]
      omega
  · -- a < 0, b ≥ 0
    rw [sInt_of_neg hna, sInt_of_nonneg hnb]
    have hne : ¬ (-((absW a).toNat : Int) = -(2 ^ 255) ∧ ((absW b).toNat : Int) = -1) := by omega
    simp only [hne, if_false, Int.neg_tdiv, ← Int.ofNat_tdiv, hqd, hd0, Bool.true_eq_false, or_false]
    by_cases hq0 : q = 0
    · subst hq0; simp [hq, ofI]
    · simp only [hq0, if_false, i256Neg_toNat, hq]
      rw [toNat_ofI_of_neg (by omega) (by omega)]
      omega
  · -- both negative (includes −2^255 ÷ −1)
    rw [sInt_of_neg hna, sInt_of_neg hnb]
    simp only [or_true, if_true, Int.neg_tdiv, Int.tdiv_neg, Int.neg_neg, ← Int.ofNat_tdiv, hqd, hq]
    by_cases hsp : (absW a).toNat = 2 ^ 255 ∧ (absW b).toNat = 1
    · have hq1 : q = 2 ^ 255 := by rw [← hqd, hsp.1, hsp.2, Nat.div_one]
      have : (-((absW a).toNat : Int) = -(2 ^ 255) ∧ -((absW b).toNat : Int) = -1) := by omega
      simp only [this, and_self, if_true]
      rw [toNat_ofI_of_neg (by omega) (by omega)]
      omega
    · have : ¬ (-((absW a).toNat : Int) = -(2 ^ 255) ∧ -((absW b).toNat : Int) = -1) := by omega
      simp only [this, if_false]
      have hq2 : q < 2 ^ 255 ∨ q = 2 ^ 255 := by omega
      rw [toNat_ofI_of_nonneg (by omega) (by omega)]
      omega

/-- SMOD: remainder with the sign of the dividend, 0 for a zero divisor. -/
theorem smod_impl_eq_spec (a b : W) : smodImpl a b = smodSpec a b := by
  unfold smodImpl smodSpec
  by_cases hb : b = 0#256
  · subst hb; simp [i256Mod, sInt, ofN]
  have hsb : sInt b ≠ 0 := fun h => hb ((sInt_eq_zero_iff b).mp h)
  by_cases ha : a = 0#256
  · subst ha
    have : sInt (0#256) = 0 := by simp [sInt]
    simp [i256Mod, this, hsb, ofI]
  rw [i256Mod_eq ha hb]
  simp only [hsb, if_false, ← absW_toNat]
  have hA := absW_le a
  have hB := absW_le b
  have hA0 := absW_ne_zero ha
  have hB0 := absW_ne_zero hb
  have hr : (absW a % absW b).toNat = (absW a).toNat % (absW b).toNat := BitVec.toNat_umod
  have hrlt : (absW a).toNat % (absW b).toNat < (absW b).toNat := Nat.mod_lt _ (by omega)
  generalize hrd : (absW a).toNat % (absW b).toNat = r at hr hrlt
  have hr0 : (absW a % absW b = 0#256) ↔ r = 0 := by rw [eq_zero_iff_toNat, hr]
  apply BitVec.eq_of_toNat_eq
  cases hna : isNeg a
  · rw [sInt_of_nonneg hna]
    have hs : Int.sign ((absW a).toNat : Int) = 1 := Int.sign_eq_one_of_pos (by omega)
    simp only [Bool.false_eq_true, false_and, if_false, hs, Int.one_mul, hr]
    rw [toNat_ofI_of_nonneg (by omega) (by omega)]
    omega
  · rw [sInt_of_neg hna]
    have hs : Int.sign (-((absW a).toNat : Int)) = -1 := Int.sign_eq_neg_one_of_neg (by omega)
    simp only [true_and, hs, ne_eq, hr0]
    by_cases hz : r = 0
    · subst hz; simp [hr, ofI]
    · simp only [hz, not_false_eq_true, if_true]
      rw [i256Neg_toNat, hr, toNat_ofI_of_neg (by omega) (by omega)]
      simp only [hz, if_false]
      omega

/-! ### comparisons -/

theorem toNat_boolW (c : Bool) : (boolW c).toNat = if c then 1 else 0 := by
  cases c <;> rfl

/-- LT: unsigned less-than. -/
theorem lt_impl_eq_spec (a b : W) : ltImpl a b = ltSpec a b := by
  unfold ltImpl ltSpec boolW ofN
  by_cases h : a.toNat < b.toNat <;> simp [BitVec.lt_def, h]

/-- GT: unsigned greater-than. -/
theorem gt_impl_eq_spec (a b : W) : gtImpl a b = gtSpec a b := by
  unfold gtImpl gtSpec boolW ofN
  by_cases h : a.toNat > b.toNat <;> simp [BitVec.lt_def, h]

/-- EQ -/
theorem eq_impl_eq_spec (a b : W) : eqImpl a b = eqSpec a b := by
  unfold eqImpl eqSpec boolW ofN
  by_cases h : a = b
  · subst h; simp
  · have : a.toNat ≠ b.toNat := fun e => h (BitVec.eq_of_toNat_eq e)
    simp [h, this]

/-- ISZERO -/
theorem iszero_impl_eq_spec (a : W) : iszeroImpl a = iszeroSpec a := by
  unfold iszeroImpl iszeroSpec boolW ofN
  by_cases h : a = 0#256
  · subst h; simp
  · have := toNat_ne_zero_of_ne h
    simp [h, this]

theorem cmp_beq_lt (m n : Nat) : (compare m n == Ordering.lt) = decide (m < n) := by
  rcases Nat.lt_trichotomy m n with h | h | h
  · rw [Nat.compare_eq_lt.mpr h, decide_eq_true h]; rfl
  · subst h; simp
  · rw [Nat.compare_eq_gt.mpr h, decide_eq_false (by omega)]; rfl

theorem cmp_beq_gt (m n : Nat) : (compare m n == Ordering.gt) = decide (m > n) := by
  rcases Nat.lt_trichotomy m n with h | h | h
  · rw [Nat.compare_eq_lt.mpr h, decide_eq_false (by omega)]; rfl
  · subst h; simp
  · rw [Nat.compare_eq_gt.mpr h, decide_eq_true h]; rfl

theorem i256Cmp_lt_iff (a b : W) : (i256Cmp a b == .lt) = decide (sInt a < sInt b) := by
  have ha := a.isLt
  have hb := b.isLt
  unfold i256Cmp
  cases hna : isNeg a <;> cases hnb : isNeg b <;> simp only
  all_goals
    rw [isNeg_iff] at hna hnb
    simp only [decide_eq_true_eq, decide_eq_false_iff_not] at hna hnb
    unfold sInt
  · have h1 : a.toNat < 2 ^ 255 := by omega
    have h2 : b.toNat < 2 ^ 255 := by omega
    simp only [h1, h2, if_true, cmp_beq_lt]
    by_cases h : a.toNat < b.toNat
    · rw [decide_eq_true h, decide_eq_true (by omega)]
    · rw [decide_eq_false h, decide_eq_false (by omega)]
  · have h1 : a.toNat < 2 ^ 255 := by omega
    have h2 : ¬ b.toNat < 2 ^ 255 := by omega
    simp only [h1, h2, if_true, if_false]
    rw [decide_eq_false (by omega)]; rfl
  · have h1 : ¬ a.toNat < 2 ^ 255 := by omega
    have h2 : b.toNat < 2 ^ 255 := by omega
    simp only [h1, h2, if_true, if_false]
    rw [decide_eq_true (by omega)]; rfl
  · have h1 : ¬ a.toNat < 2 ^ 255 := by omega
    have h2 : ¬ b.toNat < 2 ^ 255 := by omega
    simp only [h1, h2, if_false, cmp_beq_lt]
    by_cases h : a.toNat < b.toNat
    · rw [decide_eq_true h, decide_eq_true (by omega)]
    · rw [decide_eq_false h, decide_eq_false (by omega)]

theorem i256Cmp_gt_iff (a b : W) : (i256Cmp a b == .gt) = decide (sInt a > sInt b) := by
  have ha := a.isLt
  have hb := b.isLt
  unfold i256Cmp
  cases hna : isNeg a <;> cases hnb : isNeg b <;> simp only
  all_goals
    rw [isNeg_iff] at hna hnb
    simp only [decide_eq_true_eq, decide_eq_false_iff_not] at hna hnb
    unfold sInt
  · have h1 : a.toNat < 2 ^ 255 := by omega
    have h2 : b.toNat < 2 ^ 255 := by omega
    simp only [h1, h2, if_true, cmp_beq_gt]
    by_cases h : a.toNat > b.toNat
    · rw [decide_eq_true h, decide_eq_true (by omega)]
    · rw [decide_eq_false h, decide_eq_false (by omega)]
  · have h1 : a.toNat < 2 ^ 255 := by omega
    have h2 : ¬ b.toNat < 2 ^ 255 := by omega
    simp only [h1, h2, if_true, if_false]
    rw [decide_eq_true (by omega)]; rfl
  · have h1 : ¬ a.toNat < 2 ^ 255 := by omega
    have h2 : b.toNat < 2 ^ 255 := by omega
    simp only [h1, h2, if_true, if_false]
    rw [decide_eq_false (by omega)]; rfl
  · have h1 : ¬ a.toNat < 2 ^ 255 := by omega
    have h2 : ¬ b.toNat < 2 ^ 255 := by omega
    simp only [h1, h2, if_false, cmp_beq_gt]
    by_cases h : a.toNat > b.toNat
    · rw [decide_eq_true h, decide_eq_true (by omega)]
    · rw [decide_eq_false h, decide_eq_false (by omega)]

/-- SLT: less-than on the two's complement readings. -/
theorem slt_impl_eq_spec (a b : W) : sltImpl a b = sltSpec a b := by
  unfold sltImpl sltSpec
  rw [i256Cmp_lt_iff]
  by_cases h : sInt a < sInt b <;> simp [h, boolW, ofN]

/-- SGT: greater-than on the two's complement readings. -/
theorem sgt_impl_eq_spec (a b : W) : sgtImpl a b = sgtSpec a b := by
  unfold sgtImpl sgtSpec
  rw [i256Cmp_gt_iff]
  by_cases h : sInt a > sInt b <;> simp [h, boolW, ofN]

/-! ### bitwise -/

/-- AND is the bitwise conjunction. -/
theorem and_impl_eq_spec (a b : W) : andImpl a b = andSpec a b := by
  apply BitVec.eq_of_toNat_eq
  have := (a &&& b).isLt
  rw [BitVec.toNat_and] at this
  simp only [andImpl, andSpec, BitVec.toNat_and]
  rw [toNat_ofN_of_lt this]

/-- OR is the bitwise disjunction. -/
theorem or_impl_eq_spec (a b : W) : orImpl a b = orSpec a b := by
  apply BitVec.eq_of_toNat_eq
  have := (a ||| b).isLt
  rw [BitVec.toNat_or] at this
  simp only [orImpl, orSpec, BitVec.toNat_or]
  rw [toNat_ofN_of_lt this]

/-- XOR is the bitwise exclusive or. -/
theorem xor_impl_eq_spec (a b : W) : xorImpl a b = xorSpec a b := by
  apply BitVec.eq_of_toNat_eq
  have := (a ^^^ b).isLt
  rw [BitVec.toNat_xor] at this
  simp only [xorImpl, xorSpec, BitVec.toNat_xor]
  rw [toNat_ofN_of_lt this]

/-- bit `i` of AND / OR / XOR is the and / or / xor of the operands' bits `i` (what `Nat`'s bitwise
    operations in the spec mean). -/
theorem bitwise_spec_bits (a b : W) (i : Nat) :
    (andSpec a b).getLsbD i = (a.getLsbD i && b.getLsbD i) ∧
    (orSpec a b).getLsbD i = (a.getLsbD i || b.getLsbD i) ∧
    (xorSpec a b).getLsbD i = (a.getLsbD i != b.getLsbD i) := by
  rw [← and_impl_eq_spec, ← or_impl_eq_spec, ← xor_impl_eq_spec]
  simp [andImpl, orImpl, xorImpl]

/-- NOT flips every bit: 2^256 − 1 − a. -/
theorem not_impl_eq_spec (a : W) : notImpl a = notSpec a := by
  apply BitVec.eq_of_toNat_eq
  have := a.isLt
  simp only [notImpl, notSpec, BitVec.toNat_not]
  rw [toNat_ofN_of_lt (by omega)]

/-- BYTE: the i-th byte from the most significant end, 0 for i ≥ 32. -/
theorem byte_impl_eq_spec (i x : W) : byteImpl i x = byteSpec i x := by
  have hi := i.isLt
  unfold byteImpl byteSpec byteLE
  by_cases h : 32 ≤ i.toNat
  · have : 32#256 ≤ i := by simp [BitVec.le_def]; exact h
    simp [this, h, ofN]
  · have : ¬ 32#256 ≤ i := by simp [BitVec.le_def]; omega
    simp only [this, h, if_false]
    have e : i.toNat % 2 ^ 64 = i.toNat := Nat.mod_eq_of_lt (by omega)
    rw [e, Nat.shiftRight_eq_div_pow]
    apply BitVec.eq_of_toNat_eq
    have hlt : x.toNat / 2 ^ (8 * (31 - i.toNat)) % 256 < 256 := Nat.mod_lt _ (by omega)
    rw [toNat_ofN_of_lt (by omega), BitVec.toNat_ofNat, Nat.mod_eq_of_lt (by omega)]

/-- SHL (EIP-145): multiplication by 2^shift mod 2^256; 0 when shift ≥ 256. -/
theorem shl_impl_eq_spec (shift value : W) : shlImpl shift value = shlSpec shift value := by
  unfold shlImpl shlSpec
  by_cases h : 256 ≤ shift.toNat
  · have : 256#256 ≤ shift := by simp [BitVec.le_def]; exact h
    simp [this, h, ofN]
  · have : ¬ 256#256 ≤ shift := by simp [BitVec.le_def]; omega
    simp only [this, h, or_false, if_false]
    by_cases hv : value = 0#256
    · subst hv; simp [ofN]
    · simp only [hv, if_false]
      apply BitVec.eq_of_toNat_eq
      rw [BitVec.toNat_shiftLeft, Nat.shiftLeft_eq, toNat_ofN]

/-- SHR (EIP-145): floor division by 2^shift; 0 when shift ≥ 256. -/
theorem shr_impl_eq_spec (shift value : W) : shrImpl shift value = shrSpec shift value := by
  unfold shrImpl shrSpec
  by_cases h : 256 ≤ shift.toNat
  · have : 256#256 ≤ shift := by simp [BitVec.le_def]; exact h
    simp [this, h, ofN]
  · have : ¬ 256#256 ≤ shift := by simp [BitVec.le_def]; omega
    simp only [this, h, or_false, if_false]
    by_cases hv : value = 0#256
    · subst hv; simp [ofN]
    · simp only [hv, if_false]
      apply BitVec.eq_of_toNat_eq
      have hv' := value.isLt
      have : value.toNat / 2 ^ shift.toNat ≤ value.toNat := Nat.div_le_self _ _
      rw [BitVec.toNat_ushiftRight, Nat.shiftRight_eq_div_pow, toNat_ofN_of_lt (by omega)]

theorem sarImpl_eq (shift v : W) :
    sarImpl shift v =
      if absW v = 0#256 ∨ 256#256 ≤ shift then (if isNeg v then wMax else 0#256)
      else if isNeg v then i256Neg (((absW v - 1#256) >>> (shift.toNat % 2 ^ 32)) + 1#256)
      else absW v >>> (shift.toNat % 2 ^ 32) := by
  unfold sarImpl absW
  simp only []

theorem ofI_neg_one : ofI (-1) = wMax := by
  apply BitVec.eq_of_toNat_eq
  rw [toNat_ofI_of_neg (by omega) (by omega)]
  simp [wMax]

/-- SAR (EIP-145): floor division of the signed reading by 2^shift; 0 / −1 when shift ≥ 256. -/
theorem sar_impl_eq_spec (shift v : W) : sarImpl shift v = sarSpec shift v := by
  rw [sarImpl_eq]
  unfold sarSpec
  have hA := absW_le v
  by_cases h : 256 ≤ shift.toNat
  · have hs : 256#256 ≤ shift := by simp [BitVec.le_def]; exact h
    simp only [hs, or_true, if_true, h]
    cases hn : isNeg v
    · rw [sInt_of_nonneg hn]
      have : (0 : Int) ≤ ((absW v).toNat : Int) := by omega
      simp [this, ofN]
    · rw [sInt_of_neg hn]
      have h0 : absW v ≠ 0#256 := by
        intro e
        rw [absW_eq_zero_iff] at e
        subst e
        rw [isNeg_zero] at hn
        exact Bool.noConfusion hn
      have := toNat_ne_zero_of_ne h0
      have : ¬ (0 : Int) ≤ -((absW v).toNat : Int) := by omega
      simp only [this, if_false, if_true, ofI_neg_one]
  · have hs : ¬ 256#256 ≤ shift := by simp [BitVec.le_def]; omega
    simp only [hs, or_false, h, if_false]
    have hsh : shift.toNat % 2 ^ 32 = shift.toNat := Nat.mod_eq_of_lt (by omega)
    rw [hsh]
    have hP : 1 ≤ 2 ^ shift.toNat := Nat.one_le_two_pow
    have hcast : (2 : Int) ^ shift.toNat = ((2 ^ shift.toNat : Nat) : Int) := by
      rw [Int.natCast_pow]; rfl
    rw [hcast]
    generalize hPd : 2 ^ shift.toNat = P at hP
    by_cases hz : absW v = 0#256
    · have hv : v = 0#256 := (absW_eq_zero_iff v).mp hz
      subst hv
      have : sInt (0#256) = 0 := by simp [sInt]
      simp [hz, isNeg_zero, this, ofI]
    · simp only [hz, if_false]
      have hA0 := toNat_ne_zero_of_ne hz
      apply BitVec.eq_of_toNat_eq
      cases hn : isNeg v
      · rw [sInt_of_nonneg hn, ← Int.natCast_ediv]
        simp only [Bool.false_eq_true, if_false, BitVec.toNat_ushiftRight, Nat.shiftRight_eq_div_pow, hPd]
        have hq : (absW v).toNat / P ≤ (absW v).toNat := Nat.div_le_self _ _
        generalize (absW v).toNat / P = q at hq
        rw [toNat_ofI_of_nonneg (by omega) (by omega)]
        omega
      · rw [sInt_of_neg hn, neg_ediv_natCast (by omega) hP]
        have hq : ((absW v).toNat - 1) / P ≤ (absW v).toNat - 1 := Nat.div_le_self _ _
        have h1 : (absW v - 1#256).toNat = (absW v).toNat - 1 := by
          rw [BitVec.toNat_sub]; simp; omega
        have h2 : (((absW v - 1#256) >>> shift.toNat) + 1#256).toNat = ((absW v).toNat - 1) / P + 1 := by
          rw [BitVec.toNat_add, BitVec.toNat_ushiftRight, Nat.shiftRight_eq_div_pow, hPd, h1]
          generalize ((absW v).toNat - 1) / P = q at hq
          simp; omega
        simp only [if_true, i256Neg_toNat, h2]
        generalize ((absW v).toNat - 1) / P = q at hq
        have hne : q + 1 ≠ 0 := by omega
        simp only [hne, if_false]
        rw [toNat_ofI_neg_natCast (by omega) (by omega)]

/-- CLZ (EIP-7939): 256 for zero, else 255 − ⌊log₂ x⌋ = the number of zero bits above the highest set bit. -/
theorem clz_impl_eq_spec (x : W) : clzImpl x = clzSpec x := by
  unfold clzImpl clzSpec
  rw [leadingZeros_eq]
  by_cases h : x.toNat = 0
  · simp [h, ofN]
  · simp only [h, if_false, ofN]
    rw [Nat.mod_eq_of_lt (by omega)]

/-- what `clzSpec` means: `x < 2^(256 − clz)` and, unless `x = 0`, `2^(255 − clz) ≤ x` — i.e. exactly
    `clz` leading bits are zero. -/
theorem clz_spec_characterisation (x : W) :
    (clzSpec x).toNat ≤ 256 ∧ x.toNat < 2 ^ (256 - (clzSpec x).toNat) ∧
    (x.toNat ≠ 0 → 2 ^ (255 - (clzSpec x).toNat) ≤ x.toNat) := by
  unfold clzSpec
  by_cases h : x.toNat = 0
  · simp [h, ofN]
  · have hl : Nat.log2 x.toNat < 256 := (Nat.log2_lt h).mpr x.isLt
    have h1 : 255 - Nat.log2 x.toNat < 2 ^ 256 := by omega
    simp only [h, if_false, toNat_ofN_of_lt h1]
    refine ⟨by omega, ?_, fun _ => ?_⟩
    · have e : 256 - (255 - Nat.log2 x.toNat) = Nat.log2 x.toNat + 1 := by omega
      rw [e]; exact Nat.lt_log2_self
    · have e : 255 - (255 - Nat.log2 x.toNat) = Nat.log2 x.toNat := by omega
      rw [e]; exact Nat.log2_self_le h

/-- SIGNEXTEND: for a < 31 the low 8(a+1) bits of b read as a two's complement number and re-encoded on
    256 bits; b unchanged for a ≥ 31. -/
theorem signextend_impl_eq_spec (a b : W) : signextendImpl a b = signextendSpec a b := by
  by_cases h31 : a.toNat < 31
  · apply BitVec.eq_of_getLsbD_eq
    intro i hi
    rw [signextend_bits_impl a b (by omega) i hi, signextend_bits_spec a b h31 i hi]
  · by_cases h32 : a.toNat < 32
    · have ha : a.toNat = 31 := by omega
      have hs : signextendSpec a b = b := by
        unfold signextendSpec; simp [ha]
      rw [hs]
      apply BitVec.eq_of_getLsbD_eq
      intro i hi
      rw [signextend_bits_impl a b h32 i hi, ha]
      by_cases h : i < 8 * 31 + 7
      · simp [h]
      · have : i = 8 * 31 + 7 := by omega
        simp [this]
    · have hs : signextendSpec a b = b := by
        unfold signextendSpec
        have : 31 ≤ a.toNat := by omega
        simp [this]
      have hi : ¬ a < 32#256 := by simp [BitVec.lt_def]; omega
      rw [hs]; unfold signextendImpl; simp [hi]

/-- The Yellow Paper's bitwise reading of SIGNEXTEND: with t = 8a + 7 (a < 31), bit i of the result is bit i
    of b for i < t and bit t of b for t ≤ i < 256. -/
theorem signextend_spec_bits (a b : W) (ha : a.toNat < 31) (i : Nat) (hi : i < 256) :
    (signextendSpec a b).getLsbD i =
      if i < 8 * a.toNat + 7 then b.getLsbD i else b.getLsbD (8 * a.toNat + 7) :=
  signextend_bits_spec a b ha i hi

/-- EXP: the word-by-word square-and-multiply loop (with its early stop at the exponent's bit length)
    computes a^b mod 2^256 for all operands. -/
theorem exp_impl_eq_spec (a b : W) : expImpl a b = expSpec a b := by
  unfold expImpl expSpec
  have hl := toNat_eq_limbs b
  have hlimb : ∀ w ∈ [limb b 0, limb b 1, limb b 2, limb b 3], w < 2 ^ 64 := by
    intro w hw
    simp only [List.mem_cons, List.mem_nil_iff, or_false] at hw
    rcases hw with h | h | h | h <;> subst h <;> exact Nat.mod_lt _ (by omega)
  have hrem : limbsVal [limb b 0, limb b 1, limb b 2, limb b 3] < 2 ^ (256 - leadingZeros b) := by
    rw [← hl, leadingZeros_eq]
    by_cases h0 : b.toNat = 0
    · simp [h0]
    · have hlog : Nat.log2 b.toNat < 256 := (Nat.log2_lt h0).mpr b.isLt
      have e : 256 - (255 - Nat.log2 b.toNat) = Nat.log2 b.toNat + 1 := by omega
      simp only [h0, if_false, e]
      exact Nat.lt_log2_self
  simp only []
  rw [expOuter_spec _ _ _ _ hlimb hrem, ← hl, BitVec.one_mul]
  apply BitVec.eq_of_toNat_eq
  rw [toNat_wpow, toNat_ofN]

/-- the executable form of the EXP specification used by the driver (modular power by halving the exponent)
    equals a^b mod 2^256. -/
theorem expSpecExec_eq_spec (a b : W) : expSpecExec a b = expSpec a b := by
  unfold expSpecExec expSpec ofN
  rw [powMod_eq]

/-! ### interpreter steps (`step_matches_spec` family) -/

/-- truncated PUSH rule: the immediate of PUSHn is the next n code bytes, bytes beyond the end of the code
    read as zero -/
theorem pushImm_spec (code : Array UInt8) (pc n : Nat) :
    pushImm code pc n = bytesToWord ((List.range n).map (fun j => code.getD (pc + 1 + j) 0)) := by
  unfold pushImm
  rw [padRight_slice]


/-- CALLDATALOAD as coded (bounds test, copy of at most 32 bytes into a zeroed buffer) equals the Yellow Paper
    definition: byte j of the word is data[idx + j], zero beyond the end — for every index up to 2^256−1. -/
theorem calldataload_impl_eq_spec (cd : Array UInt8) (idx : W) :
    calldataloadImpl cd idx = calldataloadSpec cd idx := by
  unfold calldataloadImpl calldataloadSpec
  by_cases h : idx.toNat < cd.size
  · simp only [h, if_true]
    have hk : min (idx.toNat + 32) cd.size - idx.toNat = min 32 (cd.size - idx.toNat) := by omega
    rw [hk]
    congr 1
    -- slicing min(32, rest) bytes and padding to 32 = slicing 32 and padding
    rw [← padRight_slice]
    unfold padRight
    rw [slice_getElem, slice_getElem]
    have e : min (min 32 (cd.size - idx.toNat)) (cd.size - idx.toNat) = min 32 (cd.size - idx.toNat) := by omega
    rw [e]
  · simp only [h, if_false]
    symm
    apply bytesToWord_zeros
    intro b hb
    rw [List.mem_map] at hb
    obtain ⟨j, _, rfl⟩ := hb
    have : ¬ idx.toNat + j < cd.size := by omega
    simp [this]


/-- the opcode byte at the program counter -/
def opAt (env : Env) (s : St) : Nat := (env.code.getD s.pc 0).toNat

/-- PUSH0–PUSH32: overflow at 1024 entries, otherwise the immediate is pushed and pc advances past it. -/
theorem step_push (env : Env) (s : St) (n : Nat) (hn : n ≤ 32) (hop : opAt env s = 0x5f + n) :
    step env s =
      if s.stack.length ≥ 1024 then .error .stackOverflow
      else .ok { s with stack := pushImm env.code s.pc n :: s.stack, pc := s.pc + 1 + n } := by
  unfold opAt at hop
  unfold step
  have h1 : 0x5f ≤ (env.code.getD s.pc 0).toNat ∧ (env.code.getD s.pc 0).toNat ≤ 0x7f := by omega
  have h2 : (env.code.getD s.pc 0).toNat - 0x5f = n := by omega
  simp only [h1, and_self, if_true, h2, stepPush, pushChecked, stackLimit]
  by_cases h : s.stack.length ≥ 1024 <;> simp [h]

/-- DUPn: overflow is tested before underflow; otherwise entry n (1 = top) is copied onto the stack. -/
theorem step_dup (env : Env) (s : St) (n : Nat) (h1n : 1 ≤ n) (hn : n ≤ 16) (hop : opAt env s = 0x7f + n) :
    step env s =
      if s.stack.length ≥ 1024 then .error .stackOverflow
      else match s.stack[n - 1]? with
        | none => .error .stackUnderflow
        | some v => .ok { s with stack := v :: s.stack, pc := s.pc + 1 } := by
  unfold opAt at hop
  unfold step
  have h0 : ¬ (0x5f ≤ (env.code.getD s.pc 0).toNat ∧ (env.code.getD s.pc 0).toNat ≤ 0x7f) := by omega
  have h1 : 0x80 ≤ (env.code.getD s.pc 0).toNat ∧ (env.code.getD s.pc 0).toNat ≤ 0x8f := by omega
  have h2 : (env.code.getD s.pc 0).toNat - 0x7f = n := by omega
  simp only [h0, h1, and_self, if_true, if_false, h2, stepDup, dupN, stackLimit]
  by_cases h : s.stack.length ≥ 1024
  · simp [h]
  · simp only [h, if_false]
    cases s.stack[n - 1]? <;> rfl

/-- SWAPn: the top and the entry n below it are exchanged; underflow when fewer than n+1 entries. -/
theorem step_swap (env : Env) (s : St) (n : Nat) (h1n : 1 ≤ n) (hn : n ≤ 16) (hop : opAt env s = 0x8f + n) :
    step env s =
      match s.stack, s.stack[n]? with
      | top :: _, some v => .ok { s with stack := (s.stack.set n top).set 0 v, pc := s.pc + 1 }
      | _, _ => .error .stackUnderflow := by
  unfold opAt at hop
  unfold step
  have h0 : ¬ (0x5f ≤ (env.code.getD s.pc 0).toNat ∧ (env.code.getD s.pc 0).toNat ≤ 0x7f) := by omega
  have h1 : ¬ (0x80 ≤ (env.code.getD s.pc 0).toNat ∧ (env.code.getD s.pc 0).toNat ≤ 0x8f) := by omega
  have h3 : 0x90 ≤ (env.code.getD s.pc 0).toNat ∧ (env.code.getD s.pc 0).toNat ≤ 0x9f := by omega
  have h2 : (env.code.getD s.pc 0).toNat - 0x8f = n := by omega
  simp only [h0, h1, h3, and_self, if_true, if_false, h2, stepSwap, swapN]
  cases hs : s.stack with
  | nil => simp
  | cons t r => cases hv : (t :: r)[n]? <;> simp

/-- every other opcode goes through `stepOther` -/
theorem step_other (env : Env) (s : St) (op : Nat) (hop : opAt env s = op)
    (h : op < 0x5f ∨ 0x9f < op) : step env s = stepOther env s op := by
  unfold opAt at hop
  subst hop
  unfold step
  have h0 : ¬ (0x5f ≤ (env.code.getD s.pc 0).toNat ∧ (env.code.getD s.pc 0).toNat ≤ 0x7f) := by omega
  have h1 : ¬ (0x80 ≤ (env.code.getD s.pc 0).toNat ∧ (env.code.getD s.pc 0).toNat ≤ 0x8f) := by omega
  have h3 : ¬ (0x90 ≤ (env.code.getD s.pc 0).toNat ∧ (env.code.getD s.pc 0).toNat ≤ 0x9f) := by omega
  simp only [h0, h1, h3, if_false]

/-- PUSHn with the truncated-push rule spelled out: the pushed word is made of the next n code bytes, bytes past
    the end of the code reading as zero. -/
theorem step_push_matches_spec (env : Env) (s : St) (n : Nat) (hn : n ≤ 32) (hop : opAt env s = 0x5f + n)
    (hlen : s.stack.length < 1024) :
    step env s = .ok { s with
      stack := bytesToWord ((List.range n).map (fun j => env.code.getD (s.pc + 1 + j) 0)) :: s.stack,
      pc := s.pc + 1 + n } := by
  rw [step_push env s n hn hop, pushImm_spec]
  have : ¬ s.stack.length ≥ 1024 := by omega
  simp [this]

/-- CALLDATALOAD: pops the index and pushes the 32 bytes of call data from there, zero beyond the end (for any
    index, including those ≥ 2^64); underflow on an empty stack. -/
theorem step_calldataload_matches_spec (env : Env) (s : St) (hop : opAt env s = 0x35) :
    step env s = match s.stack with
      | idx :: rest => .ok { s with stack := calldataloadSpec env.calldata idx :: rest, pc := s.pc + 1 }
      | [] => .error .stackUnderflow := by
  rw [step_other env s 0x35 hop (by omega)]
  show unop (calldataloadImpl env.calldata) s = _
  unfold unop
  cases s.stack with
  | nil => rfl
  | cons a r => simp [calldataload_impl_eq_spec]

/-- The 26 arithmetic / comparison / bitwise opcodes: the step pops the operands (a = top of stack) and
    pushes the result *the specification defines* (`xSpec`), advancing pc by one; underflow otherwise.
    (`stepOther` is what `step` runs for these opcodes, `step_other`.) -/
theorem step_word_ops_match_spec (env : Env) (s : St) :
    stepOther env s 0x01 = binop addSpec s ∧
    stepOther env s 0x02 = binop mulSpec s ∧
    stepOther env s 0x03 = binop subSpec s ∧
    stepOther env s 0x04 = binop divSpec s ∧
    stepOther env s 0x05 = binop sdivSpec s ∧
    stepOther env s 0x06 = binop modSpec s ∧
    stepOther env s 0x07 = binop smodSpec s ∧
    stepOther env s 0x08 = ternop addmodSpec s ∧
    stepOther env s 0x09 = ternop mulmodSpec s ∧
    stepOther env s 0x0a = binop expSpec s ∧
    stepOther env s 0x0b = binop signextendSpec s ∧
    stepOther env s 0x10 = binop ltSpec s ∧
    stepOther env s 0x11 = binop gtSpec s ∧
    stepOther env s 0x12 = binop sltSpec s ∧
    stepOther env s 0x13 = binop sgtSpec s ∧
    stepOther env s 0x14 = binop eqSpec s ∧
    stepOther env s 0x15 = unop iszeroSpec s ∧
    stepOther env s 0x16 = binop andSpec s ∧
    stepOther env s 0x17 = binop orSpec s ∧
    stepOther env s 0x18 = binop xorSpec s ∧
    stepOther env s 0x19 = unop notSpec s ∧
    stepOther env s 0x1a = binop byteSpec s ∧
    stepOther env s 0x1b = binop shlSpec s ∧
    stepOther env s 0x1c = binop shrSpec s ∧
    stepOther env s 0x1d = binop sarSpec s ∧
    stepOther env s 0x1e = unop clzSpec s := by
  refine ⟨?_, ?_, ?_, ?_, ?_, ?_, ?_, ?_, ?_, ?_, ?_, ?_, ?_, ?_, ?_, ?_, ?_, ?_, ?_, ?_, ?_, ?_, ?_, ?_, ?_, ?_⟩
  · show binop addImpl s = binop addSpec s
    rw [show addImpl = addSpec from (funext fun a => funext fun b => add_impl_eq_spec a b)]
  · show binop mulImpl s = binop mulSpec s
    rw [show mulImpl = mulSpec from (funext fun a => funext fun b => mul_impl_eq_spec a b)]
  · show binop subImpl s = binop subSpec s
    rw [show subImpl = subSpec from (funext fun a => funext fun b => sub_impl_eq_spec a b)]
  · show binop divImpl s = binop divSpec s
    rw [show divImpl = divSpec from (funext fun a => funext fun b => div_impl_eq_spec a b)]
  · show binop sdivImpl s = binop sdivSpec s
    rw [show sdivImpl = sdivSpec from (funext fun a => funext fun b => sdiv_impl_eq_spec a b)]
  · show binop modImpl s = binop modSpec s
    rw [show modImpl = modSpec from (funext fun a => funext fun b => mod_impl_eq_spec a b)]
  · show binop smodImpl s = binop smodSpec s
    rw [show smodImpl = smodSpec from (funext fun a => funext fun b => smod_impl_eq_spec a b)]
  · show ternop addmodImpl s = ternop addmodSpec s
    rw [show addmodImpl = addmodSpec from (funext fun a => funext fun b => funext fun c => addmod_impl_eq_spec a b c)]
  · show ternop mulmodImpl s = ternop mulmodSpec s
    rw [show mulmodImpl = mulmodSpec from (funext fun a => funext fun b => funext fun c => mulmod_impl_eq_spec a b c)]
  · show binop expImpl s = binop expSpec s
    rw [show expImpl = expSpec from (funext fun a => funext fun b => exp_impl_eq_spec a b)]
  · show binop signextendImpl s = binop signextendSpec s
    rw [show signextendImpl = signextendSpec from (funext fun a => funext fun b => signextend_impl_eq_spec a b)]
  · show binop ltImpl s = binop ltSpec s
    rw [show ltImpl = ltSpec from (funext fun a => funext fun b => lt_impl_eq_spec a b)]
  · show binop gtImpl s = binop gtSpec s
    rw [show gtImpl = gtSpec from (funext fun a => funext fun b => gt_impl_eq_spec a b)]
  · show binop sltImpl s = binop sltSpec s
    rw [show sltImpl = sltSpec from (funext fun a => funext fun b => slt_impl_eq_spec a b)]
  · show binop sgtImpl s = binop sgtSpec s
    rw [show sgtImpl = sgtSpec from (funext fun a => funext fun b => sgt_impl_eq_spec a b)]
  · show binop eqImpl s = binop eqSpec s
    rw [show eqImpl = eqSpec from (funext fun a => funext fun b => eq_impl_eq_spec a b)]
  · show unop iszeroImpl s = unop iszeroSpec s
    rw [show iszeroImpl = iszeroSpec from (funext fun a => iszero_impl_eq_spec a)]
  · show binop andImpl s = binop andSpec s
    rw [show andImpl = andSpec from (funext fun a => funext fun b => and_impl_eq_spec a b)]
  · show binop orImpl s = binop orSpec s
    rw [show orImpl = orSpec from (funext fun a => funext fun b => or_impl_eq_spec a b)]
  · show binop xorImpl s = binop xorSpec s
    rw [show xorImpl = xorSpec from (funext fun a => funext fun b => xor_impl_eq_spec a b)]
  · show unop notImpl s = unop notSpec s
    rw [show notImpl = notSpec from (funext fun a => not_impl_eq_spec a)]
  · show binop byteImpl s = binop byteSpec s
    rw [show byteImpl = byteSpec from (funext fun a => funext fun b => byte_impl_eq_spec a b)]
  · show binop shlImpl s = binop shlSpec s
    rw [show shlImpl = shlSpec from (funext fun a => funext fun b => shl_impl_eq_spec a b)]
  · show binop shrImpl s = binop shrSpec s
    rw [show shrImpl = shrSpec from (funext fun a => funext fun b => shr_impl_eq_spec a b)]
  · show binop sarImpl s = binop sarSpec s
    rw [show sarImpl = sarSpec from (funext fun a => funext fun b => sar_impl_eq_spec a b)]
  · show unop clzImpl s = unop clzSpec s
    rw [show clzImpl = clzSpec from (funext fun a => clz_impl_eq_spec a)]

/-- RETURNDATACOPY (EIP-211): if start + size exceeds the length of the return data the instruction fails
    (whatever the memory arguments are); the failure class is "illegal memory access". -/
theorem step_returndatacopy_out_of_bounds (env : Env) (s : St) (memIdx inIdx size : W) (rest : List W)
    (hst : s.stack = memIdx :: inIdx :: size :: rest)
    (hoob : inIdx.toNat + size.toNat > s.returnData.size) :
    stepOther env s 0x3e = .error .illegalMemoryAccess := by
  show (match s.stack with
    | memIdx :: inIdx :: size :: rest => _
    | _ => _) = _
  rw [hst]
  simp only []
  rcases memRegion_cases s.memory memIdx size with h | ⟨hz, h⟩ | ⟨hnz, m', h⟩
  · rw [h]
  · rw [h]; simp only []
    by_cases h64 : inIdx.toNat ≥ 2 ^ 64
    · simp [h64]
    · have : inIdx.toNat > s.returnData.size := by omega
      simp [h64, this]
  · rw [h]; simp only []
    by_cases h64 : inIdx.toNat ≥ 2 ^ 64
    · simp [h64]
    · by_cases h2 : inIdx.toNat > s.returnData.size
      · simp [h64, h2]
      · simp [h64, h2, hoob]

/-- MSTORE, stack / pc / failure part only (`_partial`: stack / pc / failure; the memory *content* after the store is
    `step_mstore_memory_bytes` and the read-back is `step_mstore_mload` below): with `idx :: v :: rest` on the stack it fails with "illegal memory
    access" exactly when idx + 32 exceeds u32::MAX, otherwise pops both, advances pc, leaves storage, transient
    storage and return data alone, and the memory is the 32-byte store into the memory grown to idx + 32. -/
theorem step_mstore_partial (env : Env) (s : St) (idx v : W) (rest : List W)
    (hst : s.stack = idx :: v :: rest) :
    (idx.toNat + 32 > u32Max ∧ stepOther env s 0x52 = .error .illegalMemoryAccess) ∨
    (idx.toNat + 32 ≤ u32Max ∧ stepOther env s 0x52 = .ok { s with
        stack := rest, pc := s.pc + 1,
        memory := writeBytes (memGrow s.memory (idx.toNat + 32)) idx.toNat (wordToBytes v) }) := by
  have hstep : stepOther env s 0x52 = (match s.stack with
    | idx :: v :: rest =>
      match memRegion s.memory idx 32#256 with
      | .error e => .error e
      | .ok (m, none) => .ok { s with stack := rest, memory := m, pc := s.pc + 1 }
      | .ok (m, some (o, _)) =>
        .ok { s with stack := rest, memory := writeBytes m o (wordToBytes v), pc := s.pc + 1 }
    | _ => .error .stackUnderflow) := rfl
  rw [hstep, hst]
  simp only []
  rcases memRegion32 s.memory idx with ⟨h, e⟩ | ⟨h, e⟩
  · left; rw [e]; exact ⟨h, rfl⟩
  · right; rw [e]; exact ⟨h, rfl⟩


/-- **MSTORE memory content** (completes `step_mstore_partial`): byte `j` of the memory written by
    MSTORE at `idx` is byte `j - idx` of the big-endian image of `v` inside `[idx, idx+32)` and the old byte
    (0 beyond the old size) everywhere else — growth itself changes no byte. -/
theorem step_mstore_memory_bytes (m : ByteArray) (idx : Nat) (v : W) (j : Nat) :
    (writeBytes (memGrow m (idx + 32)) idx (wordToBytes v))[j]! =
      if idx ≤ j ∧ j < idx + 32 then (wordToBytes v)[j - idx]! else m[j]! :=
  mstore_memory_bytes m idx v j

/-- **MSTORE ; MLOAD round trip**: for every 256-bit value `v` and every admissible offset, the word read
    back by MLOAD at the offset MSTORE wrote to is `v`, and the read changes nothing else. -/
theorem step_mstore_mload (env : Env) (s : St) (idx v : W) (rest : List W)
    (hst : s.stack = idx :: v :: rest) (hb : idx.toNat + 32 ≤ u32Max) :
    ∃ s1, stepOther env s 0x52 = .ok s1 ∧ s1.stack = rest ∧
      stepOther env { s1 with stack := idx :: rest } 0x51 =
        .ok { s1 with stack := v :: rest, pc := s1.pc + 1 } := by
  rcases step_mstore_partial env s idx v rest hst with ⟨h, _⟩ | ⟨_, h⟩
  · omega
  · refine ⟨_, h, rfl, ?_⟩
    rw [stepOther_mload]
    simp only []
    rcases memRegion32 (writeBytes (memGrow s.memory (idx.toNat + 32)) idx.toNat (wordToBytes v)) idx with ⟨h', _⟩ | ⟨_, e⟩
    · omega
    · rw [e]
      simp only []
      have hg : memGrow (writeBytes (memGrow s.memory (idx.toNat + 32)) idx.toNat (wordToBytes v)) (idx.toNat + 32)
          = writeBytes (memGrow s.memory (idx.toNat + 32)) idx.toNat (wordToBytes v) := by
        exact memGrow_of_le _ _ (by rw [writeBytes_size]; exact memGrow_size_ge _ _)
      rw [hg, mslice_written, bytesToWord_wordToBytes]

/-- non-vacuity: the round trip on a concrete state (offset 5, an all-ones word, empty memory) -/
example : ∃ s1, stepOther ⟨#[], #[], fun _ => none, #[]⟩ { stack := [5#256, BitVec.allOnes 256, 7#256] } 0x52 = .ok s1 ∧
    s1.stack = [7#256] ∧
    stepOther ⟨#[], #[], fun _ => none, #[]⟩ { s1 with stack := [5#256, 7#256] } 0x51 =
      .ok { s1 with stack := [BitVec.allOnes 256, 7#256], pc := s1.pc + 1 } :=
  step_mstore_mload _ _ _ _ _ rfl (by decide)

/-- **MSTORE8** (Yellow Paper: μ'_m[μ_s[0]] = μ_s[1] mod 256): with `idx :: v :: rest` on the stack it fails with
    "illegal memory access" exactly when idx + 1 exceeds u32::MAX; otherwise it pops both, advances pc, and in
    the resulting memory byte `idx` is `v mod 256` and every other byte is the old one (0 beyond the old size). -/
theorem step_mstore8 (env : Env) (s : St) (idx v : W) (rest : List W)
    (hst : s.stack = idx :: v :: rest) :
    (idx.toNat + 1 > u32Max ∧ stepOther env s 0x53 = .error .illegalMemoryAccess) ∨
    (idx.toNat + 1 ≤ u32Max ∧ ∃ s', stepOther env s 0x53 = .ok s' ∧ s'.stack = rest ∧ s'.pc = s.pc + 1 ∧
      s'.storage = s.storage ∧ s'.transient = s.transient ∧ s'.returnData = s.returnData ∧
      ∀ j, s'.memory[j]! = if j = idx.toNat then UInt8.ofNat (v.toNat % 256) else s.memory[j]!) := by
  have hstep : stepOther env s 0x53 = (match s.stack with
    | idx :: v :: rest =>
      match memRegion s.memory idx 1#256 with
      | .error e => .error e
      | .ok (m, none) => .ok { s with stack := rest, memory := m, pc := s.pc + 1 }
      | .ok (m, some (o, _)) =>
        .ok { s with stack := rest, memory := m.set! o (UInt8.ofNat (v.toNat % 2 ^ 32 % 256)),
                     pc := s.pc + 1 }
    | _ => .error .stackUnderflow) := rfl
  rw [hstep, hst]
  simp only []
  rcases memRegion1 s.memory idx with ⟨h, e⟩ | ⟨h, e⟩
  · left; rw [e]; exact ⟨h, rfl⟩
  · right; rw [e]
    refine ⟨h, _, rfl, rfl, rfl, rfl, rfl, rfl, ?_⟩
    intro j
    simp only []
    have hv : v.toNat % 2 ^ 32 % 256 = v.toNat % 256 := by omega
    rw [hv]
    by_cases hj : j = idx.toNat
    · subst hj
      simp only [if_true]
      rw [ByteArray.getElem!_set!_self _ _ _ (by have := memGrow_size_ge s.memory (idx.toNat + 1); omega)]
    · simp only [hj, if_false]
      rw [ByteArray.getElem!_set!_ne _ _ _ _ (fun e => hj e.symm), memGrow_get]
/-- non-vacuity: MSTORE8 of 0x1ff at offset 3 on an empty memory succeeds and stores 0xff -/
example : ∃ s', stepOther ⟨#[], #[], fun _ => none, #[]⟩ { stack := [3#256, 0x1ff#256] } 0x53 = .ok s' ∧
    s'.memory[3]! = 0xff := by
  rcases step_mstore8 ⟨#[], #[], fun _ => none, #[]⟩ { stack := [3#256, 0x1ff#256] } _ _ _ rfl with ⟨h, _⟩ | ⟨_, s', h, _, _, _, _, _, hm⟩
  · exact absurd h (by decide)
  · exact ⟨s', h, by rw [hm 3]; decide⟩

/-- **MLOAD** (Yellow Paper: μ'_s[0] = μ_m[μ_s[0] … μ_s[0]+31], big-endian, memory read as zero beyond its
    size): with `idx :: rest` on the stack it fails with "illegal memory access" exactly when idx + 32 exceeds
    u32::MAX; otherwise it replaces `idx` by the word made of the 32 bytes at idx … idx+31 of the *old* memory
    (zero where the old memory ends), advances pc, and changes no byte of the memory (it only grows). -/
theorem step_mload (env : Env) (s : St) (idx : W) (rest : List W) (hst : s.stack = idx :: rest) :
    (idx.toNat + 32 > u32Max ∧ stepOther env s 0x51 = .error .illegalMemoryAccess) ∨
    (idx.toNat + 32 ≤ u32Max ∧ ∃ s' : St, stepOther env s 0x51 = .ok s' ∧
      s'.stack = bytesToWord ((List.range 32).map (fun k => s.memory[idx.toNat + k]!)) :: rest ∧
      s'.pc = s.pc + 1 ∧ s'.storage = s.storage ∧ s'.transient = s.transient ∧
      ∀ j : Nat, s'.memory[j]! = s.memory[j]!) := by
  rw [stepOther_mload, hst]
  simp only []
  rcases memRegion32 s.memory idx with ⟨h, e⟩ | ⟨h, e⟩
  · left; rw [e]; exact ⟨h, rfl⟩
  · right; rw [e]
    refine ⟨h, _, rfl, ?_, rfl, rfl, rfl, fun j => memGrow_get _ _ _⟩
    simp only []
    rw [mslice_eq _ _ _ (memGrow_size_ge _ _)]
    congr 2
    apply List.map_congr_left
    intro k _
    exact memGrow_get _ _ _

/-- CALLDATACOPY / CODECOPY memory effect (`copy_to_memory` with zero fill): when the destination region is
    admissible (size ≠ 0, offset + size ≤ u32::MAX), byte i of the region becomes data[dataOff + i], or zero
    where dataOff + i is beyond the data — for any 256-bit dataOff. -/
theorem copyToMemory_zero_fill (m : ByteArray) (destOff destSize dataOff : W) (data : Array UInt8)
    (hs : destSize.toNat ≠ 0) (hb : destOff.toNat + destSize.toNat ≤ u32Max) :
    ∃ m', copyToMemory m destOff destSize dataOff data true = .ok m' ∧
      destOff.toNat + destSize.toNat ≤ m'.size ∧
      ∀ i, i < destSize.toNat → m'[destOff.toNat + i]! = data.getD (dataOff.toNat + i) 0 := by
  have hreg : memRegion m destOff destSize =
      .ok (memGrow m (destOff.toNat + destSize.toNat), some (destOff.toNat, destSize.toNat)) := by
    unfold memRegion
    have h1 : ¬ destSize.toNat > u32Max := by omega
    have h3 : ¬ destOff.toNat > u32Max := by omega
    have h4 : ¬ destOff.toNat + destSize.toNat > u32Max := by omega
    simp [h1, hs, h3, h4]
  unfold copyToMemory
  rw [hreg]
  simp only []
  generalize hm1 : memGrow m (destOff.toNat + destSize.toNat) = m1
  have hm1s : destOff.toNat + destSize.toNat ≤ m1.size := by rw [← hm1]; exact memGrow_size_ge _ _
  generalize hdo : (if dataOff.toNat < data.size then dataOff.toNat else data.size) = dOff
  generalize hcs : (if destSize.toNat < data.size - dOff then destSize.toNat else data.size - dOff) = cs
  have hcs_le : cs ≤ destSize.toNat := by rw [← hcs]; split <;> omega
  have hcs_le2 : cs ≤ data.size - dOff := by rw [← hcs]; split <;> omega
  have hsl : (slice data dOff cs).length = cs := by rw [slice_length]; omega
  generalize hm2 : writeBytes m1 destOff.toNat (slice data dOff cs) = m2
  have hm2s : m2.size = m1.size := by rw [← hm2, writeBytes_size]
  have hm2g : ∀ j, m2[j]! = if destOff.toNat ≤ j ∧ j < destOff.toNat + cs then (slice data dOff cs)[j - destOff.toNat]! else m1[j]! := by
    intro j
    rw [← hm2, writeBytes_get _ _ _ _ (by rw [hsl]; omega), hsl]
  by_cases hgt : destSize.toNat > cs
  · simp only [hgt, and_self, if_true]
    refine ⟨_, rfl, by rw [writeBytes_size, hm2s]; exact hm1s, ?_⟩
    intro i hi
    rw [writeBytes_get _ _ _ _ (by simp; omega)]
    simp only [List.length_replicate]
    by_cases hic : i < cs
    · have h1 : ¬ (destOff.toNat + cs ≤ destOff.toNat + i ∧ destOff.toNat + i < destOff.toNat + cs + (destSize.toNat - cs)) := by omega
      simp only [h1, if_false]
      rw [hm2g]
      have h2 : destOff.toNat ≤ destOff.toNat + i ∧ destOff.toNat + i < destOff.toNat + cs := by omega
      simp only [h2, and_self, if_true, Nat.add_sub_cancel_left]
      rw [slice_get _ _ _ _ (by omega)]
      -- cs > 0 so dOff < data.size, hence dOff = dataOff
      have : dOff = dataOff.toNat := by
        rw [← hdo]; split
        · rfl
        · rw [← hdo] at hcs_le2; simp_all <;> try omega
      rw [this]
    · have h1 : destOff.toNat + cs ≤ destOff.toNat + i ∧ destOff.toNat + i < destOff.toNat + cs + (destSize.toNat - cs) := by omega
      simp only [h1, and_self, if_true]
      have hz : (List.replicate (destSize.toNat - cs) (0 : UInt8))[destOff.toNat + i - (destOff.toNat + cs)]! = 0 := by
        rw [getElem!_pos _ _ (by simp; omega)]; simp
      rw [hz]
      -- beyond the data
      have : ¬ dataOff.toNat + i < data.size := by
        rw [← hcs] at hic hgt
        rw [← hdo] at hic hgt
        split at hic <;> split at hic <;> simp_all <;> try omega
      simp [this]
  · have hcs_eq : cs = destSize.toNat := by omega
    have : ¬ (destSize.toNat > cs) := hgt
    simp only [this, and_false, if_false]
    refine ⟨m2, rfl, by rw [hm2s]; exact hm1s, ?_⟩
    intro i hi
    rw [hm2g]
    have h2 : destOff.toNat ≤ destOff.toNat + i ∧ destOff.toNat + i < destOff.toNat + cs := by omega
    simp only [h2, and_self, if_true, Nat.add_sub_cancel_left]
    rw [slice_get _ _ _ _ (by omega)]
    have : dOff = dataOff.toNat := by
      rw [← hdo]; split
      · rfl
      · rw [← hdo] at hcs_le2; simp_all <;> try omega
    rw [this]


/-- CALLDATACOPY step: with `mem :: off :: size :: rest` on the stack, size ≠ 0 and mem + size ≤ u32::MAX, the
    step succeeds, pops the three words, advances pc, and byte i of the destination region holds
    calldata[off + i], zero beyond the end of the call data (Yellow Paper). -/
theorem step_calldatacopy_matches_spec (env : Env) (s : St) (memIdx off size : W) (rest : List W)
    (hst : s.stack = memIdx :: off :: size :: rest)
    (hs : size.toNat ≠ 0) (hb : memIdx.toNat + size.toNat ≤ u32Max) :
    ∃ m', stepOther env s 0x37 = .ok { s with stack := rest, memory := m', pc := s.pc + 1 } ∧
      ∀ i, i < size.toNat → m'[memIdx.toNat + i]! = env.calldata.getD (off.toNat + i) 0 := by
  obtain ⟨m', hm, _, hget⟩ := copyToMemory_zero_fill s.memory memIdx size off env.calldata hs hb
  refine ⟨m', ?_, hget⟩
  have hstep : stepOther env s 0x37 = (match s.stack with
    | a :: b :: c :: rest =>
      match copyToMemory s.memory a c b env.calldata true with
      | .error e => .error e
      | .ok m => .ok { s with stack := rest, memory := m, pc := s.pc + 1 }
    | _ => .error .stackUnderflow) := rfl
  rw [hstep, hst]
  simp only [hm]

/-! ### non-vacuity: the definitions evaluate, on the corner cases the property names -/

/- −2^255 ÷ −1 = −2^255; SAR of −16 by 4 = −1; SIGNEXTEND of byte 0x80; ADDMOD without wrap at 2^256;
   3^(2^256−1) = 3⁻¹ mod 2^256. -/
example : sdivImpl (BitVec.ofNat 256 (2 ^ 255)) (BitVec.allOnes 256) = BitVec.ofNat 256 (2 ^ 255) := by decide +kernel
example : sarImpl 4#256 (BitVec.ofNat 256 (2 ^ 256 - 16)) = BitVec.allOnes 256 := by decide +kernel
example : signextendImpl 0#256 0x80#256 = BitVec.ofNat 256 (2 ^ 256 - 128) := by decide +kernel
example : addmodImpl (BitVec.allOnes 256) (BitVec.allOnes 256) 4#256 = 2#256 := by decide +kernel
example : expImpl 3#256 (BitVec.allOnes 256) = BitVec.ofNat 256 0xaaaaaaaaaaaaaaaaaaaaaaaaaaaaaaaaaaaaaaaaaaaaaaaaaaaaaaaaaaaaaaab := by decide +kernel
/-- PUSH1 1 PUSH1 2 ADD PUSH0 MSTORE PUSH1 32 PUSH0 RETURN returns the word 3 -/
example : (exec #[0x60, 0x01, 0x60, 0x02, 0x01, 0x5f, 0x52, 0x60, 0x20, 0x5f, 0xf3] #[] (fun _ => none) [] 100).toOption.map
    (fun r => (r.1, bytesToWord r.2.1.toList)) = some (.ret, 3#256) := by decide +kernel
/-- a truncated PUSH4 at the end of the code: two bytes present, zero padded on the right -/
example : pushImm #[0x63, 0xaa, 0xbb] 0 4 = 0xaabb0000#256 := by decide +kernel
example : calldataloadImpl #[1, 2, 3] 1#256 = BitVec.ofNat 256 (0x0203 * 2 ^ 240) := by decide +kernel

end BA.Evm
